#!/usr/bin/env python3
import json, sys
pid = sys.argv[1]
avoid = open(sys.argv[2]).read().strip() if len(sys.argv) > 2 else ''
p = [json.loads(l) for l in open('/verif/properties.jsonl') if json.loads(l)['id'] == pid][0]
print(f"""You are helping to test a verification effort by seeding realistic bugs into a Go code base (TarsCloud/TarsGo, a Go RPC framework for the Tars protocol).

You have your own scratch git worktree of the repository at /tmp/seed/{pid} (detached HEAD). Work ONLY inside /tmp/seed/{pid} and /tmp/seed-out/{pid}. Never read or modify /repo or /verif (they are out of bounds; do not look at them).

Here is a semantic property the code base is supposed to satisfy:

  Title: {p['title']}
  Statement: {p['statement']}
  Quantified over: {p['quantifier']['text']}
  Relevant files: {', '.join(p['anchors']['files'])}

Your task: produce TWO different, independent changes (mutations) to the Go source of TarsGo (non-test files under /tmp/seed/{pid}), each of which
  (a) BREAKS the property above (a genuine semantic violation of the statement),
  (b) still compiles (`go build ./...` in the worktree root) and
  (c) still passes the existing test suite unchanged: run `cd /tmp/seed/{pid} && go test -mod=mod -vet=off -count=1 ./tars/...` (one known pre-existing failure, TestKetamaHashAlg_Hash/2.2.2.2 in tars/selector/consistenthash, is expected and may be ignored) and also `cd /tmp/seed/{pid}/tars/tools/tars2go && go build ./...` if you touch the tars2go tool,
  (d) is SUBTLE: it must need something specific to manifest — a particular boundary value or unusual input, a particular interleaving, a fault at a particular point, a multi-step sequence of operations, or two cooperating sites that each look fine alone. It must NOT be something that ordinary use or the most basic smoke test would expose at once (e.g. do not break every call or every encode). Think of realistic mistakes a developer could make in a refactoring: shifted boundary (< vs <=), dropped or reordered step, wrong width/sign, swapped field, changed constant, removed guard, missing cleanup on one path.
The two mutations should use different mechanisms / touch different code sites.
{('Earlier rounds already produced the following mutations; yours must be DIFFERENT from these in mechanism and code site (prefer other functions / files among the relevant files, other kinds of mistake):' + chr(10) + avoid + chr(10)) if avoid else ''}

For each mutation k in {{1,2}} write into /tmp/seed-out/{pid}/m<k>/ :
  - patch.diff : output of `git diff` in the worktree containing ONLY that mutation (non-test source changes only). Make sure the patch applies cleanly with `git apply` to a clean checkout of the same commit.
  - a demonstration: either a Go test file (say where it must be placed, e.g. demo_test.go in package X) or a small standalone Go program (own directory with go.mod using `replace github.com/TarsCloud/TarsGo => <path of repo>`; copy go.sum from the repo root) that FAILS (non-zero exit / failing test) with the mutation applied and PASSES on the unmodified code. You must actually run it both ways and confirm. The demo must only use what exists in the unmodified repository (it may be an in-package _test.go file to reach unexported identifiers).
  - meta.json : {{"property": "{pid}", "summary": "...what the change is...", "needs_to_manifest": "...the specific input/schedule/sequence needed...", "demo": "...how to run the demo (exact commands, where files go)...", "ran": "...what you ran and what you observed, both with and without the mutation...", "files_touched": [...]}}

Work on one mutation at a time: apply it, verify (b) (c), write and verify the demo with and without it (go back to the clean tree with `git diff > /tmp/seed-out/{pid}/tmp.diff; git checkout -- .` and re-apply with `git apply`; NEVER use `git stash`: the stash is shared between worktrees and other people's changes would be popped into yours; keep demo files out of patch.diff), save the outputs, then restore the worktree to clean (`git checkout -- . && git clean -fd`) before starting the next one.

Environment: no network. Before any go command run: export GOFLAGS=-mod=mod GOPROXY=off GOSUMDB=off GOTOOLCHAIN=local . Go is 1.23. The framework (package tars) reads os.Args for `-config`, so prefer tests inside the leaf packages or standalone programs. Keep everything small and deterministic where possible; if the bug needs a specific interleaving, make the demo force it or loop until it shows (bounded time, < 60 s).

When done, reply with a short summary of the two mutations (files, the one-line idea of each, and how it manifests). Do not leave any stray files outside /tmp/seed/{pid} and /tmp/seed-out/{pid}.""")
