#!/bin/bash
# usage: tools/merge_builder.sh <name> [ids...]  — brings a builder's work (branches agent-<name> in /repo and /verif) into main:
# cherry-picks its repo commits (hooks / fix:), merges its verif branch (generated files are regenerated, not merged),
# rebuilds, and runs the quick check of the given property ids.
set -u
n=$1; shift
export GOFLAGS=-mod=mod GOPROXY=off GOSUMDB=off GOTOOLCHAIN=local
cd /repo || exit 2
git diff --quiet || { echo "repo dirty"; exit 2; }
for c in $(git cherry main agent-$n | grep "^+" | cut -d" " -f2); do
  [ "$(git rev-list --parents -n1 $c | wc -w)" -gt 2 ] && continue   # merge commit
  if git log main --format=%s | grep -qxF "$(git log -1 --format=%s $c)"; then echo "skip (already on main): $(git log -1 --oneline $c)"; continue; fi
  git cherry-pick $c >/dev/null 2>&1 || { echo "CHERRY-PICK CONFLICT at $c"; git status --short | head; exit 3; }
  echo "picked: $(git log -1 --oneline)"
done
cd /verif || exit 2
git diff --quiet || { git add -A coq/Gen evidence; git commit -qm "regenerated Gen files / evidence"; }
git merge --no-edit agent-$n >/var/tmp/merge-out.$$ 2>&1; grep -q "would be overwritten\|Aborting" /var/tmp/merge-out.$$ && { cat /var/tmp/merge-out.$$; echo "MERGE FAILED"; exit 6; }
for f in $(git diff --name-only --diff-filter=U); do
  case $f in
    coq/Gen/*.v|evidence/*.json|harness/go.sum) git checkout --ours -- $f 2>/dev/null || git rm -q --cached $f; git add $f 2>/dev/null ;;
    known_findings.d/*.json) git checkout --theirs -- $f; git add $f ;;
    tools/claims/*.json) git checkout --theirs -- $f; git add $f ;;   # the builder's claim; coordinator add-ons are re-applied by tools/claims_addons.py   # the builder's list; shas are remapped below
    *) echo "CONFLICT in $f (resolve by hand)";;
  esac
done
if git diff --name-only --diff-filter=U | grep -q .; then git status --short | grep '^UU\|^AA'; exit 4; fi
git commit -q --no-edit 2>/dev/null
python3 tools/claims_addons.py; python3 tools/fix_shas.py >/dev/null; git diff --quiet -- known_findings.d known_findings.json || { git add known_findings.d known_findings.json; git commit -qm "known findings: fix shas remapped to /repo main"; }
./check --build || { echo "HARNESS BUILD FAILED"; exit 5; }
git diff --quiet -- coq/Gen || { git add coq/Gen; git commit -qm "Gen: regenerated after merge of agent-$n"; }
( cd coq && coq_makefile -f _CoqProject -o Makefile >/dev/null && timeout 3000 make -j16 2>&1 | grep -v '^Closed under\|^COQC\|^COQDEP\|^make\|^CLEAN' | tail -20 )
for p in "$@"; do ./check $p --tier quick | tail -4; done
git status --short | head
