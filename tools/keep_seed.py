#!/usr/bin/env python3
"""Copy confirmed seeded changes from /tmp/seed-out into /verif/seeded/<id>-<m>/ (patch.diff, demo, meta.json)."""
import os, json, shutil, glob, sys
for sd in sorted(glob.glob("/tmp/seed-out/*/m*")):
    cf = os.path.join(sd, "confirm.json")
    if not os.path.exists(cf):
        continue
    c = json.load(open(cf))
    if not c.get("confirmed"):
        continue
    pid, m = sd.split("/")[-2:]
    dst = "/verif/seeded/%s-%s" % (pid, m)
    if os.path.exists(dst):
        continue
    os.makedirs(dst)
    meta = json.load(open(os.path.join(sd, "meta.json")))
    for f in os.listdir(sd):
        if f in ("confirm.json", "meta.json"):
            continue
        p = os.path.join(sd, f)
        (shutil.copytree if os.path.isdir(p) else shutil.copy)(p, os.path.join(dst, f))
    meta["breaks_property"] = pid
    meta["confirmed_by_me"] = {k: c[k] for k in ("demo_clean_pass", "applies", "builds", "demo_mutant_fails", "suite_passes")}
    meta["confirm_cmd"] = "tools/confirm_seed.py (scratch worktree at %s:" % c.get("base", "7dee0a6") + " demo passes clean, patch applies, go build ./..., demo fails with patch, go test ./tars/... passes apart from the pre-existing TestKetamaHashAlg_Hash/2.2.2.2)"
    meta["demo_mutant_tail"] = c.get("demo_mutant_tail", "")[-300:]
    json.dump(meta, open(os.path.join(dst, "meta.json"), "w"), indent=1)
    print("kept", dst)
