#!/usr/bin/env python3
"""Rewrites `fixed:<sha>` references in known_findings*.json to the sha the fix has on /repo's main branch
(builders committed on their own branches; the coordinator cherry-picked, which changes the sha). Matches by subject."""
import json, glob, subprocess, re, os
V = os.path.dirname(os.path.dirname(os.path.abspath(__file__)))
def git(*a):
    return subprocess.run(["git", "-C", "/repo"] + list(a), stdout=subprocess.PIPE, stderr=subprocess.DEVNULL).stdout.decode().strip()
main = {}
for l in git("log", "--format=%h %s", "main").split("\n"):
    h, s = l.split(" ", 1)
    main.setdefault(s, h)
def remap(sha):
    if git("merge-base", "--is-ancestor", sha, "main") == "" and subprocess.run(["git", "-C", "/repo", "merge-base", "--is-ancestor", sha, "main"]).returncode == 0:
        return git("rev-parse", "--short", sha)
    subj = git("log", "-1", "--format=%s", sha)
    return main.get(subj)
n = 0
for f in [os.path.join(V, "known_findings.json")] + sorted(glob.glob(os.path.join(V, "known_findings.d", "*.json"))):
    txt = open(f).read()
    new = txt
    for sha in set(re.findall(r"fixed:([0-9a-f]{7,40})", txt)):
        m = remap(sha)
        if not m:
            print("UNRESOLVED", f, sha); continue
        if m != sha:
            new = re.sub(r"\b%s\b" % sha, m, new); n += 1
    if new != txt:
        open(f, "w").write(new)
print("rewritten", n)
