#!/bin/bash
# usage: tools/tryseed.sh <patch.diff> <property id> [tier]  — applies a seeded change to /repo, runs the check, undoes it
patch=$1; id=$2; tier=${3:-quick}
cd /repo || exit 2
if ! git diff --quiet; then echo "repo dirty"; exit 2; fi
git apply "$patch" 2>/dev/null || git apply -C1 "$patch" || { echo "APPLY-FAILED"; exit 2; }
cd /verif && VERIF_NO_EVIDENCE=1 ./check $id --tier $tier > /tmp/tryseed.$$.log 2>&1; rc=$?
cd /repo && git checkout -- . && git clean -fdq -- tars contrib 2>/dev/null
grep -c '^VIOLATION' /tmp/tryseed.$$.log | sed "s/^/violations: /"
grep '^VIOLATION' /tmp/tryseed.$$.log | head -3
tail -1 /tmp/tryseed.$$.log
rm -f /tmp/tryseed.$$.log
echo "exit=$rc"
