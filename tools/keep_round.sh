#!/bin/bash
# usage: keep_round.sh Cxx ... : renumber confirmed /tmp/seed-out/<id>/m1,m2 to next free m<k>, keep, remove worktree
cd /verif
for p in "$@"; do
  python3 - "$p" <<'P'
import os,sys,re,glob,json
p=sys.argv[1]
used=[int(re.search(r'-m(\d+)$',d).group(1)) for d in glob.glob('/verif/seeded/%s-m*'%p)]
nxt=max(used+[0])+1
for m in ('m1','m2'):
    d='/tmp/seed-out/%s/%s'%(p,m)
    if not os.path.isdir(d): continue
    cf=os.path.join(d,'confirm.json')
    if not os.path.exists(cf) or not json.load(open(cf)).get('confirmed'):
        print('NOT CONFIRMED',d); continue
    os.rename(d,'/tmp/seed-out/%s/m%d'%(p,nxt)); print(d,'-> m%d'%nxt); nxt+=1
P
done
python3 tools/keep_seed.py
for p in "$@"; do git -C /repo worktree remove --force /tmp/seed/$p 2>/dev/null; rm -rf /tmp/seed-out/$p; done
git -C /repo worktree prune
