#!/bin/bash
# usage: tools/run_all.sh <tier> [parallel]  — every claimed property at the given tier; exit 1 if any check does
tier=${1:-quick}; par=${2:-3}
cd "$(dirname "$0")/.."
[ -n "$VP_RUN_REPO" ] && export VERIF_REPO=$VP_RUN_REPO
./setup.sh >/dev/null 2>&1 || { echo "setup failed"; exit 2; }
for p in C01 C02 C03 C04 C05 C06 C07 C08 C09 C10 C11 C12 C13 C14 C15 C16 C17 C18 C19 C20; do echo $p; done | \
  xargs -P $par -I{} sh -c "VERIF_NO_EVIDENCE=1 ./check {} --tier $tier > /var/tmp/runall-{}.log 2>&1; echo \"{} exit=\$? \$(grep -c ^VIOLATION /var/tmp/runall-{}.log) violations: \$(tail -1 /var/tmp/runall-{}.log | cut -c1-160)\""
