#!/bin/bash
# usage: confirm_prop2.sh <Cxx> — confirms m1 and m2 of a property (automatic package detection; custom run.sh demos via SEED_DEMO_CMD)
p=$1; cd /verif
for m in m1 m2; do
  d=/tmp/seed-out/$p/$m; [ -d $d ] || continue
  if ls $d/*_test.go >/dev/null 2>&1; then python3 tools/confirm_seed.py $d /tmp/seed/$p
  elif [ -f $d/demo/run.sh ]; then SEED_DEMO_CMD='sh demo/run.sh $REPO' python3 tools/confirm_seed.py $d /tmp/seed/$p
  elif [ -f $d/run_demo.sh ]; then SEED_DEMO_CMD='sh run_demo.sh $REPO' python3 tools/confirm_seed.py $d /tmp/seed/$p
  else python3 tools/confirm_seed.py $d /tmp/seed/$p; fi
done
