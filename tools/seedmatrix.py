#!/usr/bin/env python3
"""Run every kept seeded change against the check of the property it breaks (and optionally others) and write
design/seed_matrix.md. usage: tools/seedmatrix.py [ids or seed dirs ...]   (default: all of seeded/*)
Applies each patch to /repo, runs ./check <id> --tier quick with VERIF_NO_EVIDENCE=1, and undoes it straight afterwards."""
import sys, os, json, glob, subprocess, re, time
V = os.path.dirname(os.path.dirname(os.path.abspath(__file__)))
REPO = "/repo"
claimed = {c["property_id"] for c in json.load(open(os.path.join(V, "MANIFEST.json")))["checks"]}
sel = sys.argv[1:]
rows = []
if subprocess.run("git -C /repo diff --quiet", shell=True).returncode != 0:
    sys.exit("repo dirty")
prev = {}
mp = os.path.join(V, "design", "seed_matrix.json")
if os.path.exists(mp):
    prev = json.load(open(mp))
for d in sorted(glob.glob(os.path.join(V, "seeded", "*"))):
    name = os.path.basename(d)
    pid = name.split("-")[0]
    if sel and not any(s == pid or s == name for s in sel):
        continue
    if pid not in claimed and not os.path.exists(os.path.join(V, "coq", "Props", pid + ".v")):
        prev[name] = {"property": pid, "result": "no check yet"}
        continue
    meta = json.load(open(os.path.join(d, "meta.json")))
    if meta.get("obsolete"):
        prev[name] = {"property": pid, "result": "OBSOLETE on the current tree", "violations": [meta["obsolete"][:300]], "summary": meta.get("summary", "")[:220]}
        continue
    rc = subprocess.run(["git", "-C", REPO, "apply", os.path.join(d, "patch.diff")], stderr=subprocess.DEVNULL).returncode
    if rc != 0:   # hooks inserted next to a hunk after the seed was written: retry with reduced context
        rc = subprocess.run(["git", "-C", REPO, "apply", "-C1", os.path.join(d, "patch.diff")], stderr=subprocess.DEVNULL).returncode
    if rc != 0:
        prev[name] = {"property": pid, "result": "patch does not apply to the current /repo HEAD", "summary": meta.get("summary", "")[:200]}
        continue
    t0 = time.time()
    try:
        p = subprocess.run(["./check", pid, "--tier", "quick"], cwd=V, env=dict(os.environ, VERIF_NO_EVIDENCE="1"), stdout=subprocess.PIPE, stderr=subprocess.STDOUT, timeout=3000)
        out = p.stdout.decode("utf-8", "replace")
    finally:
        subprocess.run("git -C /repo checkout -- . && git -C /repo clean -fdq -- tars contrib", shell=True)
    vio = [l for l in out.split("\n") if l.startswith("VIOLATION")]
    kinds = []
    for l in vio:
        m = re.search(r"replay=(\S+)", l)
        try:
            r = json.load(open(m.group(1)))
            kinds.append(r.get("kind", "?") + (": " + str(r.get("signature")) if r.get("signature") else "") + (" (no-failing-input-found)" if "no-failing-input-found" in l else ""))
        except Exception:
            kinds.append("?")
    prev[name] = {"property": pid, "result": "DETECTED" if vio and p.returncode == 1 else "MISSED", "violations": kinds[:4], "seconds": round(time.time() - t0, 1),
                  "summary": meta.get("summary", "")[:220], "needs": meta.get("needs_to_manifest", "")[:200]}
    print(name, prev[name]["result"], kinds[:2], flush=True)
os.makedirs(os.path.join(V, "design"), exist_ok=True)
json.dump(prev, open(mp, "w"), indent=1)
with open(os.path.join(V, "design", "seed_matrix.md"), "w") as f:
    f.write("# Seeded changes versus checks (quick tier)\n\nEach row: a confirmed change to TarsGo that breaks the property, still compiles and passes the pinned tests "
            "(seeded/<name>/), applied to /repo, `./check <property> --tier quick` run, change undone. Written by tools/seedmatrix.py.\n\n"
            "| seed | property | result | how it was reported | what the change is |\n|---|---|---|---|---|\n")
    for k in sorted(prev):
        r = prev[k]
        f.write("| %s | %s | %s | %s | %s |\n" % (k, r["property"], r["result"], "; ".join(r.get("violations", [])).replace("|", "/"), r.get("summary", "").replace("|", "/").replace("\n", " ")))
print("written design/seed_matrix.md")
