#!/usr/bin/env python3
"""Idempotently (re-)applies the coordinator's add-on sentences to the per-property claims (translated layer, folded sub-checks),
so that taking a builder's version of a claims file in a merge never loses them. Called by tools/mkmanifest.py."""
import json, os
V = os.path.dirname(os.path.dirname(os.path.abspath(__file__)))
NOTE = " Translated layer: trusted in addition go/parser, go/types, the translator harness/xlate*.go and its target language Xlate/GoSem.v (design/XLATE.md), exercised on every run by a self-test comparing the translations of sample functions with the compiled Go functions on boundary inputs; a function leaving the supported Go subset makes the generator fail loudly and the check report a VIOLATION (no-failing-input-found)."
ADD = {
 "C13": [("Xlate/BSWLEquiv", " Additionally two parts of BuildStaticWeightList (static check, min/max, guard and clamp of the scaling range; the scaling loop with Go's truncating division, the weight tables and the non-positive indexes) are translated from their CURRENT Go source on every run and proved equal to the corresponding parts of the model, division by zero being an explicit outcome of the translation (Xlate/BSWLEquiv.v, in the closure of Props/C13.v)."),
         ("Xlate/SelectEquiv", " The three Select functions (round-robin cursor arithmetic modulo 2^64 then modulo the list / cycle length, mod-hash modulo, random table lookup with the draw as an oracle) and the smooth-weighted-round-robin ROUNDS of BuildStaticWeightList (sort.Slice as insertion sort under a comparator proved to be a strict total order; the code's cycle is proved equal to the model's swrr_rounds) are translated from their CURRENT Go source and proved equal to the model (Xlate/SelectEquiv.v, SWRREquiv.v): all of BuildStaticWeightList and every Select are tied by translation; Add/Remove/Refresh remain tied by correspondence.")],
 "C14": [("Xlate/ConHashEquiv", " Additionally the ring lookup consistenthash.FindInt32 (sort.Search over the sorted keys with wrap-around to the first point) is translated from its CURRENT Go source on every run and proved equal to the model's ring_lookup for every ring whose sorted keys are strictly increasing and hold exactly the ring's points (Xlate/ConHashEquiv.v, in the closure of Props/C14.v; sort.Search is a primitive whose least-index specification is proved for monotone predicates).")],
 "C09": [("Xlate/TimeWheelEquiv", " Additionally the panic bound and slot arithmetic of TimeWheel.After are translated from their CURRENT Go source and proved equal to the model's after/after_pos (Xlate/TimeWheelEquiv.v, in the closure of Props/C09.v).")],
 "C15": [("Xlate/CheckActiveEquiv", " Additionally AdapterProxy.checkActive (the threshold comparisons that take an endpoint out of rotation and schedule its probe) is translated from its CURRENT Go source on every run and proved to compute the model's check_active (same results, same updates of status and lastBlockTime) with the clock, the ReConnect outcome and the float32 ratio comparison as oracles of the translation (Xlate/CheckActiveEquiv.v, in the closure of Props/C15.v).")],
 "C04": [("Xlate/ReaderEquiv", " The skipping functions themselves (skipField, skipFieldMap/List/SimpleList, SkipToStructEnd with the depth limit, SkipToNoCheck with its require flag, unreadHead) are translated from their CURRENT Go source on every run and proved equal to the model of Codec/Skip.v for all inputs, incl. the ignored element errors, the int32 length*2 product, seeking past the end and the reader position on error paths (Xlate/ReaderEquiv.v, in the closure of Props/C04.v): skip_exact speaks about the code's own skipping, and the model's linear fuel is now PROVED sufficient.")],
 "C05": [("Xlate/ReaderEquiv", " Termination with explicit fuel, the depth limit and the absence of panics of the skipping functions and primitive readers hold of the TRANSLATED source (Xlate/ReaderEquiv.v in the closure of Props/C05.v: the Go text of skipField & co. is regenerated into Gallina on every run and proved equal to the model)."),
         ("sub-check C05T", " Folded into this check (sub-check C05T, statements file Props/C05T.v, axiom-free): the TUP attribute codec (tup.UniAttribute) and the packet functions (RequestPack/ResponseUnpack/ParsePackage, rsp2Byte/req2Byte, InvokeTimeout) are inside the model (Codec/Tup.v, Codec/Packet.v): on ANY bytes the repaired TUP decoder ends with a set or an error within 10*len+9 counted steps, len loop iterations and len allocated bytes (refuted for the pinned decoder for every count); unpack of anything ParsePackage reports as a full package never reaches the slice panic; correspondence on ~3600 cases per quick run through child workers.")],
 "C06": [("ReaderSliceEquiv", " The primitive readers and the slice readers (ReadSliceUint8, ReadBytes) are translated from their CURRENT Go source and proved to fail on truncated input exactly when the model does (Xlate/ReaderEquiv.v, ReaderSliceEquiv.v in the closure of Props/C06.v)."),
         ("sub-check C05T", " Folded into this check (sub-check C05T, Props/C05T.v): for the TUP attribute codec every proper prefix of every encoding is rejected with only complete entries added, inflated map counts / buffer lengths and inadmissible head types are rejected, every key and buffer the decoder produces on arbitrary bytes is a contiguous piece of the input (nothing made up), Decode(Encode m) = m for every entry list; three repaired defects of tup.Decode (empty last buffer -> EOF, set ending after a key accepted, map count read from the wrong bytes when tag 0 is absent).")],
 "C08": [("ReqIdEquiv", " What each atomic step of genRequestID does (the compare-and-swap, each add round, the zero skip, when a call ends) is translated from its CURRENT Go source and proved equal to the model's cas/add/gen1 (Xlate/ReqIdEquiv.v in the closure of Props/C08.v); the interleaving of the steps remains the model's.")],
}
def apply():
    for pid, items in ADD.items():
        f = os.path.join(V, "tools", "claims", pid + ".json")
        if not os.path.exists(f):
            continue
        d = json.load(open(f)); ch = False
        for marker, text in items:
            if marker not in d["text"]:
                d["text"] += text; ch = True
        if any(m.startswith("Xlate") or m in ("ReqIdEquiv", "ReaderSliceEquiv") for m, _ in items) and "Translated layer" not in d["note"]:
            d["note"] += NOTE; ch = True
        if ch:
            json.dump(d, open(f, "w"), indent=1)
if __name__ == "__main__":
    apply()
