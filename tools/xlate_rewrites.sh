#!/bin/bash
# Robustness of the translated layer (design/XLATE.md) to HARMLESS rewrites of the Go source: each rewrite below keeps
# the meaning of the function it touches. For each one the script copies the tree $VERIF_REPO and this framework to a
# scratch directory, applies the rewrite, checks that the tree still compiles, regenerates coq/Gen/Translated.v
# (`./check --build`) and builds every equivalence proof (make Xlate/Tie.vo). Expected: the generator accepts the
# rewritten source and every proof still holds ("survives"). A rewrite that breaks a proof is an alarm on correct code.
#
#   usage: VERIF_REPO=/path/to/TarsGo tools/xlate_rewrites.sh [-k] [name ...]     (no name: all; -k: keep the scratch copy)
#   scratch: $XLATE_SCRATCH (default /var/tmp/xlate-scratch/rw); nothing outside it is written.
set -u
V=$(cd "$(dirname "$0")/.." && pwd)
S=${XLATE_SCRATCH:-/var/tmp/xlate-scratch/rw}
R=${VERIF_REPO:?VERIF_REPO must point at the TarsGo tree}
KEEP=0
if [ "${1:-}" = "-k" ]; then KEEP=1; shift; fi
export GOFLAGS=-mod=mod GOPROXY=off GOSUMDB=off GOTOOLCHAIN=local

# name | file | perl -0 substitution (must change the file) ; several lines with the same name are applied together.
# A name that starts with "marker-" rewrites a statement that a unit of harness/xlate_units.go names by its text (the first
# or last statement of a statement slice): the generator cannot find the slice any more and must say so (position and the
# missing statement) - that is the expected outcome for those.
REWRITES=$(cat <<'EOF'
conj-reorder|tars/protocol/codec/codec.go|s/data >= math\.MinInt16 && data <= math\.MaxInt16/data <= math.MaxInt16 && data >= math.MinInt16/
conj-reorder|tars/protocol/tarsprotocol.go|s/iHeaderLen < 4 \|\| iHeaderLen > maxPackageLength/iHeaderLen > maxPackageLength || iHeaderLen < 4/
flip-compare|tars/protocol/tarsprotocol.go|s/len\(rev\) < iHeaderLen/iHeaderLen > len(rev)/
flip-compare|tars/protocol/codec/codec.go|s/data >= math\.MinInt8 && data <= math\.MaxInt8/math.MinInt8 <= data && math.MaxInt8 >= data/
flip-compare|tars/servant.go|s/msg\.Resp\.IRet != 0 && msg\.Resp\.IRet != 1/0 != msg.Resp.IRet && 1 != msg.Resp.IRet/
rename-local|tars/protocol/tarsprotocol.go|s/\biHeaderLen\b/hdrLen/g
rename-local|tars/servant.go|s/desc := msg\.Resp\.SResultDesc/text := msg.Resp.SResultDesc/; s/if desc == ""/if text == ""/; s/desc = fmt\.Sprintf\("basef/text = fmt.Sprintf("basef/; s/Message: desc\}/Message: text}/; s/errors\.New\(desc\)/errors.New(text)/
rename-local|tars/protocol/tup/tup.go|s/\bbyteLen\b/n/g
temporary|tars/errors.go|s/\treturn e\.Code\n/\tcode := e.Code\n\treturn code\n/
temporary|tars/tarsprotocol.go|s/(InvokeTimeout.*?)\trspPackage\.IRequestId = reqPackage\.IRequestId\n/$1\tid := reqPackage.IRequestId\n\trspPackage.IRequestId = id\n/s
else-invert|tars/protocol/codec/codec.go|s/\tif data == 0 \{\n\t\tif err = b\.WriteHead\(ZeroTag, tag\); err != nil \{\n\t\t\treturn err\n\t\t\}\n\t\} else \{\n\t\tif err = b\.WriteHead\(BYTE, tag\); err != nil \{\n\t\t\treturn err\n\t\t\}\n\n\t\tif err = b\.buf\.WriteByte\(byte\(data\)\); err != nil \{\n\t\t\treturn err\n\t\t\}\n\t\}/\tif data != 0 {\n\t\tif err = b.WriteHead(BYTE, tag); err != nil {\n\t\t\treturn err\n\t\t}\n\n\t\tif err = b.buf.WriteByte(byte(data)); err != nil {\n\t\t\treturn err\n\t\t}\n\t} else {\n\t\tif err = b.WriteHead(ZeroTag, tag); err != nil {\n\t\t\treturn err\n\t\t}\n\t}/
early-return|tars/protocol/codec/codec.go|s/(\tif data >= math\.MinInt8 && data <= math\.MaxInt8 \{\n\t\tif err = b\.WriteInt8\(int8\(data\), tag\); err != nil \{\n\t\t\treturn err\n\t\t\}\n)\t\} else \{\n\t\tif err = b\.WriteHead\(SHORT, tag\); err != nil \{\n\t\t\treturn err\n\t\t\}\n\n\t\tif err = bWriteU16\(b\.buf, uint16\(data\)\); err != nil \{\n\t\t\treturn err\n\t\t\}\n\t\}\n/$1\t\treturn nil\n\t}\n\tif err = b.WriteHead(SHORT, tag); err != nil {\n\t\treturn err\n\t}\n\n\tif err = bWriteU16(b.buf, uint16(data)); err != nil {\n\t\treturn err\n\t}\n/
incdec|tars/util/rtimer/timewheel.go|s/\t\tpos--\n/\t\tpos -= 1\n/
incdec|tars/protocol/tup/tup.go|s/i < e; i\+\+/i < e; i += 1/
loop-cond-flip|tars/protocol/tup/tup.go|s/i < e; i\+\+/e > i; i++/
marker-loop|tars/selector/selector.go|s/for i := 0; i < totalWeight; i\+\+ \{/for i := 0; totalWeight > i; i += 1 {/
not-inversion|tars/errors.go|s/\tif !ok \{\n\t\treturn 1\n\t\}\n\treturn e\.Code\n/\tif ok {\n\t\treturn e.Code\n\t}\n\treturn 1\n/
neg-compare|tars/protocol/tarsprotocol.go|s/if len\(rev\) < 4 \{/if !(len(rev) >= 4) {/
neg-compare|tars/util/rtimer/timewheel.go|s/if 0 < pos \{/if !(pos <= 0) {/
reader-conds|tars/protocol/codec/codec.go|s/\tif tag == 15 \{\n\t\tdata, err = b\.buf\.ReadByte\(\)/\tif 15 == tag {\n\t\tdata, err = b.buf.ReadByte()/; s/if curTag >= 15 \{/if !(curTag < 15) {/; s/if len < 0 \|\| int\(len\) > b\.buf\.Len\(\) \{\n\t\treturn fmt\.Errorf\("read \[\]byte error/if int(len) > b.buf.Len() || 0 > len {\n\t\treturn fmt.Errorf("read []byte error/
selector-conds|tars/selector/consistenthash/consistenthash_new.go|s/if len\(c\.sortedKeys\) == 0 \{/if 0 == len(c.sortedKeys) {/; s/return c\.sortedKeys\[x\] >= key/return key <= c.sortedKeys[x]/; s/if index >= len\(c\.sortedKeys\) \{/if !(index < len(c.sortedKeys)) {/
selector-conds|tars/selector/modhash/modhash.go|s/if len\(m\.staticWeightRouterCache\) != 0 \{\n\t\tidx := m\.staticWeightRouterCache\[hashCode%uint32\(len\(m\.staticWeightRouterCache\)\)\]\n\t\treturn m\.endpoints\[idx\], nil\n\t\}\n\treturn m\.endpoints\[hashCode%uint32\(len\(m\.endpoints\)\)\], nil/if len(m.staticWeightRouterCache) == 0 {\n\t\treturn m.endpoints[hashCode%uint32(len(m.endpoints))], nil\n\t}\n\tidx := m.staticWeightRouterCache[hashCode%uint32(len(m.staticWeightRouterCache))]\n\treturn m.endpoints[idx], nil/
selector-conds|tars/selector/selector.go|s/if maxWeight < weight \{/if weight > maxWeight {/
checkactive-conds|tars/adapter.go|s/if \(now-c\.lastSuccessTime\) >= failInterval && c\.lastFailCount >= fainN \{/if c.lastFailCount >= fainN \&\& failInterval <= (now-c.lastSuccessTime) {/; s/if \(now - c\.lastBlockTime\) >= tryTimeInterval \{/if !((now - c.lastBlockTime) < tryTimeInterval) {/
marker-assign-order|tars/tarsprotocol.go|s/\t\t\t\trspPackage\.IRet = 1\n\t\t\t\trspPackage\.SResultDesc = err\.Error\(\)\n/\t\t\t\trspPackage.SResultDesc = err.Error()\n\t\t\t\trspPackage.IRet = 1\n/; s/\t\trspPackage\.IRet = basef\.TARSSERVERQUEUETIMEOUT\n\t\trspPackage\.SResultDesc = "server invoke timeout"\n/\t\trspPackage.SResultDesc = "server invoke timeout"\n\t\trspPackage.IRet = basef.TARSSERVERQUEUETIMEOUT\n/
recv-conds|tars/transport/tcphandler.go|s/if len\(currBuffer\) > 0 \{\n(\t+)continue/if !(len(currBuffer) <= 0) {\n$1continue/
recv-conds|tars/transport/tarsclient.go|s/if len\(currBuffer\) > 0 \{\n(\t+)continue/if 0 < len(currBuffer) {\n$1continue/
reply-conds|tars/servant.go|s/if msg\.Resp\.IRet != 0 && msg\.Resp\.IRet != 1 \{\n(\t+)return &Error\{Code: msg\.Resp\.IRet, Message: desc\}\n(\t+)\}\n(\t+)return errors\.New\(desc\)/if msg.Resp.IRet == 0 || msg.Resp.IRet == 1 {\n$1return errors.New(desc)\n$2}\n$3return \&Error{Code: msg.Resp.IRet, Message: desc}/
tup-conds|tars/protocol/tup/tup.go|s/\t\t\tif ty == codec\.SimpleList \{/\t\t\tif codec.SimpleList == ty {/
EOF
)

names=$(echo "$REWRITES" | cut -d'|' -f1 | awk '!seen[$0]++')
[ $# -gt 0 ] && names="$*"

mkdir -p "$S"
echo "scratch copy in $S ..."
rsync -a --delete --exclude .git "$R/" "$S/repo/"
rsync -a --delete --exclude .git --exclude out --exclude evidence "$V/" "$S/verif/"
mkdir -p "$S/pristine" && rsync -a --delete "$S/repo/tars/" "$S/pristine/tars/"

survived=0; broken=0
for n in $names; do
  rsync -a --delete "$S/pristine/tars/" "$S/repo/tars/"
  applied=1
  while IFS='|' read -r name file expr; do
    [ "$name" = "$n" ] || continue
    before=$(md5sum < "$S/repo/$file")
    perl -0pi -e "$expr" "$S/repo/$file"
    [ "$before" = "$(md5sum < "$S/repo/$file")" ] && { echo "REWRITE $n: does not apply to $file (the source changed; update the rewrite)"; applied=0; }
  done <<< "$REWRITES"
  [ $applied = 1 ] || { broken=$((broken+1)); continue; }
  if ! (cd "$S/repo" && timeout 600 go build ./tars/... ) > "$S/$n.log" 2>&1; then
    echo "REWRITE $n: the rewritten tree does not compile (see $S/$n.log)"; broken=$((broken+1)); continue
  fi
  (cd "$S/verif" && VERIF_REPO="$S/repo" timeout 900 ./check --build) >> "$S/$n.log" 2>&1
  if grep -q "gen-translated failed" "$S/$n.log" && [ "${n#marker-}" != "$n" ]; then
    echo "REWRITE $n: rejected loudly, as expected for a rewritten slice marker: $(grep -m1 'outside the supported subset' "$S/$n.log" | cut -c1-260)"
    survived=$((survived+1)); continue
  fi
  if grep -q "gen-translated failed\|gen-xlate-selftest failed" "$S/$n.log"; then
    echo "REWRITE $n: BROKEN - the translator rejects the rewritten source: $(grep -m1 'outside the supported subset' "$S/$n.log" | cut -c1-300)"
    broken=$((broken+1)); continue
  fi
  if (cd "$S/verif/coq" && timeout 3000 make -j4 Xlate/Tie.vo) >> "$S/$n.log" 2>&1; then
    echo "REWRITE $n: survives (generator accepts, all equivalence proofs hold)"; survived=$((survived+1))
  else
    echo "REWRITE $n: BROKEN - $(grep -m1 -B0 -A3 '^File ' "$S/$n.log" | tr '\n' ' ' | cut -c1-400)"; broken=$((broken+1))
  fi
done
echo "harmless rewrites: $survived survive, $broken break"
[ $KEEP = 1 ] || rm -rf "$S"
[ $broken = 0 ]
