#!/usr/bin/env python3
"""Confirm a seeded change in its scratch worktree: builds, existing tests pass, demo fails with it and passes without.
usage: confirm_seed.py <seed-out dir e.g. /tmp/seed-out/C07/m1> <worktree e.g. /tmp/seed/C07>   -> writes confirm.json into the seed dir"""
import sys, os, re, json, subprocess, shutil, glob
sd, wt = sys.argv[1], sys.argv[2]
PKG = sys.argv[3] if len(sys.argv) > 3 and sys.argv[3] != "-" else None   # optional: package dir of the demo test
TAGS = sys.argv[4] if len(sys.argv) > 4 else ""                               # optional: build tags for the demo
env = dict(os.environ, GOFLAGS="-mod=mod", GOPROXY="off", GOSUMDB="off", GOTOOLCHAIN="local")
def sh(cmd, cwd, timeout=1500):
    p = subprocess.run(cmd, cwd=cwd, env=env, shell=True, stdout=subprocess.PIPE, stderr=subprocess.STDOUT, timeout=timeout)
    return p.returncode, p.stdout.decode("utf-8", "replace")
def clean():
    sh("git checkout -- . && git clean -fdq", wt)
meta = json.load(open(os.path.join(sd, "meta.json")))
tests = glob.glob(os.path.join(sd, "*_test.go"))
res = {"seed": sd}
res["base"] = sh("git rev-parse --short HEAD", wt)[1].strip()
clean()
if tests:
    demo = tests[0]
    src = open(demo).read()
    names = re.findall(r"^func (Test\w+)", src, re.M)
    m = re.search(r"((?:tars|contrib)/[A-Za-z0-9_/]+?)/?(?:[A-Za-z0-9_]*_test\.go|\s|`|\)|,|\.)", meta.get("demo", ""))
    pkgdir = m.group(1) if m else os.path.dirname(meta["files_touched"][0])
    if not PKG:
        # choose the package directory by the demo's package clause: directories whose Go package has that name, preferring one
        # named in the seeder's instructions, then the directory of the changed file
        pm = re.search(r"^package\s+(\w+)", src, re.M)
        want = pm.group(1)[:-5] if pm and pm.group(1).endswith("_test") else (pm.group(1) if pm else None)
        cands = []
        for root, _, files in os.walk(wt):
            if "/.git" in root:
                continue
            for f in files:
                if f.endswith(".go") and not f.endswith("_test.go"):
                    try:
                        head = open(os.path.join(root, f)).read(4000)
                    except Exception:
                        continue
                    m2 = re.search(r"^package\s+(\w+)", head, re.M)
                    if m2 and m2.group(1) == want:
                        cands.append(os.path.relpath(root, wt)); break
        text = meta.get("demo", "") + " " + meta.get("ran", "")
        named = sorted([c for c in cands if re.search(re.escape(c) + r"(/|\b)", text)], key=len, reverse=True)
        touched = [os.path.dirname(f) for f in meta.get("files_touched", [])]
        pick = named[0] if named else next((c for c in cands if c in touched), cands[0] if cands else pkgdir)
        pkgdir = pick
        if not TAGS and "-tags verif" in text:
            TAGS = "verif"
    pkgdir = (PKG or pkgdir).rstrip("/")
    if not os.path.isdir(os.path.join(wt, pkgdir)):
        pkgdir = os.path.dirname(meta["files_touched"][0])
    res["demo_pkg"] = pkgdir
    if pkgdir.startswith("tars/tools/tars2go"):
        moddir = os.path.join(wt, "tars/tools/tars2go"); rel = "./" + os.path.relpath(pkgdir, "tars/tools/tars2go")
    else:
        moddir = wt; rel = "./" + pkgdir
    run = "go test %s -vet=off -count=1 -run '^(%s)$' %s/" % (("-tags " + TAGS) if TAGS else "", "|".join(names), rel)
    res["demo_cmd"] = run
    def demo_run():
        shutil.copy(demo, os.path.join(wt, pkgdir, os.path.basename(demo)))
        rc, out = sh(run, moddir, 600)
        os.remove(os.path.join(wt, pkgdir, os.path.basename(demo)))
        return rc, out[-800:]
else:
    # standalone program under demo/
    d = os.path.join(sd, "demo")
    def demo_run():
        tmp = "/tmp/seed-demo-%d" % os.getpid()
        shutil.rmtree(tmp, ignore_errors=True); shutil.copytree(d, tmp)
        gm = open(os.path.join(tmp, "go.mod")).read()
        gm = re.sub(r"=>\s*\S+", "=> " + wt, gm)
        open(os.path.join(tmp, "go.mod"), "w").write(gm)
        shutil.copy(os.path.join(wt, "go.sum"), os.path.join(tmp, "go.sum"))
        rc, out = sh("go run .", tmp, 600)
        shutil.rmtree(tmp, ignore_errors=True)
        return rc, out[-800:]
if os.environ.get("SEED_DEMO_CMD"):
    # custom demonstration: a shell command run in the seed directory with REPO=<worktree>; exit status decides
    def demo_run():
        rc, out = sh("export REPO=%s; %s" % (wt, os.environ["SEED_DEMO_CMD"]), sd, 900)
        return rc, out[-800:]
    res["demo_cmd"] = os.environ["SEED_DEMO_CMD"]
rc0, out0 = demo_run()
res["demo_clean_pass"] = (rc0 == 0); res["demo_clean_tail"] = out0[-300:]
rc, out = sh("git apply " + os.path.join(sd, "patch.diff"), wt)
res["applies"] = (rc == 0)
rc, out = sh("go build ./... && (cd tars/tools/tars2go && go build ./...)", wt)
res["builds"] = (rc == 0)
rc1, out1 = demo_run()
res["demo_mutant_fails"] = (rc1 != 0); res["demo_mutant_tail"] = out1[-500:]
rc, out = sh("go test -vet=off -count=1 ./tars/... 2>&1 | grep -E '^(FAIL|---|ok|panic)' ", wt, 1500)
fails = [l for l in out.split("\n") if l.startswith("--- FAIL") and "TestKetamaHashAlg_Hash" not in l]
pk_fail = [l for l in out.split("\n") if l.startswith("FAIL") and "consistenthash" not in l and l.strip() != "FAIL"]
res["suite_passes"] = (not fails and not pk_fail); res["suite_fail_lines"] = fails + pk_fail
clean()
res["confirmed"] = all(res.get(k) for k in ("demo_clean_pass", "applies", "builds", "demo_mutant_fails", "suite_passes"))
json.dump(res, open(os.path.join(sd, "confirm.json"), "w"), indent=1)
print(sd, "CONFIRMED" if res["confirmed"] else "NOT-CONFIRMED", {k: res[k] for k in ("demo_clean_pass", "applies", "builds", "demo_mutant_fails", "suite_passes")})
