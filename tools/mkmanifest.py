#!/usr/bin/env python3
"""Regenerates /verif/MANIFEST.json from the table below (kept valid at all times)."""
import json, os, subprocess, sys
sys.path.insert(0, os.path.dirname(os.path.abspath(__file__)))
import claims_addons
claims_addons.apply()
V = os.path.dirname(os.path.dirname(os.path.abspath(__file__)))
props = [json.loads(l) for l in open(os.path.join(V, "properties.jsonl"))]
CLAIMS = json.load(open(os.path.join(V, "tools", "claims.json")))
import glob
for f in sorted(glob.glob(os.path.join(V, "tools", "claims", "*.json"))):   # one file per property: {"text":..., "note":..., "technique":...}
    CLAIMS[os.path.basename(f)[:-5]] = json.load(open(f))
hooks_commits = subprocess.run("git -C /repo log --format=%H --grep='^verif hooks' ", shell=True, stdout=subprocess.PIPE).stdout.decode().split()
checks, na = [], []
for p in props:
    pid = p["id"]
    c = CLAIMS.get(pid)
    if not c or c.get("na"):
        na.append({"property_id": pid, "reason": (c or {}).get("na", "check not built yet in this session (planned, see DESIGN.md section 5)")})
        continue
    checks.append({
        "property_id": pid,
        "quick_cmd": "./check %s --tier quick" % pid,
        "thorough_cmd": "./check %s --tier thorough" % pid,
        "evidence_file": "evidence/%s.json" % pid,
        "replay_cmd_template": "./check %s --replay {path}" % pid,
        "engine": "coq+go-harness",
        "level_claimed": {"category": "proof", "text": c["text"], "design_ref": "DESIGN.md section 5, " + pid},
        "level_note": c["note"],
        "technique": c["technique"],
    })
m = {
    "version": 1,
    "setup_cmd": "./setup.sh",
    "hooks": {
        "guard": "verif",
        "enable": "go build -tags verif (the harness under /verif/harness is built against /repo with this tag on every check)",
        "baseline_off_cmd": "for m in . contrib/gin contrib/log contrib/middleware/opentelemetry contrib/middleware/zipkintracing; do (cd /repo/$m && go test -mod=mod -json -vet=off -count=1 -timeout 25m ./...); done",
        "source_commits": hooks_commits,
        "add_only": True,
    },
    "engines": [
        {"name": "coq", "path": "coq", "serves_properties": [c["property_id"] for c in checks], "kind_free_text": "Rocq/Coq 8.16.1 development: executable Gallina models, theorems (Props/Cxx.v statements only), correspondence evaluators"},
        {"name": "go-harness", "path": "harness", "serves_properties": [c["property_id"] for c in checks], "kind_free_text": "Go program built against /repo with -tags verif: generators, implementation runners, property monitors, regenerators of coq/Gen/*.v"},
        {"name": "driver", "path": "check", "serves_properties": [c["property_id"] for c in checks], "kind_free_text": "python3 driver: build, regenerate, make, run, evaluate model with coqc vm_compute, verdict rule, evidence"},
    ],
    "checks": checks,
    "not_applicable": na,
    "notes": "Technique family: machine-checked proof in Rocq (Coq 8.16.1). Each check = L1 theorems about a Gallina model + L2 checked correspondence model/implementation + L3 property monitor on the implementation; see DESIGN.md.",
}
json.dump(m, open(os.path.join(V, "MANIFEST.json"), "w"), indent=1)
print("checks:", len(checks), "not_applicable:", len(na))
