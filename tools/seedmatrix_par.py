#!/usr/bin/env python3
"""Parallel version of tools/seedmatrix.py: N workers, each with its own copy of /verif (compiled closure included) and
its own worktree of /repo (VERIF_REPO), so seeded changes are tried side by side without touching /repo itself.
usage: tools/seedmatrix_par.py [-j N] [ids or seed names ...]   -> merges results into design/seed_matrix.json/.md"""
import sys, os, json, glob, subprocess, re, time, shutil, threading, queue
V = os.path.dirname(os.path.dirname(os.path.abspath(__file__)))
args = sys.argv[1:]
N = 4
if args and args[0] == "-j":
    N = int(args[1]); args = args[2:]
ROOT = "/var/tmp/mx-%d" % os.getpid()
seeds = []
for d in sorted(glob.glob(os.path.join(V, "seeded", "*"))):
    name = os.path.basename(d); pid = name.split("-")[0]
    if args and not any(s == pid or s == name for s in args):
        continue
    seeds.append((name, pid, d))
res, lock = {}, threading.Lock()
q = queue.Queue()
for s in seeds:
    q.put(s)

def sh(cmd, cwd=None, env=None, timeout=None):
    p = subprocess.run(cmd, cwd=cwd, env=env, shell=isinstance(cmd, str), stdout=subprocess.PIPE, stderr=subprocess.STDOUT, timeout=timeout)
    return p.returncode, p.stdout.decode("utf-8", "replace")

def worker(k):
    w = os.path.join(ROOT, "w%d" % k)
    os.makedirs(w)
    repo, ver = os.path.join(w, "repo"), os.path.join(w, "verif")
    sh(["git", "-C", "/repo", "worktree", "add", "-q", "--detach", repo, "HEAD"])
    shutil.copytree(V, ver, symlinks=True, ignore=shutil.ignore_patterns(".git", "out", "lock"))
    env = dict(os.environ, VERIF_REPO=repo, VERIF_NO_EVIDENCE="1", VERIF_WORK="")
    env.pop("VERIF_WORK")
    sh(["./check", "--build"], cwd=ver, env=env)   # harness against this worker's repo
    while True:
        try:
            name, pid, d = q.get_nowait()
        except queue.Empty:
            break
        meta = json.load(open(os.path.join(d, "meta.json")))
        if meta.get("obsolete"):
            with lock:
                res[name] = {"property": pid, "result": "OBSOLETE on the current tree", "violations": [meta["obsolete"][:300]], "summary": meta.get("summary", "")[:220]}
            continue
        rc, _ = sh(["git", "-C", repo, "apply", os.path.join(d, "patch.diff")])
        if rc != 0:
            rc, _ = sh(["git", "-C", repo, "apply", "-C1", os.path.join(d, "patch.diff")])
        if rc != 0:
            r = {"property": pid, "result": "patch does not apply to the current /repo HEAD", "summary": meta.get("summary", "")[:200]}
        else:
            t0 = time.time()
            try:
                prc, out = sh(["./check", meta.get("check_with", pid), "--tier", "quick"], cwd=ver, env=env, timeout=3000)
            except subprocess.TimeoutExpired:
                prc, out = 124, ""
            sh("git checkout -- . && git clean -fdq", cwd=repo)
            vio = [l for l in out.split("\n") if l.startswith("VIOLATION")]
            kinds = []
            for l in vio:
                m = re.search(r"replay=(\S+)", l)
                try:
                    rj = json.load(open(m.group(1)))
                    kinds.append(rj.get("kind", "?") + (": " + str(rj.get("signature")) if rj.get("signature") else "") + (" (no-failing-input-found)" if "no-failing-input-found" in l else ""))
                except Exception:
                    kinds.append("?")
            r = {"property": pid, "result": ("DETECTED" + (" by " + meta["check_with"] + " (" + meta.get("check_with_why", "") + ")" if meta.get("check_with") else "")) if vio and prc == 1 else "MISSED", "violations": kinds[:4], "seconds": round(time.time() - t0, 1),
                 "summary": meta.get("summary", "")[:220], "needs": meta.get("needs_to_manifest", "")[:200]}
        with lock:
            res[name] = r
            print(name, r["result"], r.get("violations", [])[:2], flush=True)
    sh(["git", "-C", "/repo", "worktree", "remove", "--force", repo])
    shutil.rmtree(w, ignore_errors=True)

ths = [threading.Thread(target=worker, args=(k,)) for k in range(min(N, max(1, len(seeds))))]
for t in ths:
    t.start()
for t in ths:
    t.join()
shutil.rmtree(ROOT, ignore_errors=True)
mp = os.path.join(V, "design", "seed_matrix.json")
prev = json.load(open(mp)) if os.path.exists(mp) else {}
prev.update(res)
json.dump(prev, open(mp, "w"), indent=1)
with open(os.path.join(V, "design", "seed_matrix.md"), "w") as f:
    f.write("# Seeded changes versus checks (quick tier)\n\nEach row: a confirmed change to TarsGo that breaks the property, still compiles and passes the pinned tests "
            "(seeded/<name>/), applied to a tree, `./check <property> --tier quick` run, change undone. Written by tools/seedmatrix.py / seedmatrix_par.py.\n\n"
            "| seed | property | result | how it was reported | what the change is |\n|---|---|---|---|---|\n")
    for k in sorted(prev):
        r = prev[k]
        f.write("| %s | %s | %s | %s | %s |\n" % (k, r["property"], r["result"], "; ".join(r.get("violations", [])).replace("|", "/"), r.get("summary", "").replace("|", "/").replace("\n", " ")))
print("written design/seed_matrix.md;", sum(1 for r in res.values() if r["result"].startswith("DETECTED")), "detected of", len(res))
