From Coq Require Import List Arith Lia Bool Permutation.
Require Import Gpool.
Import ListNotations.

(* ---------- list-update lemmas ---------- *)
Lemma upd_length {A} n (x : A) l : length (upd n x l) = length l.
Proof. revert n; induction l; destruct n; cbn; auto. Qed.
Lemma nth_upd_eq {A} n (x : A) l : n < length l -> nth_error (upd n x l) n = Some x.
Proof. revert n; induction l; destruct n; cbn; intros; try lia; auto. apply IHl; lia. Qed.
Lemma nth_upd_neq {A} n m (x : A) l : n <> m -> nth_error (upd n x l) m = nth_error l m.
Proof. revert n m; induction l; destruct n, m; cbn; intros; try congruence; auto. Qed.
Lemma nth_some_lt {A} (l : list A) n x : nth_error l n = Some x -> n < length l.
Proof. intros H. apply nth_error_Some. congruence. Qed.

Definition isrun p := match p with WRun _ => true | _ => false end.
Definition isdone p := match p with WDone => true | _ => false end.

Lemma running_upd_same l : forall w p x, nth_error l w = Some p -> isrun p = false -> isrun x = false ->
  running (upd w x l) = running l.
Proof.
  induction l as [|a l IH]; intros [|w] p x H Hp Hx; cbn in *; try discriminate.
  - inversion H; subst. destruct p, x; try discriminate; reflexivity.
  - unfold running in *. cbn. f_equal. eapply IH; eauto.
Qed.
Lemma running_upd_start l : forall w p j, nth_error l w = Some p -> isrun p = false ->
  Permutation (running (upd w (WRun j) l)) (j :: running l).
Proof.
  induction l as [|a l IH]; intros [|w] p j H Hp; cbn in *; try discriminate.
  - inversion H; subst. destruct p; try discriminate; reflexivity.
  - unfold running in *. cbn. rewrite (IH _ _ _ H Hp). rewrite Permutation_middle. reflexivity.
Qed.
Lemma running_upd_end l : forall w j x, nth_error l w = Some (WRun j) -> isrun x = false ->
  Permutation (running l) (j :: running (upd w x l)).
Proof.
  induction l as [|a l IH]; intros [|w] j x H Hx; cbn in *; try discriminate.
  - inversion H; subst. destruct x; try discriminate; reflexivity.
  - unfold running in *. cbn. rewrite (IH _ _ _ H Hx). rewrite Permutation_middle. reflexivity.
Qed.
Lemma ndone_upd_same l : forall w p x, nth_error l w = Some p -> isdone p = false -> isdone x = false ->
  ndone (upd w x l) = ndone l.
Proof.
  induction l as [|a l IH]; intros [|w] p x H Hp Hx; cbn in *; try discriminate.
  - inversion H; subst. unfold ndone. cbn. destruct p, x; try discriminate; reflexivity.
  - unfold ndone in *. cbn. destruct a; cbn; rewrite (IH _ _ _ H Hp Hx); reflexivity.
Qed.
Lemma ndone_upd_done l : forall w p, nth_error l w = Some p -> isdone p = false ->
  ndone (upd w WDone l) = S (ndone l).
Proof.
  induction l as [|a l IH]; intros [|w] p H Hp; cbn in *; try discriminate.
  - inversion H; subst. unfold ndone. cbn. destruct p; try discriminate; reflexivity.
  - unfold ndone in *. cbn. destruct a; cbn; rewrite (IH _ _ H Hp); reflexivity.
Qed.
Lemma ndone_repeat n : ndone (repeat WReg n) = 0.
Proof. induction n; cbn; auto. Qed.
Lemma running_repeat n : running (repeat WReg n) = [].
Proof. induction n; cbn; auto. Qed.
Lemma running_le l : length (running l) <= length l.
Proof. induction l as [|a l IH]; cbn; [lia|]. unfold running in *. cbn. rewrite app_length. destruct a; cbn; lia. Qed.
Lemma ndone_le l : ndone l <= length l.
Proof. unfold ndone. induction l as [|a l IH]; cbn; [lia|]. destruct a; cbn; lia. Qed.
Lemma ndone_all l : ndone l = length l -> forall w p, nth_error l w = Some p -> p = WDone.
Proof.
  induction l as [|a l IH]; intros H [|w] p Hn; cbn in *; try discriminate.
  - inversion Hn; subst. pose proof (ndone_le l). unfold ndone in *. destruct p; cbn in H; try reflexivity; lia.
  - apply (IH) with (w := w); auto. pose proof (ndone_le l). unfold ndone in *. destruct a; cbn in H; lia.
Qed.

Lemma NoDup_snoc {A} (l : list A) x : NoDup l -> ~ In x l -> NoDup (l ++ [x]).
Proof. intros H1 H2. eapply Permutation_NoDup; [apply Permutation_cons_append|]. now constructor. Qed.

Lemma NoDup_app_tail {A} (l l' : list A) : NoDup (l ++ l') -> NoDup l'.
Proof. induction l; cbn; intros H; [exact H|]. inversion H; auto. Qed.

Section Proofs.
Variable W Q : nat.
Notation step := (step W Q). Notation run := (run W Q). Notation Inv := (Inv W). Notation init := (init W).

Lemma Inv_init : Inv init.
Proof.
  unfold Gpool.Inv, Gpool.init; cbn [jobq wq wk dp rp subm started fin held app].
  rewrite repeat_length, running_repeat, ndone_repeat.
  repeat split; auto; try constructor; intros; try discriminate; try contradiction.
  all: try (match goal with H : _ \/ _ |- _ => destruct H; discriminate end).
Qed.

Ltac brk := repeat match goal with
  | H : context [match ?x with _ => _ end] |- _ => destruct x eqn:?; try discriminate
  end.
Ltac splits := split; [|split; [|split; [|split; [|split; [|split; [|split; [|split; [|split; [|split; [|split]]]]]]]]]].
Ltac pre0 HP0 := let H := fresh in let A := fresh in let B := fresh in
  intros H; destruct (HP0 H) as [A B]; split; [reflexivity || exact A | exact B].
(* a goal about the dispatcher's program counter that is impossible or follows from the old fact *)
Ltac dpc_triv := intros; try discriminate;
  repeat match goal with H : _ \/ _ |- _ => destruct H end; try discriminate;
  try (match goal with HR : rp ?s = RDone -> _, H : rp ?s = RDone |- _ => specialize (HR H); discriminate end).

Lemma Inv_step s l s' : Inv s -> step s l = Some s' -> Inv s'.
Proof.
  intros (HL & HC & HS & HN & HQ & HH & HSt & HA & HCo & HD & HR & HP0) Hs.
  destruct l; unfold Gpool.step in Hs; brk; injection Hs as <-; unfold Gpool.Inv;
    cbn [jobq wq wk dp rp subm started fin] in *.
  - (* Submit *)
    splits; auto.
    rewrite HC. rewrite <- !app_assoc. apply Permutation_app_head.
    rewrite (Permutation_app_comm [j]). rewrite <- !app_assoc. reflexivity.
  - (* WorkerReg *)
    match goal with H : nth_error (wk s) w = Some _ |- _ => rename H into Hw end. subst.
    pose proof (nth_some_lt _ _ _ Hw) as Hlt.
    assert (Hnin : ~ In w (wq s)) by (intros Hin; apply HQ in Hin; congruence).
    assert (Hother : forall v q, nth_error (wk s) v = Some q -> q <> WReg -> nth_error (upd w WWait (wk s)) v = Some q).
    { intros v q A B. destruct (Nat.eq_dec w v); [subst; congruence|rewrite nth_upd_neq; auto]. }
    assert (Hnin2 : forall v q, nth_error (wk s) v = Some q -> q <> WReg -> ~ In v (wq s) -> ~ In v (wq s ++ [w])).
    { intros v q A B C Hin. apply in_app_or in Hin. destruct Hin as [|[|[]]]; [tauto|subst; congruence]. }
    rewrite upd_length, (running_upd_same _ _ _ _ Hw), (ndone_upd_same _ _ _ _ Hw) by reflexivity.
    splits; auto.
    + apply NoDup_snoc; auto.
    + intros x Hx. apply in_app_or in Hx. destruct Hx as [Hx|[Hx|[]]].
      * destruct (Nat.eq_dec w x); [subst; apply nth_upd_eq; auto|rewrite nth_upd_neq; auto].
      * subst. apply nth_upd_eq; auto.
    + intros j x E. destruct (HH _ _ E) as [A B]. split; [eapply Hother|eapply Hnin2]; eauto; congruence.
    + intros i x E. destruct (HSt _ _ E) as (A & B & C & D). repeat split; auto; [eapply Hother|eapply Hnin2]; eauto; congruence.
    + intros i x E. destruct (HA _ _ E) as (A & B & C & D). repeat split; auto; [eapply Hother|eapply Hnin2]; eauto; congruence.
  - (* DTake *)
    match goal with H : dp s = DSel |- _ => rename H into Hd end.
    match goal with H : jobq s = _ |- _ => rename H into Hj end.
    rewrite ?Hd, ?Hj in *. cbn [held app] in *.
    splits; auto; try (dpc_triv; fail); try (pre0 HP0; fail).
    rewrite HC. cbn. apply Permutation_middle.
  - (* DWorker *)
    match goal with H : dp s = DHave _ |- _ => rename H into Hd end.
    match goal with H : wq s = _ |- _ => rename H into Hq end.
    rewrite ?Hd, ?Hq in *. cbn [held app] in *. inversion HN; subst.
    splits; auto; try (dpc_triv; fail); try (pre0 HP0; fail).
    + intros x Hx. apply HQ. now right.
    + intros j0 x E. injection E as <- <-. split; [apply HQ; now left|auto].
  - (* Hand *)
    match goal with H : dp s = DHand _ _ |- _ => rename H into Hd end.
    match goal with H : nth_error (wk s) _ = Some _ |- _ => rename H into Hw end. subst.
    pose proof (nth_some_lt _ _ _ Hw) as Hlt.
    first [destruct (HH _ _ Hd) as [_ Hnin] | destruct (HH _ _ eq_refl) as [_ Hnin]]. rewrite ?Hd in *. cbn [held app] in *.
    rewrite upd_length, (ndone_upd_same _ _ _ _ Hw) by reflexivity.
    splits; auto; try (dpc_triv; fail); try (pre0 HP0; fail).
    + rewrite HC. rewrite (running_upd_start _ _ _ j Hw eq_refl). cbn. apply Permutation_app_head. reflexivity.
    + rewrite (running_upd_start _ _ _ j Hw eq_refl). rewrite Permutation_app_comm. cbn. apply perm_skip.
      rewrite HS. reflexivity.
    + intros x Hx. destruct (Nat.eq_dec w x); [subst; tauto|rewrite nth_upd_neq; auto].
  - (* JobEnd *)
    match goal with H : nth_error (wk s) w = Some _ |- _ => rename H into Hw end. subst.
    pose proof (nth_some_lt _ _ _ Hw) as Hlt.
    assert (Hother : forall v q, nth_error (wk s) v = Some q -> (forall j, q <> WRun j) -> nth_error (upd w WReg (wk s)) v = Some q).
    { intros v q A B. destruct (Nat.eq_dec w v); [subst; rewrite Hw in A; inversion A; subst; exfalso; eapply B; eauto|rewrite nth_upd_neq; auto]. }
    rewrite upd_length, (ndone_upd_same _ _ _ _ Hw) by reflexivity.
    pose proof (running_upd_end _ _ _ WReg Hw eq_refl) as HP.
    splits; auto.
    + rewrite HC, HP. apply Permutation_app_head. apply Permutation_app_head.
      cbn [app]. rewrite app_assoc. apply Permutation_cons_append.
    + rewrite HS, HP. cbn [app]. rewrite app_assoc. apply Permutation_cons_append.
    + intros x Hx. eapply Hother; eauto. intros; congruence.
    + intros j0 x E. destruct (HH _ _ E) as [A B]. split; auto. eapply Hother; eauto. intros; congruence.
    + intros i x E. destruct (HSt _ _ E) as (A & B & C & D). repeat split; auto. eapply Hother; eauto. intros; congruence.
    + intros i x E. destruct (HA _ _ E) as (A & B & C & D). repeat split; auto. eapply Hother; eauto. intros; congruence.
  - (* RelCall *)
    match goal with H : dp s = DSel |- _ => rename H into Hd end.
    match goal with H : rp s = RNot |- _ => rename H into Hr end.
    first [destruct (HP0 Hr) as [_ Hz] | destruct (HP0 eq_refl) as [_ Hz]]. rewrite ?Hd, ?Hr in *. cbn [held app] in *.
    splits; auto; try (dpc_triv; fail).
    intros i E. injection E as <-. exact Hz.
  - (* DColTake *)
    match goal with H : dp s = DCollect _ |- _ => rename H into Hd end.
    match goal with H : wq s = ?v :: _ |- _ => first [pose proof (HQ v ltac:(now left)) as Hw | pose proof (HQ v ltac:(rewrite H; now left)) as Hw]; rename H into Hq end.
    match goal with H : (_ <? _) = true |- _ => rename H into Hlt end. apply Nat.ltb_lt in Hlt.
    first [pose proof (HCo _ Hd) as Hn | pose proof (HCo _ eq_refl) as Hn].
    assert (Hr : rp s <> RNot) by (intros E; destruct (HP0 E) as [A _]; rewrite ?Hd in A; discriminate).
    rewrite ?Hd, ?Hq in *. cbn [held app] in *. inversion HN; subst.
    splits; auto; try (dpc_triv; fail).
    all: try (intros x Hx; apply HQ; now right).
    all: try (intros i0 x E; injection E as <- <-; repeat split; auto; fail).
    all: try (intros E; contradiction).
  - (* DColFin *)
    match goal with H : dp s = DCollect _ |- _ => rename H into Hd end.
    match goal with H : (_ =? _) = true |- _ => rename H into He end. apply Nat.eqb_eq in He.
    first [pose proof (HCo _ Hd) as Hn | pose proof (HCo _ eq_refl) as Hn].
    assert (Hr : rp s <> RNot) by (intros E; destruct (HP0 E) as [A _]; rewrite ?Hd in A; discriminate).
    rewrite ?Hd in *. cbn [held app] in *.
    splits; auto; try (dpc_triv; fail).
    all: try (intros _; lia).
    all: try (intros E; contradiction).
  - (* StopSend *)
    match goal with H : dp s = DStop _ _ |- _ => rename H into Hd end.
    match goal with H : nth_error (wk s) _ = Some _ |- _ => rename H into Hw end. subst.
    pose proof (nth_some_lt _ _ _ Hw) as Hlt.
    first [destruct (HSt _ _ Hd) as (_ & Hnin & Hn & Hi) | destruct (HSt _ _ eq_refl) as (_ & Hnin & Hn & Hi)].
    assert (Hr : rp s <> RNot) by (intros E; destruct (HP0 E) as [A _]; rewrite ?Hd in A; discriminate).
    rewrite ?Hd in *. cbn [held app] in *.
    rewrite upd_length, (running_upd_same _ _ _ _ Hw), (ndone_upd_same _ _ _ _ Hw) by reflexivity.
    splits; auto; try (dpc_triv; fail).
    all: try (intros x Hx; destruct (Nat.eq_dec w x); [subst; tauto|rewrite nth_upd_neq; auto]; fail).
    all: try (intros i0 x E; injection E as <- <-; repeat split; auto; apply nth_upd_eq; auto; fail).
    all: try (intros E; contradiction).
  - (* StopAck *)
    match goal with H : dp s = DWaitAck _ _ |- _ => rename H into Hd end.
    match goal with H : nth_error (wk s) _ = Some _ |- _ => rename H into Hw end. subst.
    pose proof (nth_some_lt _ _ _ Hw) as Hlt.
    first [destruct (HA _ _ Hd) as (_ & Hnin & Hn & Hi) | destruct (HA _ _ eq_refl) as (_ & Hnin & Hn & Hi)].
    assert (Hr : rp s <> RNot) by (intros E; destruct (HP0 E) as [A _]; rewrite ?Hd in A; discriminate).
    rewrite ?Hd in *. cbn [held app] in *.
    rewrite upd_length, (running_upd_same _ _ _ _ Hw), (ndone_upd_done _ _ _ Hw) by reflexivity.
    splits; auto; try (dpc_triv; fail).
    all: try (intros x Hx; destruct (Nat.eq_dec w x); [subst; tauto|rewrite nth_upd_neq; auto]; fail).
    all: try (intros i0 E; injection E as <-; lia).
    all: try (intros E; contradiction).
  - (* RelRet *)
    match goal with H : dp s = DAck |- _ => rename H into Hd end.
    first [pose proof (HD (or_introl Hd)) as Hn | pose proof (HD (or_introl eq_refl)) as Hn]. rewrite ?Hd in *. cbn [held app] in *.
    splits; auto; try (dpc_triv; fail).
Qed.

Lemma run_inv ls : forall s s', Inv s -> run s ls = Some s' -> Inv s'.
Proof.
  induction ls as [|l ls IH]; cbn; intros s s' HI Hr. { now inversion Hr; subst. }
  destruct (step s l) eqn:E; [|discriminate]. eapply IH; [eapply Inv_step; eauto|eauto].
Qed.

(* ---------- the property, for every pool size, queue capacity, number of jobs and schedule ---------- *)
Theorem no_job_starts_twice ls s : run init ls = Some s -> NoDup (subm s) -> NoDup (started s).
Proof.
  intros Hr Hnd. destruct (run_inv ls _ _ Inv_init Hr) as (_ & HC & HS & _).
  eapply Permutation_NoDup; [symmetry; exact HS|].
  apply (Permutation_NoDup HC) in Hnd.
  apply NoDup_app_tail in Hnd. apply NoDup_app_tail in Hnd. exact Hnd.
Qed.

Theorem no_job_lost ls s : run init ls = Some s ->
  Permutation (subm s) (jobq s ++ held (dp s) ++ running (wk s) ++ fin s).
Proof. intros Hr. apply (run_inv ls _ _ Inv_init Hr). Qed.

Theorem bounded_parallelism ls s : run init ls = Some s -> length (running (wk s)) <= W.
Proof. intros Hr. destruct (run_inv ls _ _ Inv_init Hr) as (HL & _). rewrite <- HL. apply running_le. Qed.

Theorem release_returns_after_all_stopped ls s : run init ls = Some s -> rp s = RDone ->
  dp s = DDone /\ running (wk s) = [] /\ forall w p, nth_error (wk s) w = Some p -> p = WDone.
Proof.
  intros Hr Hd. destruct (run_inv ls _ _ Inv_init Hr) as (HL & _ & _ & _ & _ & _ & _ & _ & _ & HD & HR & _).
  pose proof (HR Hd) as Hdp. assert (Hn : ndone (wk s) = length (wk s)) by (rewrite HL; apply HD; now right).
  pose proof (ndone_all _ Hn) as Hall. repeat split; auto.
  clear - Hall. induction (wk s) as [|a l IH]; [reflexivity|].
  pose proof (Hall 0 a eq_refl). subst. unfold running in *. cbn. apply IH. intros w p H. apply (Hall (S w) p H).
Qed.

(* after Release has returned no step can start a job: the dispatcher is at DDone *)
Theorem nothing_starts_after_release s s' : rp s = RDone -> dp s = DDone -> step s Hand = Some s' -> False.
Proof. intros _ Hd Hs. unfold Gpool.step in Hs. rewrite Hd in Hs. discriminate. Qed.
End Proofs.
Print Assumptions no_job_starts_twice.
Print Assumptions no_job_lost.
Print Assumptions release_returns_after_all_stopped.

(* non-vacuity: 2 workers, queue 2, two jobs run concurrently, then Release *)
Example pool_example :
  exists s, run 2 2 (init 2)
    [WorkerReg 0; WorkerReg 1; Submit 7; Submit 8; DTake; DWorker; Hand; DTake; DWorker; Hand;
     JobEnd 0; JobEnd 1; WorkerReg 0; WorkerReg 1; RelCall; DColTake; StopSend; StopAck; DColTake; StopSend; StopAck;
     DColFin; RelRet] = Some s /\ rp s = RDone /\ started s = [7; 8] /\ fin s = [7; 8].
Proof. eexists. vm_compute. repeat split. Qed.
