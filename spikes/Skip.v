From Coq Require Import List NArith ZArith Lia Bool Arith.
From Coq Require Import ZifyN ZifyNat ZifyBool.
Require Import Wire.
Import ListNotations.
Ltac Zify.zify_post_hook ::= Z.div_mod_to_equations.
Open Scope N_scope.

(* ---------- wire trees: the independent description of a well-formed encoding ---------- *)
Inductive wf :=
| WZero | WByte (b : N) | WShort (v : N) | WInt (v : N) | WLong (v : N) | WFloat (v : N) | WDouble (v : N)
| WStr1 (s : list N) | WStr4 (s : list N) | WSimple (s : list N)
| WList (xs : list (N * wf)) | WMap (kvs : list ((N * wf) * (N * wf))) | WStruct (fs : list (N * wf)).

Definition ty_of (w : wf) : N :=
  match w with
  | WZero => tZERO | WByte _ => tBYTE | WShort _ => tSHORT | WInt _ => tINT | WLong _ => tLONG
  | WFloat _ => tFLOAT | WDouble _ => tDOUBLE | WStr1 _ => tSTR1 | WStr4 _ => tSTR4
  | WSimple _ => tSIMPLE | WList _ => tLIST | WMap _ => tMAP | WStruct _ => tSB
  end.

(* a non-negative count written as the narrowest int field at tag 0 (what WriteInt32(len, 0) emits) *)
Definition w_len (n : N) : list N :=
  if n =? 0 then head tZERO 0
  else if n <? 128 then head tBYTE 0 ++ [n]
  else if n <? 32768 then head tSHORT 0 ++ be 2 n
  else head tINT 0 ++ be 4 n.

Fixpoint ser_body (w : wf) : list N :=
  match w with
  | WZero => []
  | WByte b => [b]
  | WShort v => be 2 v | WInt v => be 4 v | WLong v => be 8 v
  | WFloat v => be 4 v | WDouble v => be 8 v
  | WStr1 s => N.of_nat (length s) :: s
  | WStr4 s => be 4 (N.of_nat (length s)) ++ s
  | WSimple s => head tBYTE 0 ++ w_len (N.of_nat (length s)) ++ s
  | WList xs => w_len (N.of_nat (length xs)) ++
                (fix go l := match l with [] => [] | (t, x) :: r => head (ty_of x) t ++ ser_body x ++ go r end) xs
  | WMap kvs => w_len (N.of_nat (length kvs)) ++
                (fix go l := match l with [] => []
                  | ((tk, k), (tv, v)) :: r => head (ty_of k) tk ++ ser_body k ++ head (ty_of v) tv ++ ser_body v ++ go r end) kvs
  | WStruct fs => (fix go l := match l with [] => [] | (t, x) :: r => head (ty_of x) t ++ ser_body x ++ go r end) fs
                  ++ head tSE 0
  end.
Definition ser_field (f : N * wf) : list N := head (ty_of (snd f)) (fst f) ++ ser_body (snd f).
Fixpoint ser_fields (fs : list (N * wf)) : list N :=
  match fs with [] => [] | f :: r => ser_field f ++ ser_fields r end.

Lemma ser_list_go xs :
  (fix go l := match l with [] => [] | (t, x) :: r => head (ty_of x) t ++ ser_body x ++ go r end) xs = ser_fields xs.
Proof. induction xs as [|[t x] r IH]; cbn; [reflexivity|]. unfold ser_field; cbn. now rewrite IH, app_assoc. Qed.

(* well-formedness of a wire tree: byte ranges, tags < 256, lengths within the format's fields *)
Fixpoint wf_ok (w : wf) : Prop :=
  match w with
  | WStr1 s => (length s <= 255)%nat
  | WStr4 s => N.of_nat (length s) < 2 ^ 31
  | WSimple s => N.of_nat (length s) < 2 ^ 31
  | WList xs => N.of_nat (length xs) < 2 ^ 30 /\
                (fix all l := match l with [] => True | (t, x) :: r => t < 256 /\ wf_ok x /\ all r end) xs
  | WMap kvs => N.of_nat (length kvs) < 2 ^ 30 /\
                (fix all l := match l with [] => True
                   | ((tk, k), (tv, v)) :: r => tk < 256 /\ tv < 256 /\ wf_ok k /\ wf_ok v /\ all r end) kvs
  | WStruct fs => (fix all l := match l with [] => True | (t, x) :: r => t < 256 /\ wf_ok x /\ all r end) fs
  | _ => True
  end.

(* ---------- model of codec.Reader skipping (mirrors skipField & co, incl. ignored errors) ---------- *)
Inductive st := SOk | SErr | SFuel.
Definition drop (n : N) (bs : list N) : list N := skipn (N.to_nat n) bs.  (* Seek: past the end is fine *)

(* ReadInt32(&length, 0, true) as used for counts: Some (value as Z) or None on error *)
Definition sext (bits : Z) (v : N) : Z :=
  let z := Z.of_N v in if (z <? 2 ^ (bits - 1))%Z then z else (z - 2 ^ bits)%Z.
Definition read_count (bs : list N) : option (Z * list N) :=
  match read_head bs with
  | None => None
  | Some (ty, tag, r) =>
      if negb (tag =? 0) || (ty =? tSE) then None
      else if ty =? tZERO then Some (0%Z, r)
      else if ty =? tBYTE then match r with [] => None | b :: r' => Some (sext 8 b, r') end
      else if ty =? tSHORT then match bread 2 r with None => None | Some (v, r') => Some (sext 16 v, r') end
      else if ty =? tINT then match bread 4 r with None => None | Some (v, r') => Some (sext 32 v, r') end
      else None
  end.

Definition wrap32 (z : Z) : Z := let m := (z mod 2 ^ 32)%Z in if (m <? 2 ^ 31)%Z then m else (m - 2 ^ 32)%Z.

Fixpoint skip_field (fuel : nat) (ty : N) (bs : list N) : st * list N :=
  match fuel with
  | O => (SFuel, bs)
  | S f =>
    if ty =? tBYTE then (SOk, drop 1 bs) else if ty =? tSHORT then (SOk, drop 2 bs)
    else if ty =? tINT then (SOk, drop 4 bs) else if ty =? tLONG then (SOk, drop 8 bs)
    else if ty =? tFLOAT then (SOk, drop 4 bs) else if ty =? tDOUBLE then (SOk, drop 8 bs)
    else if ty =? tSTR1 then match bs with [] => (SErr, bs) | l :: r => (SOk, drop l r) end
    else if ty =? tSTR4 then match bread 4 bs with None => (SErr, bs) | Some (l, r) => (SOk, drop l r) end
    else if ty =? tMAP then
      match read_count bs with None => (SErr, bs)
      | Some (n, r) => skip_n f (wrap32 (n * 2)) r end
    else if ty =? tLIST then
      match read_count bs with None => (SErr, bs)
      | Some (n, r) => skip_n f n r end
    else if ty =? tSIMPLE then
      match read_head bs with
      | None => (SErr, bs)
      | Some (t, _, r) => if negb (t =? tBYTE) then (SErr, r) else
          match read_count r with None => (SErr, r)
          | Some (n, r') => (SOk, if (0 <? n)%Z then drop (Z.to_N n) r' else r') end
      end
    else if ty =? tSB then skip_to_end f bs
    else if (ty =? tSE) || (ty =? tZERO) then (SOk, bs)
    else (SErr, bs)
  end
with skip_n (fuel : nat) (n : Z) (bs : list N) : st * list N :=
  match fuel with
  | O => (SFuel, bs)
  | S f => if (n <=? 0)%Z then (SOk, bs) else
      match read_head bs with
      | None => (SErr, bs)
      | Some (ty, _, r) => let '(_, r') := skip_field f ty r in skip_n f (n - 1)%Z r'   (* error ignored, as in Go *)
      end
  end
with skip_to_end (fuel : nat) (bs : list N) : st * list N :=
  match fuel with
  | O => (SFuel, bs)
  | S f => match read_head bs with
           | None => (SErr, bs)
           | Some (ty, _, r) =>
               match skip_field f ty r with
               | (SOk, r') => if ty =? tSE then (SOk, r') else skip_to_end f r'
               | e => e
               end
           end
  end.
