From Coq Require Import List ZArith Lia Arith.
Import ListNotations.
Open Scope Z_scope.

Section SWRR.
Variable n : nat.
Variable w : nat -> Z.
Hypothesis w_pos : forall i, (i < n)%nat -> 0 < w i.
Hypothesis n_pos : (0 < n)%nat.

Fixpoint sumn (f : nat -> Z) (k : nat) : Z :=
  match k with O => 0 | S k' => sumn f k' + f k' end.

Definition T := sumn w n.

Definition step (cur : nat -> Z) (j : nat) : nat -> Z :=
  fun i => if Nat.eqb i j then cur i - T + w i else cur i + w i.

Definition argmax (cur : nat -> Z) (j : nat) : Prop :=
  (j < n)%nat /\ forall i, (i < n)%nat -> cur i <= cur j.

Fixpoint count (js : list nat) (i : nat) : Z :=
  match js with [] => 0 | j :: r => (if Nat.eqb i j then 1 else 0) + count r i end.

(* run: picks are applied oldest first *)
Inductive run : (nat -> Z) -> list nat -> (nat -> Z) -> Prop :=
| run_nil cur : run cur [] cur
| run_cons cur j js cur' : argmax cur j -> run (step cur j) js cur' -> run cur (j :: js) cur'.

Lemma sumn_ext f g k : (forall i, (i < k)%nat -> f i = g i) -> sumn f k = sumn g k.
Proof. induction k; cbn; intros H; [reflexivity|]. rewrite IHk, H; auto. Qed.

Lemma sumn_pos f k : (0 < k)%nat -> (forall i, (i < k)%nat -> 0 < f i) -> 0 < sumn f k.
Proof.
  induction k; [lia|]. intros _ H. cbn. destruct k.
  - cbn. specialize (H 0%nat). lia.
  - assert (0 < sumn f (S k)) by (apply IHk; [lia|]; intros; apply H; lia).
    specialize (H (S k)). lia.
Qed.

Lemma T_pos : 0 < T.
Proof. apply sumn_pos; auto. Qed.

Lemma sumn_step cur j k :
  sumn (step cur j) k = sumn cur k + sumn w k - (if (j <? k)%nat then T else 0).
Proof.
  induction k; cbn [sumn]. { destruct (j <? 0)%nat eqn:E; [apply Nat.ltb_lt in E; lia|lia]. }
  rewrite IHk. unfold step.
  destruct (Nat.eqb k j) eqn:E1.
  - apply Nat.eqb_eq in E1. subst.
    replace (j <? j)%nat with false by (symmetry; apply Nat.ltb_ge; lia).
    replace (j <? S j)%nat with true by (symmetry; apply Nat.ltb_lt; lia). lia.
  - apply Nat.eqb_neq in E1.
    destruct (j <? k)%nat eqn:E2.
    + apply Nat.ltb_lt in E2. replace (j <? S k)%nat with true by (symmetry; apply Nat.ltb_lt; lia). lia.
    + apply Nat.ltb_ge in E2. replace (j <? S k)%nat with false by (symmetry; apply Nat.ltb_ge; lia). lia.
Qed.

(* max of values summing to a positive number is positive *)
Lemma argmax_pos cur j : argmax cur j -> 0 < sumn cur n -> 0 < cur j.
Proof.
  intros [Hj Hmax] Hs.
  destruct (Z_lt_le_dec 0 (cur j)) as [|Hle]; [assumption|exfalso].
  assert (forall k, (k <= n)%nat -> sumn cur k <= 0).
  { induction k; cbn; intros; [lia|]. specialize (Hmax k). lia. }
  specialize (H n). lia.
Qed.

(* invariant relative to number of rounds done (as Z) and counts so far *)
Definition Inv (k : Z) (c : nat -> Z) (cur : nat -> Z) : Prop :=
  (forall i, (i < n)%nat -> cur i = (k + 1) * w i - T * c i) /\
  sumn cur n = T /\
  (forall i, (i < n)%nat -> cur i - w i > - T).

Lemma Inv_init : Inv 0 (fun _ => 0) w.
Proof.
  repeat split; intros; try lia. pose proof T_pos. lia.
Qed.

Lemma Inv_step k c cur j : Inv k c cur -> argmax cur j ->
  Inv (k + 1) (fun i => c i + (if Nat.eqb i j then 1 else 0)) (step cur j).
Proof.
  intros (Hc & Hs & Hl) Ham. pose proof (argmax_pos _ _ Ham ltac:(rewrite Hs; apply T_pos)) as Hp.
  destruct Ham as [Hj Hmax].
  repeat split.
  - intros i Hi. unfold step. rewrite (Hc i Hi). destruct (Nat.eqb i j); lia.
  - rewrite sumn_step. replace (j <? n)%nat with true by (symmetry; apply Nat.ltb_lt; lia).
    fold T. lia.
  - intros i Hi. unfold step. destruct (Nat.eqb i j) eqn:E.
    + apply Nat.eqb_eq in E. subst. lia.
    + specialize (Hl i Hi). specialize (w_pos i Hi). lia.
Qed.

Lemma Inv_ext k k' c c' cur : Inv k c cur -> k = k' -> (forall i, c i = c' i) -> Inv k' c' cur.
Proof.
  intros (A & B & C) -> Hc. repeat split; auto. intros i Hi. rewrite (A i Hi), (Hc i). reflexivity.
Qed.

Lemma run_inv cur js cur' : run cur js cur' -> forall k c, Inv k c cur ->
  Inv (k + Z.of_nat (length js)) (fun i => c i + count js i) cur'.
Proof.
  induction 1; intros k c HI.
  - eapply Inv_ext; [exact HI| cbn; lia | intros; cbn; lia].
  - apply (Inv_step _ _ _ _ HI) in H.
    specialize (IHrun _ _ H).
    eapply Inv_ext; [exact IHrun | cbn [length]; lia | intros; cbn [count]; lia].
Qed.

Lemma sumn_zero k : sumn (fun _ => 0) k = 0.
Proof. induction k; cbn; lia. Qed.
Lemma sumn_plus f g k : sumn (fun i => f i + g i) k = sumn f k + sumn g k.
Proof. induction k; cbn; lia. Qed.
Lemma sumn_ind j k : sumn (fun i => if Nat.eqb i j then 1 else 0) k = if (j <? k)%nat then 1 else 0.
Proof.
  induction k; cbn [sumn]. { reflexivity. }
  rewrite IHk. destruct (Nat.eqb k j) eqn:E1.
  - apply Nat.eqb_eq in E1; subst.
    replace (j <? j)%nat with false by (symmetry; apply Nat.ltb_ge; lia).
    replace (j <? S j)%nat with true by (symmetry; apply Nat.ltb_lt; lia). lia.
  - apply Nat.eqb_neq in E1. destruct (j <? k)%nat eqn:E2.
    + apply Nat.ltb_lt in E2. replace (j <? S k)%nat with true by (symmetry; apply Nat.ltb_lt; lia). lia.
    + apply Nat.ltb_ge in E2. replace (j <? S k)%nat with false by (symmetry; apply Nat.ltb_ge; lia). lia.
Qed.

Lemma count_sum js : (forall j, In j js -> (j < n)%nat) -> sumn (count js) n = Z.of_nat (length js).
Proof.
  induction js as [|j js IH]; intros Hin.
  - cbn [count length]. apply sumn_zero.
  - cbn [count length]. rewrite Nat2Z.inj_succ, sumn_plus, sumn_ind, IH by (intros; apply Hin; now right).
    replace (j <? n)%nat with true by (symmetry; apply Nat.ltb_lt; apply Hin; now left). lia.
Qed.

Lemma run_in cur js cur' : run cur js cur' -> forall j, In j js -> (j < n)%nat.
Proof. induction 1; cbn; intros; [tauto|]. destruct H1; [subst; apply H|auto]. Qed.

(* The theorem: after exactly T rounds each index was chosen exactly w i times *)
Theorem swrr_exact js cur' : run w js cur' -> Z.of_nat (length js) = T ->
  forall i, (i < n)%nat -> count js i = w i.
Proof.
  intros Hrun Hlen.
  pose proof (run_inv _ _ _ Hrun 0 (fun _ => 0) Inv_init) as (A & B & C).
  pose proof T_pos as HT.
  assert (Hle : forall i, (i < n)%nat -> count js i <= w i).
  { intros i Hi. specialize (A i Hi). specialize (C i Hi). rewrite A in C.
    rewrite Hlen in C. cbn in C. nia. }
  pose proof (count_sum js (run_in _ _ _ Hrun)) as Hsum. rewrite Hlen in Hsum. unfold T in Hsum.
  (* sum of (w - count) = 0 with each term >= 0 *)
  assert (forall k, (k <= n)%nat -> (forall i, (i < k)%nat -> count js i <= w i) ->
            sumn (count js) k = sumn w k -> forall i, (i < k)%nat -> count js i = w i).
  { induction k; intros Hk Hl Hs i Hi; [lia|]. cbn in Hs.
    assert (sumn (count js) k <= sumn w k).
    { clear - Hl. induction k; cbn; [lia|]. assert (count js k <= w k) by (apply Hl; lia).
      assert (sumn (count js) k <= sumn w k) by (apply IHk; intros; apply Hl; lia). lia. }
    assert (count js k <= w k) by (apply Hl; lia).
    destruct (Nat.eq_dec i k); [subst; lia|]. apply IHk; try lia. intros; apply Hl; lia. }
  apply (H n); auto.
Qed.
End SWRR.
Print Assumptions swrr_exact.
