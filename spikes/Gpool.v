From Coq Require Import List Arith Lia Bool Permutation.
Import ListNotations.

(* ---------- LTS model of tars/util/gpool (workers, dispatcher, Release) ---------- *)
Inductive wpc := WReg | WWait | WRun (j : nat) | WStopping | WDone.
Inductive dpc := DSel | DHave (j : nat) | DHand (j w : nat)
               | DCollect (i : nat) | DStop (i w : nat) | DWaitAck (i w : nat) | DAck | DDone.
Inductive rpc := RNot | RSent | RDone.

Record st := { jobq : list nat; wq : list nat; wk : list wpc; dp : dpc; rp : rpc;
               subm : list nat; started : list nat; fin : list nat }.

Inductive label :=
| Submit (j : nat) | WorkerReg (w : nat) | DTake | DWorker | Hand | JobEnd (w : nat)
| RelCall | DColTake | DColFin | StopSend | StopAck | RelRet.

Fixpoint upd {A} (n : nat) (x : A) (l : list A) : list A :=
  match l, n with
  | [], _ => []
  | _ :: r, O => x :: r
  | y :: r, S k => y :: upd k x r
  end.

Section Pool.
Variable W Q : nat.   (* number of workers, capacity of JobQueue *)

Definition init : st :=
  {| jobq := []; wq := []; wk := repeat WReg W; dp := DSel; rp := RNot; subm := []; started := []; fin := [] |}.

Definition set_wk s w x := {| jobq := jobq s; wq := wq s; wk := upd w x (wk s); dp := dp s; rp := rp s;
                              subm := subm s; started := started s; fin := fin s |}.

Definition step (s : st) (l : label) : option st :=
  match l with
  | Submit j =>
      if length (jobq s) <? Q then
        Some {| jobq := jobq s ++ [j]; wq := wq s; wk := wk s; dp := dp s; rp := rp s;
                subm := subm s ++ [j]; started := started s; fin := fin s |}
      else None
  | WorkerReg w =>
      match nth_error (wk s) w with
      | Some WReg => Some {| jobq := jobq s; wq := wq s ++ [w]; wk := upd w WWait (wk s); dp := dp s; rp := rp s;
                             subm := subm s; started := started s; fin := fin s |}
      | _ => None end
  | DTake =>
      match dp s, jobq s with
      | DSel, j :: r => Some {| jobq := r; wq := wq s; wk := wk s; dp := DHave j; rp := rp s;
                                subm := subm s; started := started s; fin := fin s |}
      | _, _ => None end
  | DWorker =>
      match dp s, wq s with
      | DHave j, w :: r => Some {| jobq := jobq s; wq := r; wk := wk s; dp := DHand j w; rp := rp s;
                                   subm := subm s; started := started s; fin := fin s |}
      | _, _ => None end
  | Hand =>
      match dp s with
      | DHand j w =>
          match nth_error (wk s) w with
          | Some WWait => Some {| jobq := jobq s; wq := wq s; wk := upd w (WRun j) (wk s); dp := DSel; rp := rp s;
                                  subm := subm s; started := started s ++ [j]; fin := fin s |}
          | _ => None end
      | _ => None end
  | JobEnd w =>
      match nth_error (wk s) w with
      | Some (WRun j) => Some {| jobq := jobq s; wq := wq s; wk := upd w WReg (wk s); dp := dp s; rp := rp s;
                                 subm := subm s; started := started s; fin := fin s ++ [j] |}
      | _ => None end
  | RelCall =>
      match rp s, dp s with
      | RNot, DSel => Some {| jobq := jobq s; wq := wq s; wk := wk s; dp := DCollect 0; rp := RSent;
                              subm := subm s; started := started s; fin := fin s |}
      | _, _ => None end
  | DColTake =>
      match dp s, wq s with
      | DCollect i, w :: r => if i <? W then
            Some {| jobq := jobq s; wq := r; wk := wk s; dp := DStop i w; rp := rp s;
                    subm := subm s; started := started s; fin := fin s |} else None
      | _, _ => None end
  | DColFin =>
      match dp s with
      | DCollect i => if i =? W then
            Some {| jobq := jobq s; wq := wq s; wk := wk s; dp := DAck; rp := rp s;
                    subm := subm s; started := started s; fin := fin s |} else None
      | _ => None end
  | StopSend =>
      match dp s with
      | DStop i w =>
          match nth_error (wk s) w with
          | Some WWait => Some {| jobq := jobq s; wq := wq s; wk := upd w WStopping (wk s); dp := DWaitAck i w; rp := rp s;
                                  subm := subm s; started := started s; fin := fin s |}
          | _ => None end
      | _ => None end
  | StopAck =>
      match dp s with
      | DWaitAck i w =>
          match nth_error (wk s) w with
          | Some WStopping => Some {| jobq := jobq s; wq := wq s; wk := upd w WDone (wk s); dp := DCollect (S i); rp := rp s;
                                      subm := subm s; started := started s; fin := fin s |}
          | _ => None end
      | _ => None end
  | RelRet =>
      match dp s, rp s with
      | DAck, RSent => Some {| jobq := jobq s; wq := wq s; wk := wk s; dp := DDone; rp := RDone;
                               subm := subm s; started := started s; fin := fin s |}
      | _, _ => None end
  end.

Fixpoint run (s : st) (ls : list label) : option st :=
  match ls with [] => Some s | l :: r => match step s l with Some s' => run s' r | None => None end end.

(* ---------- derived views ---------- *)
Definition running (l : list wpc) : list nat := flat_map (fun p => match p with WRun j => [j] | _ => [] end) l.
Definition held (d : dpc) : list nat := match d with DHave j | DHand j _ => [j] | _ => [] end.
Definition pre_release (d : dpc) : bool := match d with DSel | DHave _ | DHand _ _ => true | _ => false end.
Definition ndone (l : list wpc) : nat := length (filter (fun p => match p with WDone => true | _ => false end) l).

(* ---------- invariant ---------- *)
Definition Inv (s : st) : Prop :=
  length (wk s) = W /\
  Permutation (subm s) (jobq s ++ held (dp s) ++ running (wk s) ++ fin s) /\
  Permutation (started s) (running (wk s) ++ fin s) /\
  NoDup (wq s) /\ (forall w, In w (wq s) -> nth_error (wk s) w = Some WWait) /\
  (forall j w, dp s = DHand j w -> nth_error (wk s) w = Some WWait /\ ~ In w (wq s)) /\
  (forall i w, dp s = DStop i w -> nth_error (wk s) w = Some WWait /\ ~ In w (wq s) /\ ndone (wk s) = i /\ i < W) /\
  (forall i w, dp s = DWaitAck i w -> nth_error (wk s) w = Some WStopping /\ ~ In w (wq s) /\ ndone (wk s) = i /\ i < W) /\
  (forall i, dp s = DCollect i -> ndone (wk s) = i) /\
  ((dp s = DAck \/ dp s = DDone) -> ndone (wk s) = W) /\
  (rp s = RDone -> dp s = DDone) /\
  (rp s = RNot -> pre_release (dp s) = true /\ ndone (wk s) = 0).
End Pool.
