From Coq Require Import List NArith ZArith Lia Bool Arith Sorted.
From Coq Require Import ZifyN ZifyNat ZifyBool.
Require Import Wire Skip SkipProofs.
Import ListNotations.
Ltac Zify.zify_post_hook ::= Z.div_mod_to_equations.
Open Scope N_scope.

(* model of Reader.SkipToNoCheck: scan heads in tag order; stop (without consuming) at a larger tag
   or at StructEnd; skip smaller tags *)
Inductive seek := Found (ty : N) (rest : list N) | NotFound (rest : list N) | SeekErr.

Fixpoint skip_to_no_check (fuel : nat) (tag : N) (require : bool) (bs : list N) : seek :=
  match fuel with
  | O => SeekErr
  | S f =>
    match read_head bs with
    | None => if require then SeekErr else NotFound []
    | Some (ty, tg, r) =>
        if (ty =? tSE) || (tag <? tg) then (if require then SeekErr else NotFound bs)
        else if tg =? tag then Found ty r
        else match skip_field f ty r with
             | (SOk, r') => skip_to_no_check f tag require r'
             | _ => SeekErr
             end
    end
  end.

Definition tags_lt (t : N) (fs : list (N * wf)) := Forall (fun p => fst p < t) fs.
Definition tags_gt (t : N) (fs : list (N * wf)) := Forall (fun p => t < fst p) fs.

Lemma ser_fields_app a b : ser_fields (a ++ b) = ser_fields a ++ ser_fields b.
Proof. induction a; cbn; [reflexivity|]. now rewrite IHa, app_assoc. Qed.

(* the wanted field is present: every smaller-tagged field before it is skipped exactly *)
Lemma seek_found pre : forall t w post rest req fuel,
  fields_ok pre -> tags_lt t pre -> t < 256 ->
  (2 * length (ser_fields (pre ++ (t, w) :: post) ++ rest) + 3 <= fuel)%nat ->
  skip_to_no_check fuel t req (ser_fields (pre ++ (t, w) :: post) ++ rest)
  = Found (ty_of w) (ser_body w ++ ser_fields post ++ rest).
Proof.
  induction pre as [|[t0 w0] pre IH]; intros t w post rest req fuel Hok Hlt Ht Hf.
  - destruct fuel as [|f]; [lia|]. cbn [app ser_fields skip_to_no_check]. unfold ser_field. cbn [fst snd].
    rewrite <- !app_assoc. rewrite read_head_head by hd.
    rewrite ty_of_not_se. cbn [orb]. replace (t <? t) with false by lia. rewrite N.eqb_refl. reflexivity.
  - inversion Hok as [|? ? [Ht0 Hw0] Hok']; subst. inversion Hlt as [|? ? Hlt0 Hlt']; subst. cbn in Ht0, Hw0, Hlt0.
    destruct fuel as [|f]; [lia|]. cbn [app ser_fields skip_to_no_check]. unfold ser_field at 1. cbn [fst snd].
    rewrite <- !app_assoc. rewrite read_head_head by hd.
    rewrite ty_of_not_se. cbn [orb]. replace (t <? t0) with false by lia. replace (t0 =? t) with false by lia.
    rewrite (skip_exact w0 Hw0).
    + apply IH; auto. cbn [app ser_fields] in Hf. unfold ser_field at 1 in Hf. cbn [fst snd] in Hf.
      rewrite <- !app_assoc in Hf. rewrite !app_length in *. pose proof (head_length (ty_of w0) t0). lia.
    + cbn [app ser_fields] in Hf. unfold ser_field at 1 in Hf. cbn [fst snd] in Hf.
      rewrite <- !app_assoc in Hf. rewrite !app_length in *. pose proof (head_length (ty_of w0) t0). lia.
Qed.

(* the wanted optional field is absent: the scan stops, without consuming, at the first larger tag,
   at the enclosing StructEnd, or at the end of input *)
Inductive stops_at (t : N) : list N -> Prop :=
| stop_end : stops_at t []
| stop_se rest : stops_at t (head tSE 0 ++ rest)
| stop_gt t' w rest : t < t' -> t' < 256 -> stops_at t (ser_field (t', w) ++ rest).

Lemma seek_absent pre : forall t tail fuel,
  fields_ok pre -> tags_lt t pre -> stops_at t tail ->
  (2 * length (ser_fields pre ++ tail) + 3 <= fuel)%nat ->
  skip_to_no_check fuel t false (ser_fields pre ++ tail) = NotFound tail.
Proof.
  induction pre as [|[t0 w0] pre IH]; intros t tail fuel Hok Hlt Hstop Hf.
  - destruct fuel as [|f]; [lia|]. cbn [app ser_fields skip_to_no_check].
    destruct Hstop as [|rest|t' w rest Hgt Ht'].
    + reflexivity.
    + rewrite read_head_head by hd. reflexivity.
    + unfold ser_field. cbn [fst snd]. rewrite <- app_assoc. rewrite read_head_head by hd.
      rewrite ty_of_not_se. cbn [orb]. replace (t <? t') with true by lia. now rewrite <- ?app_assoc.
  - inversion Hok as [|? ? [Ht0 Hw0] Hok']; subst. inversion Hlt as [|? ? Hlt0 Hlt']; subst. cbn in Ht0, Hw0, Hlt0.
    destruct fuel as [|f]; [lia|]. cbn [app ser_fields skip_to_no_check]. unfold ser_field at 1. cbn [fst snd].
    rewrite <- !app_assoc. rewrite read_head_head by hd.
    rewrite ty_of_not_se. cbn [orb]. replace (t <? t0) with false by lia. replace (t0 =? t) with false by lia.
    cbn [app ser_fields] in Hf. unfold ser_field at 1 in Hf. cbn [fst snd] in Hf.
    rewrite <- !app_assoc in Hf. rewrite !app_length in Hf. pose proof (head_length (ty_of w0) t0).
    rewrite (skip_exact w0 Hw0) by (rewrite !app_length; lia).
    apply IH; auto. rewrite !app_length. lia.
Qed.

(* a required field that is absent is an error *)
Lemma seek_required_absent pre : forall t tail fuel,
  fields_ok pre -> tags_lt t pre -> stops_at t tail ->
  (2 * length (ser_fields pre ++ tail) + 3 <= fuel)%nat ->
  skip_to_no_check fuel t true (ser_fields pre ++ tail) = SeekErr.
Proof.
  induction pre as [|[t0 w0] pre IH]; intros t tail fuel Hok Hlt Hstop Hf.
  - destruct fuel as [|f]; [lia|]. cbn [app ser_fields skip_to_no_check].
    destruct Hstop as [|rest|t' w rest Hgt Ht'].
    + reflexivity.
    + rewrite read_head_head by hd. reflexivity.
    + unfold ser_field. cbn [fst snd]. rewrite <- app_assoc. rewrite read_head_head by hd.
      rewrite ty_of_not_se. cbn [orb]. replace (t <? t') with true by lia. reflexivity.
  - inversion Hok as [|? ? [Ht0 Hw0] Hok']; subst. inversion Hlt as [|? ? Hlt0 Hlt']; subst. cbn in Ht0, Hw0, Hlt0.
    destruct fuel as [|f]; [lia|]. cbn [app ser_fields skip_to_no_check]. unfold ser_field at 1. cbn [fst snd].
    rewrite <- !app_assoc. rewrite read_head_head by hd.
    rewrite ty_of_not_se. cbn [orb]. replace (t <? t0) with false by lia. replace (t0 =? t) with false by lia.
    cbn [app ser_fields] in Hf. unfold ser_field at 1 in Hf. cbn [fst snd] in Hf.
    rewrite <- !app_assoc in Hf. rewrite !app_length in Hf. pose proof (head_length (ty_of w0) t0).
    rewrite (skip_exact w0 Hw0) by (rewrite !app_length; lia).
    apply IH; auto. rewrite !app_length. lia.
Qed.
Print Assumptions seek_found.
Print Assumptions seek_absent.
