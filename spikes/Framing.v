From Coq Require Import List NArith Lia Bool Arith.
From Coq Require Import ZifyN ZifyNat ZifyBool.
Import ListNotations.
Open Scope N_scope.

(* ---------- model of protocol.TarsRequest and of the receive loops ---------- *)
Inductive pstat := Less | Full (n : nat) | Bad.

Definition hdr (buf : list N) : option N :=
  match buf with a :: b :: c :: d :: _ => Some (((a * 256 + b) * 256 + c) * 256 + d) | _ => None end.

Definition tars_request (max : N) (buf : list N) : pstat :=
  match hdr buf with
  | None => Less
  | Some l => if (l <? 4) || (max <? l) then Bad
              else if N.of_nat (length buf) <? l then Less else Full (N.to_nat l)
  end.

(* inner loop: returns delivered packets and Some remainder, or None when the connection is closed *)
Fixpoint drain (fuel : nat) (max : N) (buf : list N) : list (list N) * option (list N) :=
  match fuel with
  | O => ([], Some buf)
  | S f => match tars_request max buf with
           | Less => ([], Some buf)
           | Bad => ([], None)
           | Full n => let '(ps, r) := drain f max (skipn n buf) in (firstn n buf :: ps, r)
           end
  end.
Definition drain' max buf := drain (S (length buf)) max buf.

(* outer loop over the chunks returned by conn.Read *)
Fixpoint recv_loop (max : N) (cur : list N) (chunks : list (list N)) : list (list N) * option (list N) :=
  match chunks with
  | [] => ([], Some cur)
  | c :: cs => match drain' max (cur ++ c) with
               | (ps, None) => (ps, None)
               | (ps, Some cur') => let '(ps', r) := recv_loop max cur' cs in (ps ++ ps', r)
               end
  end.

(* ---------- proofs ---------- *)
Lemma tars_request_full max buf n : tars_request max buf = Full n ->
  (4 <= n <= length buf)%nat /\ hdr buf = Some (N.of_nat n) /\ N.of_nat n <= max.
Proof.
  unfold tars_request. destruct (hdr buf) as [l|] eqn:E; [|discriminate].
  destruct ((l <? 4) || (max <? l)) eqn:E1; [discriminate|].
  destruct (N.of_nat (length buf) <? l) eqn:E2; [discriminate|].
  intros H; inversion H; subst. repeat split; try lia. f_equal. lia.
Qed.

Lemma hdr_app buf more l : hdr buf = Some l -> hdr (buf ++ more) = Some l.
Proof. destruct buf as [|a [|b [|c [|d r]]]]; cbn; try discriminate. auto. Qed.

Lemma drain_fuel f1 : forall f2 max buf, (length buf < f1)%nat -> (length buf < f2)%nat ->
  drain f1 max buf = drain f2 max buf.
Proof.
  induction f1; intros f2 max buf H1 H2; [lia|]. destruct f2; [lia|]. cbn.
  destruct (tars_request max buf) eqn:E; try reflexivity.
  apply tars_request_full in E. destruct E as ([A B] & _).
  rewrite (IHf1 f2); [reflexivity| |]; rewrite skipn_length; lia.
Qed.

(* incrementality: draining a buffer and later its remainder plus more input
   is the same as draining everything at once *)
Lemma drain_app f : forall max buf more, (length buf < f)%nat ->
  drain' max (buf ++ more) =
  match drain f max buf with
  | (ps, None) => (ps, None)
  | (ps, Some r) => let '(ps', r') := drain' max (r ++ more) in (ps ++ ps', r')
  end.
Proof.
  induction f; intros max buf more Hf; [lia|]. cbn [drain].
  destruct (tars_request max buf) eqn:E.
  - cbn [app]. destruct (drain' max (buf ++ more)); reflexivity.
  - pose proof (tars_request_full _ _ _ E) as ([A B] & Hh & Hm).
    unfold drain' at 1. cbn [drain].
    assert (E' : tars_request max (buf ++ more) = Full n).
    { unfold tars_request in *. rewrite (hdr_app _ more _ Hh). rewrite Hh in E.
      destruct ((N.of_nat n <? 4) || (max <? N.of_nat n)) eqn:E1; [discriminate|].
      rewrite app_length.
      destruct (N.of_nat (length buf + length more) <? N.of_nat n) eqn:E2; [lia|].
      f_equal. lia. }
    rewrite E'. rewrite firstn_app, skipn_app.
    replace (n - length buf)%nat with 0%nat by lia. cbn [firstn skipn]. rewrite app_nil_r.
    specialize (IHf max (skipn n buf) more ltac:(rewrite skipn_length; lia)).
    unfold drain' in IHf.
    rewrite (drain_fuel _ (S (length (skipn n buf ++ more)))); [| rewrite !app_length, skipn_length in *; lia | lia].
    rewrite IHf. unfold drain'. destruct (drain f max (skipn n buf)) as [ps [r|]].
    + destruct (drain (S (length (r ++ more))) max (r ++ more)). reflexivity.
    + reflexivity.
  - unfold drain'. cbn [drain].
    assert (E' : tars_request max (buf ++ more) = Bad).
    { unfold tars_request in *. destruct (hdr buf) as [l|] eqn:Hh; [|discriminate].
      rewrite (hdr_app _ more _ Hh).
      destruct ((l <? 4) || (max <? l)) eqn:E1; [reflexivity|].
      destruct (N.of_nat (length buf) <? l); discriminate. }
    rewrite E'. reflexivity.
Qed.

Definition stable max cur := drain' max cur = ([], Some cur).

Lemma drain_stable f : forall max buf ps r, drain f max buf = (ps, Some r) -> (length buf < f)%nat -> stable max r.
Proof.
  induction f; intros max buf ps r H Hf; [lia|]. cbn in H.
  destruct (tars_request max buf) eqn:E.
  - inversion H; subst. unfold stable, drain'. cbn. rewrite E. reflexivity.
  - destruct (drain f max (skipn n buf)) as [ps' r'] eqn:D. inversion H; subst.
    apply tars_request_full in E. eapply IHf; [exact D|]. rewrite skipn_length. lia.
  - discriminate.
Qed.

(* Independence of segmentation: whatever the chunking (single bytes, coalesced packets, cuts inside
   the header), the receive loop delivers exactly what one pass over the whole stream delivers, in
   the same order, and ends in the same state (same remainder, or closed) *)
Theorem recv_loop_concat max : forall chunks cur, stable max cur ->
  recv_loop max cur chunks = drain' max (cur ++ concat chunks).
Proof.
  induction chunks as [|c cs IH]; intros cur Hs.
  - cbn. rewrite app_nil_r. symmetry. exact Hs.
  - cbn [recv_loop concat]. rewrite app_assoc.
    rewrite (drain_app (S (length (cur ++ c))) max (cur ++ c) (concat cs)) by lia.
    fold (drain' max (cur ++ c)).
    destruct (drain' max (cur ++ c)) as [ps [r|]] eqn:D; [|reflexivity].
    rewrite IH; [reflexivity|]. unfold drain' in D. eapply drain_stable; [exact D|lia].
Qed.

(* what one pass delivers: exactly the packets that were sent *)
Definition valid (max : N) (pk : list N) : Prop :=
  hdr pk = Some (N.of_nat (length pk)) /\ (4 <= length pk)%nat /\ N.of_nat (length pk) <= max.

Lemma tars_request_valid max pk rest : valid max pk -> tars_request max (pk ++ rest) = Full (length pk).
Proof.
  intros (Hh & H4 & Hm). unfold tars_request. rewrite (hdr_app _ rest _ Hh).
  destruct ((N.of_nat (length pk) <? 4) || (max <? N.of_nat (length pk))) eqn:E1; [lia|].
  rewrite app_length. destruct (N.of_nat (length pk + length rest) <? N.of_nat (length pk)) eqn:E2; [lia|].
  f_equal. lia.
Qed.

Lemma drain_packets max pks : Forall (valid max) pks -> forall tail,
  drain' max (concat pks ++ tail) =
  let '(ps, r) := drain' max tail in (pks ++ ps, r).
Proof.
  induction 1 as [|pk pks Hv _ IH]; intros tail.
  - cbn [concat app]. destruct (drain' max tail). reflexivity.
  - cbn [concat]. rewrite <- app_assoc. unfold drain' at 1. cbn [drain].
    rewrite (tars_request_valid _ _ _ Hv).
    rewrite firstn_app, skipn_app, Nat.sub_diag, firstn_all, skipn_all. cbn [firstn skipn app]. rewrite app_nil_r.
    destruct Hv as (_ & H4 & _).
    rewrite (drain_fuel _ (S (length (concat pks ++ tail)))); [| rewrite !app_length in *; lia | lia].
    fold (drain' max (concat pks ++ tail)). rewrite IH. destruct (drain' max tail). reflexivity.
Qed.

(* C07, assembled *)
Theorem C07_reassembly max pks chunks : Forall (valid max) pks -> concat chunks = concat pks ->
  recv_loop max [] chunks = (pks, Some []).
Proof.
  intros Hv Hc. rewrite recv_loop_concat by reflexivity. cbn [app]. rewrite Hc.
  rewrite <- (app_nil_r (concat pks)). rewrite drain_packets by assumption. cbn. now rewrite app_nil_r.
Qed.

Theorem C07_partial max pks q chunks : Forall (valid max) pks -> tars_request max q = Less ->
  concat chunks = concat pks ++ q -> recv_loop max [] chunks = (pks, Some q).
Proof.
  intros Hv Hq Hc. rewrite recv_loop_concat by reflexivity. cbn [app]. rewrite Hc.
  rewrite drain_packets by assumption. unfold drain'. cbn [drain]. rewrite Hq. now rewrite app_nil_r.
Qed.

Theorem C07_error max pks bad junk l chunks : Forall (valid max) pks ->
  hdr bad = Some l -> (l < 4 \/ max < l) ->
  concat chunks = concat pks ++ bad ++ junk -> recv_loop max [] chunks = (pks, None).
Proof.
  intros Hv Hh Hl Hc. rewrite recv_loop_concat by reflexivity. cbn [app]. rewrite Hc.
  rewrite drain_packets by assumption. unfold drain'. cbn [drain].
  unfold tars_request. rewrite (hdr_app _ junk _ Hh).
  destruct ((l <? 4) || (max <? l)) eqn:E; [|lia]. now rewrite app_nil_r.
Qed.

(* non-vacuity: a 5-byte packet and a 4-byte packet, max = 5, delivered from single-byte chunks *)
Example C07_example :
  recv_loop 5 [] [[0];[0];[0];[5];[9];[0];[0];[0];[4]] = ([[0;0;0;5;9];[0;0;0;4]], Some []).
Proof. vm_compute. reflexivity. Qed.
Print Assumptions C07_reassembly.
Print Assumptions C07_error.
