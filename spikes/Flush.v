From Coq Require Import List Arith Lia Bool.
Import ListNotations.

(* LTS model of rogger.flushLog / FlushLogger; [fixed] selects the drained variant *)
Section Flush.
Variable cap : nat.
Variable fixed : bool.
Definition entry := nat.

Inductive pc := Top | Inner | Drain | Done.
Record st := { q : list entry; written : list entry; fpc : pc; req : bool;
               hist : list entry;   (* ghost: everything ever enqueued, in order *)
               pre : list entry }.  (* ghost: hist at the moment of the flush request *)

Inductive label := Enq (e : entry) | Request | PollTake | PollEmpty | InnerTake | InnerSync | DrainTake | DrainDone.

Definition init : st := {| q := []; written := []; fpc := Top; req := false; hist := []; pre := [] |}.

Definition step (s : st) (l : label) : option st :=
  match l with
  | Enq e => if length (q s) <? cap then
               Some {| q := q s ++ [e]; written := written s; fpc := fpc s; req := req s; hist := hist s ++ [e]; pre := pre s |}
             else None
  | Request => if req s then None else
               Some {| q := q s; written := written s; fpc := fpc s; req := true; hist := hist s; pre := hist s |}
  | PollTake => match fpc s, q s with
                | Top, e :: r => Some {| q := r; written := written s ++ [e]; fpc := Top; req := req s; hist := hist s; pre := pre s |}
                | _, _ => None end
  | PollEmpty => match fpc s, q s with
                 | Top, [] => Some {| q := []; written := written s; fpc := Inner; req := req s; hist := hist s; pre := pre s |}
                 | _, _ => None end
  | InnerTake => match fpc s, q s with
                 | Inner, e :: r => Some {| q := r; written := written s ++ [e]; fpc := Top; req := req s; hist := hist s; pre := pre s |}
                 | _, _ => None end
  | InnerSync => match fpc s with
                 | Inner => if req s then
                     Some {| q := q s; written := written s; fpc := if fixed then Drain else Done; req := true; hist := hist s; pre := pre s |}
                   else None
                 | _ => None end
  | DrainTake => match fpc s, q s with
                 | Drain, e :: r => Some {| q := r; written := written s ++ [e]; fpc := Drain; req := req s; hist := hist s; pre := pre s |}
                 | _, _ => None end
  | DrainDone => match fpc s, q s with
                 | Drain, [] => Some {| q := []; written := written s; fpc := Done; req := req s; hist := hist s; pre := pre s |}
                 | _, _ => None end
  end.

Fixpoint run (s : st) (ls : list label) : option st :=
  match ls with [] => Some s | l :: r => match step s l with Some s' => run s' r | None => None end end.

Definition prefix (a b : list entry) := exists c, b = a ++ c.

Definition Inv (s : st) : Prop :=
  hist s = written s ++ q s /\
  (req s = true -> prefix (pre s) (hist s)) /\
  (fpc s = Done -> fixed = true -> prefix (pre s) (written s)) /\
  (fpc s = Drain -> req s = true) /\ (fpc s = Done -> req s = true).

Lemma prefix_app a b c : prefix a b -> prefix a (b ++ c).
Proof. intros [d ->]. exists (d ++ c). now rewrite app_assoc. Qed.
Lemma prefix_refl a : prefix a a.
Proof. exists []. now rewrite app_nil_r. Qed.

Lemma Inv_init : Inv init.
Proof. repeat split; cbn; intros; try discriminate. Qed.

Ltac fin H1 H2 :=
  unfold Inv; cbn; repeat split; cbn; intros; auto; try discriminate;
  try (rewrite H1; rewrite <- ?app_assoc; cbn; rewrite ?app_nil_r; reflexivity);
  try (apply prefix_app; auto); try apply prefix_refl.

Lemma Inv_step s l s' : Inv s -> step s l = Some s' -> Inv s'.
Proof.
  intros (H1 & H2 & H3 & H4 & H5) Hs. destruct l; unfold step in Hs.
  - destruct (length (q s) <? cap); inversion Hs; subst; clear Hs. fin H1 H2.
  - destruct (req s) eqn:R; inversion Hs; subst; clear Hs. fin H1 H2.
    all: match goal with D : fpc _ = Done |- _ => specialize (H5 D); discriminate end.
  - destruct (fpc s) eqn:P; try discriminate. destruct (q s) eqn:Q; inversion Hs; subst; clear Hs. fin H1 H2.
  - destruct (fpc s) eqn:P; try discriminate. destruct (q s) eqn:Q; inversion Hs; subst; clear Hs. fin H1 H2.
  - destruct (fpc s) eqn:P; try discriminate. destruct (q s) eqn:Q; inversion Hs; subst; clear Hs. fin H1 H2.
  - destruct (fpc s) eqn:P; try discriminate. destruct (req s) eqn:R; inversion Hs; subst; clear Hs. fin H1 H2.
    all: match goal with F : fixed = true, D : (if fixed then _ else _) = _ |- _ => rewrite F in D; discriminate end.
  - destruct (fpc s) eqn:P; try discriminate. destruct (q s) eqn:Q; inversion Hs; subst; clear Hs. fin H1 H2.
  - destruct (fpc s) eqn:P; try discriminate. destruct (q s) eqn:Q; inversion Hs; subst; clear Hs. fin H1 H2.
    rewrite app_nil_r in H1. rewrite <- H1. apply H2. auto.
Qed.

Lemma run_inv ls : forall s s', Inv s -> run s ls = Some s' -> Inv s'.
Proof.
  induction ls as [|l ls IH]; cbn; intros s s' HI Hr. { now inversion Hr; subst. }
  destruct (step s l) eqn:E; [|discriminate]. eapply IH; [eapply Inv_step; eauto|eauto].
Qed.

(* every reachable state, every schedule, every number of entries *)
Theorem written_once_in_order ls s : run init ls = Some s -> hist s = written s ++ q s.
Proof. intros H. apply (run_inv ls init s Inv_init H). Qed.

Theorem flush_complete ls s : fixed = true -> run init ls = Some s -> fpc s = Done ->
  prefix (pre s) (written s).
Proof. intros F H D. destruct (run_inv ls init s Inv_init H) as (_ & _ & H3 & _). auto. Qed.
End Flush.

(* the unchanged code: a 4-step schedule loses the entry *)
Example flush_refuted : exists ls s, run 10 false (init) ls = Some s /\ fpc s = Done /\ pre s = [7] /\ written s = [].
Proof. exists [PollEmpty; Enq 7; Request; InnerSync]. eexists. vm_compute. repeat split. Qed.
(* non-vacuity for the fixed model *)
Example flush_fixed_example : exists s, run 10 true (init) [PollEmpty; Enq 7; Request; InnerSync; DrainTake; DrainDone] = Some s /\ fpc s = Done /\ written s = [7].
Proof. eexists. vm_compute. repeat split. Qed.
Print Assumptions flush_complete.
