From Coq Require Import List NArith ZArith Lia Bool Arith.
From Coq Require Import ZifyN ZifyNat ZifyBool.
Import ListNotations.
Ltac Zify.zify_post_hook ::= Z.div_mod_to_equations.
Open Scope N_scope.

(* ---------- bytes, heads ---------- *)
Definition tBYTE := 0.  Definition tSHORT := 1. Definition tINT := 2.   Definition tLONG := 3.
Definition tFLOAT := 4. Definition tDOUBLE := 5. Definition tSTR1 := 6. Definition tSTR4 := 7.
Definition tMAP := 8.   Definition tLIST := 9.   Definition tSB := 10.  Definition tSE := 11.
Definition tZERO := 12. Definition tSIMPLE := 13.

Definition head (ty tag : N) : list N :=
  if tag <? 15 then [tag * 16 + ty] else [240 + ty; tag].

Definition read_head (bs : list N) : option (N * N * list N) :=
  match bs with
  | [] => None
  | b :: r =>
      let ty := b mod 16 in let tg := b / 16 in
      if tg =? 15 then match r with [] => None | t :: r' => Some (ty, t, r') end
      else Some (ty, tg, r)
  end.

Lemma read_head_head ty tag rest : ty < 16 -> tag < 256 ->
  read_head (head ty tag ++ rest) = Some (ty, tag, rest).
Proof.
  intros Hty Htag. unfold head, read_head.
  destruct (tag <? 15) eqn:E; cbn [app].
  - assert ((tag * 16 + ty) mod 16 = ty) as -> by lia.
    assert ((tag * 16 + ty) / 16 = tag) as -> by lia.
    destruct (tag =? 15) eqn:E2; [lia|reflexivity].
  - assert ((240 + ty) mod 16 = ty) as -> by lia.
    assert ((240 + ty) / 16 = 15) as -> by lia.
    reflexivity.
Qed.

Lemma head_length ty tag : (1 <= length (head ty tag))%nat.
Proof. unfold head; destruct (tag <? 15); cbn; lia. Qed.

(* big-endian, MSB first *)
Fixpoint be (n : nat) (v : N) : list N :=
  match n with O => [] | S k => be k (v / 256) ++ [v mod 256] end.
Lemma be_length n : forall v, length (be n v) = n.
Proof. induction n; cbn; intros; [reflexivity|]. rewrite app_length, IHn. cbn. lia. Qed.

(* Go's bytes.Reader.Read into a zeroed n-byte array + BigEndian.UintN: short reads are zero-padded,
   error only when nothing at all is left *)
Fixpoint read_pad (n : nat) (acc : N) (bs : list N) : N * list N :=
  match n with
  | O => (acc, bs)
  | S k => match bs with
           | [] => read_pad k (acc * 256) []
           | b :: r => read_pad k (acc * 256 + b) r
           end
  end.
Definition bread (n : nat) (bs : list N) : option (N * list N) :=
  match bs with [] => None | _ => Some (read_pad n 0 bs) end.

Lemma read_pad_be n : forall v acc rest, v < 256 ^ N.of_nat n ->
  read_pad n acc (be n v ++ rest) = (acc * 256 ^ N.of_nat n + v, rest).
Proof.
  induction n; intros v acc rest Hv.
  - cbn in *. f_equal. lia.
  - cbn [be]. rewrite <- app_assoc. cbn [app].
    (* peel: read_pad (S n) over (be n hi ++ lo :: rest) *)
    assert (Hgen : forall m a l x r, length l = m ->
              read_pad (S m) a (l ++ x :: r) =
              let '(a', _) := read_pad m a (l ++ [x]) in (a' * 256 + x, r)).
    { clear. induction m; intros a l x r Hl.
      - destruct l; [|discriminate]. cbn. reflexivity.
      - destruct l as [|y l]; [discriminate|]. cbn in Hl. injection Hl as Hl.
        cbn [app]. change (read_pad (S (S m)) a (y :: l ++ x :: r)) with (read_pad (S m) (a * 256 + y) (l ++ x :: r)).
        rewrite (IHm _ _ _ _ Hl). cbn [read_pad app]. reflexivity. }
    rewrite (Hgen n acc (be n (v / 256)) (v mod 256) rest (be_length _ _)).
    assert (Hhi : v / 256 < 256 ^ N.of_nat n).
    { rewrite Nnat.Nat2N.inj_succ, N.pow_succ_r' in Hv. apply N.div_lt_upper_bound; lia. }
    pose proof (IHn (v / 256) acc [v mod 256] Hhi) as E. rewrite E.
    f_equal. rewrite Nnat.Nat2N.inj_succ, N.pow_succ_r'.
    pose proof (N.div_mod v 256 ltac:(lia)). lia.
Qed.
