(* C18 model: endpoint.Parse (strings.Fields + the flag package's argument loop for this flag set),
   Endpoint.String (the cache key), Tars2endpoint / Endpoint2tars. Strings are byte lists.
   Modelled alphabet: ASCII (bytes < 128); integers in decimal (flag parses with base 0: tokens with
   leading zeros, base prefixes or underscores are outside the model and are not compared). *)
From Coq Require Import List NArith ZArith Bool Lia.
From Coq Require Import DecimalZ DecimalPos Decimal.
From TarsV Require Import Base.Hex.
Import ListNotations.
Open Scope Z_scope.

Inductive outcome (A : Type) := Ok (a : A) | Panic (site : N).
Arguments Ok {A} a. Arguments Panic {A} site.

(* Go slicing s[:n] and l[1:] : panic sites made explicit *)
Definition go_slice_to (s : list N) (n : nat) : outcome (list N) :=
  if (n <=? length s)%nat then Ok (firstn n s) else Panic 1%N.
Definition go_tail1 {A} (l : list A) : outcome (list A) :=
  match l with [] => Panic 2%N | _ :: t => Ok t end.

(* ---------- strings.Fields on ASCII ---------- *)
Definition is_space (c : N) : bool :=
  (N.eqb c 32 || N.eqb c 9 || N.eqb c 10 || N.eqb c 11 || N.eqb c 12 || N.eqb c 13)%bool.

Fixpoint fields_aux (cur : list N) (s : list N) : list (list N) :=
  match s with
  | [] => match cur with [] => [] | _ => [List.rev cur] end
  | c :: r => if is_space c
              then match cur with [] => fields_aux [] r | _ => List.rev cur :: fields_aux [] r end
              else fields_aux (c :: cur) r
  end.
Definition fields (s : list N) : list (list N) := fields_aux [] s.

(* ---------- strconv.ParseInt(s, 0, 64) restricted to decimal ---------- *)
Definition digit_of (c : N) : option Z :=
  if (N.leb 48 c && N.leb c 57)%bool then Some (Z.of_N c - 48) else None.

Fixpoint dec_value (acc : Z) (s : list N) : option Z :=
  match s with
  | [] => Some acc
  | c :: r => match digit_of c with Some d => dec_value (acc * 10 + d) r | None => None end
  end.

Definition max64 : Z := 9223372036854775807.
Definition min64 : Z := -9223372036854775808.

(* value stored into the flag variable, and whether Set succeeded *)
Definition parse_int64 (s : list N) : Z * bool :=
  let '(neg, body) := match s with
                      | 45%N :: r => (true, r)
                      | 43%N :: r => (false, r)
                      | _ => (false, s)
                      end in
  match body with
  | [] => (0, false)
  | _ => match dec_value 0 body with
         | None => (0, false)
         | Some v => let v := if neg then - v else v in
                     if v >? max64 then (max64, false)
                     else if v <? min64 then (min64, false) else (v, true)
         end
  end.

Definition wrap32 (z : Z) : Z := (z + 2147483648) mod 4294967296 - 2147483648.

(* ---------- the flag set ---------- *)
Record fstate := { f_h : list N; f_p : Z; f_t : Z; f_g : Z; f_q : Z; f_w : Z; f_v : Z; f_e : Z; f_b : list N }.
Definition fdefault : fstate :=
  {| f_h := []; f_p := 0; f_t := 3000; f_g := 0; f_q := 0; f_w := -1; f_v := 0; f_e := 0; f_b := [] |}.

Inductive fname := Fh | Fp | Ft | Fg | Fq | Fw | Fv | Fe | Fb.
Definition fname_of (name : list N) : option fname :=
  match name with
  | [104%N] => Some Fh | [112%N] => Some Fp | [116%N] => Some Ft | [103%N] => Some Fg
  | [113%N] => Some Fq | [119%N] => Some Fw | [118%N] => Some Fv | [101%N] => Some Fe
  | [98%N] => Some Fb | _ => None
  end.
Definition fname_char (f : fname) : N :=
  match f with Fh => 104 | Fp => 112 | Ft => 116 | Fg => 103 | Fq => 113 | Fw => 119 | Fv => 118 | Fe => 101 | Fb => 98 end%N.

Definition set_int (f : fname) (z : Z) (st : fstate) : fstate :=
  match f with
  | Fp => {| f_h := f_h st; f_p := z; f_t := f_t st; f_g := f_g st; f_q := f_q st; f_w := f_w st; f_v := f_v st; f_e := f_e st; f_b := f_b st |}
  | Ft => {| f_h := f_h st; f_p := f_p st; f_t := z; f_g := f_g st; f_q := f_q st; f_w := f_w st; f_v := f_v st; f_e := f_e st; f_b := f_b st |}
  | Fg => {| f_h := f_h st; f_p := f_p st; f_t := f_t st; f_g := z; f_q := f_q st; f_w := f_w st; f_v := f_v st; f_e := f_e st; f_b := f_b st |}
  | Fq => {| f_h := f_h st; f_p := f_p st; f_t := f_t st; f_g := f_g st; f_q := z; f_w := f_w st; f_v := f_v st; f_e := f_e st; f_b := f_b st |}
  | Fw => {| f_h := f_h st; f_p := f_p st; f_t := f_t st; f_g := f_g st; f_q := f_q st; f_w := z; f_v := f_v st; f_e := f_e st; f_b := f_b st |}
  | Fv => {| f_h := f_h st; f_p := f_p st; f_t := f_t st; f_g := f_g st; f_q := f_q st; f_w := f_w st; f_v := z; f_e := f_e st; f_b := f_b st |}
  | Fe => {| f_h := f_h st; f_p := f_p st; f_t := f_t st; f_g := f_g st; f_q := f_q st; f_w := f_w st; f_v := f_v st; f_e := z; f_b := f_b st |}
  | _ => st
  end.
Definition set_str (f : fname) (s : list N) (st : fstate) : fstate :=
  match f with
  | Fh => {| f_h := s; f_p := f_p st; f_t := f_t st; f_g := f_g st; f_q := f_q st; f_w := f_w st; f_v := f_v st; f_e := f_e st; f_b := f_b st |}
  | Fb => {| f_h := f_h st; f_p := f_p st; f_t := f_t st; f_g := f_g st; f_q := f_q st; f_w := f_w st; f_v := f_v st; f_e := f_e st; f_b := s |}
  | _ => st
  end.
Definition is_str (f : fname) : bool := match f with Fh | Fb => true | _ => false end.

(* Value.Set: the variable is overwritten even when the conversion fails *)
Definition set_flag (f : fname) (v : list N) (st : fstate) : fstate * bool :=
  if is_str f then (set_str f v st, true)
  else let '(z, ok) := parse_int64 v in (set_int f z st, ok).

(* one argument of the form -name, --name, -name=value *)
Inductive ftoken := Stop | Flag (name : list N) (hasv : bool) (value : list N).

Fixpoint split_eq (pre : list N) (s : list N) : option (list N * list N) :=
  match s with
  | [] => None
  | c :: r => if N.eqb c 61 then Some (List.rev pre, r) else split_eq (c :: pre) r
  end.

Definition flag_token (s : list N) : ftoken :=
  match s with
  | 45%N :: c :: r =>
      let name := if N.eqb c 45 then r else c :: r in
      match name with
      | [] => Stop                                   (* "--" terminates the flags *)
      | n0 :: nr => if (N.eqb n0 45 || N.eqb n0 61)%bool then Stop   (* bad flag syntax *)
                    else match split_eq [n0] nr with   (* '=' cannot be first *)
                         | Some (nm, v) => Flag nm true v
                         | None => Flag name false []
                         end
      end
  | _ => Stop                                        (* shorter than 2 or not starting with '-' *)
  end.

Fixpoint flag_loop (fuel : nat) (args : list (list N)) (st : fstate) : fstate :=
  match fuel with
  | O => st
  | S fu =>
    match args with
    | [] => st
    | s :: rest =>
      match flag_token s with
      | Stop => st
      | Flag name hasv value =>
        match fname_of name with
        | None => st                                  (* flag provided but not defined / help *)
        | Some f =>
          match (if hasv then Some (value, rest)
                 else match rest with v :: r => Some (v, r) | [] => None end) with
          | None => st                                (* flag needs an argument *)
          | Some (v, rest') =>
              let '(st', ok) := set_flag f v st in
              if ok then flag_loop fu rest' st' else st'
          end
        end
      end
    end
  end.
Definition flag_parse (args : list (list N)) (st : fstate) : fstate := flag_loop (length args) args st.

(* ---------- Endpoint ---------- *)
Record ep := { host : list N; port : Z; timeout : Z; istcp : Z; grid : Z; qos : Z; weight : Z;
               wtype : Z; auth : Z; proto : list N; bind : list N; setid : list N; key : list N }.

Definition s_tcp : list N := [116; 99; 112]%N.
Definition s_udp : list N := [117; 100; 112]%N.
Definition s_ssl : list N := [115; 115; 108]%N.

(* fmt %d *)
Fixpoint uint_bytes (u : Decimal.uint) : list N :=
  match u with
  | Nil => []
  | D0 r => 48%N :: uint_bytes r | D1 r => 49%N :: uint_bytes r | D2 r => 50%N :: uint_bytes r
  | D3 r => 51%N :: uint_bytes r | D4 r => 52%N :: uint_bytes r | D5 r => 53%N :: uint_bytes r
  | D6 r => 54%N :: uint_bytes r | D7 r => 55%N :: uint_bytes r | D8 r => 56%N :: uint_bytes r
  | D9 r => 57%N :: uint_bytes r
  end.
Definition dec (z : Z) : list N :=
  match Z.to_int z with
  | Decimal.Pos u => uint_bytes u
  | Decimal.Neg u => 45%N :: uint_bytes u
  end.

Definition key_of (pr h : list N) (p t : Z) : list N :=
  pr ++ [32; 45; 104; 32]%N ++ h ++ [32; 45; 112; 32]%N ++ dec p ++ [32; 45; 116; 32]%N ++ dec t.

Definition build (pr0 : list N) (st : fstate) : ep :=
  let '(pr, tcp) := if bytes_eqb pr0 s_tcp then (s_tcp, 1)
                    else if bytes_eqb pr0 s_ssl then (s_tcp, 2) else (pr0, 0) in
  let w := if (negb (f_v st =? 0) && ((f_w st =? -1) || (f_w st >? 100)))%bool then 100 else f_w st in
  let p := wrap32 (f_p st) in let t := wrap32 (f_t st) in
  {| host := f_h st; port := p; timeout := t; istcp := tcp; grid := wrap32 (f_g st); qos := wrap32 (f_q st);
     weight := wrap32 w; wtype := wrap32 (f_v st); auth := wrap32 (f_e st); proto := pr; bind := f_b st;
     setid := []; key := key_of pr (f_h st) p t |}.

(* endpoint.Parse, with the guards of the repaired code: the protocol is the first three bytes (the whole
   string when shorter), the flags are the fields after the first (none when there is no field) *)
Definition parse (s : list N) : outcome ep :=
  match (if (3 <? length s)%nat then go_slice_to s 3 else Ok s) with
  | Panic k => Panic k
  | Ok pr =>
    let fs := fields s in
    match (match fs with [] => Ok [] | _ => go_tail1 fs end) with
    | Panic k => Panic k
    | Ok args => Ok (build pr (flag_parse args fdefault))
    end
  end.

(* the code as it was before the repair: unguarded slicing *)
Definition parse_unguarded (s : list N) : outcome ep :=
  match go_slice_to s 3 with
  | Panic k => Panic k
  | Ok pr => match go_tail1 (fields s) with
             | Panic k => Panic k
             | Ok args => Ok (build pr (flag_parse args fdefault))
             end
  end.

(* registry structure (endpointf.EndpointF): the fields the conversions copy *)
Record epf := { fhost : list N; fport : Z; ftimeout : Z; fistcp : Z; fgrid : Z; fqos : Z; fweight : Z;
                fwtype : Z; fauth : Z; fsetid : list N }.
Definition endpoint2tars (e : ep) : epf :=
  {| fhost := host e; fport := port e; ftimeout := timeout e; fistcp := istcp e; fgrid := grid e; fqos := qos e;
     fweight := weight e; fwtype := wtype e; fauth := auth e; fsetid := setid e |}.
Definition tars2endpoint (f : epf) : ep :=
  let pr := if fistcp f =? 0 then s_udp else s_tcp in
  {| host := fhost f; port := fport f; timeout := ftimeout f; istcp := fistcp f; grid := fgrid f; qos := fqos f;
     weight := fweight f; wtype := fwtype f; auth := fauth f; proto := pr; bind := []; setid := fsetid f;
     key := key_of pr (fhost f) (fport f) (ftimeout f) |}.

(* ---------- correspondence ---------- *)
Definition ep_eqb (a b : ep) : bool :=
  (bytes_eqb (host a) (host b) && (port a =? port b) && (timeout a =? timeout b) && (istcp a =? istcp b) &&
   (grid a =? grid b) && (qos a =? qos b) && (weight a =? weight b) && (wtype a =? wtype b) &&
   (auth a =? auth b) && bytes_eqb (proto a) (proto b) && bytes_eqb (bind a) (bind b) &&
   bytes_eqb (setid a) (setid b) && bytes_eqb (key a) (key b))%bool.

(* observed: None = the implementation panicked; strings are hex text *)
Definition mk_ep h p t i g q w v e pr b sid k : ep :=
  {| host := unhex h; port := p; timeout := t; istcp := i; grid := g; qos := q; weight := w; wtype := v; auth := e;
     proto := unhex pr; bind := unhex b; setid := unhex sid; key := unhex k |}.
Definition c18_case := (hexs * option ep)%type.
Definition c18_check (c : c18_case) : bool :=
  let '(s, obs) := c in
  match parse (unhex s), obs with
  | Ok e, Some o => ep_eqb e o
  | Panic _, None => true
  | _, _ => false
  end.
(* conversions: (endpoint, observed Tars2endpoint(Endpoint2tars(endpoint))) *)
Definition c18_conv_case := (ep * ep)%type.
Definition c18_conv_check (c : c18_conv_case) : bool :=
  let '(e, o) := c in ep_eqb (tars2endpoint (endpoint2tars e)) o.
Definition c18_all (c : c18_case + c18_conv_case) : bool :=
  match c with inl a => c18_check a | inr b => c18_conv_check b end.
