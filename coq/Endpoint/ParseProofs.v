(* Proofs about the endpoint model (C18). *)
From Coq Require Import List NArith ZArith Bool Lia.
From Coq Require Import DecimalZ DecimalPos.
From Coq Require Decimal.
From TarsV Require Import Base.Hex Endpoint.Parse.
Import ListNotations.
Open Scope Z_scope.

(* ---------- strings.Fields on a rendered string ---------- *)
Definition nonspace (t : list N) : Prop := Forall (fun c => is_space c = false) t.
Definition spaces (t : list N) : Prop := Forall (fun c => is_space c = true) t.
Definition token (t : list N) : Prop := t <> [] /\ nonspace t.
Definition blank_run (t : list N) : Prop := t <> [] /\ spaces t.

Fixpoint join (toks : list (list N * list N)) : list N :=
  match toks with [] => [] | (sp, t) :: r => sp ++ t ++ join r end.

Lemma fields_aux_token t : forall cur s, nonspace t ->
  fields_aux cur (t ++ s) = fields_aux (List.rev t ++ cur) s.
Proof.
  induction t as [|c t IH]; intros cur s H; [reflexivity|].
  inversion H as [|? ? Hc Ht]; subst. cbn [app fields_aux]. rewrite Hc. rewrite IH by assumption.
  cbn [List.rev]. now rewrite <- app_assoc.
Qed.

Lemma fields_aux_spaces sp : forall s, spaces sp -> fields_aux [] (sp ++ s) = fields_aux [] s.
Proof.
  induction sp as [|c sp IH]; intros s H; [reflexivity|].
  inversion H as [|? ? Hc Hs]; subst. cbn [app fields_aux]. rewrite Hc. now apply IH.
Qed.

Lemma fields_aux_blank sp cur s : blank_run sp -> cur <> [] ->
  fields_aux cur (sp ++ s) = List.rev cur :: fields_aux [] s.
Proof.
  intros [Hne Hs] Hc. destruct sp as [|c sp]; [congruence|].
  inversion Hs as [|? ? Hc1 Hs1]; subst. cbn [app fields_aux]. rewrite Hc1.
  destruct cur; [congruence|]. f_equal. now apply fields_aux_spaces.
Qed.

Lemma fields_aux_join toks : forall cur trail, cur <> [] ->
  Forall (fun st => blank_run (fst st) /\ token (snd st)) toks -> spaces trail ->
  fields_aux cur (join toks ++ trail) = List.rev cur :: map snd toks.
Proof.
  induction toks as [|[sp t] toks IH]; intros cur trail Hc Ht Htr.
  - cbn [join app map]. destruct trail as [|c tr].
    + cbn. destruct cur; [congruence|reflexivity].
    + replace (c :: tr) with ((c :: tr) ++ []) by apply app_nil_r.
      rewrite fields_aux_blank; [reflexivity| |assumption]. split; [discriminate|assumption].
  - inversion Ht as [|? ? [Hsp [Hne Hns]] Hrest]; subst. cbn [fst snd] in *.
    cbn [join map snd]. rewrite <- !app_assoc.
    rewrite fields_aux_blank by assumption. f_equal.
    rewrite fields_aux_token by assumption. rewrite app_nil_r.
    rewrite IH; [now rewrite rev_involutive| |assumption|assumption].
    intros E. apply (f_equal (@List.rev N)) in E. rewrite rev_involutive in E. cbn in E. congruence.
Qed.

Theorem fields_render pr toks trail : token pr ->
  Forall (fun st => blank_run (fst st) /\ token (snd st)) toks -> spaces trail ->
  fields (pr ++ join toks ++ trail) = pr :: map snd toks.
Proof.
  intros [Hne Hns] Ht Htr. unfold fields. rewrite fields_aux_token by assumption. rewrite app_nil_r.
  rewrite fields_aux_join; [now rewrite rev_involutive| |assumption|assumption].
  intros E. apply (f_equal (@List.rev N)) in E. rewrite rev_involutive in E. cbn in E. congruence.
Qed.

(* ---------- decimal rendering and parsing are inverse ---------- *)
Lemma dec_value_acc d : forall acc, dec_value (Zpos acc) (uint_bytes d) = Some (Zpos (Pos.of_uint_acc d acc)).
Proof.
  induction d; intros acc; cbn [uint_bytes dec_value Pos.of_uint_acc]; try reflexivity;
    unfold digit_of; cbn [N.leb andb]; cbn -[Z.mul Z.add Pos.mul Pos.add];
    (match goal with |- dec_value ?z _ = Some (Zpos (Pos.of_uint_acc _ ?p)) => replace z with (Zpos p) by lia end);
    apply IHd.
Qed.

Lemma dec_value_uint d : dec_value 0 (uint_bytes d) = Some (Z.of_N (Pos.of_uint d)).
Proof.
  induction d; cbn [uint_bytes dec_value Pos.of_uint]; try reflexivity;
    unfold digit_of; cbn [N.leb andb]; cbn -[Z.mul Z.add Pos.mul Pos.add dec_value];
    try apply IHd; apply dec_value_acc.
Qed.

Lemma uint_bytes_digits d : Forall (fun c => (48 <= c <= 57)%N) (uint_bytes d).
Proof. induction d; cbn; constructor; try assumption; lia. Qed.

Lemma uint_bytes_nonnil d : d <> Decimal.Nil -> uint_bytes d <> [].
Proof. destruct d; cbn; congruence. Qed.

Lemma parse_int64_dec z : min64 <= z <= max64 -> parse_int64 (dec z) = (z, true).
Proof.
  intros Hr. pose proof (DecimalZ.of_to z) as Hz. unfold dec.
  destruct z as [|p|p]; cbn [Z.to_int] in *.
  - reflexivity.
  - unfold Z.of_int, Z.of_uint in Hz.
    pose proof (DecimalPos.Unsigned.to_uint_nonnil p) as Hn.
    pose proof (uint_bytes_digits (Pos.to_uint p)) as Hd.
    pose proof (dec_value_uint (Pos.to_uint p)) as Hv. rewrite Hz in Hv.
    unfold parse_int64. destruct (uint_bytes (Pos.to_uint p)) as [|c r] eqn:E.
    + exfalso. apply (uint_bytes_nonnil _ Hn E).
    + inversion Hd as [|? ? Hc _]; subst.
      destruct c as [|cp]; [lia|]. 
      assert (Hc45 : Npos cp <> 45%N) by lia. assert (Hc43 : Npos cp <> 43%N) by lia.
      destruct cp as [cp|cp|]; try lia;
      repeat (match goal with |- context [match ?x with _ => _ end] => is_var x; destruct x; try lia end);
      try (rewrite Hv; cbv zeta; destruct (Z.pos p >? max64) eqn:E1; [lia|]; destruct (Z.pos p <? min64) eqn:E2; [lia|reflexivity]).
  - unfold Z.of_int, Z.of_uint in Hz.
    pose proof (DecimalPos.Unsigned.to_uint_nonnil p) as Hn.
    pose proof (dec_value_uint (Pos.to_uint p)) as Hv.
    assert (Hp : Z.of_N (Pos.of_uint (Pos.to_uint p)) = Z.pos p) by lia. rewrite Hp in Hv.
    unfold parse_int64. destruct (uint_bytes (Pos.to_uint p)) as [|c r] eqn:E.
    + exfalso. apply (uint_bytes_nonnil _ Hn E).
    + rewrite Hv. cbv zeta. destruct (- Z.pos p >? max64) eqn:E1; [lia|].
      destruct (- Z.pos p <? min64) eqn:E2; [lia|reflexivity].
Qed.

(* ---------- the flag loop on rendered options ---------- *)
Inductive item := IStr (f : fname) (v : list N) | IInt (f : fname) (z : Z).
Definition item_ok (i : item) : Prop :=
  match i with
  | IStr f v => is_str f = true
  | IInt f z => is_str f = false /\ min64 <= z <= max64
  end.
Definition item_tokens (i : item) : list (list N) :=
  match i with
  | IStr f v => [[45%N; fname_char f]; v]
  | IInt f z => [[45%N; fname_char f]; dec z]
  end.
Definition apply_item (st : fstate) (i : item) : fstate :=
  match i with IStr f v => set_str f v st | IInt f z => set_int f z st end.

Lemma flag_token_short f : flag_token [45%N; fname_char f] = Flag [fname_char f] false [].
Proof. destruct f; reflexivity. Qed.
Lemma fname_of_char f : fname_of [fname_char f] = Some f.
Proof. destruct f; reflexivity. Qed.

Lemma flag_loop_items items : forall fuel st rest,
  Forall item_ok items -> (length items <= fuel)%nat ->
  flag_loop fuel (concat (map item_tokens items) ++ rest) st =
  flag_loop (fuel - length items) rest (fold_left apply_item items st).
Proof.
  induction items as [|i items IH]; intros fuel st rest Hok Hf.
  - cbn. now rewrite Nat.sub_0_r.
  - inversion Hok as [|? ? Hi Hrest]; subst.
    cbn [length] in Hf. destruct fuel as [|fuel]; [lia|].
    cbn [map concat fold_left]. destruct i as [f v|f z]; cbn [item_tokens item_ok apply_item] in *.
    + cbn [List.app flag_loop]. rewrite flag_token_short, fname_of_char.
      unfold set_flag. rewrite Hi. rewrite IH by (try assumption; lia).
      reflexivity.
    + destruct Hi as [Hs Hz]. cbn [List.app flag_loop]. rewrite flag_token_short, fname_of_char.
      unfold set_flag. rewrite Hs, (parse_int64_dec _ Hz).
      rewrite IH by (try assumption; lia).
      reflexivity.
Qed.

Theorem flag_parse_items items st : Forall item_ok items ->
  flag_parse (concat (map item_tokens items)) st = fold_left apply_item items st.
Proof.
  intros Hok. unfold flag_parse.
  assert (L : length (concat (map item_tokens items)) = (2 * length items)%nat).
  { clear. induction items as [|i items IH]; [reflexivity|]. cbn [map concat]. rewrite app_length, IH.
    destruct i; cbn; lia. }
  rewrite L. rewrite <- (app_nil_r (concat _)). rewrite flag_loop_items by (try assumption; lia).
  destruct (2 * length items - length items)%nat; reflexivity.
Qed.

(* ---------- parse o render ---------- *)
Definition rendered (pr : list N) (toks : list (list N * list N)) (trail : list N) : list N :=
  pr ++ join toks ++ trail.

Lemma firstn3 (pr x : list N) : length pr = 3%nat -> firstn 3 (pr ++ x) = pr.
Proof. destruct pr as [|a [|b [|c [|d r]]]]; cbn; intros H; try discriminate. reflexivity. Qed.

(* Every textual form: a three-byte protocol token, then the options as "-x value" pairs in ANY order,
   any subset, duplicates allowed, separated by ANY non-empty blank runs, optional trailing blanks.
   The result is built from the defaults overwritten by the options in order (last occurrence wins). *)
Theorem parse_rendered pr items toks trail :
  length pr = 3%nat -> token pr ->
  Forall item_ok items ->
  map snd toks = concat (map item_tokens items) ->
  Forall (fun st => blank_run (fst st) /\ token (snd st)) toks -> spaces trail ->
  parse (rendered pr toks trail) = Ok (build pr (fold_left apply_item items fdefault)).
Proof.
  intros Hl Htok Hok Hmap Hsp Htr. unfold parse, rendered.
  rewrite (fields_render pr toks trail Htok Hsp Htr). cbn [go_tail1].
  rewrite Hmap, (flag_parse_items _ _ Hok).
  destruct (3 <? length (pr ++ join toks ++ trail))%nat eqn:E; [|].
  - unfold go_slice_to. destruct (3 <=? length (pr ++ join toks ++ trail))%nat eqn:E2.
    + now rewrite firstn3.
    + apply Nat.ltb_lt in E. apply Nat.leb_gt in E2. lia.
  - apply Nat.ltb_ge in E. rewrite app_length in E.
    assert (Z0 : length (join toks ++ trail) = 0%nat) by lia.
    apply length_zero_iff_nil in Z0. rewrite Z0, app_nil_r. reflexivity.
Qed.

(* ---------- no string makes the parser panic ---------- *)
Theorem parse_no_panic s : exists e, parse s = Ok e.
Proof.
  unfold parse. destruct (3 <? length s)%nat eqn:E.
  - unfold go_slice_to. apply Nat.ltb_lt in E. destruct (3 <=? length s)%nat eqn:E2; [|apply Nat.leb_gt in E2; lia].
    destruct (fields s); cbn [go_tail1]; eexists; reflexivity.
  - destruct (fields s); cbn [go_tail1]; eexists; reflexivity.
Qed.

(* the code before the repair does panic: the empty string, and three blanks *)
Example parse_unguarded_panics :
  parse_unguarded [] = Panic 1%N /\ parse_unguarded [32;32;32]%N = Panic 2%N.
Proof. split; reflexivity. Qed.

(* on every input on which the unguarded code does not panic the repaired code returns the same endpoint *)
Theorem parse_guard_conservative s e : parse_unguarded s = Ok e -> parse s = Ok e.
Proof.
  unfold parse_unguarded, parse, go_slice_to. destruct (3 <=? length s)%nat eqn:E; [|discriminate].
  apply Nat.leb_le in E. destruct (fields s) as [|f fs] eqn:F; cbn [go_tail1]; [discriminate|].
  intros H. destruct (3 <? length s)%nat eqn:E2.
  - destruct (3 <=? length s)%nat eqn:E3; [exact H|apply Nat.leb_gt in E3; lia].
  - apply Nat.ltb_ge in E2. assert (L : length s = 3%nat) by lia.
    rewrite <- L, firstn_all in H. exact H.
Qed.

(* ---------- conversions and cache keys ---------- *)
Theorem convert_roundtrip e :
  let e' := tars2endpoint (endpoint2tars e) in
  host e' = host e /\ port e' = port e /\ timeout e' = timeout e /\ istcp e' = istcp e /\ grid e' = grid e /\
  qos e' = qos e /\ weight e' = weight e /\ wtype e' = wtype e /\ auth e' = auth e /\ setid e' = setid e.
Proof. cbn. repeat split. Qed.

(* a direct address string and the registry entry for the same endpoint obtain the same cache key *)
Theorem key_agreement pr st : (pr = s_tcp \/ pr = s_udp \/ pr = s_ssl) ->
  key (tars2endpoint (endpoint2tars (build pr st))) = key (build pr st).
Proof. intros [H|[H|H]]; subst pr; reflexivity. Qed.

(* per-field reading of the fold: the value of an option is its last occurrence, else the default *)
Definition get_int (f : fname) (st : fstate) : Z :=
  match f with Fp => f_p st | Ft => f_t st | Fg => f_g st | Fq => f_q st | Fw => f_w st | Fv => f_v st | Fe => f_e st | _ => 0 end.
Definition get_str (f : fname) (st : fstate) : list N :=
  match f with Fh => f_h st | Fb => f_b st | _ => [] end.
Definition fname_eqb (a b : fname) : bool := N.eqb (fname_char a) (fname_char b).

Fixpoint last_int (f : fname) (items : list item) (d : Z) : Z :=
  match items with
  | [] => d
  | IInt g z :: r => last_int f r (if fname_eqb f g then z else d)
  | _ :: r => last_int f r d
  end.
Fixpoint last_str (f : fname) (items : list item) (d : list N) : list N :=
  match items with
  | [] => d
  | IStr g v :: r => last_str f r (if fname_eqb f g then v else d)
  | _ :: r => last_str f r d
  end.

Lemma fold_get_int f items : is_str f = false -> forall st, Forall item_ok items ->
  get_int f (fold_left apply_item items st) = last_int f items (get_int f st).
Proof.
  intros Hf. induction items as [|i items IH]; intros st Hok; [reflexivity|].
  inversion Hok as [|? ? Hi Hr]; subst. cbn [fold_left]. rewrite IH by assumption.
  destruct i as [g v|g z]; cbn [apply_item last_int item_ok] in *.
  - f_equal. destruct f, g; try discriminate; reflexivity.
  - f_equal. destruct Hi as [Hg _]. destruct f, g; try discriminate; reflexivity.
Qed.
Lemma fold_get_str f items : is_str f = true -> forall st, Forall item_ok items ->
  get_str f (fold_left apply_item items st) = last_str f items (get_str f st).
Proof.
  intros Hf. induction items as [|i items IH]; intros st Hok; [reflexivity|].
  inversion Hok as [|? ? Hi Hr]; subst. cbn [fold_left]. rewrite IH by assumption.
  destruct i as [g v|g z]; cbn [apply_item last_str item_ok] in *.
  - f_equal. destruct f, g; try discriminate; reflexivity.
  - f_equal. destruct Hi as [Hg _]. destruct f, g; try discriminate; reflexivity.
Qed.

(* non-vacuity: a concrete endpoint string with reordered options and odd spacing *)
Example parse_example :
  parse (raw "tcp   -t 60000 -p 19386	-h 10.0.0.1 -v 1 -w 250  "%hex) =
  Ok {| host := raw "10.0.0.1"%hex; port := 19386; timeout := 60000; istcp := 1; grid := 0; qos := 0; weight := 100;
        wtype := 1; auth := 0; proto := s_tcp; bind := []; setid := []; key := raw "tcp -h 10.0.0.1 -p 19386 -t 60000"%hex |}.
Proof. vm_compute. reflexivity. Qed.

(* converse of fields_render: on EVERY string (not only rendered ones) the tokenizer yields proper tokens
   only — no empty field, no blank inside a field — so an option letter or value never contains a blank *)
Lemma nonspace_rev cur : nonspace cur -> nonspace (List.rev cur).
Proof. unfold nonspace; intro H; apply Forall_forall; intros c Hc; apply in_rev in Hc;
       exact (proj1 (Forall_forall _ _) H c Hc). Qed.
Lemma fields_aux_all_tokens : forall s cur, nonspace cur -> Forall token (fields_aux cur s).
Proof.
  induction s as [|c r IH]; intros cur Hcur; cbn [fields_aux].
  - destruct cur as [|x xs]; [constructor|]. constructor; [|constructor]. split.
    + intro E; apply (f_equal (@length N)) in E; rewrite rev_length in E; discriminate E.
    + apply nonspace_rev; exact Hcur.
  - destruct (is_space c) eqn:Hsp.
    + destruct cur as [|x xs]; [apply IH; constructor|]. constructor; [|apply IH; constructor]. split.
      * intro E; apply (f_equal (@length N)) in E; rewrite rev_length in E; discriminate E.
      * apply nonspace_rev; exact Hcur.
    + apply IH; constructor; [exact Hsp|exact Hcur].
Qed.
Theorem fields_all_tokens s : Forall token (fields s).
Proof. apply fields_aux_all_tokens; constructor. Qed.

(* trailing blanks never change the field list, whatever precedes them *)
Lemma fields_aux_trailing sp : spaces sp -> forall s cur, fields_aux cur (s ++ sp) = fields_aux cur s.
Proof.
  intro Hsp. induction s as [|c r IH]; intro cur.
  - rewrite app_nil_l. cbn [fields_aux]. revert cur. induction Hsp as [|x xs Hx Hxs IHs]; intro cur; [reflexivity|].
    cbn [fields_aux]. rewrite Hx. destruct cur as [|y ys]; [exact (IHs [])|]. rewrite (IHs []). reflexivity.
  - cbn [app fields_aux]. destruct (is_space c); [|apply IH]. destruct cur; rewrite IH; reflexivity.
Qed.
Theorem fields_trailing s sp : spaces sp -> fields (s ++ sp) = fields s.
Proof. intro H; apply fields_aux_trailing; exact H. Qed.
