(* Byte strings for case files: written as hex text under a String Notation (one constructor per
   character for the parser, cheap to elaborate) and decoded to [list N] inside Coq. *)
From Coq Require Import List NArith Bool.
From Coq.Strings Require Import Byte.
Import ListNotations.
Open Scope bool_scope.
Open Scope N_scope.

Inductive hexs := HexS (l : list Byte.byte).
Definition hexs_of (l : list Byte.byte) : hexs := HexS l.
Definition hexs_to (h : hexs) : list Byte.byte := match h with HexS l => l end.
Declare Scope hex_scope.
Delimit Scope hex_scope with hex.
String Notation hexs hexs_of hexs_to : hex_scope.

Definition nib (b : Byte.byte) : N :=
  let n := Byte.to_N b in
  if (48 <=? n) && (n <=? 57) then n - 48
  else if (97 <=? n) && (n <=? 102) then n - 87
  else if (65 <=? n) && (n <=? 70) then n - 55 else 0.

Fixpoint unhex_l (l : list Byte.byte) : list N :=
  match l with
  | a :: b :: r => (nib a * 16 + nib b) :: unhex_l r
  | _ => []
  end.
Definition unhex (h : hexs) : list N := unhex_l (hexs_to h).

(* raw text (endpoint strings, config documents, IDL): bytes as they are *)
Definition raw (h : hexs) : list N := map Byte.to_N (hexs_to h).

Example unhex_ex : unhex "00ff1aB2"%hex = [0; 255; 26; 178].
Proof. vm_compute. reflexivity. Qed.

(* indices of the cases on which a boolean check fails *)
Fixpoint failing_from {A} (chk : A -> bool) (i : N) (l : list A) : list N :=
  match l with
  | [] => []
  | x :: r => if chk x then failing_from chk (i + 1) r else i :: failing_from chk (i + 1) r
  end.
Definition failing {A} (chk : A -> bool) (l : list A) : list N := failing_from chk 0 l.

Fixpoint list_eqb {A} (eqb : A -> A -> bool) (a b : list A) : bool :=
  match a, b with
  | [], [] => true
  | x :: a', y :: b' => eqb x y && list_eqb eqb a' b'
  | _, _ => false
  end.
Definition bytes_eqb := list_eqb N.eqb.

Lemma list_eqb_eq {A} (eqb : A -> A -> bool) (H : forall x y, eqb x y = true <-> x = y) :
  forall a b, list_eqb eqb a b = true <-> a = b.
Proof.
  induction a as [|x a IH]; destruct b as [|y b]; cbn; try (split; congruence).
  - rewrite Bool.andb_true_iff, H, IH. split; [intros [-> ->]; reflexivity | intros E; inversion E; auto].
Qed.
Lemma bytes_eqb_eq a b : bytes_eqb a b = true <-> a = b.
Proof. apply list_eqb_eq. apply N.eqb_eq. Qed.
