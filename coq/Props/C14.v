(* C14 - hash routing is deterministic, history-independent and minimally disruptive. Statements only.
   route points k weighted h code = the result of Select with hash code [code] in the state the history h leads to.
   The md5-derived virtual nodes are the function [points] (host -> rounds -> ring points); it is universally quantified.
   NoCollision points U: the points of two different hosts of the universe U are disjoint. *)
From Coq Require Import List NArith ZArith.
From TarsV Require Import Base.Hex Gen.Consts Select.Selectors Select.Hist Select.WeightProofs Select.SelProofs Select.RingProofs Select.Manager Select.ManagerProofs.
From TarsV Require Xlate.ConHashEquiv.
From TarsV Require Xlate.ChWeightEquiv.
From TarsV Require Import Gen.SelRebuild Select.NamingProofs.
Import ListNotations.

(* deterministic: a hash-routed selection does not change the selector and does not depend on any random draw *)
Theorem C14_pure : forall k s code rnd, k = ModHash \/ k = ConHash -> select k s code rnd = (s, snd (select k s code 0)).
Proof. exact RingProofs.select_hash_pure. Qed.
Print Assumptions C14_pure.

(* consistent hash: the result is the lookup of the code in the ring ... *)
Theorem C14_route_is_lookup : forall points weighted h code,
  route points ConHash weighted h code =
  match ring_lookup (hring (state_after points ConHash weighted h)) (N.modulo code two32) with Some e => RSel e | None => RErr end.
Proof. exact RingProofs.route_conhash. Qed.
Print Assumptions C14_route_is_lookup.

(* ... and the lookup is: the owner of the least ring point >= code, else (wrapping) of the least point *)
Theorem C14_lookup_spec : forall points weighted h code e, let r := hring (state_after points ConHash weighted h) in
  ring_lookup r code = Some e <->
  exists k, In (k, e) r /\
    ((code <= k /\ forall k' e', In (k', e') r -> code <= k' -> k <= k') \/
     ((forall k' e', In (k', e') r -> k' < code) /\ forall k' e', In (k', e') r -> k <= k'))%N.
Proof. exact RingProofs.lookup_spec_iff. Qed.
Print Assumptions C14_lookup_spec.

(* history independence: two histories over U that reach the same set route every code alike ... *)
Theorem C14_history_independent : forall points weighted (U : list N -> Prop), NoCollision points U -> forall h1 h2 code,
  Forall (op_over U) h1 -> Forall (op_over U) h2 -> (forall e, In e (set_of_history h1) <-> In e (set_of_history h2)) ->
  route points ConHash weighted h1 code = route points ConHash weighted h2 code.
Proof. exact RingProofs.route_history_independent. Qed.
Print Assumptions C14_history_independent.

(* ... namely as the ring built from the set does *)
Theorem C14_ring_of_set : forall points weighted (U : list N -> Prop), NoCollision points U -> forall h code, Forall (op_over U) h ->
  route points ConHash weighted h code =
  match ring_lookup (ring_of_set points weighted (set_of_history h)) (N.modulo code two32) with Some e => RSel e | None => RErr end.
Proof. exact RingProofs.route_ring_of_set. Qed.
Print Assumptions C14_ring_of_set.

(* minimal disruption (of the steps themselves; no hypothesis on the points): a code whose route changes when an endpoint is
   removed was routed to that endpoint; a code whose route changes when an endpoint is added is now routed to it *)
Theorem C14_remove_minimal : forall points weighted h e r1 r2 code,
  route points ConHash weighted (h ++ [Remove e r1 r2]) code <> route points ConHash weighted h code ->
  exists x, route points ConHash weighted h code = RSel x /\ host x = host e.
Proof. exact RingProofs.route_remove_minimal. Qed.
Print Assumptions C14_remove_minimal.
Theorem C14_add_minimal : forall points weighted h e r1 r2 code,
  route points ConHash weighted (h ++ [Add e r1 r2]) code <> route points ConHash weighted h code ->
  route points ConHash weighted (h ++ [Add e r1 r2]) code = RSel e.
Proof. exact RingProofs.route_add_minimal. Qed.
Print Assumptions C14_add_minimal.

(* mod-hash: code h goes to slot h mod N of the installed list; of the weight cycle (C13) when one is installed *)
Theorem C14_modhash_slot : forall points weighted h code rnd, set_of_history h <> [] ->
  snd (select ModHash (state_after points ModHash weighted h) code rnd) =
  RSel (slot_of (cyc ModHash weighted (set_of_history h)) (set_of_history h) (N.modulo code two32)).
Proof. exact SelProofs.modhash_slot. Qed.
Print Assumptions C14_modhash_slot.

(* the complement of the hypothesis: with colliding points the installation order decides the owner, and a member can be left
   without its point (replayed on the code by the harness when it finds a real collision) *)
Theorem C14_collision_dependence :
  ring_lookup (hring (state_after coll_points ConHash false [Refresh [ep_a; ep_b] 0 0])) 0 = Some ep_b /\
  ring_lookup (hring (state_after coll_points ConHash false [Refresh [ep_b; ep_a] 0 0])) 0 = Some ep_a /\
  set_of_history [Refresh [ep_a; ep_b] 0 0; Remove ep_b 0 0] = [ep_a] /\
  ring_lookup (hring (state_after coll_points ConHash false [Refresh [ep_a; ep_b] 0 0; Remove ep_b 0 0])) 0 = None /\
  ring_lookup (hring (state_after coll_points ConHash false [Refresh [ep_a] 0 0])) 0 = Some ep_a.
Proof. exact RingProofs.collision_dependence. Qed.
Print Assumptions C14_collision_dependence.

(* through the endpoint manager (Select/Manager.v: refreshEndpoints/updateActiveEp; [order] = its canonical order of a list,
   arbitrary here): the routing state - installed list and weight mode - is recomputed from the registry answer alone, so it
   is that of the last non-empty answer whatever the registry said before ... *)
Theorem C14_manager_weight_mode : forall order answers,
  m_weighted (mgr_state order answers) = weight_mode (last_answer answers []).
Proof. exact ManagerProofs.mgr_weight_mode. Qed.
Print Assumptions C14_manager_weight_mode.

(* ... and two clients whose registry histories end in the same answer route every (selector kind, code) alike *)
Theorem C14_manager_history_independent : forall order points as1 as2 k code,
  last_answer as1 [] = last_answer as2 [] ->
  mgr_route points (mgr_state order as1) k code = mgr_route points (mgr_state order as2) k code.
Proof. exact ManagerProofs.mgr_route_history_independent. Qed.
Print Assumptions C14_manager_history_independent.

(* consistent hashing, NoCollision: it is enough that the final answers hold the same endpoints (any order) in the same mode *)
Theorem C14_manager_conhash_same_set : forall order points (U : list N -> Prop), NoCollision points U ->
  (forall l e, In e (order l) <-> In e l) ->
  forall as1 as2 code, let a1 := last_answer as1 [] in let a2 := last_answer as2 [] in
  (forall e, In e a1 -> U (host e)) -> (forall e, In e a2 -> U (host e)) ->
  (forall e, In e (refresh_eps (order a1)) <-> In e (refresh_eps (order a2))) -> weight_mode a1 = weight_mode a2 ->
  mgr_route points (mgr_state order as1) ConHash code = mgr_route points (mgr_state order as2) ConHash code.
Proof. exact ManagerProofs.mgr_conhash_same_set. Qed.
Print Assumptions C14_manager_conhash_same_set.

(* a refresh while endpoints are out (is_down: hosts deactivated by the health check): whatever the selector kind, a call is
   routed only to an endpoint that the registry lists and that is not out - the one installed list serves all three selectors *)
Theorem C14_manager_refresh_excludes_down : forall order points down m answer k code e,
  (forall l e, In e (order l) <-> In e l) -> answer <> [] -> answer <> m_raw m ->
  mgr_route points (mgr_refresh_h order down m answer) k code = RSel e -> In e answer /\ is_down down e = false.
Proof. exact ManagerProofs.mgr_route_excludes_down. Qed.
Print Assumptions C14_manager_refresh_excludes_down.
Theorem C14_manager_refresh_installed : forall order down m answer,
  (forall l e, In e (order l) <-> In e l) -> answer <> [] -> answer <> m_raw m -> forall e,
  In e (m_eps (mgr_refresh_h order down m answer)) <-> In e answer /\ is_down down e = false.
Proof. exact ManagerProofs.mgr_refresh_h_installed. Qed.
Print Assumptions C14_manager_refresh_installed.

(* the manager's enableWeight(), as the CURRENT source has it (Gen/Translated.v), is the comparison weight_mode ends with *)
Theorem C14_manager_enableWeight_from_source : forall e0 l, weight_mode (e0 :: l) = true <->
  (forall e, In e (e0 :: l) -> wty e = wty e0) /\ Gen.Translated.tr_mgr_enableWeight (wty e0) = Xlate.GoSem.Return true.
Proof. exact Xlate.ChWeightEquiv.weight_mode_enableWeight. Qed.
Print Assumptions C14_manager_enableWeight_from_source.

(* the names of the virtual nodes, with the format string read from the CURRENT source of ConsistentHash.addLocked
   (Gen/SelRebuild.v: gen_vnode_format, "%s_%d"): different (host, round) pairs have different names, whatever bytes the
   host consists of ... *)
Theorem C14_vnode_names_injective : forall h1 i1 h2 i2, vname h1 i1 = vname h2 i2 -> h1 = h2 /\ i1 = i2.
Proof. exact NamingProofs.vname_inj. Qed.
Print Assumptions C14_vnode_names_injective.
(* ... so NoCollision holds for EVERY universe of hosts as soon as the hash (md5-derived, abstract) sends different names to
   different points, and with it history independence *)
Theorem C14_naming_nocollision : forall hash4 : list N -> list N,
  (forall s1 s2 k, In k (hash4 s1) -> In k (hash4 s2) -> s1 = s2) -> forall U, NoCollision (points_of_naming hash4) U.
Proof. exact NamingProofs.naming_nocollision. Qed.
Print Assumptions C14_naming_nocollision.
Theorem C14_naming_history_independent : forall hash4 : list N -> list N,
  (forall s1 s2 k, In k (hash4 s1) -> In k (hash4 s2) -> s1 = s2) ->
  forall weighted h1 h2 code, (forall e, In e (set_of_history h1) <-> In e (set_of_history h2)) ->
  route (points_of_naming hash4) ConHash weighted h1 code = route (points_of_naming hash4) ConHash weighted h2 code.
Proof. exact NamingProofs.naming_history_independent. Qed.
Print Assumptions C14_naming_history_independent.
