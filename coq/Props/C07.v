(* C07 — stream framing is independent of TCP segmentation and bounds packet size.
   Statements only; every proof is [exact] of a lemma proved elsewhere. *)
From Coq Require Import List NArith.
From TarsV Require Import Base.Hex Frame.Framing Frame.FramingProofs.
From TarsV Require Xlate.TarsRequestEquiv.
From TarsV Require Import Xlate.GoSem Gen.Translated Xlate.RecvEquiv.
Import ListNotations.
Open Scope N_scope.

(* every packet list, every partition of the stream into reads, every maximum: delivered = sent,
   each once, complete, in order; connection stays open with an empty buffer *)
Theorem C07_reassembly : forall max pks chunks,
  Forall (valid max) pks -> concat chunks = concat pks ->
  recv_loop max [] chunks = (pks, Some []).
Proof. exact FramingProofs.C07_reassembly. Qed.

(* a trailing proper prefix of a packet is held back, nothing is delivered early or lost *)
Theorem C07_partial : forall max pks pk q t chunks,
  Forall (valid max) pks -> valid max pk -> pk = q ++ t -> t <> [] ->
  concat chunks = concat pks ++ q -> recv_loop max [] chunks = (pks, Some q).
Proof. exact FramingProofs.C07_partial_prefix. Qed.

(* an illegal length prefix delivers what preceded it and closes this connection; junk after it is never delivered *)
Theorem C07_error : forall max pks bad junk l chunks,
  Forall (valid max) pks -> hdr bad = Some l -> (l < 4 \/ max < l) ->
  concat chunks = concat pks ++ bad ++ junk -> recv_loop max [] chunks = (pks, None).
Proof. exact FramingProofs.C07_error. Qed.

Theorem C07_segmentation_independent : forall max chunks1 chunks2,
  concat chunks1 = concat chunks2 -> recv_loop max [] chunks1 = recv_loop max [] chunks2.
Proof. exact FramingProofs.C07_segmentation_independent. Qed.

Theorem C07_max_accepted : forall max body chunks,
  4 + N.of_nat (length body) = max -> max < 4294967296 ->
  concat chunks = mk_packet body -> recv_loop max [] chunks = ([mk_packet body], Some []).
Proof. exact FramingProofs.C07_max_accepted. Qed.

Theorem C07_max_plus_one_rejected : forall max body junk pks chunks,
  Forall (valid max) pks -> 4 + N.of_nat (length body) = max + 1 -> max + 1 < 4294967296 ->
  concat chunks = concat pks ++ mk_packet body ++ junk -> recv_loop max [] chunks = (pks, None).
Proof. exact FramingProofs.C07_max_plus_one_rejected. Qed.

Theorem C07_short_length_rejected : forall max l junk pks chunks,
  Forall (valid max) pks -> l < 4 ->
  concat chunks = concat pks ++ be32 l ++ junk -> recv_loop max [] chunks = (pks, None).
Proof. exact FramingProofs.C07_short_length_rejected. Qed.

(* the receive loops of the code are that model: the Gallina text generated from the current source of tcpHandler.recv
   (server) and connection.recv (client) - what they do with every chunk conn.Read returns, ParsePackage being
   protocol.TarsRequest - iterated over the successful reads (buffer, n), hands over exactly the packages recv_loop
   delivers, in that order, keeps the same remainder, and gives the connection up exactly when recv_loop closes it *)
Theorem C07_server_loop_is_model : forall max reads cur out, Forall read_ok reads ->
  run_reads tr_srv_recv_chunk max cur reads out =
  (out ++ fst (recv_loop max cur (map chunk_of reads)), snd (recv_loop max cur (map chunk_of reads))).
Proof. exact RecvEquiv.srv_recv_is_recv_loop. Qed.
Theorem C07_client_loop_is_model : forall max reads cur out, Forall read_ok reads ->
  run_reads tr_cli_recv_chunk max cur reads out =
  (out ++ fst (recv_loop max cur (map chunk_of reads)), snd (recv_loop max cur (map chunk_of reads))).
Proof. exact RecvEquiv.cli_recv_is_recv_loop. Qed.

Print Assumptions C07_reassembly.
Print Assumptions C07_partial.
Print Assumptions C07_error.
Print Assumptions C07_segmentation_independent.
Print Assumptions C07_max_accepted.
Print Assumptions C07_max_plus_one_rejected.
Print Assumptions C07_short_length_rejected.
Print Assumptions C07_server_loop_is_model.
Print Assumptions C07_client_loop_is_model.
