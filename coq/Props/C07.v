(* C07 — stream framing is independent of TCP segmentation and bounds packet size.
   Statements only; every proof is [exact] of a lemma proved elsewhere. *)
From Coq Require Import List NArith.
From TarsV Require Import Base.Hex Frame.Framing Frame.FramingProofs.
From TarsV Require Xlate.TarsRequestEquiv.
From TarsV Require Import Xlate.GoSem Gen.Translated Xlate.RecvEquiv.
Import ListNotations.
Open Scope N_scope.

(* every packet list, every partition of the stream into reads, every maximum: delivered = sent,
   each once, complete, in order; connection stays open with an empty buffer *)
Theorem C07_reassembly : forall max pks chunks,
  Forall (valid max) pks -> concat chunks = concat pks ->
  recv_loop max [] chunks = (pks, Some []).
Proof. exact FramingProofs.C07_reassembly. Qed.

(* a trailing proper prefix of a packet is held back, nothing is delivered early or lost *)
Theorem C07_partial : forall max pks pk q t chunks,
  Forall (valid max) pks -> valid max pk -> pk = q ++ t -> t <> [] ->
  concat chunks = concat pks ++ q -> recv_loop max [] chunks = (pks, Some q).
Proof. exact FramingProofs.C07_partial_prefix. Qed.

(* an illegal length prefix delivers what preceded it and closes this connection; junk after it is never delivered *)
Theorem C07_error : forall max pks bad junk l chunks,
  Forall (valid max) pks -> hdr bad = Some l -> (l < 4 \/ max < l) ->
  concat chunks = concat pks ++ bad ++ junk -> recv_loop max [] chunks = (pks, None).
Proof. exact FramingProofs.C07_error. Qed.

Theorem C07_segmentation_independent : forall max chunks1 chunks2,
  concat chunks1 = concat chunks2 -> recv_loop max [] chunks1 = recv_loop max [] chunks2.
Proof. exact FramingProofs.C07_segmentation_independent. Qed.

Theorem C07_max_accepted : forall max body chunks,
  4 + N.of_nat (length body) = max -> max < 4294967296 ->
  concat chunks = mk_packet body -> recv_loop max [] chunks = ([mk_packet body], Some []).
Proof. exact FramingProofs.C07_max_accepted. Qed.

Theorem C07_max_plus_one_rejected : forall max body junk pks chunks,
  Forall (valid max) pks -> 4 + N.of_nat (length body) = max + 1 -> max + 1 < 4294967296 ->
  concat chunks = concat pks ++ mk_packet body ++ junk -> recv_loop max [] chunks = (pks, None).
Proof. exact FramingProofs.C07_max_plus_one_rejected. Qed.

Theorem C07_short_length_rejected : forall max l junk pks chunks,
  Forall (valid max) pks -> l < 4 ->
  concat chunks = concat pks ++ be32 l ++ junk -> recv_loop max [] chunks = (pks, None).
Proof. exact FramingProofs.C07_short_length_rejected. Qed.

(* the receive loops of the code are that model: the Gallina text generated from the current source of tcpHandler.recv
   (server) and connection.recv (client) - what they do with every chunk conn.Read returns, ParsePackage being
   protocol.TarsRequest - iterated over the successful reads (buffer, n), hands over exactly the packages recv_loop
   delivers, in that order, keeps the same remainder, and gives the connection up exactly when recv_loop closes it *)
Theorem C07_server_loop_is_model : forall max reads cur out, Forall read_ok reads ->
  run_reads tr_srv_recv_chunk max cur reads out =
  (out ++ fst (recv_loop max cur (map chunk_of reads)), snd (recv_loop max cur (map chunk_of reads))).
Proof. exact RecvEquiv.srv_recv_is_recv_loop. Qed.
Theorem C07_client_loop_is_model : forall max reads cur out, Forall read_ok reads ->
  run_reads tr_cli_recv_chunk max cur reads out =
  (out ++ fst (recv_loop max cur (map chunk_of reads)), snd (recv_loop max cur (map chunk_of reads))).
Proof. exact RecvEquiv.cli_recv_is_recv_loop. Qed.

(* ---- read EVENTS: data, read timeout, end of stream, other errors; shutdown flag and idle state on the server ----
   Frame/RecvEvents.v extends recv_loop from chunks to events; Xlate/RecvEventsEquiv.v ties it to the CURRENT source: the
   statement `if err != nil {..}` after conn.Read of both loops is regenerated on every run (tr_srv_recv_event,
   tr_cli_recv_event) and, followed by the package-cutting statements when the read brought data, run over ANY list of
   events it delivers exactly the model's packages, keeps the model's bytes and leaves the loop exactly when the model
   does; a read timeout never changes the buffered bytes. *)
From TarsV Require Import Frame.RecvEvents Xlate.RecvEventsEquiv.
Theorem C07_server_events_is_model : forall max evs cur out, Forall gev_ok evs ->
  run_events srv_evstep tr_srv_recv_chunk max cur evs out =
  (out ++ fst (srv_events max cur (map sev_of evs)), stat_of (snd (srv_events max cur (map sev_of evs)))).
Proof. exact RecvEventsEquiv.srv_events_is_model. Qed.
Theorem C07_client_events_is_model : forall max evs cur out, Forall gev_ok evs ->
  run_events cli_evstep tr_cli_recv_chunk max cur evs out =
  (out ++ fst (cli_events max cur (map rev_of evs)), stat_of (snd (cli_events max cur (map rev_of evs)))).
Proof. exact RecvEventsEquiv.cli_events_is_model. Qed.
(* the chunk model is the event model without failed reads *)
Theorem C07_events_extend_chunks : forall max chunks cur,
  cli_events max cur (map EData chunks) = recv_loop max cur chunks /\
  forall f g, srv_events max cur (map (fun c => {| s_ev := EData c; s_closing := f c; s_idle := g c |}) chunks) = recv_loop max cur chunks.
Proof. intros max chunks cur. split; [apply cli_events_data|intros; apply srv_events_data]. Qed.
(* read timeouts: invisible to the client; on the server the loop goes on with exactly the bytes it held, or is left - and
   it is left only with an empty buffer (shutting down or idle); a partial package survives any number of timeouts *)
Theorem C07_client_timeouts_invisible : forall max evs cur,
  cli_events max cur evs = cli_events max cur (filter (fun e => negb (is_timeout e)) evs).
Proof. exact RecvEvents.cli_timeouts_invisible. Qed.
Theorem C07_client_timeout_keeps_buffer : forall cur eof operr,
  tr_cli_recv_event cur true eof operr true = Return (inl (inr cur)).
Proof. exact RecvEventsEquiv.cli_timeout_keeps_buffer. Qed.
Theorem C07_server_timeout_keeps_buffer : forall cur e, g_err e = true -> g_nodata e = true ->
  srv_evstep e cur = Return (inl (inr cur)) \/ (srv_evstep e cur = Return (inr tt) /\ cur = []%list).
Proof. intros cur e He Hn. unfold srv_evstep. rewrite He. exact (RecvEventsEquiv.srv_timeout_keeps_buffer cur e He Hn). Qed.
Theorem C07_server_partial_survives_timeouts : forall max cur es es', cur <> []%list ->
  Forall (fun e => s_ev e = ETimeout) es -> srv_events max cur (es ++ es') = srv_events max cur es'.
Proof. exact RecvEvents.srv_partial_survives_timeouts. Qed.

Print Assumptions C07_reassembly.
Print Assumptions C07_partial.
Print Assumptions C07_error.
Print Assumptions C07_segmentation_independent.
Print Assumptions C07_max_accepted.
Print Assumptions C07_max_plus_one_rejected.
Print Assumptions C07_short_length_rejected.
Print Assumptions C07_server_loop_is_model.
Print Assumptions C07_client_loop_is_model.
Print Assumptions C07_server_events_is_model.
Print Assumptions C07_client_events_is_model.
Print Assumptions C07_events_extend_chunks.
Print Assumptions C07_client_timeouts_invisible.
Print Assumptions C07_client_timeout_keeps_buffer.
Print Assumptions C07_server_timeout_keeps_buffer.
Print Assumptions C07_server_partial_survives_timeouts.
