(* C08 — responses are delivered to the caller of the matching request id; ids are non-zero and not shared by
   outstanding calls.  Statements only; every proof is [exact] of a lemma proved elsewhere. *)
From Coq Require Import List ZArith NArith Bool.
From TarsV Require Import Gen.Consts Rpc.ReqId Rpc.ReqIdProofs Conc.Pending Conc.PendingProofs Conc.C08Corr Conc.C08Sys Conc.C08SysProofs.
From TarsV Require Xlate.ReqIdEquiv.
From TarsV Require Xlate.RecvEventsEquiv.
Import ListNotations.
Open Scope Z_scope.

(* the wrap threshold of the code (regenerated from the tree); the proofs need exactly this value *)
Definition maxi : Z := Z.of_N c_maxInt32.

(* genRequestID, any number of threads, any interleaving, any start value: 0 is never handed out *)
Theorem C08_id_nonzero : forall c0 n ls s, ReqId.run maxi (ReqId.init c0 n) ls = Some s ->
  (forall v, In v (ids s) -> v <> 0) /\ (forall t v, nth_error (pcs s) t = Some (TDone v) -> v <> 0).
Proof. exact (ReqIdProofs.id_nonzero maxi eq_refl). Qed.

(* two allocations (Add steps) that return the same value have at least 2^31-3 other allocations between them *)
Theorem C08_id_distance : forall c0 n ls s l1 x l2 l3, in_i32 c0 -> ReqId.run maxi (ReqId.init c0 n) ls = Some s ->
  rev (hist s) = l1 ++ x :: l2 ++ x :: l3 -> 2147483648 - 2 <= Z.of_nat (length l2) + 1.
Proof. exact (ReqIdProofs.id_distance maxi eq_refl). Qed.

(* the bound is tight: from counter 1, the Add that follows 2^31-2 Adds and the Cas of the next call returns 2 again *)
Theorem C08_id_distance_tight : exists l2, adds 2147483647 1 tight_ops = 2 :: l2 ++ [2] /\ Z.of_nat (length l2) + 1 = 2147483648 - 2.
Proof. exact ReqIdProofs.id_distance_tight. Qed.

(* hence any stretch of fewer than 2^31-2 consecutive allocations is pairwise distinct: two calls can share an id only if
   2^31-2 or more allocations happen while the first is still outstanding (the per-proxy in-flight limit is 10^5) *)
Theorem C08_id_window_distinct : forall c0 n ls s pre w post, in_i32 c0 -> ReqId.run maxi (ReqId.init c0 n) ls = Some s ->
  rev (hist s) = pre ++ w ++ post -> Z.of_nat (length w) < 2147483648 - 1 -> NoDup w.
Proof. exact (ReqIdProofs.id_window_nodup maxi eq_refl). Qed.

(* pending table, all label sequences (peer emits any packets at any time; any schedule): a call only ever holds a packet
   carrying its own id, non-zero, two-way, and really sent by the peer and handed over by one receiver *)
Theorem C08_routing : forall ls s k c p, Pending.run Pending.init ls = Some s ->
  nth_error (calls s) k = Some c -> (c_pc c = CGot p \/ c_pc c = CRet (OReply p)) ->
  p_id p = c_id c /\ p_id p <> 0 /\ p_oneway p = false /\
  exists r rc, nth_error (recvs s) r = Some rc /\ r_pkt rc = p /\ r_pc rc = RDone k.
Proof. exact PendingProofs.routing. Qed.

(* id 0, one-way type, or an id no call registered: the receiver never finds a channel (reaches nobody) *)
Theorem C08_unknown_reaches_nobody : forall ls s r rc, Pending.run Pending.init ls = Some s -> nth_error (recvs s) r = Some rc ->
  (p_id (r_pkt rc) = 0 \/ p_oneway (r_pkt rc) = true \/ (forall k c, nth_error (calls s) k = Some c -> c_id c <> p_id (r_pkt rc))) ->
  chan_of (r_pc rc) = None.
Proof. exact PendingProofs.unknown_reaches_nobody. Qed.

(* duplicates: at most one receiver hands a packet to a given call *)
Theorem C08_delivered_once : forall ls s r1 r2 rc1 rc2 ch, Pending.run Pending.init ls = Some s ->
  nth_error (recvs s) r1 = Some rc1 -> nth_error (recvs s) r2 = Some rc2 ->
  r_pc rc1 = RDone ch -> r_pc rc2 = RDone ch -> r1 = r2.
Proof. exact PendingProofs.delivered_once. Qed.

(* a reply arriving when no outstanding call holds its id (late, already completed) is dropped and changes nothing *)
Theorem C08_late_reply_inert : forall ls s r rc, Pending.run Pending.init ls = Some s ->
  nth_error (recvs s) r = Some rc -> r_pc rc = RStart ->
  (forall k c, nth_error (calls s) k = Some c -> c_id c = p_id (r_pkt rc) -> active c = false) ->
  exists s', Pending.step s (LLookup r) = Some s' /\ calls s' = calls s /\ table s' = table s /\
    (forall rc', nth_error (recvs s') r = Some rc' -> r_pc rc' = RPush \/ r_pc rc' = RDropped) /\
    Pending.step s' (LLookup r) = None /\ Pending.step s' (LHandoff r) = None /\ Pending.step s' (LGiveUp r) = None.
Proof. exact PendingProofs.late_reply_inert. Qed.

(* cleanup: table entries exist only for outstanding calls under their own id; a returned call has none; quiescent = empty *)
Theorem C08_cleanup : forall ls s, Pending.run Pending.init ls = Some s ->
  forall id ch, lookup id (table s) = Some ch ->
  exists c, nth_error (calls s) ch = Some c /\ c_id c = id /\ active c = true.
Proof. exact PendingProofs.cleanup. Qed.

Theorem C08_cleanup_quiescent : forall ls s, Pending.run Pending.init ls = Some s ->
  (forall k c, nth_error (calls s) k = Some c -> active c = false) -> table s = [].
Proof. exact PendingProofs.table_empty_when_quiet. Qed.

(* with ids fresh among outstanding calls (what C08_id_window_distinct provides): the entry of every outstanding call is
   intact, and outstanding calls have pairwise distinct non-zero ids *)
Theorem C08_own_entry : forall ls s k c, good_run Pending.init ls = true -> Pending.run Pending.init ls = Some s ->
  nth_error (calls s) k = Some c -> active c = true -> c_id c <> 0 /\ lookup (c_id c) (table s) = Some k.
Proof. exact PendingProofs.own_entry. Qed.

Theorem C08_outstanding_distinct : forall ls s k1 k2 c1 c2, good_run Pending.init ls = true -> Pending.run Pending.init ls = Some s ->
  nth_error (calls s) k1 = Some c1 -> nth_error (calls s) k2 = Some c2 -> active c1 = true -> active c2 = true ->
  c_id c1 = c_id c2 -> k1 = k2.
Proof. exact PendingProofs.outstanding_distinct. Qed.

(* a caller comes back with the reply carrying its own id, or the timeout, or a send error, or (one-way) nothing *)
Theorem C08_outcome : forall ls s k c o, Pending.run Pending.init ls = Some s -> nth_error (calls s) k = Some c -> c_pc c = CRet o ->
  o = OTimeout \/ o = OErr \/ o = OOneWay \/ exists p, o = OReply p /\ p_id p = c_id c /\ p_id p <> 0 /\ p_oneway p = false.
Proof. exact PendingProofs.outcome_cases. Qed.

(* trace validation: every connection of a trace accepted by [maccepts] (what the harness asks on every run) is a good run
   of the pending-table machine from [init] — the theorems above apply to what was observed *)
Theorem C08_accepted_trace_components : forall n ls obs snaps lft pu, maccepts (n, ls, obs, snaps, lft, pu) = true ->
  exists ms, mrun (repeat Pending.init n) ls = Some ms /\
    forall a s', nth_error ms a = Some s' -> exists pls, Pending.run Pending.init pls = Some s' /\ good_run Pending.init pls = true.
Proof. exact PendingProofs.maccepts_components. Qed.

(* ---- the process: one id generator, any number of threads, any number of adapters (connections) each with its own
   table; a call is registered under the id its own genRequestID call returned (Conc/C08Sys.v).  All label sequences. ---- *)

(* every adapter is a run of the pending-table machine: the theorems above hold of every connection of the process *)
Theorem C08_sys_adapter_is_run : forall c0 nt na ls s, srun maxi (sinit c0 nt na) ls = Some s ->
  forall a ad, nth_error (ads s) a = Some ad -> exists pls, Pending.run Pending.init pls = Some ad.
Proof. exact (C08SysProofs.sys_adapter_is_run maxi). Qed.

(* and the adapters of the process evolve by steps of the product machine the recorded traces are validated against *)
Theorem C08_sys_adapters_step : forall s l s', sstep maxi s l = Some s' ->
  ads s' = ads s \/ exists al, mstep (ads s) al = Some (ads s').
Proof. exact (C08SysProofs.sstep_ads_mstep maxi). Qed.

(* no call is ever registered under id 0 *)
Theorem C08_sys_ids_nonzero : forall c0 nt na ls s, srun maxi (sinit c0 nt na) ls = Some s ->
  forall a k c p, call_at s a k c p -> c_id c <> 0.
Proof. exact (C08SysProofs.sys_ids_nonzero maxi). Qed.

(* two different calls of the process (any adapters, outstanding or not) with the same id: their ids were allocated at
   least 2^31-2 allocations apart *)
Theorem C08_sys_shared_id_far : forall c0, in_i32 c0 -> forall nt na ls s, srun maxi (sinit c0 nt na) ls = Some s ->
  forall a1 k1 c1 p1 a2 k2 c2 p2, call_at s a1 k1 c1 p1 -> call_at s a2 k2 c2 p2 -> (a1 <> a2 \/ k1 <> k2) ->
  c_id c1 = c_id c2 -> 2147483648 - 2 <= Z.abs (Z.of_nat p1 - Z.of_nat p2).
Proof. exact (C08SysProofs.sys_shared_id_far maxi eq_refl). Qed.

(* no two concurrently outstanding calls of the process share an id — in every state in which no outstanding call has been
   overtaken by 2^31-2 or more later allocations ([all_young]; without that proviso the statement is false of the code:
   the counter is 32 bits wide and C08_sys_shared_id_far is tight) *)
Theorem C08_sys_outstanding_distinct : forall c0, in_i32 c0 -> forall nt na ls s, srun maxi (sinit c0 nt na) ls = Some s ->
  forall a1 k1 c1 p1 a2 k2 c2 p2, all_young s -> call_at s a1 k1 c1 p1 -> call_at s a2 k2 c2 p2 ->
  active c1 = true -> active c2 = true -> c_id c1 = c_id c2 -> a1 = a2 /\ k1 = k2.
Proof. exact (C08SysProofs.sys_outstanding_distinct maxi eq_refl). Qed.

(* the clause as literally worded ("no two concurrently outstanding calls of a process share an id", no proviso) *)
Definition C08_outstanding_never_share_statement : Prop :=
  forall c0 nt na ls s a1 k1 c1 p1 a2 k2 c2 p2, in_i32 c0 -> srun 2147483647 (sinit c0 nt na) ls = Some s ->
    call_at s a1 k1 c1 p1 -> call_at s a2 k2 c2 p2 -> active c1 = true -> active c2 = true -> c_id c1 = c_id c2 ->
    a1 = a2 /\ k1 = k2.

(* ... is false of the model and of the code (32-bit counter): a call that stays outstanding while 2^31-2 further ids are
   allocated meets a second call with its id (witness: C08SysProofs.wrap_labels, 2^31 labels, proved symbolically;
   replayed on the code by the thorough tier's "wrap" scenario) *)
Theorem C08_outstanding_never_share_refuted : ~ C08_outstanding_never_share_statement.
Proof. exact C08SysProofs.unconditional_distinct_refuted. Qed.

(* the reply a call holds carries the call's own id, and no other outstanding call of the process, on this or any other
   connection, has that id: never a response addressed to another call *)
Theorem C08_sys_no_foreign_reply : forall c0, in_i32 c0 -> forall nt na ls s, srun maxi (sinit c0 nt na) ls = Some s ->
  forall a k c p pk, all_young s -> call_at s a k c p -> c_pc c = CGot pk ->
  p_id pk = c_id c /\ p_id pk <> 0 /\
  forall a' k' c' p', call_at s a' k' c' p' -> active c' = true -> (a' <> a \/ k' <> k) -> c_id c' <> p_id pk.
Proof. exact (C08SysProofs.sys_no_foreign_reply maxi eq_refl). Qed.

(* the generator discharges the hypothesis [good_run] of C08_own_entry / C08_outstanding_distinct: whenever a thread
   registers a call, the id is non-zero and (young calls) no outstanding call on any adapter of the process holds it *)
Theorem C08_sys_registration_good : forall c0, in_i32 c0 -> forall nt na ls s t a ow s',
  srun maxi (sinit c0 nt na) ls = Some s -> sstep maxi s (SReg t a ow) = Some s' -> all_young s' ->
  exists v, nth_error (pcs (gen s)) t = Some (TDone v) /\ mgoodb (ads s) (a, LRegister v ow) = true.
Proof. exact (C08SysProofs.sys_registration_good maxi eq_refl). Qed.

(* [all_young] holds in particular while the process has performed fewer than 2^31-1 allocations in all *)
Theorem C08_sys_young_if_few : forall s, Z.of_nat (allocs s) < 2147483648 - 1 -> all_young s.
Proof. exact C08SysProofs.young_if_few. Qed.

(* ---- the CURRENT source of ServantProxy.TarsInvoke: the id on the wire is genRequestID's result ----
   The request literal and the timeout statements after it are regenerated from tars/servant.go on every run
   (Xlate/TarsInvokeEquiv.v): whatever the call kind, the per-call timeout, the caller's deadline - the request that leaves
   TarsInvoke carries the id genRequestID returned (whose steps are Xlate/ReqIdEquiv.v), ITimeout is the effective timeout. *)
From TarsV Require Import Xlate.GoSem Gen.Translated Xlate.TarsInvokeEquiv.
Theorem C08_source_request_id : forall cType fn status ctx mtype name proxy_ms version id sbuf has_dl until ct,
  int31 proxy_ms -> int31 (snd (fst ct)) -> int63 until ->
  exists armed t req, go_tarsinvoke cType fn status ctx mtype name proxy_ms version id sbuf has_dl until ct = Next (armed, t, req) /\
    go_requestf_RequestPacket_IRequestId req = id /\
    go_requestf_RequestPacket_ITimeout req = eff_itimeout proxy_ms (per_call ct) (if has_dl then Some until else None) /\
    t = eff_timeout proxy_ms (per_call ct) (if has_dl then Some until else None) /\
    armed = (if has_dl then []%list else [t]%list).
Proof. exact TarsInvokeEquiv.tarsinvoke_request_id. Qed.

Print Assumptions C08_id_nonzero.
Print Assumptions C08_id_distance.
Print Assumptions C08_id_distance_tight.
Print Assumptions C08_id_window_distinct.
Print Assumptions C08_routing.
Print Assumptions C08_unknown_reaches_nobody.
Print Assumptions C08_delivered_once.
Print Assumptions C08_late_reply_inert.
Print Assumptions C08_cleanup.
Print Assumptions C08_cleanup_quiescent.
Print Assumptions C08_own_entry.
Print Assumptions C08_outstanding_distinct.
Print Assumptions C08_outcome.
Print Assumptions C08_accepted_trace_components.
Print Assumptions C08_sys_adapter_is_run.
Print Assumptions C08_sys_adapters_step.
Print Assumptions C08_sys_ids_nonzero.
Print Assumptions C08_sys_shared_id_far.
Print Assumptions C08_sys_outstanding_distinct.
Print Assumptions C08_outstanding_never_share_refuted.
Print Assumptions C08_sys_no_foreign_reply.
Print Assumptions C08_sys_registration_good.
Print Assumptions C08_sys_young_if_few.
Print Assumptions C08_source_request_id.
(* ---- the CURRENT source of AdapterProxy.Recv is the model's lookup step ----
   regenerated from tars/adapter.go on every run (Xlate/AdapterRecvEquiv.v): id 0 -> push callback, one-way -> dropped, else the
   pending table is looked up BY THE PACKET'S ID and the packet offered to that entry's channel only (with a timer of
   conf.ReadTimeout), nothing when there is no entry - the actions of the model's LLookup outcome. *)
From TarsV Require Import Xlate.AdapterRecvEquiv.
Theorem C08_source_recv_lookup : forall (p : packet) (t : list (Z * nat)) ptype read_timeout sel out,
  (ptype =? k_basef_TARSONEWAY)%Z = p_oneway p ->
  out_of (tr_adapter_Recv read_timeout (match lookup (p_id p) t with Some _ => true | None => false end) ptype (p_id p) sel out)
  = Some (out ++ acts_of (lookup_pc p t) read_timeout)%list.
Proof. exact AdapterRecvEquiv.tr_adapter_Recv_equiv. Qed.
Theorem C08_source_recv_lookup_is_step : forall s r rc, nth_error (recvs s) r = Some rc -> r_pc rc = RStart ->
  step s (LLookup r) = Some {| table := table s; calls := calls s; recvs := upd r (set_rpc rc (lookup_pc (r_pkt rc) (table s))) (recvs s) |}.
Proof. exact AdapterRecvEquiv.lookup_pc_is_step. Qed.
Print Assumptions C08_source_recv_lookup.
Print Assumptions C08_source_recv_lookup_is_step.
