(* C03 — generated struct codecs round-trip and match the IDL schema encoding. Statements only.
   The model (Codec/GenCodec.v) is tied to the generated Go code on every run by the correspondence on every
   generated struct type (model decode = ReadFrom, model encode(decode) = WriteTo, byte-exact). *)
From Coq Require Import List NArith ZArith.
From TarsV Require Import Base.Hex Codec.Wire Codec.Skip Codec.Prim Codec.GenCodec Codec.Corr Codec.GenProofs
  Codec.RoundTrip Codec.RoundTripProofs Codec.RoundTripExamples Gen.Schemas.
Import ListNotations.
Open Scope N_scope.

(* Struct-level round trip, for EVERY schema environment satisfying wf_schema (member tags strictly ascending
   and < 256, declared defaults on scalar members only, by-value struct nesting of depth <= k), every struct
   type of it - flat, with strings/byte vectors, vectors, maps, fixed arrays, nested and recursive structs -
   and every well-typed value: decoding the encoding into a fresh target yields the normal form of the value
   (the value itself except that an optional scalar that was omitted because it compares equal to its default
   comes back as the default), and consumes the input exactly. The last hypothesis is the adequacy of the
   model's fuel (4*len+64) for the value's recursion depth. *)
Theorem C03_roundtrip : forall e k sid vs,
  wf_schema k e -> (S k <= 64)%nat -> has_type e (TStruct sid) (VStruct vs) ->
  (need_list vs + k + 3 <= 2 * length (encode e sid (VStruct vs)) + 64)%nat ->
  decode e sid (encode e sid (VStruct vs)) = DOk (norm_struct e sid (VStruct vs)) [].
Proof. exact RoundTripProofs.roundtrip_struct. Qed.

(* the same with the fuel condition discharged from the schema alone, for every struct type whose type graph
   is finite (tfin) and whose static depth bound (tneed) fits the model's constant *)
Theorem C03_roundtrip_static : forall e k n sid vs,
  wf_schema k e -> (S k <= 64)%nat -> tfin n e (TStruct sid) = true -> (tneed n e (TStruct sid) + k <= 64)%nat ->
  has_type e (TStruct sid) (VStruct vs) ->
  decode e sid (encode e sid (VStruct vs)) = DOk (norm_struct e sid (VStruct vs)) [].
Proof. exact RoundTripProofs.roundtrip_struct_static. Qed.

(* into any admissible target (every position without a declared default holds the Go zero value), before any
   suffix that cannot be mistaken for a member: the cursor stops exactly at the suffix *)
Theorem C03_roundtrip_into : forall e k sid vs prior rest,
  wf_schema k e -> has_type e (TStruct sid) (VStruct vs) -> zlike e (TStruct sid) prior ->
  (forall fd, In fd (fields_of e sid) -> follows (ftag fd) rest) ->
  (need_list vs + k + 3 <= 2 * length (encode e sid (VStruct vs) ++ rest) + 64)%nat ->
  decode_into e sid prior (encode e sid (VStruct vs) ++ rest) = DOk (norm_struct e sid (VStruct vs)) rest.
Proof. exact RoundTripProofs.roundtrip_into. Qed.

(* the fuel the model needs is linear in the encoding, with a constant that depends on the schema only *)
Theorem C03_fuel_linear : forall e n sid vs, tfin n e (TStruct sid) = true -> has_type e (TStruct sid) (VStruct vs) ->
  (3 + need_list vs <= tneed n e (TStruct sid) + 2 * length (encode e sid (VStruct vs)))%nat.
Proof. exact RoundTripProofs.need_top. Qed.

(* instantiated on the schemas regenerated from the tree: they satisfy wf_schema, and every well-typed value
   of every generated struct type with a finite type graph (all but the recursive test struct) round-trips *)
Theorem C03_code_schemas_wf : wf_schema 2 env0.
Proof. exact RoundTripExamples.env0_wf_schema. Qed.
Theorem C03_code_schemas_roundtrip : forall sid vs, tfin 8 env0 (TStruct sid) = true ->
  has_type env0 (TStruct sid) (VStruct vs) ->
  decode env0 sid (encode env0 sid (VStruct vs)) = DOk (norm_struct env0 sid (VStruct vs)) [].
Proof. exact RoundTripExamples.env0_roundtrip. Qed.
Theorem C03_code_schemas_finite :
  filter (fun sid => negb (tfin 8 env0 (TStruct sid))) (seq 0 (length env0)) = [sid_verifidl_Rec].
Proof. exact RoundTripExamples.env0_nonrecursive. Qed.

(* member level: every scalar member type round-trips under any tag, before any suffix, exact cursor *)
Theorem C03_scalar_member_roundtrip : forall f e tag req t prior v rest, tag < 256 -> scalar_typed t v ->
  dec_var (S (S f)) e tag req t prior (w_scalar t v tag ++ rest) = DOk v rest.
Proof. exact GenProofs.scalar_member_roundtrip. Qed.

(* the boolean checkers used to instantiate the hypotheses are sound *)
Theorem C03_wf_schema_b_sound : forall k e, wf_schema_b k e = true -> wf_schema k e.
Proof. exact RoundTripProofs.wf_schema_b_sound. Qed.
Theorem C03_has_type_b_sound : forall e fuel t v, has_type_b fuel e t v = true -> has_type e t v.
Proof. exact RoundTripProofs.has_type_b_sound. Qed.

Print Assumptions C03_roundtrip.
Print Assumptions C03_roundtrip_static.
Print Assumptions C03_roundtrip_into.
Print Assumptions C03_fuel_linear.
Print Assumptions C03_code_schemas_wf.
Print Assumptions C03_code_schemas_roundtrip.
Print Assumptions C03_code_schemas_finite.
Print Assumptions C03_scalar_member_roundtrip.
Print Assumptions C03_wf_schema_b_sound.
Print Assumptions C03_has_type_b_sound.
