(* C03 — generated struct codecs round-trip and match the IDL schema encoding. Statements only.
   The model (Codec/GenCodec.v) is tied to the generated Go code on every run by the correspondence on every
   generated struct type (model decode = ReadFrom, model encode(decode) = WriteTo, byte-exact). *)
From Coq Require Import List NArith ZArith Sorted.
From TarsV Require Import Base.Hex Codec.Wire Codec.Skip Codec.SkipProofs Codec.Prim Codec.PrimProofs Codec.GenCodec Codec.Corr Codec.GenProofs
  Codec.RoundTrip Codec.RoundTripProofs Codec.NormProofs Codec.WireSpec Codec.WireSpecProofs Codec.RoundTripExamples Codec.CanonProofs Codec.TypedProofs Codec.DeepConfProofs Codec.RefDecoder Codec.RefDecoderProofs Codec.CanonExamples Codec.CorrT Gen.Schemas.
Import ListNotations.
Open Scope N_scope.

(* Struct-level round trip, for EVERY schema environment satisfying wf_schema (member tags strictly ascending
   and < 256, declared defaults on scalar members only, by-value struct nesting of depth <= k), every struct
   type of it - flat, with strings/byte vectors, vectors, maps, fixed arrays, nested and recursive structs -
   and every well-typed value: decoding the encoding into a fresh target yields the normal form of the value
   (the value itself except that an optional scalar that was omitted because it compares equal to its default
   comes back as the default), and consumes the input exactly. The last hypothesis is the adequacy of the
   model's fuel (4*len+64) for the value's recursion depth. *)
Theorem C03_roundtrip : forall e k sid vs,
  wf_schema k e -> (S k <= 64)%nat -> has_type e (TStruct sid) (VStruct vs) ->
  (need_list vs + k + 3 <= 2 * length (encode e sid (VStruct vs)) + 64)%nat ->
  decode e sid (encode e sid (VStruct vs)) = DOk (norm_struct e sid (VStruct vs)) [].
Proof. exact RoundTripProofs.roundtrip_struct. Qed.

(* FIRST CLAUSE in the property's own terms: for every wf_schema environment whose declared defaults are values of
   their member's type, every struct type with a finite type graph and every well-typed value, decoding the
   encoding succeeds, consumes everything and yields a value EQUAL to the original (veq: identical except that
   float members compare with Go's ==, i.e. -0 = +0; the decoded value is norm v) *)
Theorem C03_roundtrip_equal : forall e k n sid vs,
  wf_schema k e -> defaults_typed e -> (S k <= 64)%nat ->
  tfin n e (TStruct sid) = true -> (tneed n e (TStruct sid) + k <= 64)%nat ->
  has_type e (TStruct sid) (VStruct vs) ->
  exists v', decode e sid (encode e sid (VStruct vs)) = DOk v' [] /\ veq e (TStruct sid) v' (VStruct vs).
Proof. exact NormProofs.roundtrip_equal. Qed.
Theorem C03_norm_equal : forall e, defaults_typed e -> forall sid vs, has_type e (TStruct sid) (VStruct vs) ->
  veq e (TStruct sid) (norm_struct e sid (VStruct vs)) (VStruct vs).
Proof. exact NormProofs.norm_veq. Qed.
Theorem C03_code_schemas_roundtrip_equal : forall sid vs, fits_model sid = true ->
  has_type env0 (TStruct sid) (VStruct vs) ->
  exists v', decode env0 sid (encode env0 sid (VStruct vs)) = DOk v' [] /\ veq env0 (TStruct sid) v' (VStruct vs).
Proof. exact RoundTripExamples.env0_roundtrip_equal. Qed.

(* the same with the fuel condition discharged from the schema alone, for every struct type whose type graph
   is finite (tfin) and whose static depth bound (tneed) fits the model's constant *)
Theorem C03_roundtrip_static : forall e k n sid vs,
  wf_schema k e -> (S k <= 64)%nat -> tfin n e (TStruct sid) = true -> (tneed n e (TStruct sid) + k <= 64)%nat ->
  has_type e (TStruct sid) (VStruct vs) ->
  decode e sid (encode e sid (VStruct vs)) = DOk (norm_struct e sid (VStruct vs)) [].
Proof. exact RoundTripProofs.roundtrip_struct_static. Qed.

(* into ANY target (whatever it holds: the repaired ResetDefault assigns every member first), before any
   suffix that cannot be mistaken for a member: the cursor stops exactly at the suffix *)
Theorem C03_roundtrip_into : forall e k sid vs prior rest,
  wf_schema k e -> has_type e (TStruct sid) (VStruct vs) ->
  (forall fd, In fd (fields_of e sid) -> follows (ftag fd) rest) ->
  (need_list vs + k + 3 <= 2 * length (encode e sid (VStruct vs) ++ rest) + 64)%nat ->
  decode_into e sid prior (encode e sid (VStruct vs) ++ rest) = DOk (norm_struct e sid (VStruct vs)) rest.
Proof. exact RoundTripProofs.roundtrip_into. Qed.

(* the fuel the model needs is linear in the encoding, with a constant that depends on the schema only *)
Theorem C03_fuel_linear : forall e n sid vs, tfin n e (TStruct sid) = true -> has_type e (TStruct sid) (VStruct vs) ->
  (3 + need_list vs <= tneed n e (TStruct sid) + 2 * length (encode e sid (VStruct vs)))%nat.
Proof. exact RoundTripProofs.need_top. Qed.

(* The first clause with NO side condition on the schema's size, kept visible. It is not a theorem of the MODEL: the
   model's fuel is 4*len+64, and a struct type with more members than that constant allows exhausts it (witness
   below: 41 members, three levels). This limits the model, not the code - the generated Go decoder has no fuel;
   the theorems above cover every struct type with tneed + k <= 64 (the regenerated packet and test schemas need at most 44 + 8)
   and, with the explicit fuel hypothesis, every value of every struct type. *)
Definition C03_roundtrip_statement : Prop :=
  forall e k sid vs, wf_schema k e -> has_type e (TStruct sid) (VStruct vs) ->
  decode e sid (encode e sid (VStruct vs)) = DOk (norm_struct e sid (VStruct vs)) [].
Theorem C03_model_fuel_limit :
  wf_schema_b 2 wide_schema = true /\ has_type_b 20 wide_schema (TStruct 0) (wide_deep 3) = true /\
  decode wide_schema 0 (encode wide_schema 0 (wide_deep 3)) = DFuel.
Proof. exact RoundTripExamples.model_fuel_limit. Qed.

(* instantiated on the schemas regenerated from the tree: they satisfy wf_schema with typed defaults, and every
   well-typed value of every generated struct type that fits the model (finite type graph, static depth bound
   within the model's fuel constant: fits_model, decided by evaluation per struct type) round-trips; the packet types
   and the test IDL's struct types are covered, the recursive test struct is not (C03_roundtrip applies to it).
   Nothing here depends on how many struct types the tree generates or on their numbering. *)
Theorem C03_code_schemas_wf : wf_schema 8 env0.
Proof. exact RoundTripExamples.env0_wf_schema. Qed.
Theorem C03_code_schemas_roundtrip : forall sid vs, fits_model sid = true ->
  has_type env0 (TStruct sid) (VStruct vs) ->
  decode env0 sid (encode env0 sid (VStruct vs)) = DOk (norm_struct env0 sid (VStruct vs)) [].
Proof. exact RoundTripExamples.env0_roundtrip. Qed.
Theorem C03_code_schemas_covered :
  forallb fits_model [sid_requestf_RequestPacket; sid_requestf_ResponsePacket; sid_verifidl_Containers;
                      sid_verifidl_Inner; sid_verifidl_Scalars; sid_verifidl_Tail] = true
  /\ tfin 8 env0 (TStruct sid_verifidl_Rec) = false.
Proof. exact RoundTripExamples.env0_covered. Qed.

(* SECOND CLAUSE. The bytes WriteTo produces are a well-formed Tars encoding of the shape the schema prescribes:
   for every wf_schema environment, struct type and well-typed value (encoding shorter than 2^30 bytes), they
   are the serialisation (Skip.v: ser_fields, the independent description of the wire format) of a field list fs
   built from the IDL types and the value alone (WireSpec.v: wire_fields/wire_of) that is well formed (fields_ok:
   byte ranges, tags < 256, lengths within the format's fields, recursively), conforms to the schema (every field
   under the tag of a member, in schema order, with a wire type the member's IDL type accepts; a member is
   missing only if optional) and has strictly ascending tags (so every member at most once). Nested struct
   values are WStruct (wire_fields ...) of their own schema, so the same holds at every level. *)
Theorem C03_wire_conformance : forall e k sid vs,
  wf_schema k e -> has_type e (TStruct sid) (VStruct vs) -> N.of_nat (length (encode e sid (VStruct vs))) < 1073741824 ->
  let fs := wire_fields e vs (fields_of e sid) in
  encode e sid (VStruct vs) = ser_fields fs /\ fields_ok fs /\ conforms (fields_of e sid) fs /\
  StronglySorted N.lt (map fst fs).
Proof. exact WireSpecProofs.encode_conforms. Qed.
(* ... at EVERY depth, formally (Codec/DeepConfProofs.v): tconf / sconf say that a wire tree conforms to an IDL type
   recursively - a struct value carries its members under their declared tags, in schema order, a member missing only
   if optional, and each member's tree conforms to the member's type; every vector / array element sits under tag 0
   (an array has exactly its declared length), every map key under tag 0 and value under tag 1; vector<byte> is a
   SimpleList; every leaf has a wire type its reader accepts and no nesting *)
Theorem C03_wire_tree_conforms : forall e t v, has_type e t v -> tconf e t (wire_of e t v).
Proof. exact DeepConfProofs.wire_tconf. Qed.
Theorem C03_wire_conformance_deep : forall e sid vs, has_type e (TStruct sid) (VStruct vs) ->
  sconf e (fields_of e sid) (wire_fields e vs (fields_of e sid)).
Proof. exact DeepConfProofs.wire_fields_sconf. Qed.
(* THE INDEPENDENT REFERENCE DECODER of the property's second sentence (Codec/RefDecoder.v: unwire). It is
   schema-directed, works on wire trees - not on bytes - and shares nothing with the model of the generated decoder
   (no cursor, no seeking or skipping): integers are whatever width the field has, members are matched by declared
   tag, a missing optional member gets its declared default (else the zero value), a missing required member, an
   undeclared tag or a wire type of another kind is refused. For every wf_schema environment, struct type and
   well-typed value: the bytes WriteTo produces are the serialisation of a wire tree that the reference decoder
   maps back to the same value (its normal form). *)
Theorem C03_reference_decoder : forall e k sid vs, wf_schema k e -> has_type e (TStruct sid) (VStruct vs) ->
  let fs := wire_fields e vs (fields_of e sid) in
  encode e sid (VStruct vs) = ser_fields fs /\
  unwire (need (VStruct vs)) e (TStruct sid) (WStruct fs) = Some (norm_struct e sid (VStruct vs)).
Proof. exact RefDecoderProofs.reference_decoder. Qed.
Theorem C03_reference_decoder_refuses :
  let e := [[ {| ftag := 0; freq := true; fty := TI32; fdef := None |}; {| ftag := 2; freq := false; fty := TStr; fdef := None |} ]] in
  unwire 5 e (TStruct 0) (WStruct [(0, WByte 5); (2, WStr1 [97])]) = Some (VStruct [VInt 5; VStr [97]]) /\
  unwire 5 e (TStruct 0) (WStruct [(0, WByte 5)]) = Some (VStruct [VInt 5; VStr []]) /\
  unwire 5 e (TStruct 0) (WStruct [(2, WStr1 [97])]) = None /\
  unwire 5 e (TStruct 0) (WStruct [(0, WByte 5); (1, WByte 1)]) = None /\
  unwire 5 e (TStruct 0) (WStruct [(0, WByte 5); (2, WByte 1)]) = None.
Proof. exact RefDecoderProofs.reference_decoder_refuses. Qed.
(* every member and element, at any depth: the bytes are the serialised wire tree of the value, or nothing when the
   member is optional and left out *)
Theorem C03_wire_member : forall e n, (forall tag req t d v, has_type e t v -> (need v <= n)%nat ->
  enc_var e tag req t d v = if left_out t req d v then [] else ser_field (tag, wire_of e t v)).
Proof. exact (fun e n => proj1 (WireSpecProofs.wire_all e n)). Qed.
(* integers in their narrowest width: the wire tree of an integer serialises to the declarative spec_int of C02 *)
Theorem C03_int_narrowest : forall z tag, fits 64 z = true -> ser_field (tag, wint z) = spec_int z tag.
Proof. exact WireSpecProofs.wint_narrowest. Qed.
(* the wire type of every member is one the reader of its IDL type accepts *)
Theorem C03_wire_admissible : forall e t v, has_type e t v -> adm t (ty_of (wire_of e t v)) = true.
Proof. exact WireSpecProofs.adm_wire. Qed.

(* THE ENCODING IS CANONICAL. encode o norm = encode: what is decoded from an encoding re-encodes to the same bytes
   (decode-then-encode is the identity on every image of the encoder); two well-typed values have the same bytes
   exactly when they have the same normal form - so the bytes of a value are unique and the encoder is injective
   up to norm (Go's == on optional floats that were left out). Every wf_schema environment with typed defaults,
   every struct type with a finite type graph. *)
Theorem C03_encode_norm : forall e, defaults_typed e -> forall sid vs, has_type e (TStruct sid) (VStruct vs) ->
  encode e sid (norm_struct e sid (VStruct vs)) = encode e sid (VStruct vs).
Proof. exact CanonProofs.encode_norm. Qed.
Theorem C03_reencode_canonical : forall e k n, wf_schema k e -> defaults_typed e -> (S k <= 64)%nat ->
  forall sid, tfin n e (TStruct sid) = true -> (tneed n e (TStruct sid) + k <= 64)%nat ->
  forall vs, has_type e (TStruct sid) (VStruct vs) ->
  exists v', decode e sid (encode e sid (VStruct vs)) = DOk v' [] /\ encode e sid v' = encode e sid (VStruct vs).
Proof. exact CanonProofs.reencode_canonical. Qed.
Theorem C03_encode_injective : forall e k n, wf_schema k e -> defaults_typed e -> (S k <= 64)%nat ->
  forall sid, tfin n e (TStruct sid) = true -> (tneed n e (TStruct sid) + k <= 64)%nat ->
  forall vs1 vs2, has_type e (TStruct sid) (VStruct vs1) -> has_type e (TStruct sid) (VStruct vs2) ->
  (encode e sid (VStruct vs1) = encode e sid (VStruct vs2) <-> norm_struct e sid (VStruct vs1) = norm_struct e sid (VStruct vs2)).
Proof. exact CanonProofs.encode_injective. Qed.
Theorem C03_code_schemas_reencode_canonical : forall sid vs, fits_model sid = true -> has_type env0 (TStruct sid) (VStruct vs) ->
  exists v', decode env0 sid (encode env0 sid (VStruct vs)) = DOk v' [] /\ encode env0 sid v' = encode env0 sid (VStruct vs).
Proof. exact CanonExamples.env0_reencode_canonical. Qed.
Theorem C03_code_schemas_encode_injective : forall sid vs1 vs2, fits_model sid = true ->
  has_type env0 (TStruct sid) (VStruct vs1) -> has_type env0 (TStruct sid) (VStruct vs2) ->
  (encode env0 sid (VStruct vs1) = encode env0 sid (VStruct vs2) <-> norm_struct env0 sid (VStruct vs1) = norm_struct env0 sid (VStruct vs2)).
Proof. exact CanonExamples.env0_encode_injective. Qed.
(* EXACTLY there: on an accepted input (every byte < 256, shorter than 2^31, everything consumed) decode-then-encode
   gives the input back if and only if the input is the encoding of a well-typed value - the non-canonical accepted
   inputs are precisely those outside the encoder's image (uses C06_decode_typed: what the decoder returns is well typed) *)
Theorem C03_reencode_exact : forall e k n sid bs v,
  wf_schema k e -> defaults_typed e -> arrs_ok e -> (S k <= 64)%nat ->
  tfin n e (TStruct sid) = true -> (tneed n e (TStruct sid) + k <= 64)%nat ->
  bytes_ok bs -> lenok bs -> decode e sid bs = DOk v [] ->
  (encode e sid v = bs <-> exists vs, has_type e (TStruct sid) (VStruct vs) /\ bs = encode e sid (VStruct vs)).
Proof. exact TypedProofs.reencode_exact. Qed.
Theorem C03_code_schemas_reencode_exact : forall sid bs v, fits_model sid = true -> bytes_ok bs -> lenok bs ->
  decode env0 sid bs = DOk v [] ->
  (encode env0 sid v = bs <-> exists vs, has_type env0 (TStruct sid) (VStruct vs) /\ bs = encode env0 sid (VStruct vs)).
Proof. exact CanonExamples.env0_reencode_exact. Qed.
(* canonicalising an accepted input preserves its meaning: the re-encoding decodes, everything consumed, to a value
   equal to the one first decoded, and re-encoding again changes nothing *)
Theorem C03_reencode_meaning : forall e k n sid bs v,
  wf_schema k e -> defaults_typed e -> arrs_ok e -> (S k <= 64)%nat ->
  tfin n e (TStruct sid) = true -> (tneed n e (TStruct sid) + k <= 64)%nat ->
  bytes_ok bs -> lenok bs -> decode e sid bs = DOk v [] ->
  exists v', decode e sid (encode e sid v) = DOk v' [] /\ veq e (TStruct sid) v' v /\ encode e sid v' = encode e sid v.
Proof. exact TypedProofs.reencode_meaning. Qed.
(* ... and ONLY there: "decode-then-encode is the identity on every ACCEPTED input" is false. The readers accept more
   than the writers produce, by design of the wire format (readers widen): an integer in a wider-than-narrowest
   width, STRING4 for a short string, a member present at its default, ZeroTag for a float, a double sent as FLOAT,
   vector<byte> as LIST, unknown fields. Each kind is accepted with everything consumed and re-encodes to different -
   the canonical - bytes (noncanonical_images, evaluated on the model; replayed on the generated Go code, see design/C03.md). *)
Definition C03_reencode_identity_statement : Prop :=
  forall e sid bs v, decode e sid bs = DOk v [] -> encode e sid v = bs.
Theorem C03_reencode_identity_refuted : ~ C03_reencode_identity_statement.
Proof. exact CanonProofs.reencode_identity_refuted. Qed.
Theorem C03_noncanonical_images :
  noncanonical [1; 0; 5] = true /\ noncanonical [2; 0; 0; 0; 5] = true /\ noncanonical [0; 5; 23; 0; 0; 0; 1; 97] = true
  /\ noncanonical [0; 5; 32; 7] = true /\ noncanonical [0; 5; 57; 0; 1; 0; 9] = true /\ noncanonical [0; 5; 92] = true
  /\ noncanonical [0; 5; 84; 63; 128; 0; 0] = true /\ noncanonical [0; 5; 64; 9] = true /\ noncanonical [0; 5] = false.
Proof. exact CanonProofs.noncanonical_images. Qed.
(* the round trip on the member shapes the schema language allows beyond the regenerated schemas: fixed arrays of
   ragged nested vectors, arrays of byte vectors, vectors of arrays of maps, optional members of every scalar type at
   non-zero declared defaults (left out) and away from them, an empty required byte vector as the last bytes *)
Theorem C03_shapes_roundtrip :
  (has_type shapes (TStruct 0) (VStruct shape1) /\
   decode shapes 0 (encode shapes 0 (VStruct shape1)) = DOk (norm_struct shapes 0 (VStruct shape1)) [] /\
   norm_struct shapes 0 (VStruct shape1) = VStruct shape1) /\
  (has_type shapes (TStruct 0) (VStruct shape2) /\
   decode shapes 0 (encode shapes 0 (VStruct shape2)) = DOk (norm_struct shapes 0 (VStruct shape2)) [] /\
   norm_struct shapes 0 (VStruct shape2) = VStruct shape2).
Proof. exact (conj CanonExamples.shape1_roundtrip CanonExamples.shape2_roundtrip). Qed.

(* member level: every scalar member type round-trips under any tag, before any suffix, exact cursor *)
Theorem C03_scalar_member_roundtrip : forall f e tag req t prior v rest, tag < 256 -> scalar_typed t v ->
  dec_var (S (S f)) e tag req t prior (w_scalar t v tag ++ rest) = DOk v rest.
Proof. exact GenProofs.scalar_member_roundtrip. Qed.

(* the boolean checkers used to instantiate the hypotheses are sound *)
Theorem C03_wf_schema_b_sound : forall k e, wf_schema_b k e = true -> wf_schema k e.
Proof. exact RoundTripProofs.wf_schema_b_sound. Qed.
Theorem C03_has_type_b_sound : forall e fuel t v, has_type_b fuel e t v = true -> has_type e t v.
Proof. exact RoundTripProofs.has_type_b_sound. Qed.

Print Assumptions C03_roundtrip.
Print Assumptions C03_roundtrip_equal.
Print Assumptions C03_norm_equal.
Print Assumptions C03_code_schemas_roundtrip_equal.
Print Assumptions C03_roundtrip_static.
Print Assumptions C03_roundtrip_into.
Print Assumptions C03_fuel_linear.
Print Assumptions C03_model_fuel_limit.
Print Assumptions C03_code_schemas_wf.
Print Assumptions C03_code_schemas_roundtrip.
Print Assumptions C03_code_schemas_covered.
Print Assumptions C03_wire_conformance.
Print Assumptions C03_wire_tree_conforms.
Print Assumptions C03_wire_conformance_deep.
Print Assumptions C03_reference_decoder.
Print Assumptions C03_reference_decoder_refuses.
Print Assumptions C03_wire_member.
Print Assumptions C03_int_narrowest.
Print Assumptions C03_wire_admissible.
Print Assumptions C03_encode_norm.
Print Assumptions C03_reencode_canonical.
Print Assumptions C03_encode_injective.
Print Assumptions C03_code_schemas_reencode_canonical.
Print Assumptions C03_code_schemas_encode_injective.
Print Assumptions C03_reencode_exact.
Print Assumptions C03_code_schemas_reencode_exact.
Print Assumptions C03_reencode_meaning.
Print Assumptions C03_reencode_identity_refuted.
Print Assumptions C03_noncanonical_images.
Print Assumptions C03_shapes_roundtrip.
Print Assumptions C03_scalar_member_roundtrip.
Print Assumptions C03_wf_schema_b_sound.
Print Assumptions C03_has_type_b_sound.
