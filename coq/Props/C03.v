(* C03 — generated struct codecs round-trip and match the IDL schema encoding. Statements only.
   Full statement (kept visible) and the parts proved; the full statement is decided on every run by the
   correspondence on every generated struct type (model decode = ReadFrom, model encode(decode) = WriteTo). *)
From Coq Require Import List NArith ZArith.
From TarsV Require Import Base.Hex Codec.Wire Codec.Skip Codec.Prim Codec.GenCodec Codec.Corr Codec.GenProofs Gen.Schemas.
Import ListNotations.
Open Scope N_scope.

(* full statement: for every well-formed schema environment, struct and value, decoding the encoding gives the value back *)
Definition C03_roundtrip_statement : Prop :=
  forall (e : env) (sid : nat) (v : val), wf_env e = true ->
  forall v', decode e sid (encode e sid v) = DOk v' [] -> val_sim (canon v') (canon v) = true.

(* proved: every scalar member type (bool, 8/16/32/64-bit signed and unsigned, float, double, string, enum)
   round-trips at member level under any tag, before any suffix, with the cursor exactly at the suffix *)
Theorem C03_scalar_member_roundtrip_partial : forall f e tag req t prior v rest, tag < 256 -> scalar_typed t v ->
  dec_var (S (S f)) e tag req t prior (w_scalar t v tag ++ rest) = DOk v rest.
Proof. exact GenProofs.scalar_member_roundtrip. Qed.

(* proved: an omitted optional scalar member decodes to its reset value without consuming anything *)
Theorem C03_optional_member_absent_partial : forall f e tag t prior rest,
  (match t with TVec _ | TMap _ _ | TArr _ _ | TStruct _ => False | _ => True end) ->
  (rest = [] \/ exists ty tg r, read_head2 rest = Some (ty, tg, r, negb (tg <? 15)) /\ ((ty =? tSE) || (tag <? tg) = true)) ->
  dec_var (S (S f)) e tag false t prior rest = DOk prior rest.
Proof. exact GenProofs.optional_member_absent. Qed.

(* the regenerated schemas of the code's own struct types are well formed (tags ascending, < 256, references resolve) *)
Theorem C03_code_schemas_wf : wf_env env0 = true.
Proof. exact Schemas.env0_wf. Qed.

Print Assumptions C03_scalar_member_roundtrip_partial.
Print Assumptions C03_optional_member_absent_partial.
Print Assumptions C03_code_schemas_wf.
