(* C18 — endpoint strings parse to the same endpoint they describe. Statements only. *)
From Coq Require Import List NArith ZArith.
From TarsV Require Import Base.Hex Endpoint.Parse Endpoint.ParseProofs.
From TarsV Require Xlate.ParseEquiv.
Import ListNotations.
Open Scope Z_scope.

(* every textual form: protocol token, options "-x value" in any order / any subset / duplicates, any
   non-empty blank runs between tokens, optional trailing blanks; integers in decimal within int64 *)
Theorem C18_parse_render : forall pr items toks trail,
  length pr = 3%nat -> token pr -> Forall item_ok items ->
  map snd toks = concat (map item_tokens items) ->
  Forall (fun st => blank_run (fst st) /\ token (snd st)) toks -> spaces trail ->
  parse (rendered pr toks trail) = Ok (build pr (fold_left apply_item items fdefault)).
Proof. exact ParseProofs.parse_rendered. Qed.

(* ... where each option has exactly the written value (last occurrence) or its documented default *)
Theorem C18_int_option_value : forall f items, is_str f = false -> forall st, Forall item_ok items ->
  get_int f (fold_left apply_item items st) = last_int f items (get_int f st).
Proof. exact ParseProofs.fold_get_int. Qed.
Theorem C18_str_option_value : forall f items, is_str f = true -> forall st, Forall item_ok items ->
  get_str f (fold_left apply_item items st) = last_str f items (get_str f st).
Proof. exact ParseProofs.fold_get_str. Qed.

Theorem C18_convert_roundtrip : forall e,
  let e' := tars2endpoint (endpoint2tars e) in
  host e' = host e /\ port e' = port e /\ timeout e' = timeout e /\ istcp e' = istcp e /\ grid e' = grid e /\
  qos e' = qos e /\ weight e' = weight e /\ wtype e' = wtype e /\ auth e' = auth e /\ setid e' = setid e.
Proof. exact ParseProofs.convert_roundtrip. Qed.

Theorem C18_key_agreement : forall pr st, (pr = s_tcp \/ pr = s_udp \/ pr = s_ssl) ->
  key (tars2endpoint (endpoint2tars (build pr st))) = key (build pr st).
Proof. exact ParseProofs.key_agreement. Qed.

Theorem C18_no_panic : forall s, exists e, parse s = Ok e.
Proof. exact ParseProofs.parse_no_panic. Qed.

(* the repair is conservative: wherever the unguarded code returned, the guarded code returns the same *)
Theorem C18_guard_conservative : forall s e, parse_unguarded s = Ok e -> parse s = Ok e.
Proof. exact ParseProofs.parse_guard_conservative. Qed.

(* on every input string the tokenizer hands the option parser proper tokens only (non-empty, blank-free) *)
Theorem C18_fields_tokens : forall s, Forall token (fields s).
Proof. exact ParseProofs.fields_all_tokens. Qed.

(* trailing blanks after ANY string leave the field list (hence every option value) unchanged *)
Theorem C18_trailing_blanks : forall s sp, spaces sp -> fields (s ++ sp) = fields s.
Proof. exact ParseProofs.fields_trailing. Qed.

Print Assumptions C18_parse_render.
Print Assumptions C18_int_option_value.
Print Assumptions C18_str_option_value.
Print Assumptions C18_convert_roundtrip.
Print Assumptions C18_key_agreement.
Print Assumptions C18_no_panic.
Print Assumptions C18_guard_conservative.
Print Assumptions C18_fields_tokens.
Print Assumptions C18_trailing_blanks.
