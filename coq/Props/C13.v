(* C13 - endpoint selection: members only, strict rotation, weight-proportional. Statements only.
   Model: Select/Selectors.v (the four selectors as sequential state machines over Refresh/Add/Remove/Select, random draws as
   arguments of the operations, Go panics as explicit outcomes, the virtual nodes of the consistent hash as the function
   [points]); state_after k weighted h = the state reached from the empty selector by the history h;
   set_of_history h = the abstract set (keyed by host, first occurrence wins in Refresh, Add ignored if present, Remove by host).
   Concurrency: every operation holds the selector's lock for its whole body and the cursor is a fetch-and-add, so a concurrent
   execution is a sequential history; that is the model's atomicity assumption, checked against the code by the race stress only. *)
From Coq Require Import List NArith ZArith Permutation.
From TarsV Require Import Base.Hex Gen.Consts Select.Selectors Select.Hist Select.WeightProofs Select.SelProofs Select.RingProofs.
From TarsV Require Xlate.BSWLEquiv.
From TarsV Require Xlate.SelectEquiv.
From TarsV Require Xlate.SWRREquiv.
From TarsV Require Xlate.ChWeightEquiv.
From TarsV Require Import Gen.SelRebuild Select.RebuildEquiv.
Import ListNotations.

(* members only: after any history, for any oracle values, a selection that succeeds returns an endpoint of the current set *)
Theorem C13_member : forall points k weighted h code rnd e,
  snd (select k (state_after points k weighted h) code rnd) = RSel e -> In e (set_of_history h).
Proof. exact SelProofs.member. Qed.
Print Assumptions C13_member.

(* never crashes: no operation of any history returns a panic, for any weights (Z, so all of int32) and weight types *)
Theorem C13_no_panic : forall points k weighted h, Forall res_ok (snd (run points k weighted sel0 h)).
Proof. exact SelProofs.no_panic. Qed.
Print Assumptions C13_no_panic.

(* ... and BuildStaticWeightList returns a cycle of positions of the list, at most 100 n + 1 long, having asked the allocator
   for at most 101 n + 1 slots (n endpoints) *)
Theorem C13_weight_cycle_total : forall l, exists c a, build_static_weight_list l = BOk c a /\
  (forall j, In j c -> (j < length l)%nat) /\
  (Z.of_nat (length c) <= 100 * Z.of_nat (length l) + 1)%Z /\ (a <= 101 * Z.of_nat (length l) + 1)%Z.
Proof. exact WeightProofs.bswl_total. Qed.
Print Assumptions C13_weight_cycle_total.

(* error only when no endpoint is eligible: round-robin, random, mod-hash fail exactly on the empty set *)
Theorem C13_error_iff_empty : forall points k weighted h code rnd, k <> ConHash ->
  (snd (select k (state_after points k weighted h) code rnd) = RErr <-> set_of_history h = []).
Proof. exact SelProofs.error_iff_empty. Qed.
Print Assumptions C13_error_iff_empty.

(* consistent hash: exactly when the set is empty, resp. (weighted) when no member has a positive weight - for histories over a
   universe U of hosts whose virtual nodes do not collide and are non-empty for a positive number of rounds (see C14) *)
Theorem C13_error_iff_conhash : forall points weighted (U : list N -> Prop), NoCollision points U ->
  (forall h n, U h -> (points h n = [] <-> n = 0%nat)) -> forall h code, Forall (op_over U) h ->
  (route points ConHash weighted h code = RErr <->
   if weighted then forall e, In e (set_of_history h) -> (wgt e <= 0)%Z else set_of_history h = []).
Proof. exact RingProofs.route_error_iff_conhash. Qed.
Print Assumptions C13_error_iff_conhash.

(* strict rotation: with no weight cycle installed (in particular: weights disabled), any n consecutive selections over an
   unchanged n-endpoint set are a rearrangement of the set - each endpoint exactly once - whatever the start position drawn by
   the last rebuild, as long as the 64-bit cursor does not wrap inside the window *)
Theorem C13_rotation : forall points weighted h crs,
  let s := state_after points RoundRobin weighted h in let l := set_of_history h in
  l <> [] -> cyc RoundRobin weighted l = [] -> length crs = length l -> (cursor s + N.of_nat (length l) < two64)%N ->
  Permutation (snd (run points RoundRobin weighted s (selects crs))) (map RSel l).
Proof. exact RingProofs.rotation_after. Qed.
Print Assumptions C13_rotation.

(* static weights W_i > 0: position i occurs in the weight cycle exactly max 1 (W_i * R / W_max) times,
   R = min 100 (max 10 (W_max / W_min)) ... *)
Theorem C13_swrr_counts : forall l maxw minw,
  (forall e, In e l -> wty e = 1%Z /\ (0 < wgt e <= max_int32)%Z) ->
  In maxw (map wgt l) -> (forall e, In e l -> (wgt e <= maxw)%Z) ->
  In minw (map wgt l) -> (forall e, In e l -> (minw <= wgt e)%Z) ->
  exists c a, build_static_weight_list l = BOk c a /\
    forall i e, nth_error l i = Some e ->
      cntz c i = Z.max 1 (wgt e * Z.min 100 (Z.max 10 (maxw / minw)) / maxw).
Proof. exact WeightProofs.bswl_counts. Qed.
Print Assumptions C13_swrr_counts.

(* ... and weighted round-robin after any history serves a full cycle - from any cursor position - as a rearrangement of that
   cycle: endpoint i exactly that many times *)
Theorem C13_weighted_cycle : forall points h maxw minw,
  let s := state_after points RoundRobin true h in let l := set_of_history h in
  (forall e, In e l -> wty e = 1%Z /\ (0 < wgt e <= max_int32)%Z) ->
  In maxw (map wgt l) -> (forall e, In e l -> (wgt e <= maxw)%Z) -> In minw (map wgt l) -> (forall e, In e l -> (minw <= wgt e)%Z) ->
  let c := cyc RoundRobin true l in
  c <> [] /\
  (forall i e, nth_error l i = Some e -> cntz c i = Z.max 1 (wgt e * Z.min 100 (Z.max 10 (maxw / minw)) / maxw)) /\
  (forall crs, length crs = length c -> (cursor s + N.of_nat (length c) < two64)%N ->
     Permutation (snd (run points RoundRobin true s (selects crs))) (map (fun j => RSel (nth j l dummy)) c)).
Proof. exact RingProofs.weighted_cycle_after. Qed.
Print Assumptions C13_weighted_cycle.

(* the state of every selector after any history at selector level (Refresh / Add / Remove / Select, any order, any oracle
   values): the member list IS the abstract set of the history, and the weight table is the one BuildStaticWeightList gives
   for that list - recomputed from scratch at every change, empty when weights are off or the list has no cycle: no table of
   an earlier set survives *)
Theorem C13_list_is_set : forall points k weighted h, eps (state_after points k weighted h) = set_of_history h.
Proof. exact SelProofs.state_after_eps. Qed.
Print Assumptions C13_list_is_set.
Theorem C13_cycle_of_current_set : forall points k weighted h,
  cache (state_after points k weighted h) = cyc k weighted (set_of_history h).
Proof. exact SelProofs.state_after_cache. Qed.
Print Assumptions C13_cycle_of_current_set.
(* ... every index of that table is a position of the current list, and every owner in the ring is a current member *)
Theorem C13_state_wellformed : forall points k weighted h, wf (state_after points k weighted h).
Proof. exact SelProofs.state_after_wf. Qed.
Print Assumptions C13_state_wellformed.

(* random: a draw r selects slot r mod L of the list (L = n) resp. of the weight cycle (L = its length) ... *)
Theorem C13_random_slot : forall points weighted h code rnd, set_of_history h <> [] ->
  let l := set_of_history h in let c := cyc Random weighted l in
  snd (select Random (state_after points Random weighted h) code rnd) =
  RSel (slot_of c l (N.modulo rnd (N.of_nat (match c with [] => length l | _ => length c end)))).
Proof. exact RingProofs.random_slot. Qed.
Print Assumptions C13_random_slot.
(* ... so the L equally likely draws hit every endpoint exactly once, resp. endpoint i exactly as often as the cycle contains
   it (C13_swrr_counts: max 1 (W_i*R/W_max) times): the selection probability is proportional to the prescribed count *)
Theorem C13_random_proportional : forall points weighted h code, set_of_history h <> [] ->
  let l := set_of_history h in let c := cyc Random weighted l in
  map (fun r => snd (select Random (state_after points Random weighted h) code (N.of_nat r)))
      (seq 0 (match c with [] => length l | _ => length c end)) = image_of c l.
Proof. exact RingProofs.random_draws. Qed.
Print Assumptions C13_random_proportional.

(* mod-hash: any L consecutive hash codes (not wrapping 2^32) are a rearrangement of the list resp. of the weight cycle *)
Theorem C13_modhash_proportional : forall points weighted h (p : N), set_of_history h <> [] ->
  let l := set_of_history h in let c := cyc ModHash weighted l in let L := match c with [] => length l | _ => length c end in
  (p + N.of_nat L < two32)%N ->
  Permutation (map (fun i => snd (select ModHash (state_after points ModHash weighted h) (p + N.of_nat i) 0)) (seq 1 L)) (image_of c l).
Proof. exact RingProofs.modhash_window. Qed.
Print Assumptions C13_modhash_proportional.

(* consistent hash: the number of rounds of virtual nodes a member gets, as computed by the CURRENT source of
   ConsistentHash.weight (Gen/Translated.v, regenerated on every run), is the model's ch_rounds for every int32 weight *)
Theorem C13_conhash_rounds_from_source : forall (w : Z) (weighted : bool), (- 2 ^ 31 <= w < 2 ^ 31)%Z ->
  exists r, Gen.Translated.tr_ch_weight w weighted (Z.of_N c_ConHashVirtualNodes) = Xlate.GoSem.Return r /\ Z.to_nat r = ch_rounds weighted w /\
            ((0 < r)%Z <-> (0 < (if weighted then w else Z.of_N c_ConHashVirtualNodes))%Z).
Proof. exact Xlate.ChWeightEquiv.tr_ch_weight_equiv. Qed.
Print Assumptions C13_conhash_rounds_from_source.

(* the rebuild step (after every Refresh / Add / Remove) as the CURRENT source of roundrobin / random / modhash reBuildLocked
   has it (Gen/SelRebuild.v, regenerated on every run) is the model's rebuild: table dropped and recomputed from the new list
   alone, round-robin cursors re-drawn within the new lengths *)
Theorem C13_rebuild_from_source_rr : forall weighted l r1 r2 s0, exists s', rebuild RoundRobin weighted l r1 r2 = Ok s' /\ eps s' = l /\
  gen_rr_reBuild weighted (length l) (cycle_of_list l) (draws r1 r2) s0 = rb_of s'.
Proof. exact RebuildEquiv.gen_rr_reBuild_model. Qed.
Print Assumptions C13_rebuild_from_source_rr.
Theorem C13_rebuild_from_source_modhash : forall weighted l r1 r2 d s0, exists s', rebuild ModHash weighted l r1 r2 = Ok s' /\ eps s' = l /\
  rb_cache (gen_mh_reBuild weighted (length l) (cycle_of_list l) d s0) = cache s' /\
  rb_pos (gen_mh_reBuild weighted (length l) (cycle_of_list l) d s0) = rb_pos s0 /\ rb_wpos (gen_mh_reBuild weighted (length l) (cycle_of_list l) d s0) = rb_wpos s0.
Proof. exact RebuildEquiv.gen_mh_reBuild_model. Qed.
Print Assumptions C13_rebuild_from_source_modhash.
Theorem C13_rebuild_from_source_random : forall weighted l r1 r2 d s0, exists s', rebuild Random weighted l r1 r2 = Ok s' /\ eps s' = l /\
  rb_cache (gen_rnd_reBuild weighted (length l) (cycle_of_list l) d s0) = cache s' /\
  rb_pos (gen_rnd_reBuild weighted (length l) (cycle_of_list l) d s0) = rb_pos s0 /\ rb_wpos (gen_rnd_reBuild weighted (length l) (cycle_of_list l) d s0) = rb_wpos s0.
Proof. exact RebuildEquiv.gen_rnd_reBuild_model. Qed.
Print Assumptions C13_rebuild_from_source_random.
