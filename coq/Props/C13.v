(* C13 - endpoint selection. Statements only. *)
From Coq Require Import List NArith ZArith.
From TarsV Require Import Base.Hex Select.Selectors Select.Hist.
