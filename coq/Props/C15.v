(* placeholder until the proofs land *)
From TarsV Require Import Select.Failover.
