(* C15 — failover: failing endpoints leave rotation, are probed, and come back. Statements only.
   Model: Select/Failover.v (state machine of one registry-backed servant; time, call outcomes, reachability at
   ReConnect, selector picks, the moment the reinstating goroutine runs and registry answers are label data).
   "run init ls = Some s" / "reachable s": s is the state after ANY label sequence ls the machine accepts.
   History vocabulary (Failover.v): fails_since ai ls = failed calls on adapter ai since it was created / last
   reinstated; streak ai ls = failed calls in a row; clock ls = now; last_ok ai ls = time of the last answered call (or one-way call handed to the transport).
   Thresholds are the regenerated constants of Gen/Consts.v (2, 5, 5 s, 30 s appear literally below; a changed
   constant breaks the proofs). *)
From Coq Require Import List NArith ZArith Bool.
From TarsV Require Import Gen.Consts Select.Failover Select.FailoverProofs Select.FailoverInv Select.FailoverThms
  Select.FailoverExamples Select.FailoverQueue Select.FailoverBack.
From TarsV Require Xlate.CheckActiveEquiv.
Import ListNotations.
Open Scope Z_scope.

(* the health record IS the history: what checkActive reads are the property's own quantities *)
Theorem C15_record_is_history : forall ls s ai a, run init ls = Some s -> get ai s = Some a ->
  gfail a = fails_since ai ls /\ lfc a = streak ai ls /\ tS a = last_ok ai ls /\ now s = clock ls.
Proof. exact FailoverThms.history_record. Qed.
Print Assumptions C15_record_is_history.

(* clause 1a: an endpoint of the registry list with no adapter yet, or fewer than two failed calls since it was
   (re)instated - in particular none - is in the selectors *)
Theorem C15_no_fail_no_block : forall ls s e, run init ls = Some s -> In e (reg s) ->
  (lookup e (att s) = None \/ exists ai, lookup e (att s) = Some ai /\ fails_since ai ls < 2) -> In e (sel s).
Proof. exact FailoverThms.no_fail_in_rotation_hist. Qed.
Print Assumptions C15_no_fail_no_block.

(* clause 1b: whoever is out of the selectors has a blocked adapter with at least two failed calls since (re)instatement *)
Theorem C15_two_failures : forall ls s e, run init ls = Some s -> In e (reg s) -> ~ In e (sel s) ->
  exists ai a, lookup e (att s) = Some ai /\ get ai s = Some a /\ ast a = false /\ 2 <= fails_since ai ls.
Proof. exact FailoverThms.out_of_rotation_two_failures_hist. Qed.
Print Assumptions C15_two_failures.

(* ... and only a status check takes an adapter out *)
Theorem C15_blocked_only_by_check : forall s l s' ai a a', reachable s -> step s l = Some s' ->
  get ai s = Some a -> ast a = true -> get ai s' = Some a' -> ast a' = false ->
  (exists r, l = Check r) /\ gfail a' = gfail a /\ 2 <= gfail a.
Proof. exact FailoverThms.blocked_only_by_check. Qed.
Print Assumptions C15_blocked_only_by_check.

(* clause 2: >= 5 failed calls in a row and no answered call for >= 5 s: after the next status check the adapter is
   blocked and the endpoint is in no selector; if any endpoint is left in the selectors, a normal (non-probe) selection
   never returns it.  Scope: histories in which no registry refresh has dropped an endpoint that had an adapter
   (shrunk = false: dropped from BOTH registry lists; see C15_shrunk_only_by_dropping_refresh and the refutation below). *)
Theorem C15_blocked_after_streak : forall ls s e ai r s', run init ls = Some s -> shrunk s = false ->
  In e (reg s) -> lookup e (att s) = Some ai ->
  5 <= streak ai ls -> 5 <= clock ls - last_ok ai ls ->
  step s (Check r) = Some s' ->
  exists a', get ai s' = Some a' /\ ast a' = false /\ ~ In e (sel s') /\
             (sel s' <> [] -> forall aj, step s' (SelPick e aj) = None).
Proof. exact FailoverThms.blocked_after_streak_hist. Qed.
Print Assumptions C15_blocked_after_streak.

Theorem C15_shrunk_only_by_dropping_refresh : forall s l s', step s l = Some s' -> shrunk s = false -> shrunk s' = true ->
  exists r i e ai, l = Refresh r i /\ lookup e (att s) = Some ai /\ ~ In e r /\ ~ In e i.
Proof. exact FailoverThms.shrunk_only_by_dropping_refresh. Qed.
Print Assumptions C15_shrunk_only_by_dropping_refresh.

(* in terms of the history: the scope is left exactly by a refresh that drops an endpoint which has an adapter then *)
Theorem C15_scope_left_only_by_dropping_refresh : forall ls s0 s, run s0 ls = Some s -> shrunk s0 = false -> shrunk s = true ->
  exists pre r i post s1 e ai, ls = pre ++ Refresh r i :: post /\ run s0 pre = Some s1 /\
    lookup e (att s1) = Some ai /\ ~ In e r /\ ~ In e i.
Proof. exact FailoverQueue.scope_left_only_by_dropping_refresh. Qed.
Print Assumptions C15_scope_left_only_by_dropping_refresh.

(* without that scope the clause is false of the model (and of the code: the witness history is replayed on the
   implementation by the harness, corpus case "stale-probe-after-readd") *)
Theorem C15_blocked_after_streak_any_refresh_refuted :
  exists s e ai a r s', reachable s /\ In e (reg s) /\ lookup e (att s) = Some ai /\ get ai s = Some a /\
    5 <= lfc a /\ 5 <= now s - tS a /\ step s (Check r) = Some s' /\
    In e (sel s') /\ (exists s'', step s' (SelPick e ai) = Some s'').
Proof. exact FailoverExamples.streak_clause_refuted_after_refresh. Qed.
Print Assumptions C15_blocked_after_streak_any_refresh_refuted.

(* slow endpoints: a reply that arrives after its caller's deadline (label Late) changes nothing, and the history
   quantities above do not see it: the timed-out call stays a failed call, the streak is not reset, the time of the last
   answered call does not move - so C15_blocked_after_streak takes a slow endpoint out exactly as a silent one *)
Theorem C15_late_reply_no_effect : forall s ai s', step s (Late ai) = Some s' -> s' = s.
Proof. exact FailoverQueue.late_reply_no_effect. Qed.
Print Assumptions C15_late_reply_no_effect.

Theorem C15_late_replies_do_not_count : forall ai ls,
  let ls' := filter (fun l => negb (is_late l)) ls in
  fails_since ai ls' = fails_since ai ls /\ streak ai ls' = streak ai ls /\ last_ok ai ls' = last_ok ai ls /\ clock ls' = clock ls.
Proof. exact FailoverQueue.late_replies_do_not_count. Qed.
Print Assumptions C15_late_replies_do_not_count.

(* one-way calls: the outcome of a call is what counts, whatever its packet type. A call that fails at Send is the label
   Out _ false _ (one-way or two-way alike: fails_since and streak above count it); a one-way call handed to the transport
   (label Sent) is booked as a success, awaits nothing and - being no answer - reinstates nothing (C15_stays_blocked
   quantifies over histories with Sent labels too) *)
Theorem C15_one_way_sent_effect : forall s ai p s', step s (Sent ai p) = Some s' ->
  exists a, get ai s = Some a /\ get ai s' = Some (succ_add (now s) a) /\
            reinst s' = reinst s /\ sel s' = sel s /\ active s' = active s /\ probeq s' = probeq s.
Proof. exact FailoverQueue.one_way_sent_effect. Qed.
Print Assumptions C15_one_way_sent_effect.

(* registry changes while an endpoint is blocked: a refresh keeps the health record of every endpoint it lists, as
   active or as inactive; in scope a blocked endpoint is in no selector, and it stays out - record attached - through
   every history without an answered probe of it (active -> inactive -> active included) *)
Theorem C15_refresh_keeps_listed : forall s l i s' e ai, step s (Refresh l i) = Some s' ->
  lookup e (att s) = Some ai -> In e (l ++ i) -> lookup e (att s') = Some ai.
Proof. exact FailoverQueue.refresh_keeps_listed. Qed.
Print Assumptions C15_refresh_keeps_listed.

Theorem C15_blocked_out_of_rotation : forall s e ai a, reachable s -> shrunk s = false ->
  lookup e (att s) = Some ai -> get ai s = Some a -> ast a = false -> ~ In e (sel s).
Proof. exact FailoverQueue.blocked_out_of_rotation. Qed.
Print Assumptions C15_blocked_out_of_rotation.

Theorem C15_blocked_stays_out_without_probe : forall ls s s' e ai a, reachable s -> run s ls = Some s' -> shrunk s' = false ->
  lookup e (att s) = Some ai -> get ai s = Some a -> ast a = false -> memN ai (reinst s) = false ->
  ~ In (Out ai true true) ls ->
  lookup e (att s') = Some ai /\ (exists a', get ai s' = Some a' /\ ast a' = false) /\ ~ In e (sel s').
Proof. exact FailoverQueue.blocked_stays_out_without_probe. Qed.
Print Assumptions C15_blocked_stays_out_without_probe.

(* clause 3a: probe requests for the same adapter object (reqlog is newest first) are at least 30 s apart ... *)
Theorem C15_probe_rate : forall s pre e2 e1 ai t2 t1 mid post, reachable s ->
  reqlog s = pre ++ (e2, ai, t2) :: mid ++ (e1, ai, t1) :: post -> 30 <= t2 - t1.
Proof. exact FailoverThms.probe_rate. Qed.
Print Assumptions C15_probe_rate.

(* ... hence for the same endpoint, in the scope above *)
Theorem C15_probe_rate_endpoint : forall s pre e ai2 ai1 t2 t1 mid post, reachable s -> shrunk s = false ->
  reqlog s = pre ++ (e, ai2, t2) :: mid ++ (e, ai1, t1) :: post -> 30 <= t2 - t1.
Proof. exact FailoverThms.probe_rate_endpoint. Qed.
Print Assumptions C15_probe_rate_endpoint.

(* clause 3b: single call: probe calls made plus probes still queued never exceed the requests *)
Theorem C15_probe_single : forall s ai, reachable s ->
  (countN ai (probelog s) + countN ai (probeq s) <= req_count ai (reqlog s))%nat.
Proof. exact FailoverThms.probe_single. Qed.
Print Assumptions C15_probe_single.

(* clause 3c: the probe queue never holds two probes for one endpoint, and the dedupe set is exactly the set of endpoints
   with a queued probe (an endpoint whose probe has been handed out can be requested again; none is locked out) *)
Theorem C15_probe_queue_dedupe : forall s, reachable s ->
  NoDup (qeps s) /\ forall e, In e (pset s) <-> In e (qeps s).
Proof. exact FailoverQueue.probe_queue_dedupe. Qed.
Print Assumptions C15_probe_queue_dedupe.

(* clause 4a: once a probe is answered, the reinstatement is enabled and stays enabled whatever else happens, and when
   it runs the adapter is active with cleared counters and its endpoint is back in the selectors and the active list *)
Theorem C15_reinstated : forall s ai s1 ls s2, step s (Out ai true true) = Some s1 ->
  run s1 ls = Some s2 -> ~ In (Reinstate ai) ls ->
  exists s3 a, step s2 (Reinstate ai) = Some s3 /\ get ai s3 = Some a /\ ast a = true /\
               fc a = 0 /\ lfc a = 0 /\ sc a = 0 /\ gfail a = 0 /\ In (aep a) (sel s3) /\ In (aep a) (active s3).
Proof. exact FailoverThms.probe_success_reinstates. Qed.
Print Assumptions C15_reinstated.

(* clause 4b: a blocked adapter with no answered probe pending stays blocked through every history that contains no
   answered probe of it (failed probes, answered normal calls, time, checks, refreshes included) *)
Theorem C15_stays_blocked : forall ls s s' ai a, run s ls = Some s' ->
  get ai s = Some a -> ast a = false -> memN ai (reinst s) = false -> ~ In (Out ai true true) ls ->
  exists a', get ai s' = Some a' /\ ast a' = false /\ memN ai (reinst s') = false.
Proof. exact FailoverThms.stays_blocked. Qed.
Print Assumptions C15_stays_blocked.

(* clause 4c - no lock-out ("... and come back"): in scope, once the probe interval of a blocked endpoint has elapsed, a status
   check that finds it reachable queues the probe of its adapter (whatever else is queued, whatever the dedupe set holds) ... *)
Theorem C15_probe_requested_when_due : forall s e ai a r s', reachable s -> shrunk s = false ->
  In e (reg s) -> lookup e (att s) = Some ai -> get ai s = Some a -> ast a = false ->
  30 <= now s - tB a -> In e r -> step s (Check r) = Some s' ->
  In ai (probeq s') /\ exists a', get ai s' = Some a' /\ ast a' = false.
Proof. exact FailoverBack.probe_requested_when_due. Qed.
Print Assumptions C15_probe_requested_when_due.

(* ... and from EVERY reachable in-scope state with a blocked endpoint there is a way back that needs nothing but the
   environment's cooperation: 30 s pass, a status check finds it reachable, selections take the queued probes (drain: only
   SelProbe steps), its probe is answered, the reinstatement runs - and it is back in the selectors, active, counters clear *)
Theorem C15_can_come_back : forall s e ai a, reachable s -> shrunk s = false ->
  In e (reg s) -> lookup e (att s) = Some ai -> get ai s = Some a -> ast a = false ->
  exists drain s', all_selprobe drain /\
    run s ([Advance 30; Check [e]] ++ drain ++ [Out ai true true; Reinstate ai]) = Some s' /\
    In e (sel s') /\ exists a', get ai s' = Some a' /\ ast a' = true /\ gfail a' = 0.
Proof. exact FailoverBack.can_come_back. Qed.
Print Assumptions C15_can_come_back.

(* clause 5: with a non-empty registry list the selection never returns nil: the head of the probe queue if there is
   one, otherwise a member of the selectors, otherwise (every endpoint blocked) an endpoint of the registry list *)
Theorem C15_never_none : forall s, reachable s -> reg s <> [] ->
  step s SelNone = None /\
  (forall q rest, probeq s = q :: rest -> exists s', step s (SelProbe q) = Some s') /\
  (probeq s = [] -> exists e ai s', step s (SelPick e ai) = Some s' /\
     (sel s = [] -> In e (reg s)) /\ (sel s <> [] -> In e (sel s))).
Proof. exact FailoverThms.never_none. Qed.
Print Assumptions C15_never_none.
