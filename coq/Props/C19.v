(* C19 — worker pool runs every job exactly once with bounded parallelism. Statements only.
   Model: Conc/Gpool.v (transition system of tars/util/gpool/gpool.go for W workers and a JobQueue of capacity Q, any number of
   concurrent submitters, any jobs, Release; [reachable W Q s] = s is reached from the initial state by SOME label sequence, so
   every theorem below is about all schedules). *)
From Coq Require Import List Arith NArith ZArith Permutation.
From TarsV Require Import Conc.Gpool Conc.GpoolProofs Conc.GpoolLive Conc.GpoolFair Conc.GpoolEventually Conc.GpoolFifo Conc.PoolSrc Gen.C19Src Conc.PoolUse Conc.PoolUseProofs Conc.PoolSrcProofs.
Import ListNotations.

(* no job is handed to a worker twice; what has been handed over is exactly what occupies a worker or has finished *)
Theorem C19_at_most_once : forall W Q s, reachable W Q s ->
  NoDup (started s) /\ Permutation (started s) (occupying (wk s) ++ fin s) /\ (forall j, In j (started s) -> In j (subm s)).
Proof. exact GpoolProofs.no_job_starts_twice. Qed.

(* every job sent into the pool is in exactly one of: JobQueue, the dispatcher's hand, a worker, finished — never lost, never duplicated *)
Theorem C19_conservation : forall W Q s, reachable W Q s ->
  Permutation (subm s) (jobq s ++ held (dp s) ++ occupying (wk s) ++ fin s) /\
  NoDup (jobq s ++ held (dp s) ++ occupying (wk s) ++ fin s).
Proof. exact GpoolProofs.conservation. Qed.

(* at most W jobs occupy workers (and at most W are between their start and end events) *)
Theorem C19_parallelism : forall W Q s, reachable W Q s -> length (occupying (wk s)) <= W /\ length (runl s) <= W.
Proof. exact GpoolProofs.bounded_parallelism. Qed.

(* a submit is enabled whenever the queue has room, and whenever the dispatcher waits in its select on an empty queue (the only
   way for Q = 0) ... *)
Theorem C19_submit_blocks_only_when_full : forall W Q s j, In j (calling s) ->
  (length (jobq s) < Q -> exists s', step W Q s (Submit j) = Some s') /\
  (dp s = DSel -> jobq s = [] -> exists s', step W Q s (SubmitH j) = Some s').
Proof. exact GpoolProofs.submit_enabled_when_room. Qed.
(* ... only then, and the queue never holds more than Q jobs *)
Theorem C19_submit_only_into_room : forall W Q s j s',
  (step W Q s (Submit j) = Some s' -> length (jobq s) < Q) /\ (step W Q s (SubmitH j) = Some s' -> dp s = DSel /\ jobq s = []).
Proof. exact GpoolProofs.submit_only_when_room. Qed.
Theorem C19_queue_bounded : forall W Q s, reachable W Q s -> length (jobq s) <= Q.
Proof. exact GpoolProofs.queue_bounded. Qed.

(* the pool is FIFO: jobs are handed to workers in exactly the order in which their sends completed *)
Theorem C19_hand_over_fifo : forall W Q s, reachable W Q s -> subm s = started s ++ held (dp s) ++ jobq s.
Proof. exact GpoolFifo.hand_over_fifo. Qed.
(* with one worker that order shows in the events: every trace of the transition system passes the check applied to the real traces *)
Theorem C19_fifo_one_worker_traces : forall Q ls s, run 1 Q (init 1) ls = Some s -> fifo1_ok (trace 1 Q (init 1) ls) = true.
Proof. exact GpoolFifo.fifo1_traces. Qed.

(* ---------- progress ("every job submitted is executed", "Release ... returns") ---------- *)
(* no deadlock: with a pending job before Release, or with a Release in progress, a step of the pool itself or of a running job
   (jobs terminate) is always enabled *)
Theorem C19_no_deadlock : forall W Q s, 1 <= W -> reachable W Q s ->
  ((rp s = RNot \/ rp s = RCalled) /\ (jobq s <> [] \/ held (dp s) <> []) \/ rp s = RCalled \/ rp s = RSent \/ rp s = RAcked) ->
  exists l s', internal l = true /\ step W Q s l = Some s'.
Proof. exact GpoolProofs.no_deadlock. Qed.
(* no livelock: in EVERY execution the number of steps of the pool, of jobs and of Release is bounded by the work present at its
   start ([measure]: 8 per queued job, ...) plus 8 per completed submit — from any state, reachable or not *)
Theorem C19_work_bounded : forall W Q ls s s', run W Q s ls = Some s' ->
  ninternal ls + measure s' <= measure s + 8 * nsubmit ls.
Proof. exact GpoolLive.work_bounded. Qed.
(* every job sent into a pool on which Release has not been called can be brought to completion by steps of the pool and of jobs *)
Theorem C19_progress : forall W Q s j, 1 <= W -> reachable W Q s -> rp s = RNot -> In j (subm s) ->
  exists ls s', Forall (fun l => internal l = true) ls /\ run W Q s ls = Some s' /\ In j (fin s').
Proof. exact GpoolLive.progress. Qed.
(* ... and no schedule avoids it: every run of pool/job steps from such a state has at most [measure s] steps, and when it cannot be
   extended every job sent has finished, the queue is empty, no worker is occupied and all W workers are registered again *)
Theorem C19_every_schedule_completes : forall W Q s ls s', 1 <= W -> reachable W Q s -> rp s = RNot ->
  Forall (fun l => internal l = true) ls -> run W Q s ls = Some s' ->
  length ls <= measure s /\
  (quiescent W Q s' -> Permutation (subm s) (fin s') /\ jobq s' = [] /\ occupying (wk s') = [] /\ length (wq s') = W).
Proof. exact GpoolLive.every_schedule_completes. Qed.
(* a blocked submitter: the pool makes room for its send by its own steps (for Q = 0: the dispatcher comes back to its select) *)
Theorem C19_blocked_submit_gets_room : forall W Q s j, 1 <= W -> reachable W Q s -> rp s = RNot -> In j (calling s) ->
  exists ls s', Forall (fun l => internal l = true) ls /\ run W Q s ls = Some s' /\
    exists s'', step W Q s' (if Q =? 0 then SubmitH j else Submit j) = Some s''.
Proof. exact GpoolLive.blocked_submit_gets_room. Qed.
(* Release returns: once called it can be brought to its return; every run of pool/job steps is bounded and can only stop returned *)
Theorem C19_release_returns : forall W Q s, 1 <= W -> reachable W Q s -> rp s <> RNot ->
  (exists ls s', Forall (fun l => internal l = true) ls /\ run W Q s ls = Some s' /\ rp s' = RDone) /\
  (forall ls s', Forall (fun l => internal l = true) ls -> run W Q s ls = Some s' ->
     length ls <= measure s /\ (quiescent W Q s' -> rp s' = RDone)).
Proof. exact GpoolLive.release_returns. Qed.

(* "every job submitted is executed" at full strength: in every INFINITE execution (submitters may go on sending for ever) that
   is weakly fair to the goroutines of the pool and to running jobs (an internal step enabled at some index is later taken or
   not enabled) and in which the dispatcher never accepts a Release, every job sent has finished at some later index *)
Theorem C19_every_job_eventually_runs : forall W Q (σ : nat -> st) (λ : nat -> label),
  execution W Q σ λ -> (forall n, λ n <> RelCall) -> pre_release (dp (σ 0)) = true -> 1 <= W -> weakly_fair W Q σ λ ->
  forall j n, In j (subm (σ n)) -> exists m, n <= m /\ In j (fin (σ m)).
Proof. exact GpoolEventually.eventually_finished. Qed.
(* ... and in every weakly fair execution whatsoever: a job sent while the dispatcher has not accepted a Release finishes, unless a
   Release is accepted first ("as long as the pool has not been released") *)
Theorem C19_every_job_runs_unless_released : forall W Q (σ : nat -> st) (λ : nat -> label),
  execution W Q σ λ -> 1 <= W -> weakly_fair W Q σ λ ->
  forall j n, pre_release (dp (σ n)) = true -> In j (subm (σ n)) -> exists m, n <= m /\ (In j (fin (σ m)) \/ λ m = RelCall).
Proof. exact GpoolEventually.eventually_finished_or_released. Qed.
(* the hypotheses are satisfiable for every W >= 1 and Q: a scheduler that runs the pool to quiescence, then lets a submitter go on *)
Theorem C19_fair_execution_exists : forall W Q, 1 <= W ->
  execution W Q (sst W Q) (slab W Q) /\ (forall n, slab W Q n <> RelCall) /\ pre_release (dp (sst W Q 0)) = true /\
  weakly_fair W Q (sst W Q) (slab W Q).
Proof. exact GpoolEventually.fair_execution_exists. Qed.

(* the ingredients (premises of the weak-fairness rule) for the rank [mu j]: position in the FIFO queue, distance of the
   dispatcher and the workers from taking it, then the job's own three steps *)
Theorem C19_rank_zero_iff_finished : forall s j, mu j s = 0 <-> In j (fin s).
Proof. exact GpoolFair.mu_zero_iff. Qed.
(* (a) before the dispatcher accepts Release, no step of anybody — in particular no later submit — moves j away from completion *)
Theorem C19_rank_nonincreasing : forall W Q s l s' j, reachable W Q s -> pre_release (dp s) = true -> In j (subm s) -> l <> RelCall ->
  step W Q s l = Some s' -> mu j s' <= mu j s.
Proof. exact GpoolFair.mu_nonincreasing. Qed.
(* (b) while j has not finished, a step of the pool or of a running job that brings it strictly closer is enabled *)
Theorem C19_helpful_step_enabled : forall W Q s j, 1 <= W -> reachable W Q s -> pre_release (dp s) = true -> In j (subm s) ->
  ~ In j (fin s) -> exists l s', internal l = true /\ l <> RelCall /\ step W Q s l = Some s' /\ mu j s' < mu j s.
Proof. exact GpoolFair.helpful_step_enabled. Qed.
(* (c) an enabled step of the pool or of a running job stays enabled until it is taken (weak fairness suffices) *)
Theorem C19_enabled_step_persists : forall W Q s l l' s', pre_release (dp s) = true -> internal l = true -> l <> RelCall ->
  step W Q s l <> None -> step W Q s l' = Some s' -> l' <> l -> l' <> RelCall -> step W Q s' l <> None.
Proof. exact GpoolFair.enabled_step_persists. Qed.
(* finite consequence: an execution (any submits interleaved, no Release accepted) that contains [mu j s] helpful steps has finished j *)
Theorem C19_helpful_steps_finish : forall W Q ls s s' j, reachable W Q s -> pre_release (dp s) = true -> In j (subm s) ->
  ~ In RelCall ls -> run W Q s ls = Some s' ->
  helpful W Q j s ls + mu j s' <= mu j s /\ (mu j s <= helpful W Q j s ls -> In j (fin s')).
Proof. exact GpoolFair.helpful_steps_finish. Qed.

(* Release: when it has returned every worker has stopped, no job occupies a worker ... *)
Theorem C19_release : forall W Q s, reachable W Q s -> (rp s = RDone \/ rp s = RAcked) ->
  dp s = DDone /\ (forall w p, nth_error (wk s) w = Some p -> p = WDone) /\ occupying (wk s) = [] /\ runl s = [].
Proof. exact GpoolProofs.release_returns_after_all_stopped. Qed.
(* ... the step that lets it return is not enabled while a job occupies a worker ... *)
Theorem C19_release_not_while_running : forall W Q s s', reachable W Q s -> step W Q s RelRet = Some s' ->
  occupying (wk s) = [] /\ jobs_of f_run (wk s) = [].
Proof. exact GpoolProofs.release_not_while_running. Qed.
(* ... and afterwards no step hands over, starts or ends a job *)
Theorem C19_nothing_starts_after_release : forall W Q s l s', reachable W Q s -> rp s = RDone -> step W Q s l = Some s' ->
  started s' = started s /\ runl s' = runl s /\ wk s' = wk s /\ rp s' = RDone.
Proof. exact GpoolProofs.nothing_starts_after_release. Qed.

(* when Release returns every job ever handed to a worker has finished; what was still queued has not started (and never will) *)
Theorem C19_release_after_every_started_job_finished : forall W Q s, reachable W Q s -> (rp s = RDone \/ rp s = RAcked) ->
  Permutation (started s) (fin s) /\ (forall j, In j (started s) -> In j (fin s)) /\ (forall j, In j (jobq s) -> ~ In j (started s)).
Proof. exact GpoolFifo.release_after_every_started_job_finished. Qed.
(* every worker in the idle queue is idle, and the hand-over to the worker the dispatcher has picked is enabled at once: a job is never
   handed to a worker that still runs another job (it cannot wait behind a long job while other workers are idle) *)
Theorem C19_registered_workers_are_idle : forall W Q s, reachable W Q s ->
  (forall w, In w (wq s) -> nth_error (wk s) w = Some WWait) /\
  (forall j w, dp s = DHand j w -> nth_error (wk s) w = Some WWait /\ exists s', step W Q s Hand = Some s').
Proof. exact GpoolFifo.registered_workers_are_idle. Qed.
(* the buffered WorkerQueue never exceeds its capacity W: a worker's registration `w.WorkerQueue <- w` never blocks *)
Theorem C19_worker_registration_never_blocks : forall W Q s, reachable W Q s ->
  length (wq s) <= W /\ (forall w s', step W Q s (WorkerReg w) = Some s' -> length (wq s) < W).
Proof. exact GpoolFifo.worker_queue_never_blocks. Qed.

(* refinement: the observable trace of every execution is accepted by the specification machine (the validator run on real traces) *)
Theorem C19_refines_spec : forall W Q ls s, run W Q (init W) ls = Some s ->
  sruns W sinit (trace W Q (init W) ls) = Some (abs s) /\ accepts W (trace W Q (init W) ls) = true.
Proof. exact GpoolProofs.refines_spec. Qed.

(* what acceptance means for a trace: after every prefix the running jobs are those started and not ended, at most W of them;
   no job starts twice; at release-return every started job has ended and none starts later; a complete run ran every job *)
Theorem C19_spec_prefix : forall W tr1 tr2, accepts W (tr1 ++ tr2) = true ->
  exists σ, sruns W sinit tr1 = Some σ /\ length (s_run σ) <= W /\ NoDup (starts_of tr1) /\
            Permutation (starts_of tr1) (s_run σ ++ ends_of tr1).
Proof. exact GpoolProofs.spec_prefix. Qed.
Theorem C19_spec_start_once : forall W tr, accepts W tr = true -> NoDup (starts_of tr).
Proof. exact GpoolProofs.spec_start_once. Qed.
Theorem C19_spec_release : forall W tr1 tr2, accepts W (tr1 ++ ERelRet :: tr2) = true ->
  Permutation (starts_of tr1) (ends_of tr1) /\ starts_of tr2 = [].
Proof. exact GpoolProofs.spec_release. Qed.
Theorem C19_spec_complete : forall W tr, accepts_complete W tr = true ->
  accepts W tr = true /\ length (starts_of tr) = length (ends_of tr) /\
  exists σ, sruns W sinit tr = Some σ /\ length (s_done σ) = length (s_called σ) /\ Permutation (ends_of tr) (s_done σ).
Proof. exact GpoolProofs.spec_complete. Qed.

(* ---------- the source of the tree (coq/Gen/C19Src.v, regenerated on every run from gpool.go, tcphandler.go, udphandler.go) ---------- *)
(* gpool.go is, statement for statement, the program whose transition system is Conc/Gpool.v *)
Theorem C19_gpool_source_is_the_modelled_program :
  src_gpool_functions = modelled_functions /\
  src_gpool_Worker_Start = modelled_Worker_Start /\ src_gpool_newWorker = modelled_newWorker /\
  src_gpool_NewPool = modelled_NewPool /\ src_gpool_Pool_Start = modelled_Pool_Start /\
  src_gpool_Pool_dispatch = modelled_Pool_dispatch /\ src_gpool_Pool_Release = modelled_Pool_Release.
Proof. exact PoolSrcProofs.gpool_source_is_the_modelled_program. Qed.
Theorem C19_gpool_channel_capacities :
  src_gpool_NewPool_params = modelled_NewPool_params /\ src_gpool_NewPool_chans = modelled_NewPool_chans /\
  src_gpool_newWorker_chans = modelled_newWorker_chans.
Proof. exact PoolSrcProofs.gpool_channel_capacities. Qed.
(* the handlers' routing decision, evaluated from the condition in the source: pool iff MaxInvoke > 0 for EVERY QueueCap (0 is a real
   configuration), the pool is built under the same condition with W = MaxInvoke, Q = QueueCap; the hand-over is a blocking send *)
Theorem C19_handlers_route_by_MaxInvoke : forall max_invoke queue_cap,
  route_of src_tcp_route_cond max_invoke queue_cap = Some (routing max_invoke) /\
  route_of src_udp_route_cond max_invoke queue_cap = Some (routing max_invoke) /\
  cond_value src_tcp_pool_cond max_invoke queue_cap = Some (0 <? max_invoke)%Z /\
  cond_value src_udp_pool_cond max_invoke queue_cap = Some (0 <? max_invoke)%Z /\
  arg_values src_tcp_pool_args max_invoke queue_cap = [Some (VZ max_invoke); Some (VZ queue_cap)] /\
  arg_values src_udp_pool_args max_invoke queue_cap = [Some (VZ max_invoke); Some (VZ queue_cap)].
Proof. exact PoolSrcProofs.handlers_route_by_MaxInvoke. Qed.
Theorem C19_queue_cap_zero_still_pooled : forall max_invoke, (0 < max_invoke)%Z ->
  route_of src_tcp_route_cond max_invoke 0 = Some ToPool /\ route_of src_udp_route_cond max_invoke 0 = Some ToPool.
Proof. exact PoolSrcProofs.queue_cap_zero_still_pooled. Qed.
Theorem C19_handlers_submit_by_blocking_send : tcp_submit_is_blocking_send = true /\ udp_submit_is_blocking_send = true.
Proof. exact PoolSrcProofs.handlers_submit_by_blocking_send. Qed.

Theorem C19_listen_builds_the_pool_once : src_tcp_Listen = modelled_tcp_Listen /\ src_udp_Listen = modelled_udp_Listen.
Proof. exact PoolSrcProofs.listen_builds_the_pool_once. Qed.

(* ---------- the pool inside tcpHandler (Conc/PoolUse.v): accept loop, connection goroutines, recvDone, numInvoke, Shutdown ---------- *)
(* the statement order read off the source: Add before go, Wait before Release, numInvoke counted at hand-over *)
Theorem C19_source_statement_order : source_flags = good_flags.
Proof. exact PoolSrcProofs.source_statement_order. Qed.
(* for that order, every number of connections and requests and every schedule (Shutdown racing with accepts and submissions):
   every request handed to the pool is pending, running or executed, once *)
Theorem C19_requests_handed_once : forall s, treachable source_flags s ->
  Permutation (t_handed s) (t_pend s ++ t_runn s ++ t_exec s) /\ NoDup (t_pend s ++ t_runn s ++ t_exec s).
Proof. exact PoolSrcProofs.source_handed_once. Qed.
(* Release is accepted by the pool only when every request ever handed to it has been executed and every connection goroutine has ended *)
Theorem C19_pool_released_only_when_drained : forall s, treachable source_flags s -> t_released s = true ->
  t_pend s = [] /\ t_runn s = [] /\ Permutation (t_handed s) (t_exec s) /\ Forall (fun c => c_pc c = CDone) (t_conns s).
Proof. exact PoolSrcProofs.source_release_only_when_drained. Qed.
Theorem C19_nothing_handed_over_after_release : forall s i n s', treachable source_flags s -> t_released s = true ->
  tstep source_flags s (CSubmit i n) = Some s' -> False.
Proof. exact PoolSrcProofs.source_nothing_handed_over_after_release. Qed.
(* the shutdown is never stuck before Handle has returned *)
Theorem C19_shutdown_progress : forall s, treachable source_flags s -> t_closed s = true -> t_ap s <> ADone ->
  exists l s', l <> TShutdown /\ tstep source_flags s l = Some s'.
Proof. exact PoolSrcProofs.source_shutdown_progress. Qed.
(* refinement: the events (request read, handler start / end, Handle returned) of every execution pass the check [puse_ok] that the
   harness applies to the recorded traces of the real TCP server scenarios *)
Theorem C19_server_traces_accepted : forall ls s, trun source_flags tinit ls = Some s -> puse_ok (ptrace source_flags tinit ls) = true.
Proof. exact PoolSrcProofs.source_server_traces_accepted. Qed.
(* each of the three orders matters: reversed, some schedule releases the pool over a request that is still pending (it never runs) *)
Theorem C19_add_inside_goroutine_refuted :
  exists s, trun (mkflags false true true) tinit witness_add_inside = Some s /\ lost_request s = true /\ t_ap s = ADone.
Proof. exact PoolUseProofs.add_inside_loses_requests. Qed.
Theorem C19_release_before_wait_refuted :
  exists s, trun (mkflags true false true) tinit witness_release_first = Some s /\ lost_request s = true.
Proof. exact PoolUseProofs.release_first_loses_requests. Qed.
Theorem C19_count_at_start_refuted :
  exists s, trun (mkflags true true false) tinit witness_count_at_start = Some s /\ lost_request s = true.
Proof. exact PoolUseProofs.count_at_start_loses_requests. Qed.

Print Assumptions C19_at_most_once.
Print Assumptions C19_conservation.
Print Assumptions C19_parallelism.
Print Assumptions C19_submit_blocks_only_when_full.
Print Assumptions C19_submit_only_into_room.
Print Assumptions C19_queue_bounded.
Print Assumptions C19_hand_over_fifo.
Print Assumptions C19_fifo_one_worker_traces.
Print Assumptions C19_no_deadlock.
Print Assumptions C19_work_bounded.
Print Assumptions C19_progress.
Print Assumptions C19_every_schedule_completes.
Print Assumptions C19_blocked_submit_gets_room.
Print Assumptions C19_release_returns.
Print Assumptions C19_every_job_eventually_runs.
Print Assumptions C19_every_job_runs_unless_released.
Print Assumptions C19_fair_execution_exists.
Print Assumptions C19_rank_zero_iff_finished.
Print Assumptions C19_rank_nonincreasing.
Print Assumptions C19_helpful_step_enabled.
Print Assumptions C19_enabled_step_persists.
Print Assumptions C19_helpful_steps_finish.
Print Assumptions C19_release.
Print Assumptions C19_release_not_while_running.
Print Assumptions C19_nothing_starts_after_release.
Print Assumptions C19_refines_spec.
Print Assumptions C19_spec_prefix.
Print Assumptions C19_spec_start_once.
Print Assumptions C19_spec_release.
Print Assumptions C19_spec_complete.
Print Assumptions C19_gpool_source_is_the_modelled_program.
Print Assumptions C19_gpool_channel_capacities.
Print Assumptions C19_handlers_route_by_MaxInvoke.
Print Assumptions C19_queue_cap_zero_still_pooled.
Print Assumptions C19_handlers_submit_by_blocking_send.
Print Assumptions C19_source_statement_order.
Print Assumptions C19_requests_handed_once.
Print Assumptions C19_pool_released_only_when_drained.
Print Assumptions C19_nothing_handed_over_after_release.
Print Assumptions C19_shutdown_progress.
Print Assumptions C19_add_inside_goroutine_refuted.
Print Assumptions C19_release_before_wait_refuted.
Print Assumptions C19_count_at_start_refuted.
Print Assumptions C19_release_after_every_started_job_finished.
Print Assumptions C19_worker_registration_never_blocks.
Print Assumptions C19_listen_builds_the_pool_once.
Print Assumptions C19_server_traces_accepted.
Print Assumptions C19_registered_workers_are_idle.
