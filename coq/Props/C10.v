(* C10 — the server answers each well-formed request exactly once with matching identity.
   Statements only; every proof is [exact] of a lemma proved in Rpc/InvokeProofs.v.
   [dispatch] is the generated dispatcher together with the servant implementation (arbitrary: what it returns and
   how long it runs, per request); [cfg] is any configuration (worker pool, handle timeout, transport); [queued] is
   any queueing time; a request is well formed when the generated RequestPacket decoder accepts the packet
   (parse_request pkg = Some r). *)
From Coq Require Import List NArith ZArith Permutation.
From TarsV Require Import Gen.Consts Base.Hex Codec.Prim Codec.GenCodec Frame.Framing Frame.FramingProofs Rpc.Invoke Rpc.InvokeProofs
  Rpc.InvokeTime Rpc.InvokeTimeProofs Gen.C10Probe Rpc.InvokeProbe.
Import ListNotations.
Open Scope N_scope.

(* ---- the protocol constants of the tree are the protocol's ---- *)
Theorem C10_protocol_constants :
  c_TARSVERSION = 1%Z /\ c_TUPVERSION = 3%Z /\ c_JSONVERSION = 5%Z /\ c_TARSNORMAL = 0%Z /\ c_TARSONEWAY = 1%Z /\
  c_TARSSERVERSUCCESS = 0%Z /\ c_TARSSERVERQUEUETIMEOUT = (-6)%Z.
Proof. exact InvokeProofs.protocol_constants. Qed.

(* ---- exactly one reply for a two-way request, none for a one-way request ---- *)
Theorem C10_count : forall dispatch cfg pkg r queued, parse_request pkg = Some r ->
  length (fst (serve_packet dispatch cfg pkg queued)) = if oneway r then 0%nat else 1%nat.
Proof. exact InvokeProofs.packet_count. Qed.

(* ---- the reply carries the request's id, protocol version and packet type ---- *)
Theorem C10_identity : forall dispatch cfg pkg r queued o p, parse_request pkg = Some r ->
  In (o, p) (fst (serve_packet dispatch cfg pkg queued)) ->
  p_id p = q_id r /\ p_ver p = q_ver r /\ p_ptype p = q_ptype r.
Proof. exact InvokeProofs.packet_identity. Qed.

(* ... and they are the first members a client reads from the reply's bytes, in the ResponsePacket shape as well
   as in the RequestPacket shape used for TUP *)
Theorem C10_identity_on_wire : forall dispatch cfg r queued o p, req_typed r -> codes_typed dispatch r ->
  In (o, p) (fst (server_step dispatch cfg r queued)) ->
  wire_ident (reply_bytes p) = Some (q_ver r, q_ptype r, q_id r).
Proof. exact InvokeProofs.served_wire_identity. Qed.

Theorem C10_reply_is_a_frame : forall p, 4 + N.of_nat (length (reply_body p)) < 4294967296 ->
  hdr (reply_bytes p) = Some (N.of_nat (length (reply_bytes p))).
Proof. exact InvokeProofs.wire_frame. Qed.

(* ---- the implementation is entered at most once, and exactly once iff the request reaches the dispatcher ---- *)
Theorem C10_calls : forall dispatch cfg r queued,
  snd (server_step dispatch cfg r queued) = if dispatched r queued then 1%nat else 0%nat.
Proof. exact InvokeProofs.calls_exact. Qed.

(* ---- ping: success, empty body, implementation not entered ---- *)
Theorem C10_ping : forall dispatch cfg r queued, is_ping r = true -> queue_expired r queued = false ->
  snd (server_step dispatch cfg r queued) = 0%nat /\
  (oneway r = false -> fst (server_step dispatch cfg r queued) = [(FromPing, base_reply r)]) /\
  p_ret (base_reply r) = c_TARSSERVERSUCCESS /\ p_buf (base_reply r) = [].
Proof. exact InvokeProofs.ping. Qed.

(* ---- implementation error -> return code and message of the error ---- *)
Theorem C10_error_mapping : forall dispatch cfg r queued e, dispatched r queued = true -> h_res (dispatch r) = HFail e ->
  overruns dispatch cfg r queued = false -> oneway r = false ->
  fst (server_step dispatch cfg r queued) = [(FromHandler, with_ret (base_reply r) (err_code e) (err_msg e))] /\
  snd (server_step dispatch cfg r queued) = 1%nat.
Proof. exact InvokeProofs.error_mapping. Qed.
Theorem C10_error_code_tars : forall c m, err_code (TarsErr c m) = c /\ err_msg (TarsErr c m) = m.
Proof. exact InvokeProofs.err_code_tars. Qed.
Theorem C10_error_code_plain : forall m, err_code (PlainErr m) = 1%Z /\ err_code (PlainErr m) <> 0%Z /\ err_msg (PlainErr m) = m.
Proof. exact InvokeProofs.err_code_plain. Qed.

(* the code is in the reply's bytes. Full statement: for every reply. False of the model and of the code: a
   TUP-versioned reply is written as a RequestPacket, which has no member for it (known finding). *)
Definition C10_error_code_on_wire_statement : Prop := InvokeProofs.error_code_on_wire_statement.
Theorem C10_error_code_on_wire_refuted :
  exists p, reply_typed p /\ p_ret p <> 0%Z /\ wire_ret (reply_bytes p) = None /\
            decode_reply (reply_bytes p) = Some (true, with_ret p 0 []).
Proof. exact InvokeProofs.error_code_on_wire_refuted. Qed.
Theorem C10_tup_reply_has_no_code : forall p, reply_typed p -> is_tup p = true -> wire_ret (reply_bytes p) = None.
Proof. exact InvokeProofs.wire_ret_tup. Qed.
(* proved part: every version but TUP (TARS, JSON) *)
Theorem C10_error_code_on_wire_partial : forall dispatch cfg r queued e, req_typed r -> codes_typed dispatch r ->
  (q_ver r =? c_TUPVERSION)%Z = false ->
  dispatched r queued = true -> h_res (dispatch r) = HFail e -> overruns dispatch cfg r queued = false -> oneway r = false ->
  exists p, map snd (fst (server_step dispatch cfg r queued)) = [p] /\ wire_ret (reply_bytes p) = Some (err_code e).
Proof. exact InvokeProofs.served_wire_error. Qed.

(* complete decoding: every reply without payload (implementation / dispatcher errors, queue and handle timeouts,
   pings) decodes from its bytes to itself - code and message included - in the ResponsePacket shape, and to itself
   without code and message in the RequestPacket shape of a TUP-versioned reply *)
Theorem C10_bodyless_reply_decodes : forall p, reply_typed p -> p_buf p = [] -> p_status p = [] -> p_ctx p = [] ->
  4 + N.of_nat (length (reply_body p)) < 4294967296 -> N.of_nat (length (p_desc p)) < 4294967296 ->
  decode_reply (reply_bytes p) = Some (is_tup p, if is_tup p then with_ret p 0 [] else p).
Proof. exact InvokeProofs.bodyless_reply_decodes. Qed.
Theorem C10_error_reply_on_wire : forall dispatch cfg r queued e, req_typed r -> codes_typed dispatch r ->
  dispatched r queued = true -> h_res (dispatch r) = HFail e -> overruns dispatch cfg r queued = false -> oneway r = false ->
  N.of_nat (length (err_msg e)) < 4294967296 ->
  4 + N.of_nat (length (reply_body (with_ret (base_reply r) (err_code e) (err_msg e)))) < 4294967296 ->
  exists p, map snd (fst (server_step dispatch cfg r queued)) = [p] /\ p_ret p = err_code e /\ p_desc p = err_msg e /\
            decode_reply (reply_bytes p) = Some (is_tup p, if is_tup p then with_ret p 0 [] else p).
Proof. exact InvokeProofs.served_error_on_wire. Qed.

(* ---- success: code 0 and exactly what the dispatcher produced ---- *)
Theorem C10_success : forall dispatch cfg r queued buf st cx, dispatched r queued = true -> h_res (dispatch r) = HDone buf st cx ->
  overruns dispatch cfg r queued = false -> oneway r = false ->
  fst (server_step dispatch cfg r queued) = [(FromHandler, with_body (base_reply r) buf st cx)] /\
  p_ret (with_body (base_reply r) buf st cx) = c_TARSSERVERSUCCESS /\
  snd (server_step dispatch cfg r queued) = 1%nat.
Proof. exact InvokeProofs.success. Qed.

(* ---- queue timeout: the request's own timeout elapsed while it was queued ---- *)
Theorem C10_queue_timeout : forall dispatch cfg r queued, (0 < q_timeout r)%Z -> (q_timeout r <= Z.of_N queued)%Z ->
  snd (server_step dispatch cfg r queued) = 0%nat /\
  (oneway r = false ->
   exists p, fst (server_step dispatch cfg r queued) = [(FromQueueTimeout, p)] /\
             p_ret p = c_TARSSERVERQUEUETIMEOUT /\ p_ret p <> 0%Z /\ p_buf p = [] /\
             p_id p = q_id r /\ p_ver p = q_ver r /\ p_ptype p = q_ptype r).
Proof. exact InvokeProofs.queue_timeout. Qed.
Theorem C10_no_spurious_queue_timeout : forall dispatch cfg r queued o p,
  ((q_timeout r <= 0)%Z \/ (Z.of_N queued < q_timeout r)%Z) ->
  In (o, p) (fst (server_step dispatch cfg r queued)) -> o <> FromQueueTimeout.
Proof. exact InvokeProofs.no_spurious_queue_timeout. Qed.

(* ---- handle timeout: an over-long handler is answered with one timeout error carrying the request's identity ---- *)
Theorem C10_handle_timeout : forall dispatch cfg r queued, overruns dispatch cfg r queued = true -> oneway r = false ->
  fst (server_step dispatch cfg r queued) = [(FromHandleTimeout, handle_timeout_reply r)] /\
  p_ret (handle_timeout_reply r) <> 0%Z /\
  p_id (handle_timeout_reply r) = q_id r /\ p_ver (handle_timeout_reply r) = q_ver r /\
  p_ptype (handle_timeout_reply r) = q_ptype r /\
  snd (server_step dispatch cfg r queued) = 1%nat.
Proof. exact InvokeProofs.handle_timeout. Qed.
Theorem C10_no_spurious_handle_timeout : forall dispatch cfg r queued o p, overruns dispatch cfg r queued = false ->
  In (o, p) (fst (server_step dispatch cfg r queued)) -> o <> FromHandleTimeout.
Proof. exact InvokeProofs.no_spurious_handle_timeout. Qed.

(* ---- every worker-pool size, both transports ---- *)
Theorem C10_configuration_independent : forall dispatch pool1 pool2 udp1 udp2 ht r queued,
  server_step dispatch {| c_pool := pool1; c_ht := ht; c_udp := udp1 |} r queued =
  server_step dispatch {| c_pool := pool2; c_ht := ht; c_udp := udp2 |} r queued.
Proof. exact InvokeProofs.configuration_independent. Qed.

(* ---- schedules of the handle-timeout race (goroutine running Invoke / deadline / handler): all label sequences ---- *)
(* two-way: exactly one reply - Invoke's result, the queue-timeout answer of an Invoke entered after the deadline, or
   the timeout error - with the request's identity *)
Theorem C10_schedules_twoway : forall dispatch r queued ls s,
  hrun_labels r (inv_reply dispatch r queued) hinit ls = Some s -> oneway r = false ->
  forall w, s_written s = Some w ->
    exists x, w = [x] /\
              ((x = inv_reply dispatch r queued /\ s_returned s = true /\ s_late s = false) \/
               (x = late_reply r /\ s_returned s = true /\ s_fired s = true) \/
               (x = handle_timeout_reply r /\ s_fired s = true)) /\
              p_id x = q_id r /\ p_ver x = q_ver r /\ p_ptype x = q_ptype r.
Proof. exact InvokeProofs.served_schedules_twoway. Qed.
(* one-way: never answered, in any schedule (also when the handler wakes before Invoke has decoded the request) *)
Theorem C10_schedules_oneway : forall r p ls s, hrun_labels r p hinit ls = Some s -> oneway r = true ->
  forall w, s_written s = Some w -> w = [].
Proof. exact InvokeProofs.schedules_oneway. Qed.
Theorem C10_schedules_write_once : forall r p ls s s' w,
  hrun_labels r p s ls = Some s' -> s_written s = Some w -> s_written s' = Some w.
Proof. exact InvokeProofs.schedules_write_once. Qed.
Theorem C10_schedules_at_most_one : forall r p ls s, hrun_labels r p hinit ls = Some s ->
  forall w, s_written s = Some w -> (length w <= 1)%nat.
Proof. exact InvokeProofs.schedules_at_most_one. Qed.
Theorem C10_schedules_progress : forall r p ls s, hrun_labels r p hinit ls = Some s ->
  exists more s', hrun_labels r p s more = Some s' /\ s_written s' <> None.
Proof. exact InvokeProofs.schedules_progress. Qed.
(* an Invoke that does not dispatch because it was entered late: only after the deadline had passed *)
Theorem C10_schedules_late : forall r p ls s, hrun_labels r p hinit ls = Some s -> s_late s = true ->
  s_fired s = true /\ s_started s = true.
Proof. exact InvokeProofs.schedules_late. Qed.
Theorem C10_function_is_a_schedule : forall dispatch cfg r queued, 0 < c_ht cfg ->
  exists ls s, hrun_labels r (inv_reply dispatch r queued) hinit ls = Some s /\ s_late s = false /\
               s_written s = Some (map snd (fst (server_step dispatch cfg r queued))).
Proof. exact InvokeProofs.function_is_a_schedule. Qed.

(* ---- a whole connection under a handle timeout: each request's handler runs under any schedule (all of them complete:
   C10_schedules_progress), the writes reach the socket in any interleaving: as many replies as two-way requests, each
   with the identity of a two-way request of the connection ---- *)
Theorem C10_connection_schedules : forall dispatch (ts : list (handler_run)) out,
  Forall (run_ok dispatch) ts -> interleave (map run_written ts) out ->
  length out = length (filter (fun t => negb (oneway (run_request t))) ts) /\
  forall x, In x out -> exists t, In t ts /\ oneway (run_request t) = false /\
                                  p_id x = q_id (run_request t) /\ p_ver x = q_ver (run_request t) /\
                                  p_ptype x = q_ptype (run_request t).
Proof. exact InvokeProofs.connection_schedules. Qed.

(* ---- pipelining on one connection: any interleaving of the handlers' writes ---- *)
Theorem C10_pipelining : forall dispatch cfg reqs out,
  interleave (map (fun pq => fst (serve_packet dispatch cfg (fst pq) (snd pq))) reqs) out ->
  Permutation out (session dispatch cfg reqs) /\ length out = twoway_count reqs.
Proof. exact InvokeProofs.pipelining. Qed.
Theorem C10_session_identity : forall dispatch cfg reqs o p, In (o, p) (session dispatch cfg reqs) ->
  exists pkg q r, In (pkg, q) reqs /\ parse_request pkg = Some r /\
                  p_id p = q_id r /\ p_ver p = q_ver r /\ p_ptype p = q_ptype r.
Proof. exact InvokeProofs.session_identity. Qed.
(* TCP: independent of how the request stream is cut into reads (with C07) *)
Theorem C10_tcp_segmentation : forall dispatch max cfg pkgs chunks queued,
  Forall (valid max) pkgs -> concat chunks = concat pkgs ->
  tcp_session dispatch max cfg chunks queued = session dispatch cfg (combine pkgs queued).
Proof. exact InvokeProofs.tcp_segmentation. Qed.

(* ================= time as data (Rpc/InvokeTime.v): a request's life as nanosecond timestamps =================
   t_arr (packet read, recvPkgTs stamped) <= t_hdl (handler starts, invokeCtx created) <= t_sel (Invoke reads the clock
   and decides); d_run, d_wake, d_write: how long Invoke runs, how late the handler wakes and writes. All of them
   universally quantified. *)
Theorem C10_timed_count : forall dispatch cfg r st,
  length (fst (timed_step dispatch cfg r st)) = if oneway r then 0%nat else 1%nat.
Proof. exact InvokeTimeProofs.timed_count. Qed.
Theorem C10_timed_identity : forall dispatch cfg r st o p, In (o, p) (fst (timed_step dispatch cfg r st)) ->
  p_id p = q_id r /\ p_ver p = q_ver r /\ p_ptype p = q_ptype r.
Proof. exact InvokeTimeProofs.timed_identity. Qed.
(* a queue-timeout answer only if the request really waited: it carried a timeout and waited longer than that timeout
   less one millisecond (clocks are read in whole milliseconds) - or the whole handle timeout passed between the
   handler's start and Invoke's decision *)
Theorem C10_queue_timeout_only_if_waited : forall dispatch cfg r st p, stamps_ok st ->
  In (FromQueueTimeout, p) (fst (timed_step dispatch cfg r st)) ->
  ((0 < q_timeout r)%Z /\ (Z.of_N (waited st) > (q_timeout r - 1) * 1000000)%Z) \/
  (0 < c_ht cfg /\ c_ht cfg * ns_per_ms <= t_sel st - t_hdl st).
Proof. exact InvokeTimeProofs.timed_queue_timeout_only_if_waited. Qed.
(* the same for an observer with a clock (what the harness checks on every answered request): sent at [send], reply read
   at [seen] - a queue-timeout answer must fit between the two *)
Theorem C10_queue_timeout_window : forall dispatch cfg r st p send seen, stamps_ok st -> send <= t_arr st -> t_sel st <= seen ->
  In (FromQueueTimeout, p) (fst (timed_step dispatch cfg r st)) ->
  qt_window_ok (q_timeout r) (c_ht cfg) send seen = true.
Proof. exact InvokeTimeProofs.qt_window_sound. Qed.
(* ... and a request that carried a timeout and waited that long is never executed *)
Theorem C10_waited_then_not_executed : forall dispatch cfg r st, stamps_ok st -> (0 < q_timeout r)%Z ->
  (Z.of_N (waited st) >= q_timeout r * 1000000)%Z ->
  snd (timed_step dispatch cfg r st) = 0%nat /\
  forall o p, In (o, p) (fst (timed_step dispatch cfg r st)) -> o = FromQueueTimeout \/ o = FromHandleTimeout.
Proof. exact InvokeTimeProofs.timed_waited_then_not_executed. Qed.
(* the reading without the millisecond of slack is false of the model and of the code (both clocks are truncated) *)
Definition C10_queue_timeout_exact_statement : Prop := InvokeTimeProofs.queue_timeout_exact_statement.
Theorem C10_queue_timeout_exact_refuted : ~ InvokeTimeProofs.queue_timeout_exact_statement.
Proof. exact InvokeTimeProofs.queue_timeout_exact_refuted. Qed.
(* the code's [sub] and the real waiting time differ by less than a millisecond *)
Theorem C10_sub_ms_bounds : forall st, t_arr st <= t_sel st ->
  sub_ms st * ns_per_ms < waited st + ns_per_ms /\ waited st < (sub_ms st + 1) * ns_per_ms.
Proof. exact InvokeTimeProofs.sub_ms_bounds. Qed.
(* the timestamps stand for a schedule of the handle-timeout race, which writes what the timed model says:
   who answers - Invoke or the deadline - is decided by comparing t_sel + d_run, t_hdl + HandleTimeout and the handler's delays *)
Theorem C10_timed_is_schedule : forall dispatch cfg r st, 0 < c_ht cfg ->
  exists s, hrun_labels r (inv_reply dispatch r (sub_ms st)) hinit (timed_labels cfg st) = Some s /\
            s_late s = late cfg st /\
            s_written s = Some (map snd (fst (timed_step dispatch cfg r st))).
Proof. exact InvokeTimeProofs.timed_is_schedule. Qed.
Theorem C10_timed_no_handle_timeout : forall dispatch cfg r st, c_ht cfg = 0 ->
  timed_step dispatch cfg r st =
  (if oneway r then [] else [(fst (fst (fst (invoke dispatch r (sub_ms st)))), inv_reply dispatch r (sub_ms st))],
   snd (fst (invoke dispatch r (sub_ms st)))).
Proof. exact InvokeTimeProofs.timed_no_handle_timeout. Qed.
(* the handle deadline counts from the handler's start: queueing, however long, does not eat into it *)
Theorem C10_queueing_does_not_eat_handle_timeout : forall dispatch cfg r st, 0 < c_ht cfg ->
  t_sel st + d_run st < t_hdl st + c_ht cfg * ns_per_ms -> oneway r = false ->
  fst (timed_step dispatch cfg r st) =
    [(fst (fst (fst (invoke dispatch r (sub_ms st)))), inv_reply dispatch r (sub_ms st))] /\
  snd (timed_step dispatch cfg r st) = snd (fst (invoke dispatch r (sub_ms st))).
Proof. exact InvokeTimeProofs.timed_queueing_does_not_eat_handle_timeout. Qed.

(* ================= one Current per request: the handlers of a connection's requests interleave ================= *)
(* the projection of any interleaved run onto request i is a run of request i's own transition system *)
Theorem C10_connection_projection : forall rs ls cs cs', crun rs cs ls = Some cs' ->
  forall i r p s, nth_error rs i = Some (r, p) -> nth_error cs i = Some s ->
  exists s', nth_error cs' i = Some s' /\ hrun_labels r p s (proj i ls) = Some s'.
Proof. exact InvokeTimeProofs.crun_projection. Qed.
Theorem C10_connection_interleaved : forall rs ls cs, crun rs (cinit rs) ls = Some cs ->
  forall i r p s, nth_error rs i = Some (r, p) -> nth_error cs i = Some s ->
  (p_id p = q_id r /\ p_ver p = q_ver r /\ p_ptype p = q_ptype r) ->
  forall w, s_written s = Some w ->
    if oneway r then w = []
    else exists x, w = [x] /\ p_id x = q_id r /\ p_ver x = q_ver r /\ p_ptype x = q_ptype r.
Proof. exact InvokeTimeProofs.connection_interleaved. Qed.
(* with ONE Current per connection the same statement is false (witness: a one-way request answered because another
   request's Invoke returned in between) - the invariant "one Current per request" is what the theorem above rests on *)
Definition C10_shared_current_statement : Prop := InvokeTimeProofs.shared_current_statement.
Theorem C10_shared_current_refuted : ~ InvokeTimeProofs.shared_current_statement.
Proof. exact InvokeTimeProofs.shared_current_refuted. Qed.

(* ================= regenerated from the tree: Protocol.Invoke's answers on a fixed table of requests =================
   Gen/C10Probe.v is rewritten on every run from calls of the real tars.Protocol.Invoke (scripted servant, every function
   shape x version x outcome, ping and near-misses, the queue-timeout decision on both sides of its boundary, one-way
   requests, refused versions); the model's invoke agrees with every row. *)
Theorem C10_invoke_probe : probe_failing = [].
Proof. exact InvokeProbe.invoke_probe_agrees. Qed.
Theorem C10_invoke_probe_nonempty : (100 <=? length c10_probe)%nat = true.
Proof. exact InvokeProbe.invoke_probe_nonempty. Qed.

Print Assumptions C10_protocol_constants.
Print Assumptions C10_count.
Print Assumptions C10_identity.
Print Assumptions C10_identity_on_wire.
Print Assumptions C10_reply_is_a_frame.
Print Assumptions C10_calls.
Print Assumptions C10_ping.
Print Assumptions C10_error_mapping.
Print Assumptions C10_error_code_tars.
Print Assumptions C10_error_code_plain.
Print Assumptions C10_error_code_on_wire_refuted.
Print Assumptions C10_tup_reply_has_no_code.
Print Assumptions C10_error_code_on_wire_partial.
Print Assumptions C10_bodyless_reply_decodes.
Print Assumptions C10_error_reply_on_wire.
Print Assumptions C10_success.
Print Assumptions C10_queue_timeout.
Print Assumptions C10_no_spurious_queue_timeout.
Print Assumptions C10_handle_timeout.
Print Assumptions C10_no_spurious_handle_timeout.
Print Assumptions C10_configuration_independent.
Print Assumptions C10_schedules_twoway.
Print Assumptions C10_schedules_write_once.
Print Assumptions C10_schedules_at_most_one.
Print Assumptions C10_schedules_progress.
Print Assumptions C10_function_is_a_schedule.
Print Assumptions C10_schedules_oneway.
Print Assumptions C10_schedules_late.
Print Assumptions C10_connection_schedules.
Print Assumptions C10_pipelining.
Print Assumptions C10_session_identity.
Print Assumptions C10_tcp_segmentation.
Print Assumptions C10_timed_count.
Print Assumptions C10_timed_identity.
Print Assumptions C10_queue_timeout_only_if_waited.
Print Assumptions C10_queue_timeout_window.
Print Assumptions C10_waited_then_not_executed.
Print Assumptions C10_queue_timeout_exact_refuted.
Print Assumptions C10_sub_ms_bounds.
Print Assumptions C10_timed_is_schedule.
Print Assumptions C10_timed_no_handle_timeout.
Print Assumptions C10_queueing_does_not_eat_handle_timeout.
Print Assumptions C10_connection_projection.
Print Assumptions C10_connection_interleaved.
Print Assumptions C10_shared_current_refuted.
Print Assumptions C10_invoke_probe.
Print Assumptions C10_invoke_probe_nonempty.
