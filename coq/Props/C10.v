(* C10 — the server answers each well-formed request exactly once with matching identity.
   Statements only; every proof is [exact] of a lemma proved elsewhere. *)
From Coq Require Import List NArith ZArith.
From TarsV Require Import Base.Hex Codec.GenCodec Rpc.Invoke Rpc.InvokeProofs.
Import ListNotations.
Open Scope N_scope.

Theorem C10_count : forall (dispatch : request -> hrun) cfg r queued,
  length (replies dispatch cfg r queued) = if oneway r then 0%nat else 1%nat.
Proof. exact InvokeProofs.count_exact. Qed.

Print Assumptions C10_count.
