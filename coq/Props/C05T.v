From TarsV Require Import Codec.Tup Codec.Packet Codec.TupCorr Codec.TupProofs Codec.PacketProofs.
