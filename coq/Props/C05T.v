(* C05T - TUP attribute codec and packet-level pack / unpack (serves C03, C05, C06): statements only. *)
From Coq Require Import List NArith ZArith.
From TarsV Require Import Gen.Consts Codec.Wire Codec.Skip Codec.Prim Codec.GenCodec Frame.Framing
  Codec.Tup Codec.Packet Codec.TupCorr Codec.TupProofs Codec.PacketProofs Codec.TupCost Codec.TupCostProofs.
From TarsV Require Import Codec.Corr Gen.Schemas Codec.RoundTrip Codec.RoundTripExamples Codec.PacketCompose.
(* (TupCorr: the correspondence evaluated on every run is part of this file's closure, so it is rebuilt with it) *)
Import ListNotations.
Open Scope N_scope.

(* ---- C05: UniAttribute.Decode on ANY bytes: a value or an error (the linear fuel never runs out), loop
   iterations and bytes allocated for keys and buffers bounded by the input length, reader only forward ---- *)
Theorem C05T_tup_decode_total : forall bs : list N,
  let o := tup_decode bs in
  t_stat o <> TSFuel /\ t_iter o <= nlen bs /\ t_alloc o <= nlen bs /\ (length (t_rest o) <= length bs)%nat.
Proof. exact tup_decode_total. Qed.
Print Assumptions C05T_tup_decode_total.

(* time: the whole of Decode - every lookup, every activation of the skipping functions below it (TupCost.v counts
   them along the model's own recursion), every loop iteration - is at most 10 steps per input byte plus 9 *)
Theorem C05T_tup_cost_linear : forall bs : list N, (tup_cost bs <= 10 * length bs + 9)%nat.
Proof. exact tup_cost_linear. Qed.
Print Assumptions C05T_tup_cost_linear.

(* the same statement is false of the decoder of the pinned snapshot (key optional): six bytes, a million iterations *)
Theorem C05T_pinned_total_refuted :
  exists bs, let o := tup_decode_pinned bs in nlen bs = 6 /\ t_stat o = TSOk /\ t_iter o = 1000000.
Proof. exact pinned_total_refuted. Qed.
Print Assumptions C05T_pinned_total_refuted.
(* ... for every count: an input of at most six bytes announcing n entries makes it iterate n times *)
Theorem C05T_pinned_decode_spins : forall n : nat, N.of_nat n < 2147483648 ->
  let bs := head tMAP 0 ++ w_int32 (wrap32 (Z.of_nat n)) 0 in
  (length bs <= 6)%nat /\ tup_decode_pinned bs = mk_tout TSOk [] [] (N.of_nat n) 0.
Proof. exact pinned_decode_spins. Qed.
Print Assumptions C05T_pinned_decode_spins.

(* ---- C03: Decode (Encode m ++ rest) = m, stopping exactly at rest, for EVERY attribute list ---- *)
Theorem C05T_tup_roundtrip : forall (m : attrs) (rest : list N), attrs_ok m ->
  tup_decode (tup_encode m ++ rest) = mk_tout TSOk m rest (N.of_nat (length m)) (alloc_of m).
Proof. exact tup_roundtrip. Qed.
Print Assumptions C05T_tup_roundtrip.
Theorem C05T_tup_roundtrip_map : forall m : attrs, attrs_ok m ->
  decoded_into [] (tup_decode (tup_encode m)) = dedupe m /\
  forall k, get (t_ins (tup_decode (tup_encode m))) k = get m k.
Proof. exact tup_roundtrip_map. Qed.
Print Assumptions C05T_tup_roundtrip_map.

(* ---- C06: every proper prefix of every encoding is rejected; what was added before the error is a prefix of
   the encoded entries ---- *)
Theorem C05T_tup_truncated_rejected : forall (m : attrs) (p : list N), attrs_ok m -> pprefix p (tup_encode m) ->
  let o := tup_decode p in t_stat o = TSErr /\ exists m2, m = t_ins o ++ m2.
Proof. exact tup_truncated_rejected. Qed.
Print Assumptions C05T_tup_truncated_rejected.
(* false of the decoder before 5664fef (value optional): a prefix ending after the last key is accepted *)
Theorem C05T_value_optional_refuted :
  let full := tup_encode [([97], [120])] in
  let cut := firstn 6 full in
  (length cut < length full)%nat /\ t_stat (tup_decode_b18cffe cut) = TSOk /\ t_ins (tup_decode_b18cffe cut) = [] /\
  t_stat (tup_decode cut) = TSErr.
Proof. exact value_optional_accepts_truncated. Qed.
Print Assumptions C05T_value_optional_refuted.

(* ---- C06: a map count or a buffer length that announces more than follows is rejected ---- *)
Theorem C05T_tup_inflated_count : forall (m : attrs) (extra : nat), Forall entry_ok m -> (0 < extra)%nat ->
  N.of_nat (length m + extra) < 2147483648 ->
  let o := tup_decode (head tMAP 0 ++ w_int32 (wrap32 (Z.of_nat (length m + extra))) 0 ++ flat_map enc_entry m) in
  t_stat o = TSErr /\ t_ins o = m.
Proof. exact tup_inflated_count. Qed.
Print Assumptions C05T_tup_inflated_count.
Theorem C05T_tup_inflated_buffer : forall (m : attrs) (k v tail : list N) (cnt announced : nat), Forall entry_ok m ->
  len k < 4294967296 -> (length m < cnt)%nat -> N.of_nat cnt < 2147483648 ->
  (length v + length tail < announced)%nat -> N.of_nat announced < 2147483648 ->
  let o := tup_decode (head tMAP 0 ++ w_int32 (wrap32 (Z.of_nat cnt)) 0 ++ flat_map enc_entry m ++
                       w_string k 0 ++ head tSIMPLE 1 ++ head tBYTE 0 ++ w_int32 (wrap32 (Z.of_nat announced)) 0 ++ v ++ tail) in
  t_stat o = TSErr /\ t_ins o = m.
Proof. exact tup_inflated_buffer. Qed.
Print Assumptions C05T_tup_inflated_buffer.

(* ---- C06, second clause: a field of an inadmissible wire type is rejected, not reinterpreted: the map itself, and -
   after any complete entries - a key that is not a string, a value that is not a SimpleList, an element head that
   is not BYTE; exactly the complete entries have been added ---- *)
Theorem C05T_tup_mistyped_map : forall (ty : N) (rest : list N), ty < 16 -> ty <> tMAP ->
  t_stat (tup_decode (head ty 0 ++ rest)) = TSErr.
Proof. exact tup_mistyped_map. Qed.
Print Assumptions C05T_tup_mistyped_map.
Theorem C05T_tup_mistyped : forall (m : attrs) (k : list N) (ty : N) (rest : list N) (cnt : nat), Forall entry_ok m ->
  (length m < cnt)%nat -> N.of_nat cnt < 2147483648 -> len k < 4294967296 -> ty < 16 ->
  let dec tail := tup_decode (head tMAP 0 ++ w_int32 (wrap32 (Z.of_nat cnt)) 0 ++ flat_map enc_entry m ++ tail) in
  (ty <> tSTR1 -> ty <> tSTR4 -> t_stat (dec (head ty 0 ++ rest)) = TSErr /\ t_ins (dec (head ty 0 ++ rest)) = m) /\
  (ty <> tSIMPLE -> t_stat (dec (w_string k 0 ++ head ty 1 ++ rest)) = TSErr /\ t_ins (dec (w_string k 0 ++ head ty 1 ++ rest)) = m) /\
  (ty <> tBYTE -> t_stat (dec (w_string k 0 ++ head tSIMPLE 1 ++ head ty 0 ++ rest)) = TSErr /\
                  t_ins (dec (w_string k 0 ++ head tSIMPLE 1 ++ head ty 0 ++ rest)) = m).
Proof. exact tup_mistyped. Qed.
Print Assumptions C05T_tup_mistyped.

(* Decode succeeds only on an input whose first field is a MAP at tag 0 ... *)
Theorem C05T_tup_strict_map : forall bs : list N, t_stat (tup_decode bs) = TSOk ->
  exists r two, read_head2 bs = Some (tMAP, 0, r, two).
Proof. exact tup_strict_map. Qed.
Print Assumptions C05T_tup_strict_map.
(* ... which is false of the decoder before fa80196 (lookup optional, its result ignored): an input without any
   field at tag 0 decodes to {"a": "x"} because the tag byte of a two-byte head is re-read as the head of the count *)
Theorem C05T_optional_map_refuted :
  let bs := [248; 2; 0; 0; 0; 1; 6; 1; 97; 29; 0; 0; 1; 120] in
  read_head2 bs = Some (tMAP, 2, [0; 0; 0; 1; 6; 1; 97; 29; 0; 0; 1; 120], true) /\
  t_stat (tup_decode_5664fef bs) = TSOk /\ t_ins (tup_decode_5664fef bs) = [([97], [120])] /\
  t_stat (tup_decode bs) = TSErr.
Proof. exact optional_map_reinterprets. Qed.
Print Assumptions C05T_optional_map_refuted.

(* ---- packets: header length consistency ---- *)
Theorem C05T_frame_header : forall body more : list N, 4 + N.of_nat (length body) < 4294967296 ->
  hdr (frame body ++ more) = Some (N.of_nat (length (frame body))).
Proof. exact frame_header. Qed.
Print Assumptions C05T_frame_header.
Theorem C05T_parse_frame : forall (max : N) (body more : list N),
  4 + N.of_nat (length body) < 4294967296 -> 4 + N.of_nat (length body) <= max ->
  tars_request max (frame body ++ more) = Full (length (frame body)) /\
  firstn (length (frame body)) (frame body ++ more) = frame body.
Proof. exact parse_frame. Qed.
Print Assumptions C05T_parse_frame.
Theorem C05T_request_pack_parses : forall (e : env) (req_sid : nat) (max : N) (req : val) (more : list N),
  let pk := request_pack e req_sid req in
  N.of_nat (length pk) < 4294967296 -> N.of_nat (length pk) <= max ->
  hdr (pk ++ more) = Some (N.of_nat (length pk)) /\ tars_request max (pk ++ more) = Full (length pk).
Proof. exact request_pack_parses. Qed.
Print Assumptions C05T_request_pack_parses.
Theorem C05T_rsp2byte_parses : forall (e : env) (req_sid rsp_sid : nat) (tup_version : Z) (max : N) (rsp : val) (more : list N),
  let pk := rsp2byte e req_sid rsp_sid tup_version rsp in
  N.of_nat (length pk) < 4294967296 -> N.of_nat (length pk) <= max ->
  hdr (pk ++ more) = Some (N.of_nat (length pk)) /\ tars_request max (pk ++ more) = Full (length pk).
Proof. exact rsp2byte_parses. Qed.
Print Assumptions C05T_rsp2byte_parses.

(* ---- packets: unpack on arbitrary bytes; pack then unpack ---- *)
Theorem C05T_unpack_total : forall (e : env) (sid : nat) (pkg : list N),
  ((length pkg < 4)%nat /\ unpack e sid pkg = DPanic site_slice_bounds) \/
  ((4 <= length pkg)%nat /\ unpack e sid pkg = decode e sid (skipn 4 pkg)).
Proof. exact unpack_total. Qed.
Print Assumptions C05T_unpack_total.
Theorem C05T_full_package_unpack_safe : forall (e : env) (max : N) (buf : list N) (n sid : nat), tars_request max buf = Full n ->
  (4 <= length (firstn n buf))%nat /\ unpack e sid (firstn n buf) = decode e sid (skipn 4 (firstn n buf)).
Proof. exact full_package_unpack_safe. Qed.
Print Assumptions C05T_full_package_unpack_safe.
(* "ResponseUnpack never panics on any bytes" without the ParsePackage guard is false of the faithful model *)
Theorem C05T_unpack_unguarded_refuted : exists pkg, forall e sid, unpack e sid pkg = DPanic site_slice_bounds.
Proof. exact unpack_unguarded_refuted. Qed.
Print Assumptions C05T_unpack_unguarded_refuted.
Theorem C05T_unpack_frame : forall (e : env) (sid : nat) (body : list N), unpack e sid (frame body) = decode e sid body.
Proof. exact unpack_frame. Qed.
Print Assumptions C05T_unpack_frame.
Theorem C05T_request_pack_unpack : forall (e : env) (req_sid : nat) (req : val),
  request_unpack e req_sid (request_pack e req_sid req) = decode e req_sid (encode e req_sid req).
Proof. exact request_pack_unpack. Qed.
Print Assumptions C05T_request_pack_unpack.
Theorem C05T_rsp2byte_plain : forall (e : env) (req_sid rsp_sid : nat) (tup_version : Z) (rsp : val),
  (rsp_version e rsp_sid rsp =? tup_version)%Z = false ->
  response_unpack e rsp_sid (rsp2byte e req_sid rsp_sid tup_version rsp) = decode e rsp_sid (encode e rsp_sid rsp).
Proof. exact rsp2byte_plain. Qed.
Print Assumptions C05T_rsp2byte_plain.
Theorem C05T_rsp2byte_tup : forall (e : env) (req_sid rsp_sid : nat) (tup_version : Z) (rsp : val),
  (rsp_version e rsp_sid rsp =? tup_version)%Z = true ->
  request_unpack e req_sid (rsp2byte e req_sid rsp_sid tup_version rsp) =
  decode e req_sid (encode e req_sid (req_of_rsp e req_sid rsp_sid rsp)).
Proof. exact rsp2byte_tup. Qed.
Print Assumptions C05T_rsp2byte_tup.

(* ---- C06 on ARBITRARY bytes: every key and buffer the decoder adds to the set is a contiguous piece of the
   input, the buffer after its key - no zero padding, no partial strings, nothing made up ---- *)
Theorem C05T_tup_nothing_made_up : forall (bs : list N) (kv : list N * list N),
  In kv (t_ins (tup_decode bs)) -> exists a b c, bs = a ++ fst kv ++ b ++ snd kv ++ c.
Proof. exact tup_nothing_made_up. Qed.
Print Assumptions C05T_tup_nothing_made_up.

(* ---- the server's InvokeTimeout: slice panic exactly below the header size; no reply at all to a one-way request;
   the reply to a two-way request is a full packet ---- *)
Theorem C05T_invoke_timeout_short : forall (e : env) (req_sid rsp_sid : nat) (tup_version oneway : Z) (pkg : list N),
  (length pkg < 4)%nat -> invoke_timeout e req_sid rsp_sid tup_version oneway pkg = DPanic site_slice_bounds.
Proof. exact invoke_timeout_short. Qed.
Print Assumptions C05T_invoke_timeout_short.
Theorem C05T_invoke_timeout_oneway : forall (e : env) (req_sid rsp_sid : nat) (tup_version oneway : Z) (pkg : list N) (req : val) (r : list N),
  request_unpack e req_sid pkg = DOk req r -> (req_packet_type e req_sid req =? oneway)%Z = true ->
  invoke_timeout e req_sid rsp_sid tup_version oneway pkg = DOk [] r.
Proof. exact invoke_timeout_oneway. Qed.
Print Assumptions C05T_invoke_timeout_oneway.
Theorem C05T_invoke_timeout_twoway : forall (e : env) (req_sid rsp_sid : nat) (tup_version oneway : Z) (max : N) (pkg : list N) (req : val) (r more : list N),
  request_unpack e req_sid pkg = DOk req r -> (req_packet_type e req_sid req =? oneway)%Z = false ->
  let reply := rsp2byte e req_sid rsp_sid tup_version (timeout_rsp e req_sid rsp_sid req) in
  invoke_timeout e req_sid rsp_sid tup_version oneway pkg = DOk reply r /\
  (N.of_nat (length reply) < 4294967296 -> N.of_nat (length reply) <= max ->
   hdr (reply ++ more) = Some (N.of_nat (length reply)) /\ tars_request max (reply ++ more) = Full (length reply)).
Proof. exact invoke_timeout_twoway. Qed.
Print Assumptions C05T_invoke_timeout_twoway.

(* ---- composed with the struct-level codec theorems, on the regenerated RequestPacket / ResponsePacket schemas:
   pack then unpack returns the packet value (up to veq: nil = empty, map order), for every well-typed value;
   unpack never runs out of fuel on arbitrary bytes ---- *)
Theorem C05T_request_pack_roundtrip : forall vs, has_type env0 (TStruct rq) (VStruct vs) ->
  exists v', request_unpack env0 rq (request_pack env0 rq (VStruct vs)) = DOk v' [] /\ veq env0 (TStruct rq) v' (VStruct vs).
Proof. exact request_pack_roundtrip. Qed.
Print Assumptions C05T_request_pack_roundtrip.
Theorem C05T_rsp2byte_roundtrip : forall vs, has_type env0 (TStruct rs) (VStruct vs) ->
  (rsp_version env0 rs (VStruct vs) =? c_TUPVERSION)%Z = false ->
  exists v', response_unpack env0 rs (rsp2byte env0 rq rs c_TUPVERSION (VStruct vs)) = DOk v' [] /\ veq env0 (TStruct rs) v' (VStruct vs).
Proof. exact rsp2byte_roundtrip. Qed.
Print Assumptions C05T_rsp2byte_roundtrip.
Theorem C05T_response_unpack_fuel : forall pkg, response_unpack env0 rs pkg <> DFuel.
Proof. exact response_unpack_fuel. Qed.
Print Assumptions C05T_response_unpack_fuel.
Theorem C05T_request_unpack_fuel : forall pkg, request_unpack env0 rq pkg <> DFuel.
Proof. exact request_unpack_fuel. Qed.
Print Assumptions C05T_request_unpack_fuel.

(* ---- the CURRENT source of UniAttribute.Encode writes the model's bytes ----
   Gen/Translated.v is regenerated from tars/protocol/tup/tup.go on every run (the map head with the count, the five
   writes per entry; their callees are the translated codec.Buffer methods). Run over the entries in the order Go's map
   iteration yields them, the translated statements append exactly tup_encode m and return a nil error. *)
From TarsV Require Import Xlate.GoSem Gen.Translated Xlate.TupEquiv.
Theorem C05T_source_encode_entry : forall err0 k v out,
  tr_tup_Encode_entry err0 k v out = Next (out ++ enc_entry (k, v), false).
Proof. exact TupEquiv.tr_tup_Encode_entry_equiv. Qed.
Print Assumptions C05T_source_encode_entry.
Theorem C05T_source_encode : forall m out, go_tup_encode m out = Next (out ++ tup_encode m, false).
Proof. exact TupEquiv.go_tup_encode_equiv. Qed.
Print Assumptions C05T_source_encode.

(* ---- the CURRENT source of UniAttribute.Decode computes the model's decoder on every input ----
   tr_tup_Decode is the whole function (the *codec.Reader parameter is the reader state, u.data the list of insertions
   in order; its callees are the translated codec.Reader methods). For a reader over any byte string a Go slice can hold,
   any attribute set to decode into, and any fuel from 2*len+9 on: the same status as tup_decode, the same entries added
   in the same order (also those before an error), the reader left where the model leaves it; never a panic. *)
From TarsV Require Import Xlate.ReaderEquiv Xlate.TupDecodeEquiv.
Theorem C05T_source_decode : forall F bs u, bytes_ok bs -> (go_len bs <= LEN_MAX)%Z -> (fuel_for bs + 5 <= F)%nat ->
  let o := tup_decode bs in
  match t_stat o with
  | TSOk => exists p', tr_tup_Decode F (Build_go_reader bs 0 0) u = Return (Build_go_reader bs p' 0, false, u ++ t_ins o) /\
                       go_drop bs p' = t_rest o /\ (0 <= p' <= go_len bs)%Z
  | TSErr => exists rd', tr_tup_Decode F (Build_go_reader bs 0 0) u = Return (rd', true, u ++ t_ins o)
  | TSFuel => False
  end.
Proof. exact TupDecodeEquiv.tr_tup_Decode_fresh. Qed.
Print Assumptions C05T_source_decode.
