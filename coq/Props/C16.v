(* C16 — placeholder while the proofs are being built *)
From TarsV Require Import Base.Hex Idl.Lexer Idl.Parser Idl.Corr.
