(* C16 — tars2go: valid IDL yields compiling, conformant code; the tool always terminates. Statements only. *)
From Coq Require Import String.
From Coq Require Import List NArith ZArith Sorted.
From TarsV Require Import Base.Hex Idl.Lexer Idl.LexerProofs Idl.Parser Idl.ParserProofs Idl.Corr.
From TarsV Require Import Idl.Print Idl.Render.
From TarsV Require Idl.Schema Idl.SchemaProofs Idl.PrintProofs Idl.RenderProofs Idl.AnalyzeProofs Idl.Accepts Idl.TablesProofs Idl.GenTablesProofs Idl.Include Idl.IncludeProofs Idl.IncGraph Idl.IncGraphProofs Gen.C16Tables Gen.C16Translated Xlate.GoSem Codec.GenCodec Codec.Corr.
Import ListNotations.
Open Scope N_scope.

(* the lexer makes progress: a token other than Eof consumes at least one byte, Eof is idempotent,
   |unread input|+1 iterations of lLex's loop always reach the next token *)
Theorem C16_lexer_consumes : forall fuel st t st',
  next_token fuel st = Ok (t, st') -> t <> TEof -> (length st' < length st)%nat.
Proof. exact LexerProofs.next_token_consumes. Qed.
Theorem C16_lexer_eof_idempotent : forall fuel st st',
  next_token fuel st = Ok (TEof, st') -> forall fuel', next_token (S fuel') st' = Ok (TEof, st').
Proof. exact LexerProofs.next_token_eof_idem. Qed.
Theorem C16_lexer_fuel : forall fuel st, (length st < fuel)%nat -> next_token fuel st <> Fuel.
Proof. exact LexerProofs.next_token_fuel. Qed.

(* the front end terminates on every byte string: lexing with fuel |input|+2 and parsing with fuel
   |tokens|+2 <= |input|+3 never runs out — every loop iteration consumes a token or exits *)
Theorem C16_terminates : forall input : list N, parse_bytes input <> OFuel.
Proof. exact ParserProofs.parse_bytes_terminates. Qed.
Theorem C16_terminates_tokens : forall ts : list tok, parse_tokens_gen true (S (S (length ts))) ts <> OFuel.
Proof. exact ParserProofs.parse_tokens_terminates. Qed.
Theorem C16_fuel_linear : forall input l, tokens_of input = Ok l ->
  (lex_fuel input = length input + 2 /\ parse_fuel l <= length input + 3)%nat.
Proof. exact ParserProofs.fuel_linear. Qed.

(* the defect repaired by e39406b, kept as a theorem about the pinned snapshot's parseEnum: on
   `module m { enum E {` <EOF> no fuel suffices; the repaired parser reports a diagnostic *)
Theorem C16_snapshot_enum_eof_hangs : forall fuel, parse_tokens_gen false fuel enum_open_at_eof = OFuel.
Proof. exact ParserProofs.unrepaired_hangs. Qed.
Theorem C16_repaired_enum_eof_diagnosed : parse_bytes (bs "module m { enum E {") = OErr.
Proof. exact ParserProofs.repaired_diagnoses. Qed.

(* "codecs ... satisfy the codec properties for that schema": the schema environment of every program the front
   end accepts (where env_of_module is defined: the fragment whose generated Go compiles) is well formed, so the
   generated-codec theorems C03-C06, stated for well-formed environments, apply to it *)
Theorem C16_schema_wf : forall input m e,
  parse_bytes input = OOk m -> Schema.env_of_module m = Some e -> Codec.Corr.wf_env e = true.
Proof. exact SchemaProofs.schema_wf. Qed.
Theorem C16_schema_wf_instance :
  match parse_bytes SchemaProofs.example_idl with OOk m => Schema.env_of_module m | _ => None end = Some SchemaProofs.example_env.
Proof. exact SchemaProofs.schema_wf_instance. Qed.

(* "valid IDL is accepted and means what it says": the grammar of the supported language is Idl/Print.v (sdecl:
   enums with plain / "= value" / "= Name" members, constants of every scalar type, structs with require/optional
   members of every scalar, string, vector, map, user type, fixed arrays and defaults, interfaces with in/out
   parameters and return values, key[...]); for every well-formed program (no redefinition, distinct tags,
   literals fit) the parser returns exactly the denoted AST, struct members sorted by tag, and hands it to the
   analysis.  Token level, and for every byte string the lexer maps to those tokens. *)
Theorem C16_accepts_grammar_tokens : forall name ds, wf_decls (empty_module name) ds = true ->
  parse_tokens (print_prog name ds) = match analyze (module_of name ds) with Ok m' => OOk m' | _ => OErr end.
Proof. exact PrintProofs.parse_print. Qed.
Theorem C16_accepts_grammar : forall input name ds,
  wf_decls (empty_module name) ds = true -> tokens_of input = Ok (print_prog name ds) ->
  parse_bytes input = match analyze (module_of name ds) with Ok m' => OOk m' | _ => OErr end.
Proof. exact PrintProofs.parse_bytes_print. Qed.
Theorem C16_accepts_grammar_instance :
  tokens_of (bs "module M { enum E { A, B = 5, C = B, D }; const unsigned int c = 0x10; struct In { 0 require int x; }; struct S { 7 require map<string, vector<In>> m; 0 optional E e = D; 3 optional In arr[2]; 4 optional float f = 1.5; }; key[S, e, f]; interface I { unsigned byte op(S a, out vector<E> b); void nop(); }; };")
  = Ok (print_prog (bs "M") PrintProofs.example_prog).
Proof. exact PrintProofs.parse_print_instance_text. Qed.

(* the lexer maps every rendering of a token sequence back to it: any spelling of a word / number that readIdent /
   readNumber collect and strconv accepts, strings, punctuation, "#include"; between tokens any blanks, line breaks,
   "//" comments and "/* */" comments (no "*/" inside); no gap needed where a token delimits itself or the next
   one starts with a byte that ends the scan *)
Theorem C16_lexer_render : forall lead ps, forallb wf_gap_item lead = true -> wf_pieces ps ->
  tokens_of (render lead ps) = Ok (map p_tok ps).
Proof. exact RenderProofs.render_tokens. Qed.
(* full strength: every rendering of every well-formed program is accepted with the denoted AST *)
Theorem C16_accepts_rendered : forall name ds lead ps,
  wf_decls (empty_module name) ds = true -> map p_tok ps = print_prog name ds ->
  forallb wf_gap_item lead = true -> wf_pieces ps ->
  parse_bytes (render lead ps) = match analyze (module_of name ds) with Ok m' => OOk m' | _ => OErr end.
Proof. exact Accepts.accepts_rendered. Qed.
(* ... and it is an AST, not a diagnostic, when the program's user type names are unqualified names of structs or
   enums it declares and its named defaults name exactly one enum member *)
Theorem C16_valid_accepted : forall name ds lead ps,
  wf_decls (empty_module name) ds = true -> AnalyzeProofs.module_names_ok (module_of name ds) = true ->
  map p_tok ps = print_prog name ds -> forallb wf_gap_item lead = true -> wf_pieces ps ->
  exists m', analyze (module_of name ds) = Ok m' /\ parse_bytes (render lead ps) = OOk m'.
Proof. exact Accepts.valid_accepted. Qed.
Theorem C16_accepts_rendered_instance :
  render [GLine (bs "file")] Accepts.ex_pieces =
    bs "//file" ++ [10] ++ bs "module /* c * d ***/" ++ [9] ++ bs "m{// x // y" ++ [10] ++ bs "struct" ++ [13; 10] ++ bs "S{0 require/**/int" ++ [12] ++ bs "a=-0x1f;};" ++ [10] ++ bs "};" /\
  wf_decls (empty_module (bs "m")) Accepts.ex_decls = true /\ map p_tok Accepts.ex_pieces = print_prog (bs "m") Accepts.ex_decls /\
  forallb wf_gap_item [GLine (bs "file")] = true /\ wf_pieces Accepts.ex_pieces /\
  AnalyzeProofs.module_names_ok (module_of (bs "m") Accepts.ex_decls) = true.
Proof. exact Accepts.accepts_rendered_instance. Qed.

(* member ordering (checkTag + sortTag) and name resolution (checkDepTName), for every input: the members of every
   struct of an accepted program are strictly ascending by tag, and no user type is left unresolved at any depth -
   members, vector elements, map keys and VALUES, array elements, parameters, results (the generator picks enum or
   struct code by the resolved kind) *)
Theorem C16_members_sorted : forall input m, parse_bytes input = OOk m ->
  Forall (fun s => Sorted.StronglySorted Z.lt (map sm_tag (st_mb s))) (m_structs m).
Proof. exact SchemaProofs.parse_bytes_structs_ok. Qed.
Theorem C16_analysis_resolves : forall input m, parse_bytes input = OOk m -> AnalyzeProofs.module_resolved m = true.
Proof. exact AnalyzeProofs.parse_bytes_resolved. Qed.
Theorem C16_analysis_resolves_instance :
  match parse_bytes (bs "module M { enum Color { RED }; struct In { 0 require int x; }; struct S { 0 require map<string, Color> m; 1 optional vector<In> v; 2 optional Color a[2]; 3 optional map<Color, vector<In>> d; }; interface I { Color f(map<int, Color> a, out vector<Color> b); }; };") with
  | OOk m => Some (map (fun mb => sm_ty mb) (st_mb (nth 1 (m_structs m) {| st_name := []; st_mb := [] |})))
  | _ => None
  end = Some [ VMap (VBase BString false) (VName (bs "Color") CEnum); VVec (VName (bs "In") CStruct);
               VArr (VName (bs "Color") CEnum) 2; VMap (VName (bs "Color") CEnum) (VVec (VName (bs "In") CStruct)) ].
Proof. exact AnalyzeProofs.resolved_instance. Qed.
Print Assumptions C16_members_sorted.
Print Assumptions C16_analysis_resolves.
Print Assumptions C16_analysis_resolves_instance.

(* ---- several files (Idl/Include.v: the file system is a parameter; chain of including files, circular-reference
   diagnostic, FindTNameType / FindEnumName through the included files) ---- *)
(* the front end terminates on every finite file system: the include chain never repeats a name and every name on it
   is a file, so fuel (number of files + 2) is never exhausted, whatever the files contain *)
Theorem C16_terminates_with_includes : forall input files, Include.parse_fs input files <> Include.FFuel.
Proof. exact IncludeProofs.parse_fs_terminates. Qed.
(* without other files the multi-file front end is the single-file one the theorems above speak about *)
Theorem C16_single_file_agrees : forall input m,
  parse_bytes input = OOk m -> Include.parse_fs input [] = Include.FOk (Include.PT m []).
Proof. exact IncludeProofs.parse_fs_single_file. Qed.
Theorem C16_analysis_resolves_with_includes : forall input files t,
  Include.parse_fs input files = Include.FOk t -> AnalyzeProofs.module_resolved (Include.pt_mod t) = true.
Proof. exact IncludeProofs.parse_fs_resolved. Qed.
Theorem C16_includes_instance :
  Include.parse_fs (bs "#include ""d.tars"" module M { };") [ (bs "d.tars", bs "#include ""in.tars"" module D { };") ] = Include.FErr.
Proof. exact IncludeProofs.parse_fs_circular. Qed.
(* "every user type named in a file's generated code has its defining module imported": FindTNameType reports the module
   that DEFINES the type, however deep in the include tree it sits (the looked-up name is that module's name, "::", one of
   its structs or enums); hence - declared names without ':' - every module the analysed type names (Mod::T, printed Mod.T
   by the generator) is among those checkDepTName records for the imports (DependModule), also for a type reached through
   an include of an include *)
Theorem C16_defining_module_found : forall t full c modn, Include.find_tname_t t full = Some (c, modn) ->
  exists m n, In m (IncludeProofs.tree_modules t) /\ m_name m = modn /\ full = modn ++ colons ++ n /\
              (existsb (fun s => beq (st_name s) n) (m_structs m) || existsb (fun e => beq (en_name e) n) (m_enums m)) = true.
Proof. exact IncludeProofs.find_tname_t_owner. Qed.
Theorem C16_imports_cover : forall m incs v v',
  forallb IncludeProofs.module_plain (IncludeProofs.tree_modules (Include.PT m incs)) = true ->
  Include.check_tname_t m incs v = Ok v' -> incl (Include.used_modules v') (Include.recorded_deps m incs v).
Proof. exact IncludeProofs.imports_cover. Qed.
Theorem C16_imports_cover_instance :
  let leaf := {| m_name := bs "Leaf"; m_structs := [ {| st_name := bs "Item"; st_mb := [] |} ]; m_hashkeys := []; m_enums := []; m_consts := []; m_ifaces := [] |} in
  let mid := empty_module (bs "Mid") in
  let top := empty_module (bs "Top") in
  forallb IncludeProofs.module_plain (IncludeProofs.tree_modules (Include.PT top [Include.PT mid [Include.PT leaf []]])) = true /\
  Include.check_tname_t top [Include.PT mid [Include.PT leaf []]] (VVec (VName (bs "Leaf::Item") CNone)) = Ok (VVec (VName (bs "Leaf::Item") CStruct)) /\
  Include.recorded_deps top [Include.PT mid [Include.PT leaf []]] (VVec (VName (bs "Leaf::Item") CNone)) = [bs "Leaf"].
Proof. exact IncludeProofs.imports_cover_instance. Qed.
(* ---- several modules in ONE file (Idl/IncGraph.v): the graph of file nodes parseModule builds - each further module's
   sub-parser gets a COPY of the first module's node, the first module's node later gets the further modules and the
   included files as children - is acyclic: every edge goes to a node created earlier.  FindTNameType / FindEnumName walk
   it recursively and stop only on a hit: on such a graph the walk ends for every name, declared or not.  Handing the
   sub-parser the live node instead of the copy (alias) makes a cycle, and the walk for an undeclared name then never
   ends, whatever bound on the depth (the code: fatal stack overflow).  The harness walks the code's graph on every
   accepted and rejected input (tars2go/parse/include-graph-cyclic). ---- *)
Open Scope nat_scope.
Theorem C16_include_graph_acyclic : forall k ninc u v,
  u <= IncGraph.id_P k ninc -> In v (IncGraph.children false k ninc u) -> v < u.
Proof. exact IncGraphProofs.copy_edges_descend. Qed.
Theorem C16_lookup_terminates_on_acyclic : forall (g : nat -> list nat) has,
  (forall u v, In v (g u) -> v < u) -> forall fuel u, u < fuel -> IncGraph.lookup fuel g has u <> None.
Proof. exact IncGraphProofs.lookup_terminates. Qed.
Theorem C16_multi_module_lookup_terminates : forall k ninc has u, u <= IncGraph.id_P k ninc ->
  IncGraph.lookup (S (IncGraph.id_P k ninc))
    (fun w => if Nat.leb w (IncGraph.id_P k ninc) then IncGraph.children false k ninc w else []) has u <> None.
Proof. exact IncGraphProofs.copy_lookup_terminates. Qed.
Theorem C16_aliased_first_module_refuted : forall k ninc, 1 <= k ->
  (In (IncGraph.id_N ninc 1) (IncGraph.children true k ninc (IncGraph.id_P k ninc)) /\
   In (IncGraph.id_P k ninc) (IncGraph.children true k ninc (IncGraph.id_N ninc 1))) /\
  forall fuel, IncGraph.lookup fuel (IncGraph.children true k ninc) (fun _ => false) (IncGraph.id_P k ninc) = None.
Proof. intros k ninc H. exact (conj (IncGraphProofs.alias_cycle k ninc H) (fun fuel => IncGraphProofs.alias_lookup_diverges k ninc fuel H)). Qed.
Theorem C16_include_graph_instance :
  map (IncGraph.children false 2 1) [0; 1; 2; 3; 4; 5] = [[]; []; [1; 0]; [2]; [3; 0]; [2; 4; 0]] /\
  IncGraph.lookup 6 (IncGraph.children false 2 1) (fun u => Nat.eqb u 0) 5 = Some (Some 0) /\
  IncGraph.lookup 6 (IncGraph.children false 2 1) (fun _ => false) 5 = Some None.
Proof. exact IncGraphProofs.copy_instance. Qed.
Open Scope N_scope.
Print Assumptions C16_include_graph_acyclic.
Print Assumptions C16_lookup_terminates_on_acyclic.
Print Assumptions C16_multi_module_lookup_terminates.
Print Assumptions C16_aliased_first_module_refuted.
Print Assumptions C16_include_graph_instance.
Print Assumptions C16_defining_module_found.
Print Assumptions C16_imports_cover.
Print Assumptions C16_imports_cover_instance.
Print Assumptions C16_terminates_with_includes.
Print Assumptions C16_single_file_agrees.
Print Assumptions C16_analysis_resolves_with_includes.
Print Assumptions C16_includes_instance.

(* ---- the model's lexer tables are the tree's (regenerated on every run: Gen/C16Tables.v from the compiled token and
   lexer packages, Gen/C16Translated.v from the Go source of the character classes and type predicates) ---- *)
Theorem C16_keywords_regenerated :
  map (fun p => (fst p, TablesProofs.tok_code (snd p))) keywords = C16Tables.c16_kw_table.
Proof. exact TablesProofs.keywords_regenerated. Qed.
(* one NextToken of the model = one NextToken of the compiled lexer on b, "a"b, "1"b, "0x"b (then a blank) and on the 15
   families of c16_probe_more (string contents, comment starts and bodies, qualified names, signs, fractions, #include), every byte b:
   first-byte dispatch (blanks, line breaks, punctuation, quote, '#', '/', NUL = end of file), identifier, number and
   hexadecimal continuation classes *)
Theorem C16_lexer_probes :
  map (TablesProofs.probe_model []) TablesProofs.all_bytes = C16Tables.c16_probe_b /\
  map (TablesProofs.probe_model [97]) TablesProofs.all_bytes = C16Tables.c16_probe_ab /\
  map (TablesProofs.probe_model [49]) TablesProofs.all_bytes = C16Tables.c16_probe_1b /\
  map (TablesProofs.probe_model [48; 120]) TablesProofs.all_bytes = C16Tables.c16_probe_0xb /\
  map (fun f => map (TablesProofs.probe_model2 (fst (fst f)) (snd (fst f))) TablesProofs.all_bytes) C16Tables.c16_probe_more
    = map snd C16Tables.c16_probe_more.
Proof.
  exact (conj TablesProofs.probe_first_byte (conj TablesProofs.probe_ident_continuation
        (conj TablesProofs.probe_number_continuation (conj TablesProofs.probe_hex_continuation TablesProofs.probe_more)))).
Qed.
(* integer literals: the model accepts exactly the range the compiled lexer accepts (64 bits) *)
Theorem C16_int_literal_range_pos : forall s u, uint_of s = Some u -> (forall c r, s = c :: r -> c <> 45 /\ c <> 43) ->
  parse_int s = if (Z.of_N u <=? C16Tables.c16_int_lit_max)%Z then Some (Z.of_N u) else None.
Proof. exact TablesProofs.parse_int_range_pos. Qed.
Theorem C16_int_literal_range_neg : forall r u, uint_of r = Some u ->
  parse_int (45 :: r) = if (C16Tables.c16_int_lit_min <=? - Z.of_N u)%Z then Some (- Z.of_N u)%Z else None.
Proof. exact TablesProofs.parse_int_range_neg. Qed.
(* the character classes of lexer.go and the type predicates of token.go, translated from their source, are the model's *)
Theorem C16_char_classes_translated : forall b, (0 <= b < 256)%Z ->
  C16Translated.tr_c16_isNewLine b = GoSem.Return (is_newline (Z.to_N b)) /\
  C16Translated.tr_c16_isNumber b = GoSem.Return (is_number (Z.to_N b)) /\
  C16Translated.tr_c16_isHexNumber b = GoSem.Return (is_hexl (Z.to_N b)) /\
  C16Translated.tr_c16_isLetter b = GoSem.Return (is_letter (Z.to_N b)).
Proof.
  intros b Hb. exact (conj (TablesProofs.tr_isNewLine_equiv b Hb) (conj (TablesProofs.tr_isNumber_equiv b Hb)
    (conj (TablesProofs.tr_isHexNumber_equiv b Hb) (TablesProofs.tr_isLetter_equiv b Hb)))).
Qed.
Theorem C16_type_predicates_translated : forall t, In t TablesProofs.all_toks ->
  C16Translated.tr_c16_IsType (Z.of_N (TablesProofs.tok_code t)) = GoSem.Return (is_type_tok t) /\
  C16Translated.tr_c16_IsNumberType (Z.of_N (TablesProofs.tok_code t)) = GoSem.Return (match t with TTy b => num_bty b | _ => false end).
Proof. intros t H. exact (conj (TablesProofs.tr_IsType_equiv t H) (TablesProofs.tr_IsNumberType_equiv t H)). Qed.

(* the generator's per-type tables (gen_go.go genType / typeDef through the verif hook, utils.UpperFirstLetter) are what
   Idl/Schema.v assumes: Go type of every scalar IDL type, zero text of an optional member without default, capitalisation *)
Theorem C16_gentype_regenerated : forall m b u t, Schema.ty_of m (VBase b u) = Some t ->
  GenTablesProofs.lookup_gt (TablesProofs.bty_code b) u C16Tables.c16_gentype = Some (GenTablesProofs.ty_go_name t, true).
Proof. exact GenTablesProofs.gentype_scalars. Qed.
Theorem C16_typedef_regenerated : forall m b t, Schema.ty_of m (VBase b false) = Some t ->
  GenTablesProofs.lookup_td (TablesProofs.bty_code b) C16Tables.c16_typedef = Some (GenTablesProofs.zero_text t, true).
Proof. exact GenTablesProofs.typedef_scalars. Qed.
Theorem C16_names_regenerated :
  map (fun p => GenTablesProofs.go_user_name (fst p)) C16Tables.c16_gentype_names = map snd C16Tables.c16_gentype_names /\
  (map (fun b => upper_first [b]) GenTablesProofs.ascii = C16Tables.c16_upper_first_1 /\
   map (fun b => upper_first [b; 120]) GenTablesProofs.ascii = C16Tables.c16_upper_first_2 /\
   upper_first [] = C16Tables.c16_upper_first_empty).
Proof. exact (conj GenTablesProofs.gentype_names GenTablesProofs.upper_first_regenerated). Qed.
Print Assumptions C16_gentype_regenerated.
Print Assumptions C16_typedef_regenerated.
Print Assumptions C16_names_regenerated.
Print Assumptions C16_keywords_regenerated.
Print Assumptions C16_lexer_probes.
Print Assumptions C16_int_literal_range_pos.
Print Assumptions C16_int_literal_range_neg.
Print Assumptions C16_char_classes_translated.
Print Assumptions C16_type_predicates_translated.
Print Assumptions C16_lexer_render.
Print Assumptions C16_accepts_rendered.
Print Assumptions C16_valid_accepted.
Print Assumptions C16_accepts_rendered_instance.
Print Assumptions C16_accepts_grammar_tokens.
Print Assumptions C16_accepts_grammar.
Print Assumptions C16_accepts_grammar_instance.
Print Assumptions C16_schema_wf.
Print Assumptions C16_schema_wf_instance.
Print Assumptions C16_lexer_consumes.
Print Assumptions C16_lexer_eof_idempotent.
Print Assumptions C16_lexer_fuel.
Print Assumptions C16_terminates.
Print Assumptions C16_terminates_tokens.
Print Assumptions C16_fuel_linear.
Print Assumptions C16_snapshot_enum_eof_hangs.
Print Assumptions C16_repaired_enum_eof_diagnosed.
