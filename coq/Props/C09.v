(* C09 — every call terminates by its deadline and leaves nothing behind.
   Statements only; every proof is [exact] of a lemma proved elsewhere.

   Model: Conc/CallLife.v — labelled transition system of TarsInvoke/doInvoke, AdapterProxy.Send/Recv and
   TarsClient.Send/ReConnect with an abstract clock.  [reach c s]: s is reachable from [init] by ANY label sequence
   (any number of callers, any peer behaviour: silent, late, duplicate, forged, connection loss, refusing, stalling,
   never reading; any interleaving), under configuration c (dial/write/read timeouts, send queue capacity,
   ObjQueueMax).  Time: local steps take no time, waiting does (maximal progress); the runtime's scheduling latency is
   the slack of the wall-clock monitor, not part of the model. *)
From Coq Require Import List NArith ZArith.
From TarsV Require Import Base.Hex Gen.C09Consts Conc.CallLife Conc.CallLifeProofs Conc.TraceSound Conc.TimeWheel Conc.TimeWheelProofs.
From TarsV Require Xlate.TimeWheelEquiv.
Import ListNotations.
Open Scope N_scope.

(* ---------- clause 1: every call returns by its deadline (+ connection establishment) ---------- *)

(* FULL STATEMENT (the property's bound, model slack 0): refuted twice below *)
Definition C09_returns_statement : Prop :=
  forall c s i k, 0 < writeT c -> reach c s -> nth_error (calls s) i = Some k -> k_pc k = Returned ->
    k_ret k <= k_dl k + dialT c.

(* (a) connect stalls: two callers, timeout 20, DialTimeout 40 — the second returns at 80 > 20 + 40 *)
Theorem C09_returns_refuted_stalled_dial : ~ C09_returns_statement.
Proof. exact CallLifeProofs.returns_refuted_stalled_dial. Qed.
Print Assumptions C09_returns_refuted_stalled_dial.

(* (b) peer never reads, send queue of length 1, WriteTimeout 60, timeout 10, DialTimeout 10 — returns at 60 > 10 + 10 *)
Theorem C09_returns_refuted_full_queue : ~ C09_returns_statement.
Proof. exact CallLifeProofs.returns_refuted_full_queue. Qed.
Print Assumptions C09_returns_refuted_full_queue.

(* PARTIAL: what holds for every call, all peers, all schedules: it returns by its deadline or by the end of its Send,
   whichever is later; Send ends at most DialTimeout (if this call dialled) + WriteTimeout (if it had to wait for room in
   the send queue) after the call got connLock.  What is missing w.r.t. the full statement: the time spent waiting for
   connLock (k_lockt - k_start, see C09_lock_wait) and the WriteTimeout term. *)
Theorem C09_returns_partial : forall c s i k,
  0 < writeT c -> reach c s -> nth_error (calls s) i = Some k -> k_pc k = Returned ->
  k_ret k <= N.max (k_dl k) (k_lockt k + (if k_d k then dialT c else 0) + (if k_e k then writeT c else 0)).
Proof. exact CallLifeProofs.returns_partial. Qed.
Print Assumptions C09_returns_partial.

(* ... with the wait for connLock made explicit (the "position in the dial queue"): k_w = how many dials of other calls
   ended while this call waited for connLock; every one of them costs at most one DialTimeout.  The bound is attained by
   the witness of C09_returns_refuted_stalled_dial (Example position_bound_attained). *)
Theorem C09_returns_position : forall c s i k,
  0 < writeT c -> reach c s -> nth_error (calls s) i = Some k -> k_pc k = Returned ->
  k_ret k <= N.max (k_dl k) (k_start k + (k_w k + (if k_d k then 1 else 0)) * dialT c + (if k_e k then writeT c else 0)).
Proof. exact CallLifeProofs.returns_position. Qed.
Print Assumptions C09_returns_position.

(* the property's bound holds for every call that got connLock at once and found room in the send queue ... *)
Theorem C09_returns_uncontended : forall c s i k,
  0 < writeT c -> reach c s -> nth_error (calls s) i = Some k -> k_pc k = Returned ->
  k_lockt k = k_start k -> k_e k = false -> k_ret k <= k_dl k + dialT c.
Proof. exact CallLifeProofs.returns_uncontended. Qed.
Print Assumptions C09_returns_uncontended.

(* ... and on an established connection the call returns by its deadline exactly *)
Theorem C09_returns_established : forall c s i k,
  0 < writeT c -> reach c s -> nth_error (calls s) i = Some k -> k_pc k = Returned ->
  k_lockt k = k_start k -> k_d k = false -> k_e k = false -> k_ret k <= k_dl k.
Proof. exact CallLifeProofs.returns_established. Qed.
Print Assumptions C09_returns_established.

(* bounded liveness as a safety property: the clock cannot pass these bounds while the call is still inside *)
Theorem C09_alive_bounded : forall c s i k,
  0 < writeT c -> reach c s -> nth_error (calls s) i = Some k ->
  match k_pc k with
  | Dialing => now s <= k_lockt k + dialT c
  | Enq => now s <= k_lockt k + dl_d c k + writeT c
  | Waiting | Done | Cleaned => now s <= B c k
  | _ => True end.
Proof. exact CallLifeProofs.alive_bounded. Qed.
Print Assumptions C09_alive_bounded.

(* a call waits for connLock only while another call is dialling, and that one is within its DialTimeout *)
Theorem C09_lock_wait : forall c s i k,
  0 < writeT c -> reach c s -> nth_error (calls s) i = Some k -> k_pc k = Reg -> step c s Tick <> None ->
  exists j kj, lock s = Some j /\ nth_error (calls s) j = Some kj /\ k_pc kj = Dialing /\ now s < k_lockt kj + dialT c.
Proof. exact CallLifeProofs.lock_wait. Qed.
Print Assumptions C09_lock_wait.

(* the only other user of connLock, the sender goroutine's idle check, takes and releases it within its step: it closes
   the idle connection and changes nothing else (the next call dials again, C09_returns_partial covers it) *)
Theorem C09_idle_close_inert : forall c s s', step c s LIdleClose = Some s' ->
  lock s = None /\ lock s' = None /\ conn_open s' = false /\ calls s' = calls s /\ queueLen s' = queueLen s /\
  invokeNum s' = invokeNum s /\ resp s' = resp s /\ sendq s' = sendq s /\ wire s' = wire s /\ now s' = now s.
Proof. exact CallLifeProofs.idle_close_inert. Qed.
Print Assumptions C09_idle_close_inert.

(* every close of a connection - of the current one, or a stale close by a goroutine of an earlier connection - takes
   connLock and gives it back; the stale close changes nothing else *)
Theorem C09_close_releases_lock : forall c s l s', l = LConnDown \/ l = LCloseOld -> step c s l = Some s' ->
  lock s = None /\ lock s' = None /\ calls s' = calls s /\ (forall p, queueLen s' p = queueLen s p) /\ invokeNum s' = invokeNum s /\
  resp s' = resp s /\ sendq s' = sendq s /\ (l = LCloseOld -> conn_open s' = conn_open s).
Proof. exact CallLifeProofs.close_releases_lock. Qed.
Print Assumptions C09_close_releases_lock.

(* the bounds above are not vacuous: the model never blocks the clock for good (finitely many local steps, no tick, lead
   to a state in which the clock can tick) *)
Theorem C09_no_timelock : forall c s, exists ls s',
  run c s ls = Some s' /\ now s' = now s /\ ~ In Tick ls /\ step c s' Tick <> None.
Proof. exact CallLifeProofs.no_timelock. Qed.
Print Assumptions C09_no_timelock.

(* the effective timeout the model's calls start with is derived in the model from the three sources TarsInvoke reads *)
Theorem C09_eff_caller_deadline_wins : forall p pc d, eff_of (mktmo p pc (Some d)) = d.
Proof. exact CallLifeProofs.eff_caller_deadline_wins. Qed.
Print Assumptions C09_eff_caller_deadline_wins.
Theorem C09_eff_percall_over_proxy : forall p q, eff_of (mktmo p (Some q) None) = Z.to_N q.
Proof. exact CallLifeProofs.eff_percall_over_proxy. Qed.
Print Assumptions C09_eff_percall_over_proxy.
Theorem C09_eff_nonpositive_expired : forall t, t_ctx t = None -> (configured t <= 0)%Z -> eff_of t = 0.
Proof. exact CallLifeProofs.eff_nonpositive_expired. Qed.
Print Assumptions C09_eff_nonpositive_expired.

(* ---------- clause 2: the result is the reply, an error, or the timeout error ---------- *)
Theorem C09_outcome : forall c s i k, reach c s -> nth_error (calls s) i = Some k -> k_pc k = Returned ->
  exists o, k_out k = Some o /\
    match o with
    | Reply p => In (id_of i, p) (sent s)
    | Timeout => k_dl k <= k_ret k
    | Error => ~ In i (sendq s) /\ ~ In i (wire s)
    | Sent => k_ow k = true /\ (In i (sendq s) \/ In i (wire s))
    | Cancelled => True
    end.
Proof. exact CallLifeProofs.outcome_classes. Qed.
Print Assumptions C09_outcome.

(* ---------- clause 3: nothing is left behind ---------- *)
(* at every reachable state the three values are functions of where the callers stand.  The counter and the table are
   moved by separate instructions: [counted] = between AddInt32(&queueLen, 1) and the deferred AddInt32(-1), [inside] =
   between resp.Store and the deferred resp.Delete, [invoked] = between preInvoke and postInvoke.  queueLen belongs to the
   ServantProxy the call was made on ([queueLen s p], [counted_by p] = counted and made on proxy p): several proxies for one
   object share the endpoint manager (invokeNum) and its adapters (the table), each keeps its own queueLen *)
Theorem C09_restored : forall c s, reach c s ->
  (forall p, queueLen s p = cnt (counted_by p) (calls s)) /\ invokeNum s = cnt invoked (calls s) /\
  (forall i, In i (resp s) <-> inside_at (calls s) i) /\ NoDup (resp s).
Proof. exact CallLifeProofs.restored_counts. Qed.
Print Assumptions C09_restored.

(* each queueLen has one owner: only the registration / cleanup of a call made on proxy p moves queueLen of p, by +1 / -1 *)
Theorem C09_counter_owner : forall c s l s', step c s l = Some s' ->
  forall p, queueLen s' p <> queueLen s p ->
  exists i k, nth_error (calls s) i = Some k /\ k_px k = p /\
    ((l = LCount i /\ queueLen s' p = (queueLen s p + 1)%Z) \/ (l = LUncount i /\ queueLen s' p = (queueLen s p - 1)%Z)).
Proof. exact CallLifeProofs.counter_owner. Qed.
Print Assumptions C09_counter_owner.

Theorem C09_restored_quiescent : forall c s, reach c s ->
  (forall i k, nth_error (calls s) i = Some k -> k_pc k = Init \/ k_pc k = Returned) ->
  (forall p, queueLen s p = 0%Z) /\ invokeNum s = 0%Z /\ resp s = [].
Proof. exact CallLifeProofs.restored_quiescent. Qed.
Print Assumptions C09_restored_quiescent.

Theorem C09_restored_no_call_inside : forall c s, reach c s ->
  (forall i k, nth_error (calls s) i = Some k -> in_doInvoke k = false) -> (forall p, queueLen s p = 0%Z) /\ resp s = [].
Proof. exact CallLifeProofs.restored_no_call_inside. Qed.
Print Assumptions C09_restored_no_call_inside.

Theorem C09_restored_per_call : forall c s1 s2 i k1 k2, reach c s1 -> reach c s2 ->
  length (calls s1) = length (calls s2) ->
  (forall j a b, j <> i -> nth_error (calls s1) j = Some a -> nth_error (calls s2) j = Some b -> k_pc a = k_pc b) ->
  (forall j a b, nth_error (calls s1) j = Some a -> nth_error (calls s2) j = Some b -> k_px a = k_px b) ->
  nth_error (calls s1) i = Some k1 -> k_pc k1 = Init -> nth_error (calls s2) i = Some k2 -> k_pc k2 = Returned ->
  (forall p, queueLen s1 p = queueLen s2 p) /\ invokeNum s1 = invokeNum s2 /\ (forall j, In j (resp s1) <-> In j (resp s2)).
Proof. exact CallLifeProofs.restored_per_call. Qed.
Print Assumptions C09_restored_per_call.

(* THE LEDGER OF A CALL, over all outcomes (reply, timeout, cancellation by the caller, error from a refused / timed-out
   dial, from the enqueue timeout, from a full invoke queue, from a rejecting client filter, one-way): once the call has
   returned it has no table entry, is counted in neither counter, does not hold connLock, none of its timers can act, and
   a receiver that still holds its reply channel is released within ReadTimeout and cannot deliver.  (A panic inside a
   client filter ends the process through TarsInvoke's CheckPanic: there is nothing to restore.) *)
Theorem C09_ledger_all_outcomes : forall c s i k, reach c s -> nth_error (calls s) i = Some k -> k_pc k = Returned ->
  (exists o, k_out k = Some o) /\ (forall o, k_out k = Some o -> ledger_clear c s i).
Proof. exact CallLifeProofs.ledger_all_outcomes. Qed.
Print Assumptions C09_ledger_all_outcomes.

(* ---------- clause 4: a reply that arrives later is discarded without affecting any other call ---------- *)
Theorem C09_late_reply_inert : forall c s r x l s', reach c s -> nth_error (rcvs s) r = Some x ->
  (forall j, call_of (r_id x) = Some j -> not_waiting s j) ->
  l = LLookup r \/ l = LDeliver r \/ l = LGiveUp r -> step c s l = Some s' -> same_calls s s'.
Proof. exact CallLifeProofs.late_reply_inert. Qed.
Print Assumptions C09_late_reply_inert.

Theorem C09_peer_packet_inert : forall c s id pay s', step c s (LPeerPkt id pay) = Some s' -> same_calls s s'.
Proof. exact CallLifeProofs.peer_packet_inert. Qed.
Print Assumptions C09_peer_packet_inert.

Theorem C09_late_reply_dropped : forall c s r x j k s', reach c s -> nth_error (rcvs s) r = Some x -> r_pc x = RNew ->
  call_of (r_id x) = Some j -> nth_error (calls s) j = Some k -> k_pc k = Returned ->
  step c s (LLookup r) = Some s' -> exists x', nth_error (rcvs s') r = Some x' /\ r_pc x' = RDone.
Proof. exact CallLifeProofs.late_reply_dropped. Qed.
Print Assumptions C09_late_reply_dropped.

Theorem C09_reply_only_to_its_call : forall c s r x s', reach c s -> nth_error (rcvs s) r = Some x ->
  step c s (LDeliver r) = Some s' ->
  exists j k, call_of (r_id x) = Some j /\ nth_error (calls s) j = Some k /\ k_pc k = Waiting /\
              calls s' = upd (calls s) j (set_out k (Reply (r_pay x)) (k_e k)).
Proof. exact CallLifeProofs.reply_only_to_its_call. Qed.
Print Assumptions C09_reply_only_to_its_call.

Theorem C09_receiver_released : forall c s r x j, reach c s -> nth_error (rcvs s) r = Some x -> r_pc x = RFound j ->
  now s <= r_t0 x + readT c.
Proof. exact CallLifeProofs.receiver_released. Qed.
Print Assumptions C09_receiver_released.

(* ---------- trace validation is sound for the model ----------
   [project] observes a run of the model at the harness's observation points (pre-filter = registration, post-filter =
   cleanup, return with the counters as they are then, peer receive = the sender's write, peer send); [arun]/[accepts] is
   the specification machine that validates the implementation's event traces.  Every run of the model is accepted event
   by event, and completely once every started call has returned: a rejected implementation trace is therefore a
   behaviour no execution of the model has. *)
Theorem C09_trace_sound : forall c ls s, run c init ls = Some s ->
  exists a, arun (mkast [] 0 0 [] [] []) (project c init ls) = Some a /\ Sim s a.
Proof. exact TraceSound.trace_sound. Qed.
Print Assumptions C09_trace_sound.

Theorem C09_trace_accepted : forall c ls s, run c init ls = Some s ->
  (forall i k, nth_error (calls s) i = Some k -> k_pc k = Returned) -> accepts (project c init ls) = true.
Proof. exact TraceSound.trace_accepted. Qed.
Print Assumptions C09_trace_accepted.

(* the predictions of the correspondence are executions of this transition system: the canonical run of a fault script
   (what `predicted` evaluates) is a label sequence of [step] from [init], so every theorem above applies to it *)
Theorem C09_canonical_is_run : forall sc s ls, canonical sc = (s, ls, true) ->
  run (sc_cfg sc) init (rev ls) = Some s /\ reach (sc_cfg sc) s.
Proof. exact TraceSound.canonical_is_run. Qed.
Print Assumptions C09_canonical_is_run.

(* ---------- the time wheel tolerance (uses the accuracy constant regenerated from the tree) ---------- *)
Theorem C09_wheel_not_early : forall T, 19 * T <= 20 * lo T.
Proof. exact CallLifeProofs.wheel_not_early. Qed.
Print Assumptions C09_wheel_not_early.

Theorem C09_wheel_not_late : forall T, lo T <= T.
Proof. exact CallLifeProofs.wheel_not_late. Qed.
Print Assumptions C09_wheel_not_late.

(* the wheel itself (Conc/TimeWheel.v, model of rtimer/timewheel.go): the channel returned by After is open during the
   first pos ticks and closed from tick pos+1 on *)
Theorem C09_wheel_after_fires : forall t timeout w ch, (0 < t)%N -> wf w -> after t timeout w = Some ch ->
  let pos := after_pos t timeout in
  (forall n, (n <= pos)%nat -> closed (wticks n w) ch = false) /\
  (forall n, (pos < n)%nat -> closed (wticks n w) ch = true).
Proof. exact TimeWheelProofs.after_fires. Qed.
Print Assumptions C09_wheel_after_fires.

(* rtimer.After(T), T a positive multiple of the accuracy (every millisecond duration is one): slot accuracy-1, no panic,
   fires in (T - T/accuracy, T] *)
Theorem C09_wheel_default_slot : forall q, (0 < q)%N ->
  after_pos (rt_tick (c_rtimer_accuracy * q)) (c_rtimer_accuracy * q) = pred (N.to_nat c_rtimer_accuracy).
Proof. exact TimeWheelProofs.rt_after_pos. Qed.
Print Assumptions C09_wheel_default_slot.

Theorem C09_wheel_no_panic : forall q w, (0 < q)%N -> w_size w = rt_size -> rt_after (c_rtimer_accuracy * q) w <> None.
Proof. exact TimeWheelProofs.rt_after_no_panic. Qed.
Print Assumptions C09_wheel_no_panic.

Theorem C09_wheel_ms_multiple : forall ms, exists q, (ms * 1000000 = c_rtimer_accuracy * q)%N.
Proof. exact TimeWheelProofs.ms_is_multiple. Qed.
Print Assumptions C09_wheel_ms_multiple.

Theorem C09_wheel_fire_window : forall t phi, (0 < phi <= t)%N ->
  let T := (c_rtimer_accuracy * t)%N in
  let fire := (phi + (c_rtimer_accuracy - 1) * t)%N in
  (T - T / c_rtimer_accuracy < fire /\ fire <= T)%N.
Proof. exact TimeWheelProofs.fire_time_window. Qed.
Print Assumptions C09_wheel_fire_window.

(* rtimer.After unlocks the table of wheels on every path, also when it panics (durations below the accuracy, e.g. the
   read timeout 0, always do: AdapterProxy.Recv recovers that panic and later calls still need After) *)
Theorem C09_wheel_after_unlocks : forall T w, snd (rt_after_full T w) = false.
Proof. exact TimeWheelProofs.rt_after_unlocks. Qed.
Print Assumptions C09_wheel_after_unlocks.

Theorem C09_wheel_tiny_panics : forall T, (T < c_rtimer_accuracy)%N -> rt_panics T = true.
Proof. exact TimeWheelProofs.rt_after_tiny_panics. Qed.
Print Assumptions C09_wheel_tiny_panics.
(* ---- the CURRENT source of ServantProxy.TarsInvoke: the effective timeout ----
   regenerated from tars/servant.go on every run (Xlate/TarsInvokeEquiv.v): the time left to the caller's deadline if the
   context has one, else the per-call timeout of current.SetClientTimeout, else the proxy's timeout; told to the server in
   ITimeout; a timer (context.WithTimeout) of exactly that duration is armed when - and only when - the caller brought no
   deadline, whatever the sign of the timeout. *)
From TarsV Require Import Xlate.GoSem Gen.Translated Xlate.TarsInvokeEquiv.
Theorem C09_source_effective_timeout : forall req proxy_ms (has_dl : bool) until ct out,
  int31 proxy_ms -> int31 (snd (fst ct)) -> int63 until ->
  go_requestf_RequestPacket_ITimeout req = wrapS 32 proxy_ms ->
  let dl := if has_dl then Some until else None in
  let t := eff_timeout proxy_ms (per_call ct) dl in
  tr_TarsInvoke_timeout req proxy_ms has_dl until ct out =
  Next ((out ++ (if has_dl then [] else [t]))%list, t, with_itimeout req (eff_itimeout proxy_ms (per_call ct) dl)).
Proof. exact TarsInvokeEquiv.tr_TarsInvoke_timeout_equiv. Qed.
Print Assumptions C09_source_effective_timeout.
(* ---- the CURRENT source of AdapterProxy.Recv: the hand-over of a late reply is bounded by conf.ReadTimeout ----
   (Xlate/AdapterRecvEquiv.v) whenever the translated statements arm a timer, its duration is exactly conf.ReadTimeout and the
   table has an entry under the packet's id *)
From TarsV Require Import Conc.Pending Xlate.AdapterRecvEquiv.
Theorem C09_source_recv_timer : forall p t ptype rt sel d, (ptype =? k_basef_TARSONEWAY)%Z = p_oneway p ->
  forall o, out_of (tr_adapter_Recv rt (match lookup (p_id p) t with Some _ => true | None => false end) ptype (p_id p) sel []) = Some o ->
  In (3, d)%Z o -> d = rt /\ exists ch, lookup (p_id p) t = Some ch /\ p_id p <> 0%Z.
Proof. exact AdapterRecvEquiv.adapter_Recv_timer. Qed.
Print Assumptions C09_source_recv_timer.
