(* C09 — every call terminates by its deadline and leaves nothing behind.
   Statements only; every proof is [exact] of a lemma proved elsewhere. *)
From Coq Require Import List NArith ZArith.
From TarsV Require Import Base.Hex Gen.C09Consts Conc.CallLife Conc.CallLifeProofs.
Import ListNotations.
Open Scope N_scope.

Theorem C09_example_silent_peer :
  let '(s, _, ok) := canonical (mkscen (mkcfg 30 40 10 4 100000) CAccept [mkact false None false false] 1 1 20 0 false) in
  ok = true /\ model_calls s = [(OTimeout, 20)] /\ queueLen s = 0%Z /\ invokeNum s = 0%Z /\ resp s = [].
Proof. exact CallLifeProofs.silent_peer_times_out. Qed.
Print Assumptions C09_example_silent_peer.
