(* C01 - end-to-end call transparency through generated proxy and dispatcher. Statements only.

   [call e sid_req sid_rsp max impl Fc Fs iface f args opts oneway id servant timeout] is the model of one call
   (Rpc/EndToEnd.v): generated proxy -> TarsInvoke + client filters -> packet codec, frame, receive loop ->
   Protocol.Invoke + server filters -> generated Dispatch -> implementation -> and back. It returns what the call
   site observes and the event log. [impl], the schema environment [e] and the filters are universally quantified.

   Filter clause: proved for every interface, every argument list, every implementation, every combination of
   pass-through filters, with no hypothesis on the codec (the C01_filters theorems).
   Value, error and one-way clauses:
     - C01_transparent_ok, C01_transparent_err, C01_oneway: proved with NO codec hypothesis (argument list, results and
       both packets go through C03's struct-level round trip, the encoded out arguments between in arguments are passed
       over by C04's skip_exact, the frames go through C07's reassembly theorem) for every well-formed schema
       environment, EVERY signature (in and out parameters in any order), every well-typed argument and result value
       of every IDL type, ANY content of the caller's out variables. Side conditions, all explicit: static size conditions [sig_fine],
       out arguments within the skipping reader's size limits [outs_small] (containers < 2^30), packets in their Go field ranges and within maxPackageLength. Values are exact
       up to [norm] (identity except an optional scalar struct member equal to its default: -0.0 comes back as +0.0).
     - C01_..._partial: the same clauses under the named per-call hypotheses [wire_ok_req], [wire_ok_rsp],
       [args_roundtrip], [results_roundtrip] instead of typing (any values, pre-filled out variables; evaluated on every
       sampled call by the correspondence).
     - C01_transparent_ok_any_outs: the value clause with EXACT values for ANY content of the caller's out variables
       (C01_transparent_ok_any_outs_statement, now a theorem). At the pinned revision it was refuted by a pre-filled out
       variable keeping stale content; the generator template (ResetDefault assigns every member) and
       ReadSliceInt8/Uint8 (an empty byte vector is assigned) were repaired since, C04_reuse_member made nested structs
       independent of their target, and Rpc/PriorIndep.v extends this to every required non-array member. None of the
       closed theorems asks for fresh out variables any more. Remaining side conditions and why:
         [sig_fine]       static and about types only: every parameter/return type has a finite type graph (no
                          recursive struct) with by-value struct nesting <= k <= 40 and static depth bound (tneed, which
                          counts struct members) + k + 5 within the constant 64 of the generated decoders' fuel formula
                          4*len+64; the number of parameters does not matter (need_fields_bound2). A limit of the
                          proof's static fuel bound, not of the code: the correspondence samples the recursive type
                          Node and functions with 22 parameters and the model agrees with the code there;
         [outs_small]     the request carries the out arguments; the dispatcher passes over those in front of an in
                          argument with skipField, whose counts are int32 products: strings < 2^31 bytes, containers
                          < 2^30 elements (more than a packet can carry anyway; not derived from sendability because
                          omitted defaults are not in the packet). The DEPTH part of skippability (nesting <= the skip
                          depth limit 512 regenerated from the code) follows from [sig_fine] for finite types
                          (vdepth_bound, outs_skippable_static); for a recursive type it can fail and then the CODE
                          fails the call (C01_deep_out_argument_witness; known finding);
         [no_array_params] fixed-size arrays keep elements beyond the count on the wire; the IDL grammar has array
                          types for struct members only, never for parameters or return values (parse.go);
         [canonical_call] only for EXACT values: an optional scalar struct member that equals its default without being
                          identical to it (-0.0 against +0.0) is not written and comes back as the default - on the
                          code as well (C01_minus_zero_witness); C01_transparent_ok states the clause up to [norm]
                          without this condition;
         typing and sendable packets (Go value ranges, maxPackageLength). *)
From Coq Require Import List NArith ZArith Bool.
From TarsV Require Import Gen.Consts Gen.Schemas Base.Hex Codec.GenCodec Codec.RoundTrip Frame.Framing Rpc.ValueWire Rpc.Filters Rpc.FiltersProofs
  Rpc.EndToEnd Rpc.EndToEndProofs Rpc.EndToEndConc Rpc.EndToEndCorr Rpc.EndToEndFull Rpc.EndToEndInvoke Rpc.EndToEndExamples.
Import ListNotations.
Open Scope N_scope.

(* the value clause for any content of the caller's out variables, exact values *)
Definition C01_transparent_ok_any_outs_statement : Prop :=
  forall e k n sid_req sid_rsp max impl (Pc Ps : pfilters ev unit) i f args o id sv t ret outs rc rs,
    wf_schema k e -> (k <= 40)%nat ->
    fields_of e sid_req = schema_requestf_RequestPacket -> fields_of e sid_rsp = schema_requestf_ResponsePacket ->
    max < 4294967296 ->
    let q := mkreq e f args o false id sv t in
    find_fn i (fs_name f) = Some f -> sig_fine e k n f -> args_typed e (fs_args f) args -> outs_small f args ->
    no_array_params f ->
    impl (fs_name f) (ins_of f args) (ctx_of o) (status_of o) = IOk ret outs rc rs -> ret_shape f ret ->
    results_typed e f (results ret outs) -> canonical_call e f args ret outs ->
    req_sendable e sid_req max q -> rsp_sendable e sid_rsp max (ok_reply e f q ret outs rc rs) ->
    fst (call e sid_req sid_rsp max impl (filters_of inv_res Pc) (filters_of disp_res Ps) i f args o false id sv t)
    = COk ret outs (maps_after o rc rs).
Theorem C01_transparent_ok_any_outs : C01_transparent_ok_any_outs_statement.
Proof. exact EndToEndFull.transparent_ok_statement_holds. Qed.

(* the instance that refuted the statement at the pinned revision (the caller's out variable of type Item holds
   nums = [1; -5000000000], the implementation sets nums = []; the caller read the old nums) satisfies all its
   hypotheses and, on the repaired model and code, its conclusion: the caller reads nums = [] *)
Theorem C01_prefilled_out_witness :
  find_fn [fx_sig] (fs_name fx_sig) = Some fx_sig /\ sig_fine env0 8 4 fx_sig /\ args_typed env0 (fs_args fx_sig) fx_args_prefilled /\
  outs_small fx_sig fx_args_prefilled /\ results_typed env0 fx_sig (results ex_ret fx_outs_empty) /\
  req_sendable env0 SR MAXP fx_qp /\ rsp_sendable env0 SP MAXP (ok_reply env0 fx_sig fx_qp ex_ret fx_outs_empty ex_rc ex_rs) /\
  fst (call env0 SR SP MAXP fx_impl_empty (filters_of inv_res ex_pc) (filters_of disp_res ex_ps) [fx_sig] fx_sig fx_args_prefilled ex_opts false 41 [79; 98; 106] 3000)
  = COk ex_ret fx_outs_empty [ex_rc; ex_rs].
Proof. exact EndToEndExamples.prefilled_out_witness. Qed.

(* why exact values need [canonical_call]: -0.0 in an optional double member without a declared default reaches the
   implementation as +0.0 (the encoder compares with ==) *)
Theorem C01_minus_zero_witness :
  filter is_obs (snd (call env0 SR SP MAXP nz_impl (filters_of inv_res no_filters) (filters_of disp_res no_filters) [nz_sig] nz_sig nz_args [] false 41 [79] 3000))
  = [EImpl (fs_name nz_sig) [VStruct [VStr [120]; VInt 7; VFlt 0; VFlt 0]] [] []]
  /\ ins_seen env0 nz_sig nz_args <> ins_of nz_sig nz_args.
Proof. exact EndToEndExamples.nz_minus_zero_arrives_as_plus_zero. Qed.

(* why skippable out arguments are needed (for finite types [sig_fine] gives the depth; recursive types are outside) (and what the code does without it): int deep(out Node o, int a) with the caller's o
   nested 256 structs deep succeeds, with 257 structs (513 nesting levels on the wire, skip limit 512) the call fails
   before the implementation is reached - on the model and on the code (known finding
   e2e/spurious-error/prefilled-out-argument-deeper-than-skip-limit) *)
Theorem C01_deep_out_argument_witness :
  args_typed env0 (fs_args dp_sig) [dp_chain 256 1; VInt 7] /\
  dp_call 256 = COk (Some (VInt 5)) [VStruct [VInt 1; VList []]] [] /\ dp_call 257 = CErr 1 sys_msg false.
Proof. exact (conj EndToEndExamples.dp_257_typed (conj EndToEndExamples.dp_256_structs_pass EndToEndExamples.dp_257_structs_fail)). Qed.

(* THE ERROR CLAUSE AT CODE 0 IS REFUTED: the full-strength error clause "whatever (code, message) the implementation
   fails with, the caller gets an error with that code and message" holds for every code except 0 (C01_transparent_err:
   any c <> 0 - negative, 1, MaxInt32, MinInt32 ..., any message, a plain error being (1, message)); with code 0, the
   protocol's success marker, the caller of a void function gets SUCCESS and the caller of a function with results a
   decode error with code 1 - on the model and on the code (known findings e2e/error-code-zero/...) *)
Definition C01_error_clause_statement : Prop :=
  forall impl f args c m, impl (fs_name f) (ins_of f args) [] [] = IFail c m ->
    exists m' sys, fst (call env0 SR SP MAXP impl (filters_of inv_res no_filters) (filters_of disp_res no_filters) [f] f args [] false 41 [79] 3000)
                   = CErr c m' sys.
Theorem C01_error_code_zero_refuted :
  fst (call env0 SR SP MAXP z_impl (filters_of inv_res no_filters) (filters_of disp_res no_filters) [z_void] z_void [] [] false 41 [79] 3000) = COk None [] []
  /\ fst (call env0 SR SP MAXP z_impl (filters_of inv_res no_filters) (filters_of disp_res no_filters) [z_int] z_int [VInt 5; VInt 0] [] false 41 [79] 3000) = CErr 1 sys_msg true
  /\ ~ C01_error_clause_statement.
Proof.
  split; [exact EndToEndExamples.z_code_zero_void_succeeds|]. split; [exact EndToEndExamples.z_code_zero_results_decode_error|].
  intros H. destruct (H z_impl z_void [] 0%Z [98; 111; 111; 109] eq_refl) as (m' & sys & Hm). rewrite EndToEndExamples.z_code_zero_void_succeeds in Hm. discriminate Hm.
Qed.

(* THE SERVER SIDE OF THIS MODEL IS THE C10 MODEL OF Protocol.Invoke: for every request that is not a ping, without handle
   timeout and queueing delay, C10's server_step (Rpc/Invoke.v; its response construction is tied to the source of
   Protocol.Invoke by the translator, Props/C10.v) run with this model's dispatcher + implementation writes exactly the
   reply of this model - the same packet, zero (one-way) or one, after one dispatcher call. With server_handle_pass
   (pass-through filters) this covers [server_handle]. *)
Theorem C01_server_side_is_C10_invoke : forall e impl i (cfg : I.config) (q : reqpkt),
    I.c_ht cfg = 0 -> bytes_eqb (q_func q) I.ping_name = false ->
    I.server_step (dispatch10 e impl i q) cfg (to10 q) 0 =
    (map (fun p => (I.FromHandler, rsp10 p)) (olist (srv_reply e impl i q)), 1%nat).
Proof. exact EndToEndInvoke.server_is_invoke. Qed.

(* success, no codec hypothesis: well-formed schemas (tags ascending, defaults on scalars, by-value nesting <= k), the
   two packet schemas as regenerated from the code, any signature within the static size conditions, out arguments the
   dispatcher can pass over,
   well-typed arguments and results, ANY content of the caller's out variables, packets in range and within
   maxPackageLength. The call site
   gets the implementation's return value and out parameters (normalised), each map the caller passed holds exactly the
   response context/status; the implementation is called exactly once with the caller's in arguments (normalised),
   context and status; each selected filter runs once, in registration order; one reply. *)
Theorem C01_transparent_ok :
  forall e k n sid_req sid_rsp max impl (Pc Ps : pfilters ev unit) i f args o id sv t ret outs rc rs,
    wf_schema k e -> (k <= 40)%nat ->
    fields_of e sid_req = schema_requestf_RequestPacket -> fields_of e sid_rsp = schema_requestf_ResponsePacket ->
    max < 4294967296 ->
    let q := mkreq e f args o false id sv t in
    find_fn i (fs_name f) = Some f -> sig_fine e k n f ->
    args_typed e (fs_args f) args -> outs_small f args -> no_array_params f ->
    impl (fs_name f) (ins_seen e f args) (ctx_of o) (status_of o) = IOk ret outs rc rs ->
    results_typed e f (results ret outs) ->
    req_sendable e sid_req max q -> rsp_sendable e sid_rsp max (ok_reply e f q ret outs rc rs) ->
    call e sid_req sid_rsp max impl (filters_of inv_res Pc) (filters_of disp_res Ps) i f args o false id sv t =
    (COk (ret_of f (results_seen e f ret outs)) (outs_from f (results_seen e f ret outs)) (maps_after o rc rs),
     before Pc ++ [EInvoke] ++ before Ps ++ [EDispatch; EImpl (fs_name f) (ins_seen e f args) (ctx_of o) (status_of o)]
       ++ after Ps ++ [EReply] ++ after Pc).
Proof. intros e k n sid_req sid_rsp max impl Pc Ps i f args o id sv t ret outs rc rs Hwf Hk Hq Hp Hm. exact (EndToEndFull.transparent_ok_closed e k Hwf Hk sid_req sid_rsp Hq Hp max Hm n impl Pc Ps i f args o id sv t ret outs rc rs). Qed.

(* failure, no codec hypothesis: code exact, message exact unless empty ([err_seen]) *)
Theorem C01_transparent_err :
  forall e k n sid_req sid_rsp max impl (Pc Ps : pfilters ev unit) i f args o id sv t c m,
    wf_schema k e -> (k <= 40)%nat ->
    fields_of e sid_req = schema_requestf_RequestPacket -> fields_of e sid_rsp = schema_requestf_ResponsePacket ->
    max < 4294967296 ->
    let q := mkreq e f args o false id sv t in
    find_fn i (fs_name f) = Some f -> sig_fine e k n f -> args_typed e (fs_args f) args -> outs_small f args ->
    impl (fs_name f) (ins_seen e f args) (ctx_of o) (status_of o) = IFail c m -> c <> 0%Z ->
    req_sendable e sid_req max q -> rsp_sendable e sid_rsp max (err_reply q c m) ->
    call e sid_req sid_rsp max impl (filters_of inv_res Pc) (filters_of disp_res Ps) i f args o false id sv t =
    (err_seen c m,
     before Pc ++ [EInvoke] ++ before Ps ++ [EDispatch; EImpl (fs_name f) (ins_seen e f args) (ctx_of o) (status_of o)]
       ++ after Ps ++ [EReply] ++ after Pc).
Proof. intros e k n sid_req sid_rsp max impl Pc Ps i f args o id sv t c m Hwf Hk Hq Hp Hm. exact (EndToEndFull.transparent_err_closed e k Hwf Hk sid_req sid_rsp Hq Hp max Hm n impl Pc Ps i f args o id sv t c m). Qed.

(* one-way, no codec hypothesis: the implementation runs exactly once on the caller's inputs, no reply is written *)
Theorem C01_oneway :
  forall e k n sid_req sid_rsp max impl (Pc Ps : pfilters ev unit) i f args o id sv t,
    wf_schema k e -> (k <= 40)%nat ->
    fields_of e sid_req = schema_requestf_RequestPacket -> fields_of e sid_rsp = schema_requestf_ResponsePacket ->
    max < 4294967296 ->
    let q := mkreq e f args o true id sv t in
    find_fn i (fs_name f) = Some f -> sig_fine e k n f -> args_typed e (fs_args f) args -> outs_small f args ->
    req_sendable e sid_req max q ->
    call e sid_req sid_rsp max impl (filters_of inv_res Pc) (filters_of disp_res Ps) i f args o true id sv t =
    (CSent,
     before Pc ++ [EInvoke] ++ before Ps ++ [EDispatch; EImpl (fs_name f) (ins_seen e f args) (ctx_of o) (status_of o)]
       ++ after Ps ++ [] ++ after Pc).
Proof. intros e k n sid_req sid_rsp max impl Pc Ps i f args o id sv t Hwf Hk Hq Hp Hm. exact (EndToEndFull.oneway_closed e k Hwf Hk sid_req sid_rsp Hq max Hm n impl Pc Ps i f args o id sv t). Qed.

(* success, every signature and any out variables, under the per-call codec hypotheses: the call site gets exactly the
   implementation's return value and out parameters, each map the caller passed holds exactly the response
   context/status afterwards (a nil map stays nil); the implementation is called exactly once, with exactly the
   caller's in arguments, context and status; each selected filter runs once, in registration order; one reply *)
Theorem C01_transparent_ok_partial : forall e sid_req sid_rsp max impl (Pc Ps : pfilters ev unit) i f args o id sv t ret outs rc rs,
    let q := mkreq e f args o false id sv t in
    find_fn i (fs_name f) = Some f ->
    wire_ok_req e sid_req max q -> args_roundtrip e f args ->
    impl (fs_name f) (ins_of f args) (ctx_of o) (status_of o) = IOk ret outs rc rs ->
    ret_shape f ret -> results_roundtrip e f args (results ret outs) ->
    wire_ok_rsp e sid_rsp max (ok_reply e f q ret outs rc rs) ->
    call e sid_req sid_rsp max impl (filters_of inv_res Pc) (filters_of disp_res Ps) i f args o false id sv t =
    (COk ret outs (maps_after o rc rs),
     before Pc ++ [EInvoke] ++ before Ps ++ [EDispatch; EImpl (fs_name f) (ins_of f args) (ctx_of o) (status_of o)]
       ++ after Ps ++ [EReply] ++ after Pc).
Proof. exact EndToEndProofs.transparent_ok. Qed.

(* failure: the error code arrives exactly, and so does the message; an empty message is replaced by a
   framework-made text ([err_seen]). Code 0 is the protocol's success marker. *)
Theorem C01_transparent_err_partial : forall e sid_req sid_rsp max impl (Pc Ps : pfilters ev unit) i f args o id sv t c m,
    let q := mkreq e f args o false id sv t in
    find_fn i (fs_name f) = Some f ->
    wire_ok_req e sid_req max q -> args_roundtrip e f args ->
    impl (fs_name f) (ins_of f args) (ctx_of o) (status_of o) = IFail c m ->
    c <> 0%Z ->
    wire_ok_rsp e sid_rsp max (err_reply q c m) ->
    call e sid_req sid_rsp max impl (filters_of inv_res Pc) (filters_of disp_res Ps) i f args o false id sv t =
    (err_seen c m,
     before Pc ++ [EInvoke] ++ before Ps ++ [EDispatch; EImpl (fs_name f) (ins_of f args) (ctx_of o) (status_of o)]
       ++ after Ps ++ [EReply] ++ after Pc).
Proof. exact EndToEndProofs.transparent_err. Qed.

(* one-way: the implementation is called exactly once with the caller's inputs whatever it does, and no reply is written *)
Theorem C01_oneway_partial : forall e sid_req sid_rsp max impl (Pc Ps : pfilters ev unit) i f args o id sv t,
    let q := mkreq e f args o true id sv t in
    find_fn i (fs_name f) = Some f ->
    wire_ok_req e sid_req max q -> args_roundtrip e f args ->
    call e sid_req sid_rsp max impl (filters_of inv_res Pc) (filters_of disp_res Ps) i f args o true id sv t =
    (CSent,
     before Pc ++ [EInvoke] ++ before Ps ++ [EDispatch; EImpl (fs_name f) (ins_of f args) (ctx_of o) (status_of o)]
       ++ after Ps ++ [] ++ after Pc).
Proof. exact EndToEndProofs.oneway. Qed.

(* filters, full generality (no codec hypothesis): any combination of pass-through filters on both sides leaves the
   outcome of every call - success, error, one-way, lost - unchanged ... *)
Theorem C01_filters_transparent : forall e sid_req sid_rsp max impl (Pc Ps : pfilters ev unit) i f args o ow id sv t,
    fst (call e sid_req sid_rsp max impl (filters_of inv_res Pc) (filters_of disp_res Ps) i f args o ow id sv t) =
    fst (call e sid_req sid_rsp max impl (filters_of inv_res no_filters) (filters_of disp_res no_filters) i f args o ow id sv t).
Proof. exact EndToEndProofs.filters_transparent. Qed.

(* ... and the selected filters act exactly once each around the unfiltered events: client filters around doInvoke,
   server filters around Dispatch *)
Theorem C01_filters_log : forall e sid_req sid_rsp max impl (Pc Ps : pfilters ev unit) i f args o ow id sv t,
    let q := mkreq e f args o ow id sv t in
    snd (call e sid_req sid_rsp max impl (filters_of inv_res Pc) (filters_of disp_res Ps) i f args o ow id sv t) =
    before Pc ++ [EInvoke] ++
      match wire_req e sid_req max q with
      | None => []
      | Some q' => before Ps ++ (EDispatch :: snd (dispatch e impl i q')) ++ after Ps ++ (if is_oneway q' then [] else [EReply])
      end ++ after Pc.
Proof. exact EndToEndProofs.filters_log. Qed.

(* selection and order for recording filters: legacy filter > middleware chain (first registered outermost,
   unwinding in reverse) > pre filters, call, post filters; each selected filter exactly once *)
Theorem C01_filters_order_before : forall (Ev : Type) (inj : fev -> Ev) (c : fconf),
    before (recording inj tt c) = expected_before inj c.
Proof. intros. apply FiltersProofs.recording_before. Qed.
Theorem C01_filters_order_after : forall (Ev : Type) (inj : fev -> Ev) (c : fconf),
    after (recording inj tt c) = expected_after inj c.
Proof. intros. apply FiltersProofs.recording_after. Qed.
Theorem C01_filters_once : forall (Ev : Type) (inj : fev -> Ev) (c : fconf), (forall a b, inj a = inj b -> a = b) ->
    NoDup (expected_before inj c) /\ NoDup (expected_after inj c).
Proof. intros Ev inj c H. split; [apply FiltersProofs.recording_once_before | apply FiltersProofs.recording_once_after]; exact H. Qed.

(* the general form of the filter clause: any filters that act before/after and call their continuation once *)
Theorem C01_filters_run : forall (Ev R E : Type) (P : pfilters Ev E) (r : R) (c : list Ev) (s : list Ev),
    run (filters_of R P) (fun s => (r, s ++ c)) s = (r, s ++ before P ++ c ++ after P).
Proof. exact FiltersProofs.run_pass_result. Qed.

(* concurrent callers sharing one connection: for any set of requests with distinct ids, sent in any order and cut
   into any TCP segments, answered in any order and cut into any segments, every caller receives the reply the
   server computed for its own request (its sequential result) - under the packet-codec hypotheses *)
Theorem C01_concurrent_partial : forall e sid_req sid_rsp max impl (Ps : pfilters ev unit) i
    (qs sent : list reqpkt) (chunks_q : list bytes) (written : list rsppkt) (chunks_p : list bytes),
    Permutation.Permutation sent qs -> NoDup (map q_id qs) ->
    Forall (fun q => req_codec_ok e sid_req max q) sent ->
    concat chunks_q = concat (map (enc_req e sid_req) sent) ->
    Permutation.Permutation written (server_conn e sid_req max impl (filters_of disp_res Ps) i chunks_q) ->
    Forall (fun p => rsp_codec_ok e sid_rsp max p) written ->
    concat chunks_p = concat (map (enc_rsp e sid_rsp) written) ->
    forall q, In q qs -> client_conn e sid_rsp max chunks_p (q_id q) = srv_reply e impl i q.
Proof. exact EndToEndConc.concurrent. Qed.

(* the same without codec hypotheses: requests and replies only have to be in range and within maxPackageLength *)
Theorem C01_concurrent_any_order : forall e k sid_req sid_rsp max impl (Ps : pfilters ev unit) i
    (qs sent : list reqpkt) (chunks_q : list bytes) (written : list rsppkt) (chunks_p : list bytes),
    wf_schema k e -> (k <= 40)%nat ->
    fields_of e sid_req = schema_requestf_RequestPacket -> fields_of e sid_rsp = schema_requestf_ResponsePacket ->
    max < 4294967296 ->
    Permutation.Permutation sent qs -> NoDup (map q_id qs) ->
    Forall (req_sendable e sid_req max) sent ->
    concat chunks_q = concat (map (enc_req e sid_req) sent) ->
    Permutation.Permutation written (server_conn e sid_req max impl (filters_of disp_res Ps) i chunks_q) ->
    Forall (rsp_sendable e sid_rsp max) written ->
    concat chunks_p = concat (map (enc_rsp e sid_rsp) written) ->
    forall q, In q qs -> client_conn e sid_rsp max chunks_p (q_id q) = srv_reply e impl i q.
Proof. intros e k sid_req sid_rsp max impl Ps i qs sent cq written cp Hwf Hk Hq Hp Hm. exact (EndToEndFull.concurrent_closed e k Hwf Hk sid_req sid_rsp Hq Hp max Hm impl Ps i qs sent cq written cp). Qed.

(* CONCURRENT CALLERS AT THE LEVEL OF CALL RESULTS: for any set of calls of the generated proxy whose requests (distinct
   ids) share one connection - sent in any order, cut into any TCP segments, served and answered in any order, the reply
   stream cut into any segments - what each caller gets ([conc_result]: its own decoded reply through the error mapping
   and the proxy's decoder, nothing for a one-way call) is exactly what the same call returns when it is made alone. With
   C01_transparent_ok / C01_transparent_err / C01_oneway: every concurrent caller gets the values, error or nothing its
   own call of the implementation produced. What this does NOT cover (monitored only: concurrent batches and the 64 x 300
   burst with byte-exact unique payloads): the goroutines, the pending-call table (C08) and the byte buffers of the real
   client and server (sharing/pooling of buffers) - the model has values, not buffers. *)
Theorem C01_concurrent_calls : forall e k sid_req sid_rsp max impl (Pc Ps : pfilters ev unit) i
    (qs sent : list reqpkt) (chunks_q : list bytes) (written : list rsppkt) (chunks_p : list bytes),
    wf_schema k e -> (k <= 40)%nat ->
    fields_of e sid_req = schema_requestf_RequestPacket -> fields_of e sid_rsp = schema_requestf_ResponsePacket ->
    max < 4294967296 ->
    Permutation.Permutation sent qs -> NoDup (map q_id qs) ->
    Forall (req_sendable e sid_req max) sent ->
    concat chunks_q = concat (map (enc_req e sid_req) sent) ->
    Permutation.Permutation written (server_conn e sid_req max impl (filters_of disp_res Ps) i chunks_q) ->
    Forall (rsp_sendable e sid_rsp max) written ->
    concat chunks_p = concat (map (enc_rsp e sid_rsp) written) ->
    forall f args o ow id sv t, In (mkreq e f args o ow id sv t) qs ->
      conc_result e sid_rsp max chunks_p f args o (mkreq e f args o ow id sv t) =
      fst (call e sid_req sid_rsp max impl (filters_of inv_res Pc) (filters_of disp_res Ps) i f args o ow id sv t).
Proof. intros e k sid_req sid_rsp max impl Pc Ps i qs sent cq written cp Hwf Hk Hq Hp Hm. exact (EndToEndFull.concurrent_calls e k Hwf Hk sid_req sid_rsp Hq Hp max Hm impl Pc Ps i qs sent cq written cp). Qed.
(* ---- the CURRENT source of ServantProxy.doInvoke maps the reply to the caller's error as the model's map_reply ----
   Gen/Translated.v is regenerated from tars/servant.go and tars/errors.go on every run: the statement that turns
   IRet / SResultDesc of the reply into nil, a plain error or a tars.Error pointer, GetErrorCode and the Error method. The
   caller continues with the reply exactly when map_reply hands it on; otherwise GetErrorCode of the returned error is the
   model's code and its text the model's (for an empty SResultDesc: Sprintf("basef error code %d", IRet)). *)
From TarsV Require Import Xlate.GoSem Gen.Translated Xlate.ReplyEquiv.
Theorem C01_source_error_mapping : forall (p : rsppkt) (sprintf : list N -> Z -> list N),
  match tr_doInvoke_reply (p_ret p) (p_desc p) k_basef_TARSSERVERSUCCESS sprintf with
  | Next _ => map_reply p = VResp p
  | Return e => exists code msg sys, map_reply p = VErr code msg sys /\
      go_err_code e = Return code /\
      (if sys then p_desc p = []%list /\ go_err_text e = sprintf code_fmt (p_ret p) else go_err_text e = msg)
  | Panic => False
  end.
Proof. exact ReplyEquiv.tr_doInvoke_reply_equiv. Qed.
Theorem C01_source_error_kind : forall (p : rsppkt) sprintf e,
  tr_doInvoke_reply (p_ret p) (p_desc p) k_basef_TARSSERVERSUCCESS sprintf = Return e ->
  p_ret p <> 0%Z /\ match e with
                  | GoErrVal v => p_ret p <> 1%Z /\ go_tars_Error_Code v = p_ret p
                  | GoErrNew _ => p_ret p = 1%Z
                  | GoErrNil => False
                  end.
Proof. exact ReplyEquiv.tr_doInvoke_reply_kind. Qed.

(* ---- the CURRENT source of ServantProxy.TarsInvoke builds the model's request ----
   the composite literal req := requestf.RequestPacket{..} is regenerated on every run: every member but the body (a cast
   of the argument bytes) is the member of the model's mkreq. *)
From TarsV Require Import Xlate.TarsInvokeEquiv.
Theorem C01_source_request : forall e f args o (oneway : bool) id servant timeout sbuf,
  (-2147483648 <= timeout <= 2147483647)%Z ->
  exists g, tr_TarsInvoke_req (if oneway then c_c01_TARSONEWAY else c_c01_TARSNORMAL) (fs_name f) (status_of o) (ctx_of o) 0%Z
              servant timeout c_c01_TARSVERSION id sbuf = Next g /\
            req_is g (mkreq e f args o oneway id servant timeout) /\ go_requestf_RequestPacket_SBuffer g = sbuf.
Proof. exact TarsInvokeEquiv.tr_TarsInvoke_req_equiv. Qed.

Print Assumptions C01_transparent_ok_any_outs.
Print Assumptions C01_prefilled_out_witness.
Print Assumptions C01_minus_zero_witness.
Print Assumptions C01_deep_out_argument_witness.
Print Assumptions C01_error_code_zero_refuted.
Print Assumptions C01_server_side_is_C10_invoke.
Print Assumptions C01_transparent_ok.
Print Assumptions C01_transparent_err.
Print Assumptions C01_oneway.
Print Assumptions C01_transparent_ok_partial.
Print Assumptions C01_transparent_err_partial.
Print Assumptions C01_oneway_partial.
Print Assumptions C01_filters_transparent.
Print Assumptions C01_filters_log.
Print Assumptions C01_filters_order_before.
Print Assumptions C01_filters_order_after.
Print Assumptions C01_filters_once.
Print Assumptions C01_filters_run.
Print Assumptions C01_concurrent_partial.
Print Assumptions C01_concurrent_any_order.
Print Assumptions C01_concurrent_calls.
Print Assumptions C01_source_error_mapping.
Print Assumptions C01_source_error_kind.
Print Assumptions C01_source_request.
