(* C11 — calls keep succeeding across server-initiated connection closes. Statements only. *)
From Coq Require Import List Arith Bool NArith.
From TarsV Require Import Conc.ClientConn Conc.ClientConnProofs.
Import ListNotations.
