(* C11 — calls keep succeeding across server-initiated connection closes. Statements only.
   Model: Conc/ClientConn.v ([run true] = the repaired client, [run false] = the client as pinned); every
   theorem quantifies over all label sequences, i.e. all schedules of the caller, sender, receiver goroutines,
   all points at which the peer closes a connection, any number of connections and requests. *)
From Coq Require Import List Arith Bool NArith.
From TarsV Require Import Conc.ClientConn Conc.ClientConnProofs Conc.Adapter Conc.AdapterProofs.
From TarsV Require Conc.ClientConnConsts Gen.Consts.
Import ListNotations.

(* --- "a connection loss never makes a later healthy connection be treated as closed" ------------------- *)
(* the closed flag is set exactly when the CURRENT connection is known dead (the client has closed it) *)
Theorem C11_loss_is_local : forall ls s, run true init ls = Some s ->
  match cur s with
  | Some c => closedF s = dead (gens s c) /\ c < ngen s
  | None => closedF s = true /\ ngen s = 0
  end.
Proof. exact ClientConnProofs.closed_flag_is_current. Qed.

(* step form: giving up generation g (receive error, write error, idle close) leaves the flag, the current
   connection c <> g, its state and its send goroutine untouched — in any state *)
Theorem C11_loss_is_local_step : forall s l s' g c, step true s l = Some s' -> closes l = Some g -> cur s = Some c -> c <> g ->
  closedF s' = closedF s /\ cur s' = Some c /\ dead (gens s' c) = dead (gens s c) /\ sp (gens s' c) = sp (gens s c).
Proof. exact ClientConnProofs.close_is_local. Qed.

(* a connection is replaced only after its loss: every generation but the current one is known dead *)
Theorem C11_redial_only_after_loss : forall ls s g, run true init ls = Some s -> g < ngen s -> dead (gens s g) = false -> cur s = Some g.
Proof. exact ClientConnProofs.only_current_alive. Qed.

(* --- "a request is never written to a connection already known to be dead" ---------------------------- *)
(* for every call issued after the loss is known: once g is known dead, a request enqueued afterwards is never
   the subject of a write attempt on g *)
Theorem C11_no_write_to_dead : forall l1 l2 m g s1 s, run true init l1 = Some s1 -> dead (gens s1 g) = true ->
  run true s1 (LEnq m :: l2) = Some s -> forall b, ~ In (g, m, b) (atts s).
Proof. exact ClientConnProofs.no_write_after_known_dead. Qed.

(* the literal reading (no write attempt at all while g is known dead, whenever the request was issued) *)
Definition C11_no_write_to_dead_literal_statement : Prop :=
  forall ls s g m, run true init ls = Some s -> ~ In (g, m, true) (atts s).
(* is false of the repaired client, as of any client that does not hold the lock across test and write: the
   loss can fall between isCurrent and conn.Write (request issued BEFORE the loss) *)
Theorem C11_no_write_to_dead_literal_refuted : exists s, run true init sched_window = Some s /\ In (0, 0, true) (atts s) /\ late (gens s 0) = [].
Proof. exact ClientConnProofs.literal_no_write_to_dead_refuted. Qed.

(* --- "a call issued after the close succeeds without waiting for its timeout" -------------------------- *)
(* safety-and-possibility form.  [reach_int s s'] : s' is reached from s by steps of the client's own send and
   receive goroutines only — no further call, no peer action, no ticker, no idle close.
   Whenever the current connection is healthy and a request is pending ANYWHERE in the client (send queue,
   failure queue, hands of any send goroutine incl. a stale one), the goroutines alone can bring it to the
   peer over the current connection.  (In the pinned client the request of C11_pinned_refuted stays in the
   failure queue until another call is made.) *)
Theorem C11_delivery : forall ls s c m, run true init ls = Some s ->
  cur s = Some c -> dead (gens s c) = false -> peerc (gens s c) = false -> pending s m ->
  exists s', reach_int s s' /\ cur s' = Some c /\ dead (gens s' c) = false /\ peerc (gens s' c) = false /\ In m (got (gens s' c)).
Proof. exact ClientConnProofs.delivery_possible. Qed.

(* a call issued when the loss is known: ReConnect dials a fresh connection and the request can reach the peer over it *)
Theorem C11_call_after_known_close : forall ls s m s1, run true init ls = Some s -> closedF s = true ->
  run true s [LReconnect; LEnq m] = Some s1 ->
  cur s1 = Some (ngen s) /\ closedF s1 = false /\
  exists s', reach_int s1 s' /\ cur s' = Some (ngen s) /\ dead (gens s' (ngen s)) = false /\ In m (got (gens s' (ngen s))).
Proof. exact ClientConnProofs.call_after_known_close. Qed.

Theorem C11_delivery_example : exists s, run true init
    [LLogEnq 0; LReconnect; LEnq 0; LSTop 0; LSPoll 0; LSBlkQueue 0; LSCheck 0; LSHook 0; LSWriteOk 0; LSTop 0; LSPoll 0;
     LLogPClose 0; LPeerClose 0; LRClose 0; LLogEnq 1; LReconnect; LEnq 1; LSBlkQueue 0] = Some s /\
  cur s = Some 1 /\ dead (gens s 1) = false /\ peerc (gens s 1) = false /\ pending s 1 /\ sp (gens s 0) = SCheck 1.
Proof. exact ClientConnProofs.delivery_example. Qed.

(* inevitability form.  [internal l]: l is a step of one of the client's send/receive goroutines other than the
   ticker firing and the idle close.  From a reachable state with a healthy current connection and a pending
   request, under EVERY schedule of those goroutines (no fairness assumption): (a) at most [mu s] steps can be
   taken (every such schedule terminates), and (b) once no goroutine can move ([quiescent]) the request has
   reached the peer over the current connection, which is still healthy.  I.e. the request is delivered after
   finitely many goroutine steps without any further call and without waiting for a timer. *)
Theorem C11_delivery_inevitable : forall ls s c m ls' s', run true init ls = Some s ->
  cur s = Some c -> dead (gens s c) = false -> peerc (gens s c) = false -> pending s m ->
  Forall (fun l => internal l = true) ls' -> run true s ls' = Some s' ->
  length ls' + mu s' <= mu s /\
  (quiescent s' -> In m (got (gens s' c)) /\ cur s' = Some c /\ dead (gens s' c) = false /\ peerc (gens s' c) = false).
Proof. exact ClientConnProofs.delivery_inevitable. Qed.

(* what remains unproved is the same under interleaved external events (further calls, ticker firings) in an
   infinite run, which needs a fairness assumption about the Go scheduler; stated, NOT PROVED *)
Definition C11_delivery_liveness_statement : Prop :=
  forall (sched : nat -> label) (sts : nat -> st) c m,
    (exists ls, run true init ls = Some (sts 0)) ->
    (forall n, step true (sts n) (sched n) = Some (sts (S n))) ->
    (forall n, cur (sts n) = Some c /\ dead (gens (sts n) c) = false /\ peerc (gens (sts n) c) = false) ->
    (forall n l, internal l = true -> step true (sts n) l <> None -> exists k, n <= k /\ internal (sched k) = true) ->
    pending (sts 0) m -> exists n, In m (got (gens (sts n) c)).

(* --- each request reaches the peer at most once (all connections together), and then it is nowhere else ---- *)
Theorem C11_at_most_once : forall ls s m g g', run true init ls = Some s -> g < ngen s -> g' < ngen s ->
  In m (got (gens s g)) -> In m (got (gens s g')) ->
  g = g' /\ cnt m (got (gens s g)) = 1 /\ ~ In m (sendQ s) /\ ~ In m (failQ s) /\
  (forall h, h < ngen s -> holds (sp (gens s h)) <> Some m).
Proof. exact ClientConnProofs.at_most_once. Qed.

(* --- connection.close is atomic w.r.t. the swap of the current connection --------------------------------- *)
(* identity test and flag write are one step (connLock; ReConnect holds it for the whole dial): the test is decided
   on the state in which the flag is written, however long a re-dial in progress takes *)
Theorem C11_close_atomic : forall s l s' g, step true s l = Some s' -> closes l = Some g ->
  closedF s' = (if is_cur s g then true else closedF s) /\ cur s' = cur s.
Proof. exact ClientConnProofs.close_atomic. Qed.

(* the seeded variant C11-m11 (test before the lock, flag after it) flags the freshly dialled connection closed *)
Theorem C11_close_m11_refuted : exists s0 s1, run true init [LReconnect; LLogPClose 0; LPeerClose 0; LRClose 0] = Some s0 /\
  close_decide_m11 s0 0 = true /\ step true s0 LReconnect = Some s1 /\
  let s2 := close_commit_m11 s1 0 in
  closedF s2 = true /\ cur s2 = Some 1 /\ dead (gens s2 1) = false /\ peerc (gens s2 1) = false /\
  closedF (do_close true s1 0) = false.
Proof. exact ClientConnProofs.m11_refuted. Qed.

(* --- endpoint down: a failed dial leaves the client closed, so the next call dials again ------------------ *)
(* [LReconnectFail] is a label like any other: all theorems above quantify over runs with failed dials interleaved *)
Theorem C11_failed_dial_leaves_closed : forall s s', step true s LReconnectFail = Some s' -> s' = s /\ closedF s' = true.
Proof. exact ClientConnProofs.failed_dial_leaves_closed. Qed.

Theorem C11_call_after_failed_dial : forall ls s s1 m s2, run true init ls = Some s -> step true s LReconnectFail = Some s1 ->
  run true s1 [LReconnect; LEnq m] = Some s2 ->
  cur s2 = Some (ngen s) /\ closedF s2 = false /\
  exists s', reach_int s2 s' /\ cur s' = Some (ngen s) /\ dead (gens s' (ngen s)) = false /\ In m (got (gens s' (ngen s))).
Proof. exact ClientConnProofs.call_after_failed_dial. Qed.

(* the seeded variant C11-m3 (closed flag cleared before the dial) violates it *)
Theorem C11_failed_dial_m3_refuted : exists s0 s2, run true init sched_down = Some s0 /\ closedF s0 = true /\
  run true (dial_fail_m3 s0) [LReconnect; LLogEnq 1; LEnq 1] = Some s2 /\
  closedF s2 = false /\ cur s2 = None /\ ngen s2 = 1 /\ sendQ s2 = [1] /\
  sp (gens s2 0) = SExit /\ rp (gens s2 0) = RExit /\ got (gens s2 0) = [].
Proof. exact ClientConnProofs.m3_refuted. Qed.
Theorem C11_failed_dial_example : exists s0 s1 s2, run true init sched_down = Some s0 /\ step true s0 LReconnectFail = Some s1 /\
  run true s1 [LReconnect; LLogEnq 1; LEnq 1; LSTop 1; LSPoll 1; LSBlkQueue 1; LSCheck 1; LSHook 1; LSWriteOk 1] = Some s2 /\
  cur s2 = Some 1 /\ got (gens s2 1) = [1] /\ c11_accepts (log s2) = true.
Proof. exact ClientConnProofs.failed_dial_example. Qed.

(* --- close notification (reconnect push): AdapterProxy.onPush swaps in a fresh transport client and grace-closes
   the old one (model Conc/Adapter.v: a sequence of independent clients; [proj i als] = label sequence of client i) - *)
(* every transport client inside an adapter run is a run of the client model: all theorems above hold per client *)
Theorem C11_push_client_is_client_run : forall als a i, arun ainit als = Some a -> i < ncli a ->
  run true init (proj i als) = Some (cli a i).
Proof. exact AdapterProofs.client_is_client_run. Qed.

(* the swap never aims the close at the NEW client: TarsClient.Close has never been applied to the current client,
   no grace close is pending for it, and a grace close step only ever hits a client that has been replaced *)
Theorem C11_push_never_closes_new : forall als a, arun ainit als = Some a ->
  ~ In LUserClose (proj (ncli a - 1) als) /\ graced a (ncli a - 1) = false.
Proof. exact AdapterProofs.current_never_closed_by_swap. Qed.
Theorem C11_push_grace_hits_replaced_only : forall als a i a', arun ainit als = Some a -> astep a (AGrace i) = Some a' -> S i < ncli a.
Proof. exact AdapterProofs.grace_close_hits_replaced_client_only. Qed.

(* hence (unless its own sender idle-closes it) the current client closes a connection, and has its closed flag set,
   only after the server closed that connection or announced its close; and its log is accepted by the spec machine *)
Theorem C11_push_current_client_healthy_stays : forall als a, arun ainit als = Some a ->
  let c := ncli a - 1 in
  (forall g, ~ In (LSIdleClose g) (proj c als)) ->
  (forall g, dead (gens (cli a c) g) = true -> peerc (gens (cli a c) g) = true /\ In g (lpc (cli a c))) /\
  c11_accepts (log (cli a c)) = true.
Proof. exact AdapterProofs.current_client_healthy_stays. Qed.

(* the seeded variant C11-m2 (oldClient read after the new client is installed) violates it: 5-step witness *)
Theorem C11_push_swapped_refuted : exists a, arun_swapped ainit sched_swapped = Some a /\ ncli a = 2 /\
  dead (gens (cli a 1) 0) = true /\ peerc (gens (cli a 1) 0) = false /\ lpc (cli a 1) = [] /\ closedF (cli a 1) = true /\
  dead (gens (cli a 0) 0) = false.
Proof. exact AdapterProofs.swapped_refuted. Qed.
Theorem C11_push_example : exists a, arun ainit [ACli 0 LReconnect; ACli 0 (LLogPClose 0); APush 0; ACli 1 LReconnect; AGrace 0] = Some a /\
  ncli a = 2 /\ dead (gens (cli a 1) 0) = false /\ closedF (cli a 1) = false /\ dead (gens (cli a 0) 0) = true /\
  arun ainit sched_swapped = None.
Proof. exact AdapterProofs.swap_example. Qed.

(* --- the tie: the specification machine that validates the recorded logs is sound for the model ---------- *)
(* the log of EVERY run of the model (all schedules; the client itself never gives up a connection: no
   TarsClient.Close, no idle close — the harness's scripts contain neither) is accepted by [c11_accepts];
   hence a rejected recorded log is a behaviour of the implementation that the model does not have *)
Theorem C11_spec_machine_sound : forall ls s, run true init ls = Some s ->
  Forall (fun l => client_close l = false) ls -> c11_accepts (log s) = true.
Proof. exact ClientConnProofs.spec_machine_sound. Qed.

(* the capacity of sendFailQueue in the tree is the one the model assumes (regenerated constant) *)
Theorem C11_failq_capacity : Gen.Consts.c_c11_failq_cap = 1%N.
Proof. exact ClientConnConsts.failq_capacity_modelled. Qed.

(* --- the pinned client violates all clauses (design-time defect, reproduced by the harness) ------------- *)
Theorem C11_pinned_refuted : exists s, run false init sched_defect = Some s /\
  In (0, 1, true) (atts s) /\ In 1 (late (gens s 0)) /\
  cur s = Some 1 /\ dead (gens s 1) = false /\ peerc (gens s 1) = false /\ closedF s = true /\
  failQ s = [1] /\ sp (gens s 1) = SExit /\ sp (gens s 0) = SExit /\ got (gens s 1) = [] /\
  c11_accepts (log s) = false.
Proof. exact ClientConnProofs.pinned_refuted. Qed.

(* non-vacuity: the repaired client under the corresponding history delivers the request on the new connection *)
Theorem C11_repaired_example : exists s, run true init sched_repaired = Some s /\
  atts s = [(0, 0, false); (1, 1, false)] /\ got (gens s 1) = [1] /\ closedF s = false /\ cur s = Some 1 /\
  sp (gens s 0) = SExit /\ failQ s = [] /\ sendQ s = [] /\ c11_accepts (log s) = true.
Proof. exact ClientConnProofs.repaired_example. Qed.

Print Assumptions C11_loss_is_local.
Print Assumptions C11_loss_is_local_step.
Print Assumptions C11_redial_only_after_loss.
Print Assumptions C11_no_write_to_dead.
Print Assumptions C11_delivery.
Print Assumptions C11_delivery_inevitable.
Print Assumptions C11_call_after_known_close.
Print Assumptions C11_delivery_example.
Print Assumptions C11_at_most_once.
Print Assumptions C11_close_atomic.
Print Assumptions C11_close_m11_refuted.
Print Assumptions C11_failed_dial_leaves_closed.
Print Assumptions C11_call_after_failed_dial.
Print Assumptions C11_failed_dial_m3_refuted.
Print Assumptions C11_failed_dial_example.
Print Assumptions C11_push_client_is_client_run.
Print Assumptions C11_push_never_closes_new.
Print Assumptions C11_push_grace_hits_replaced_only.
Print Assumptions C11_push_current_client_healthy_stays.
Print Assumptions C11_push_swapped_refuted.
Print Assumptions C11_push_example.
Print Assumptions C11_spec_machine_sound.
Print Assumptions C11_failq_capacity.
Print Assumptions C11_no_write_to_dead_literal_refuted.
Print Assumptions C11_pinned_refuted.
Print Assumptions C11_repaired_example.
