(* C17 — config parser: complete and exact, or an error, never silently partial. Statements only.
   Model: Conf/Conf.v (tokenizer subset of encoding/xml, InitFromBytes loop, getters); specification side:
   Conf/ConfSpec.v (events of a document, represents, concrete syntax of rendered documents). *)
From Coq Require Import List NArith ZArith.
From TarsV Require Import Base.Hex Conf.Conf Conf.ConfSpec Conf.ConfProofs.
From TarsV Require Endpoint.Parse.
From TarsV Require Import Conf.GoStr Gen.ConfTranslated Conf.ConfXlate.
Import ListNotations.
Open Scope N_scope.

(* ---- complete and exact --------------------------------------------------------------------- *)
(* Every document of the grammar — any well-nested sequence of text runs and domain tags (equivalently any tree,
   C17_any_nesting), names [A-Za-z_][A-Za-z0-9_.-]*, blanks inside tags, text written with raw ASCII characters,
   runs of valid UTF-8, any entity spelling of a character (named, decimal, hexadecimal; >= 128 delivered UTF-8
   encoded), CR / CR LF line ends — whose lines are shorter than bufio.MaxScanTokenSize and
   in which no key is named like a sub-domain of the same domain, is accepted, and the resulting tree represents
   exactly the document's events: every domain with all its lines in order, every key with its last value,
   nothing else, no duplicates. *)
Theorem C17_complete : forall ps,
  doc_ok ps -> short_lines (tokens_of ps) -> no_clobber (piece_events ps) ->
  exists t, parse (render ps) = Ok t /\ represents t (piece_events ps).
Proof. exact ConfProofs.rendered_represented. Qed.

(* ... and the hypothesis no_clobber cannot be dropped: a key line named like an earlier sub-domain of the same
   domain replaces the sub-domain and everything written in it (known finding conf.name-collision/...) *)
Theorem C17_complete_full_refuted : ~ (forall ps, doc_ok ps -> short_lines (tokens_of ps) ->
  exists t, parse (render ps) = Ok t /\ represents t (piece_events ps)).
Proof. exact ConfProofs.complete_full_refuted. Qed.

Theorem C17_any_nesting : forall d, balanced (tokens_of (flatten_doc d)) = true.
Proof. exact ConfProofs.flatten_doc_balanced. Qed.

(* the tokenizer delivers exactly the written text runs and tags *)
Theorem C17_tokens_exact : forall ps, Forall piece_ok ps -> no_adjacent_text ps ->
  raw_tokens (render ps) = tokens_of ps /\ raw_status (render ps) = Clean.
Proof. exact ConfProofs.lex_rendered. Qed.

(* a key = value line with arbitrary blanks (spaces, tabs) around the key, the '=' and the value: the line is
   recorded trimmed, the key and the value are exactly the written ones; the value may contain '=' (the first one
   splits), the key may not; comment lines and blank lines are ignored; a text run of newline-terminated lines is
   read line by line *)
Theorem C17_kv_line : forall w0 k w1 w2 v w3,
  blanks w0 -> blanks w1 -> blanks w2 -> blanks w3 -> clean_key k -> clean_value v ->
  content_line (kv_line w0 k w1 w2 v w3) = Some (kv_text k w1 w2 v) /\ line_kv (kv_text k w1 w2 v) = (k, v)
  /\ ~ In c_nl (kv_line w0 k w1 w2 v w3).
Proof. exact ConfProofs.kv_line_read. Qed.
Theorem C17_comment_line : forall w rest, blanks w -> content_line (w ++ c_hash :: rest) = None.
Proof. exact ConfProofs.comment_line_read. Qed.
Theorem C17_blank_line : forall w, blanks w -> content_line w = None.
Proof. exact ConfProofs.blank_line_read. Qed.
Theorem C17_text_run_lines : forall ls, Forall (fun l => ~ In c_nl l) ls ->
  content_lines (join_lines ls) = flat_map line_content ls.
Proof. exact ConfProofs.content_lines_join. Qed.

(* ---- in the grammar's terms ------------------------------------------------------------------- *)
(* a text run written as key = value / comment / blank lines (each newline-terminated, the last one optionally
   not) is read as exactly its key = value lines, in order, with exactly the written keys and values *)
Theorem C17_grammar_lines_read : forall ls b, Forall gline_ok ls ->
  content_lines (gtext ls b) = flat_map gline_text ls /\ map line_kv (flat_map gline_text ls) = flat_map gline_kv ls.
Proof. exact ConfProofs.grammar_lines_read. Qed.

(* end to end: a document of the grammar (any nesting, layout, entity spelling) is accepted, and /path<key> is the
   value of the last key = value line with that key written directly in the domains of that path (string, int,
   int32, bool with the default on a malformed value); GetDomainLine lists the written lines in order *)
Theorem C17_grammar_value : forall dec ps v k,
  doc_ok ps -> short_lines (tokens_of ps) -> no_clobber (piece_events ps) -> grammar_text dec ps ->
  Forall path_name v -> path_key k -> gassigns dec ps [root_name] (key_of_vec v) k <> [] ->
  exists t, parse (render ps) = Ok t /\
    let x := last (gassigns dec ps [root_name] (key_of_vec v) k) [] in
    (forall d, get_string_def t (path_string v (Some k)) d = Ok x) /\
    (forall d, get_int_def t (path_string v (Some k)) d = Ok (match atoi x with Some z => z | None => d end)) /\
    (forall d, get_int32_def t (path_string v (Some k)) d = Ok (match atoi32 x with Some z => z | None => d end)) /\
    (forall d, get_bool_def t (path_string v (Some k)) d = Ok (match parse_bool x with Some b => b | None => d end)).
Proof. exact ConfProofs.grammar_value. Qed.
Theorem C17_grammar_lines : forall dec ps v,
  doc_ok ps -> short_lines (tokens_of ps) -> no_clobber (piece_events ps) -> grammar_text dec ps ->
  Forall path_name v -> live (piece_events ps) (key_of_vec v) ->
  exists t, parse (render ps) = Ok t /\ get_domain_line t (path_string v None) = Ok (glines dec ps [root_name] (key_of_vec v)).
Proof. exact ConfProofs.grammar_lines. Qed.

(* ---- the getters on a tree that represents the document ------------------------------------- *)
(* paths /a/b and /a/b<key> denote the domain and the key *)
Theorem C17_path_domain : forall v, Forall path_name v -> analysis_path (path_string v None) = Ok v.
Proof. exact ConfProofs.analysis_path_domain. Qed.
Theorem C17_path_key : forall v k, Forall path_name v -> path_key k -> analysis_path (path_string v (Some k)) = Ok (v ++ [k]).
Proof. exact ConfProofs.analysis_path_key. Qed.

(* GetDomainLine: exactly the written lines, in order *)
Theorem C17_lines_exact : forall s evs, represents s evs -> forall p v, analysis_path p = Ok v ->
  live evs (key_of_vec v) -> get_domain_line s p = Ok (lines_of evs (key_of_vec v)).
Proof. exact ConfProofs.lines_exact. Qed.

(* GetString / GetInt / GetInt32 / GetBool: the last written value, parsed, or the default when it is malformed *)
Theorem C17_value_exact : forall s evs, represents s evs -> forall p v, analysis_path p = Ok v ->
  forall v0 k, v = v0 ++ [k] -> k <> [] -> assigns evs (key_of_vec v0) k <> [] ->
  let x := last (assigns evs (key_of_vec v0) k) [] in
  (forall d, get_string_def s p d = Ok x) /\
  (forall d, get_int_def s p d = Ok (match atoi x with Some z => z | None => d end)) /\
  (forall d, get_int32_def s p d = Ok (match atoi32 x with Some z => z | None => d end)) /\
  (forall d, get_bool_def s p d = Ok (match parse_bool x with Some b => b | None => d end)).
Proof. exact ConfProofs.value_exact. Qed.

(* "the parsed value": an integer written in decimal (strconv.Itoa / %d form) inside the width parses to itself;
   outside the width the conversion fails, i.e. the getter returns the supplied default *)
Theorem C17_int_parsed : forall z,
  ((-9223372036854775808 <= z <= 9223372036854775807)%Z -> atoi (Endpoint.Parse.dec z) = Some z) /\
  ((-2147483648 <= z <= 2147483647)%Z -> atoi32 (Endpoint.Parse.dec z) = Some z) /\
  (~ (-2147483648 <= z <= 2147483647)%Z -> atoi32 (Endpoint.Parse.dec z) = None) /\
  (~ (-9223372036854775808 <= z <= 9223372036854775807)%Z -> atoi (Endpoint.Parse.dec z) = None).
Proof. exact ConfProofs.int_parsed. Qed.

(* ... and "malformed" at full strength: the conversion succeeds exactly on [+-]?[0-9]+ whose value lies inside the
   width (any other string, or a value outside, makes the getter return the supplied default) *)
Theorem C17_int_accepts_exactly : forall lo hi s z,
  parse_int lo hi s = Some z <->
  exists sign ds, decimal_shape s sign ds /\ z = (if bytes_eqb sign [45%N] then - dval 0 ds else dval 0 ds)%Z /\ (lo <= z <= hi)%Z.
Proof. exact ConfProofs.parse_int_spec. Qed.

(* ... and the default / empty listings when nothing is written there *)
Theorem C17_absent_defaults : forall s evs, represents s evs -> forall p v, analysis_path p = Ok v ->
  absent evs (key_of_vec v) ->
  (forall d, get_string_def s p d = Ok d) /\ (forall d, get_int_def s p d = Ok d) /\
  (forall d, get_int32_def s p d = Ok d) /\ (forall d, get_bool_def s p d = Ok d) /\
  get_domain s p = Ok [] /\ get_domain_key s p = Ok [] /\ get_domain_line s p = Ok [] /\ get_map s p = Ok [].
Proof. exact ConfProofs.absent_defaults. Qed.

(* GetDomain / GetDomainKey / GetMap list the children of the addressed element ... *)
Theorem C17_listing_getters : forall s p v i, analysis_path p = Ok v -> lookup s (key_of_vec v) = Some i ->
  get_domain s p = Ok (map fst (children KNode s (key_of_vec v))) /\
  get_domain_key s p = Ok (map fst (children KLeaf s (key_of_vec v))) /\
  get_map s p = Ok (children KLeaf s (key_of_vec v)).
Proof. exact ConfProofs.listing_getters. Qed.
(* ... which are exactly the written sub-domains and keys (with their last values), each once *)
Theorem C17_subdomains_exact : forall s evs, represents s evs -> forall K n,
  In n (map fst (children KNode s K)) <-> live evs (n :: K).
Proof. exact ConfProofs.subdomains_exact. Qed.
Theorem C17_keys_exact : forall s evs, represents s evs -> forall K k val,
  In (k, val) (children KLeaf s K) <-> k <> [] /\ assigns evs K k <> [] /\ val = last (assigns evs K k) [].
Proof. exact ConfProofs.keys_exact. Qed.
Theorem C17_listings_nodup : forall s evs, represents s evs -> forall K,
  NoDup (map fst (children KNode s K)) /\ NoDup (map fst (children KLeaf s K)).
Proof. exact ConfProofs.listings_nodup. Qed.

(* ---- the whole document or an error ---------------------------------------------------------- *)
(* for all byte strings: success means that the input is free of token errors, well nested, every line is short
   enough for the scanner, and the tree is the fold of *all* events of the document ... *)
Theorem C17_whole_or_error : forall bs t, parse bs = Ok t ->
  raw_status bs = Clean /\ balanced (raw_tokens bs) = true /\ short_lines (raw_tokens bs) /\ t = run_events (doc_events bs).
Proof. exact ConfProofs.parse_whole_or_error. Qed.
(* ... hence represents every line and key of it *)
Theorem C17_whole_represented : forall bs t, parse bs = Ok t -> no_clobber (doc_events bs) -> represents t (doc_events bs).
Proof. exact ConfProofs.parse_represents. Qed.
(* the only other outcomes (inside the modelled alphabet): a token error or a line too long for the scanner *)
Theorem C17_outcomes : forall bs,
  (exists t, parse bs = Ok t) \/ parse bs = Unmodelled \/ parse bs = Err 1 \/ parse bs = Err 3.
Proof. exact ConfProofs.parse_error_cases. Qed.
(* the loop as it was before the repairs (token error ends the loop silently) violates it: "k2=a&b" *)
Theorem C17_old_loop_refuted : exists bs t, parse_old bs = Ok t /\ no_clobber (doc_events bs) /\ ~ represents t (doc_events bs).
Proof. exact ConfProofs.parse_old_refuted. Qed.

(* the repairs are conservative: whatever the repaired parser accepts, the old loop accepted with the same tree
   (they only turn silent drops into errors) *)
Theorem C17_repair_conservative : forall bs t, parse bs = Ok t -> parse_old bs = Ok t.
Proof. exact ConfProofs.repair_conservative. Qed.

(* ---- the line-level code itself ----------------------------------------------------------------- *)
(* Gen/ConfTranslated.v is the Go source of the CURRENT tree, translated on every run (harness/c17xlate.go, target
   language Conf/GoStr.v): the body of the line loop of InitFromBytes (effects on the current element), analysisPath,
   and the four typed getters. For all inputs they compute what the model computes: *)
Theorem C17_line_body_translated : forall text, tr_conf_line text = Some (ConfXlate.line_effects text).
Proof. exact ConfXlate.tr_conf_line_equiv. Qed.
(* ... so the model's scanner loop over a text run is the loop with the translated body *)
Theorem C17_line_loop_translated : forall segs s cur, ConfXlate.tr_segments s cur segs = do_segments s cur segs.
Proof. exact ConfXlate.tr_segments_equiv. Qed.
(* the statements around the loop are the expected ones (scanner over the token, ScanLines, the scanner's error returned),
   and so is the decode loop around the three token cases (Decoder.Token, a token error other than io.EOF returned) *)
Theorem C17_line_loop_frame : tr_conf_line_frame = true /\ tr_conf_decode_loop_frame = true /\ tr_conf_tag_cases_frame = true.
Proof. exact ConfXlate.tr_conf_line_frame_pinned. Qed.
Theorem C17_analysis_path_translated : forall p,
  tr_analysisPath p = match analysis_path p with Ok v => Some v | _ => None end.
Proof. exact ConfXlate.tr_analysisPath_equiv. Qed.
Theorem C17_getters_translated : forall s p,
  (forall d, get_string_def s p d = ConfXlate.on_elem s p (fun v e => tr_GetStringWithDef v e d)) /\
  (forall d, get_int_def s p d = ConfXlate.on_elem s p (fun v e => tr_GetIntWithDef v e d)) /\
  (forall d, get_int32_def s p d = ConfXlate.on_elem s p (fun v e => tr_GetInt32WithDef v e d)) /\
  (forall d, get_bool_def s p d = ConfXlate.on_elem s p (fun v e => tr_GetBoolWithDef v e d)).
Proof. exact ConfXlate.getters_translated. Qed.

(* the methods of elem, and the listing getters on an element of the model's store seen as the Go code sees it
   (children in store order — a Go map iterates in an unspecified order, the correspondence compares as sets) *)
Theorem C17_elem_methods_translated : forall e name child line value kd,
  tr_addLine e line = Some (ge_set_line e (ge_line e ++ [line])) /\
  tr_setValue e value = Some (ge_set_value e value) /\
  tr_addChild e name child = Some (ge_set_children e (gs_map_set (ge_children e) name child)) /\
  tr_findChild e name = Some (gs_map_get2 (ge_children e) name) /\
  tr_newElem kd name = Some {| ge_kind := kd; ge_name := name; ge_value := []; ge_children := []; ge_line := [] |}.
Proof. exact ConfXlate.tr_elem_methods. Qed.
Theorem C17_listing_getters_translated : forall s p v, analysis_path p = Ok v ->
  let nd := ConfXlate.get_elem_view s v in
  tr_getDomain p (fst nd) (snd nd) = Some (match get_domain s p with Ok l => l | _ => [] end, snd nd) /\
  tr_getDomainKey p (fst nd) (snd nd) = Some (match get_domain_key s p with Ok l => l | _ => [] end, snd nd) /\
  tr_getDomainLine p (fst nd) (snd nd) = Some (match get_domain_line s p with Ok l => l | _ => [] end, snd nd) /\
  tr_getMap p (fst nd) (snd nd) =
    Some (fold_left (fun m kv => gs_map_set m (fst kv) (snd kv)) (match get_map s p with Ok l => l | _ => [] end) [], snd nd) /\
  (forall d, tr_getValue p (fst nd) (snd nd) = Some (match lookup s (key_of_vec v) with Some i => ivalue i | None => [] end, snd nd)
             /\ get_string_def s p d = Ok (match lookup s (key_of_vec v) with Some i => ivalue i | None => d end)).
Proof. exact ConfXlate.tr_listing_getters_equiv. Qed.

(* a Go map iterates in an unspecified order: in whatever order the children of the element are visited, GetDomain and
   GetDomainKey return the same names up to order (the correspondence compares them as sets) *)
Theorem C17_listing_order_independent : forall p v nd nd', analysis_path p = Ok v ->
  Permutation.Permutation (map snd (ge_children nd)) (map snd (ge_children nd')) ->
  exists l l' k k', tr_getDomain p nd false = Some (l, false) /\ tr_getDomain p nd' false = Some (l', false) /\ Permutation.Permutation l l' /\
                    tr_getDomainKey p nd false = Some (k, false) /\ tr_getDomainKey p nd' false = Some (k', false) /\ Permutation.Permutation k k'.
Proof. exact ConfXlate.listing_order_independent. Qed.

(* elem.getElem walks the tree from the root child by child (translated; elements are abstract handles, findChild a
   parameter); the model looks the whole path up in its flat store. On every store the parser produces the two agree,
   because such a store holds all ancestors of each of its elements: *)
Theorem C17_store_closed : forall bs t, parse bs = Ok t -> ConfXlate.closed t /\ ConfXlate.present t [root_name].
Proof. exact ConfXlate.parse_store_closed. Qed.
Theorem C17_getElem_translated : forall bs t v, parse bs = Ok t ->
  tr_getElem (ConfXlate.find_in t) (Some [root_name]) v =
  Some (match lookup t (key_of_vec v) with Some _ => (Some (key_of_vec v), false) | None => (None, true) end).
Proof. exact ConfXlate.getElem_translated. Qed.

(* ---- no panic -------------------------------------------------------------------------------- *)
Theorem C17_no_panic_parse : forall bs n, parse bs <> Panic n.
Proof. exact ConfProofs.parse_no_panic. Qed.
Theorem C17_no_panic_getters : forall s p,
  (forall d, exists v, get_string_def s p d = Ok v) /\ (forall d, exists v, get_int_def s p d = Ok v) /\
  (forall d, exists v, get_int32_def s p d = Ok v) /\ (forall d, exists v, get_bool_def s p d = Ok v) /\
  (exists v, get_domain s p = Ok v) /\ (exists v, get_domain_key s p = Ok v) /\
  (exists v, get_domain_line s p = Ok v) /\ (exists v, get_map s p = Ok v).
Proof. exact ConfProofs.getters_no_panic. Qed.

Print Assumptions C17_complete.
Print Assumptions C17_complete_full_refuted.
Print Assumptions C17_any_nesting.
Print Assumptions C17_tokens_exact.
Print Assumptions C17_kv_line.
Print Assumptions C17_comment_line.
Print Assumptions C17_blank_line.
Print Assumptions C17_text_run_lines.
Print Assumptions C17_grammar_lines_read.
Print Assumptions C17_grammar_value.
Print Assumptions C17_grammar_lines.
Print Assumptions C17_path_domain.
Print Assumptions C17_path_key.
Print Assumptions C17_lines_exact.
Print Assumptions C17_value_exact.
Print Assumptions C17_int_parsed.
Print Assumptions C17_int_accepts_exactly.
Print Assumptions C17_absent_defaults.
Print Assumptions C17_listing_getters.
Print Assumptions C17_subdomains_exact.
Print Assumptions C17_keys_exact.
Print Assumptions C17_listings_nodup.
Print Assumptions C17_whole_or_error.
Print Assumptions C17_whole_represented.
Print Assumptions C17_outcomes.
Print Assumptions C17_old_loop_refuted.
Print Assumptions C17_repair_conservative.
Print Assumptions C17_line_body_translated.
Print Assumptions C17_line_loop_translated.
Print Assumptions C17_line_loop_frame.
Print Assumptions C17_analysis_path_translated.
Print Assumptions C17_getters_translated.
Print Assumptions C17_elem_methods_translated.
Print Assumptions C17_listing_getters_translated.
Print Assumptions C17_listing_order_independent.
Print Assumptions C17_store_closed.
Print Assumptions C17_getElem_translated.
Print Assumptions C17_no_panic_parse.
Print Assumptions C17_no_panic_getters.
