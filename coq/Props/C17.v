(* C17 — config parser: complete and exact, or an error, never silently partial. Statements only. *)
From Coq Require Import List NArith ZArith.
From TarsV Require Import Base.Hex Conf.Conf Conf.ConfProofs.
Import ListNotations.
Open Scope N_scope.

Theorem C17_no_panic_parse : forall bs n, parse bs <> Panic n.
Proof. exact ConfProofs.parse_no_panic. Qed.

Print Assumptions C17_no_panic_parse.
