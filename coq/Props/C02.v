(* C02 — primitive codec: exact round trip, exact cursor, wire-format conformance, widening reads.
   Statements only. [f] is any fuel >= 1, [rest] any suffix: the reader ends exactly at [rest]. *)
From Coq Require Import List NArith ZArith.
From TarsV Require Import Base.Hex Codec.Wire Codec.Skip Codec.Prim Codec.PrimProofs.
From TarsV Require Xlate.ReaderEquiv.
From TarsV Require Xlate.CodecEquiv.
From TarsV Require Xlate.FloatEquiv.
Import ListNotations.
Open Scope N_scope.

Theorem C02_roundtrip_bool : forall f tag req b rest, tag < 256 ->
  r_bool (S f) tag req (w_bool b tag ++ rest) = ROk b rest.
Proof. exact PrimProofs.roundtrip_bool. Qed.
Theorem C02_roundtrip_int8 : forall f tag req v rest, tag < 256 -> fits 8 v = true ->
  r_int8 (S f) tag req (w_int8 v tag ++ rest) = ROk v rest.
Proof. exact PrimProofs.roundtrip_int8. Qed.
Theorem C02_roundtrip_int16 : forall f tag req v rest, tag < 256 -> fits 16 v = true ->
  r_int16 (S f) tag req (w_int16 v tag ++ rest) = ROk v rest.
Proof. exact PrimProofs.roundtrip_int16. Qed.
Theorem C02_roundtrip_int32 : forall f tag req v rest, tag < 256 -> fits 32 v = true ->
  r_int32 (S f) tag req (w_int32 v tag ++ rest) = ROk v rest.
Proof. exact PrimProofs.roundtrip_int32. Qed.
Theorem C02_roundtrip_int64 : forall f tag req v rest, tag < 256 -> fits 64 v = true ->
  r_int64 (S f) tag req (w_int64 v tag ++ rest) = ROk v rest.
Proof. exact PrimProofs.roundtrip_int64. Qed.
Theorem C02_roundtrip_uint8 : forall f tag req v rest, tag < 256 -> (0 <= v < 256)%Z ->
  r_uint8 (S f) tag req (w_uint8 v tag ++ rest) = ROk v rest.
Proof. exact PrimProofs.roundtrip_uint8. Qed.
Theorem C02_roundtrip_uint16 : forall f tag req v rest, tag < 256 -> (0 <= v < 65536)%Z ->
  r_uint16 (S f) tag req (w_uint16 v tag ++ rest) = ROk v rest.
Proof. exact PrimProofs.roundtrip_uint16. Qed.
Theorem C02_roundtrip_uint32 : forall f tag req v rest, tag < 256 -> (0 <= v < 4294967296)%Z ->
  r_uint32 (S f) tag req (w_uint32 v tag ++ rest) = ROk v rest.
Proof. exact PrimProofs.roundtrip_uint32. Qed.
(* floats are bit patterns: NaN payloads, infinities and signed zero are covered by the quantifier *)
Theorem C02_roundtrip_f32 : forall f tag req b rest, tag < 256 -> b < 4294967296 ->
  r_f32 (S f) tag req (w_f32 b tag ++ rest) = ROk b rest.
Proof. exact PrimProofs.roundtrip_f32. Qed.
Theorem C02_roundtrip_f64 : forall f tag req b rest, tag < 256 -> b < 18446744073709551616 ->
  r_f64 (S f) tag req (w_f64 b tag ++ rest) = ROk b rest.
Proof. exact PrimProofs.roundtrip_f64. Qed.
Theorem C02_roundtrip_string : forall f tag req s rest, tag < 256 -> N.of_nat (length s) < 4294967296 ->
  r_string (S f) tag req (w_string s tag ++ rest) = ROk s rest.
Proof. exact PrimProofs.roundtrip_string. Qed.

(* wire format: head byte rule, narrowest width with the zero marker, big-endian two's complement,
   1-byte vs 4-byte string length; the narrower writers write what WriteInt64 writes *)
Theorem C02_wire_int : forall v tag, fits 64 v = true -> w_int64 v tag = spec_int v tag.
Proof. exact PrimProofs.wire_int64. Qed.
Theorem C02_wire_int32 : forall v tag, fits 32 v = true -> w_int32 v tag = w_int64 v tag.
Proof. exact PrimProofs.w_int32_64. Qed.
Theorem C02_wire_int16 : forall v tag, fits 16 v = true -> w_int16 v tag = w_int64 v tag.
Proof. exact PrimProofs.w_int16_64. Qed.
Theorem C02_wire_int8 : forall v tag, fits 8 v = true -> w_int8 v tag = w_int64 v tag.
Proof. exact PrimProofs.w_int8_64. Qed.
Theorem C02_wire_f32 : forall b tag, w_f32 b tag = spec_f32 b tag.
Proof. exact PrimProofs.wire_f32. Qed.
Theorem C02_wire_f64 : forall b tag, w_f64 b tag = spec_f64 b tag.
Proof. exact PrimProofs.wire_f64. Qed.
Theorem C02_wire_string : forall s tag, N.of_nat (length s) < 4294967296 -> w_string s tag = spec_string s tag.
Proof. exact PrimProofs.wire_string. Qed.

(* widening: every narrower encoding is accepted by every wider reader with the same value *)
Theorem C02_widen_signed : forall bits f tag req v rest, is_width bits -> tag < 256 -> fits bits v = true ->
  forall wbits, is_width wbits -> (bits <= wbits)%Z ->
  r_int wbits (S f) tag req (w_int64 v tag ++ rest) = ROk v rest.
Proof. exact PrimProofs.widen_signed. Qed.
Theorem C02_widen_uint8 : forall f tag req v rest, tag < 256 -> (0 <= v < 256)%Z ->
  r_uint16 (S f) tag req (w_uint8 v tag ++ rest) = ROk v rest /\
  r_uint32 (S f) tag req (w_uint8 v tag ++ rest) = ROk v rest /\
  r_int16 (S f) tag req (w_uint8 v tag ++ rest) = ROk v rest /\
  r_int32 (S f) tag req (w_uint8 v tag ++ rest) = ROk v rest /\
  r_int64 (S f) tag req (w_uint8 v tag ++ rest) = ROk v rest.
Proof. exact PrimProofs.widen_uint8_16. Qed.
Theorem C02_widen_uint16 : forall f tag req v rest, tag < 256 -> (0 <= v < 65536)%Z ->
  r_uint32 (S f) tag req (w_uint16 v tag ++ rest) = ROk v rest /\
  r_int32 (S f) tag req (w_uint16 v tag ++ rest) = ROk v rest /\
  r_int64 (S f) tag req (w_uint16 v tag ++ rest) = ROk v rest.
Proof. exact PrimProofs.widen_uint16_32. Qed.
Theorem C02_widen_float : forall f tag req b rest, tag < 256 -> b < 4294967296 ->
  r_f64 (S f) tag req (w_f32 b tag ++ rest) = ROk (widen32 b) rest.
Proof. exact PrimProofs.widen_f32_f64. Qed.

Print Assumptions C02_roundtrip_bool. Print Assumptions C02_roundtrip_int8. Print Assumptions C02_roundtrip_int16.
Print Assumptions C02_roundtrip_int32. Print Assumptions C02_roundtrip_int64. Print Assumptions C02_roundtrip_uint8.
Print Assumptions C02_roundtrip_uint16. Print Assumptions C02_roundtrip_uint32. Print Assumptions C02_roundtrip_f32.
Print Assumptions C02_roundtrip_f64. Print Assumptions C02_roundtrip_string. Print Assumptions C02_wire_int.
Print Assumptions C02_wire_int32. Print Assumptions C02_wire_int16. Print Assumptions C02_wire_int8.
Print Assumptions C02_wire_f32. Print Assumptions C02_wire_f64. Print Assumptions C02_wire_string.
Print Assumptions C02_widen_signed. Print Assumptions C02_widen_uint8. Print Assumptions C02_widen_uint16.
Print Assumptions C02_widen_float.
