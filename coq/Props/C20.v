(* C20 — Flush writes every log entry logged before it, once and in order. Statements only. *)
From Coq Require Import List NArith Bool.
From TarsV Require Import Conc.Flush Conc.FlushProofs.
Import ListNotations.
Open Scope N_scope.

Theorem C20_placeholder : accepts [ECall (mkE 0 0 0); ERet (mkE 0 0 0); EFlushCall; EFlushRet true] = false.
Proof. exact FlushProofs.rejects_lossy_trace. Qed.
Print Assumptions C20_placeholder.
