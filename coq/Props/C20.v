(* C20 — Flush writes every log entry logged before it, once and in order. Statements only.
   [run cap init ls = Some s]: ls is a schedule of the repaired logger (any interleaving of any number of
   logging goroutines, the flusher and the FlushLogger caller; any queue capacity) leading to state s.
   rets_of / calls_of / writes_of: the entries whose logging call returned / began / that were handed to
   their writer (one Write label = one Write of one whole entry on the entry's writer), in schedule order. *)
From Coq Require Import List NArith Bool.
From TarsV Require Import Gen.Consts Conc.Flush Conc.FlushProofs.
Import ListNotations.
Open Scope N_scope.

(* Any number of FlushLogger callers c, c', ..., concurrent or not (Run's deferred call, CheckPanic in any goroutine, the
   application). Every entry whose logging call returned before a FlushLogger call made while nobody had signalled yet
   (no Request in l1: in particular before the first call of all) has been written when a call — this one or another
   caller's — returns on the flusher's acknowledgement ... *)
Theorem C20_flush_complete : forall cap l1 c l2 c' l3 s,
  run cap init (l1 ++ FlushCall c :: l2 ++ FlushRet c' true :: l3) = Some s -> existsb is_request l1 = false ->
  forall e, In e (rets_of l1) -> In e (writes_of (l1 ++ FlushCall c :: l2)).
Proof. exact FlushProofs.flush_complete. Qed.
Theorem C20_flush_complete_first_call : forall cap l1 c l2 c' l3 s,
  run cap init (l1 ++ FlushCall c :: l2 ++ FlushRet c' true :: l3) = Some s -> existsb is_flushcall l1 = false ->
  forall e, In e (rets_of l1) -> In e (writes_of (l1 ++ FlushCall c :: l2)).
Proof. exact FlushProofs.flush_complete_first_call. Qed.
(* the fact behind it: whatever returned before the flusher's acknowledging step has been written *)
Theorem C20_all_before_ack_written : forall cap l1 l2 s,
  run cap init (l1 ++ DrainDone :: l2) = Some s -> forall e, In e (rets_of l1) -> In e (writes_of l1).
Proof. exact FlushProofs.all_before_ack_written. Qed.

(* ... exactly once (no Write is repeated anywhere in the schedule, and none follows the acknowledgement) *)
Theorem C20_written_once : forall cap ls s, run cap init ls = Some s -> NoDup (writes_of ls).
Proof. exact FlushProofs.writes_once. Qed.
Theorem C20_no_write_after_ack : forall cap l1 c l3 s,
  run cap init (l1 ++ FlushRet c true :: l3) = Some s -> writes_of l3 = [].
Proof. exact FlushProofs.no_write_after_ack. Qed.

(* entries of one goroutine reach the writers in the order they were logged *)
Theorem C20_per_goroutine_order : forall cap ls s, run cap init ls = Some s ->
  forall a e1 b e2 c, writes_of ls = a ++ e1 :: b ++ e2 :: c -> eg e1 = eg e2 -> en e1 < en e2.
Proof. exact FlushProofs.writes_per_goroutine_order. Qed.

(* across goroutines: a call that returned before another began is written first *)
Theorem C20_fifo_real_time : forall cap a e1 b e2 c s x y,
  run cap init (a ++ LogRet e1 :: b ++ LogCall e2 :: c) = Some s ->
  writes_of (a ++ LogRet e1 :: b ++ LogCall e2 :: c) = x ++ e2 :: y -> In e1 x.
Proof. exact FlushProofs.fifo_real_time. Qed.

(* a Write hands over exactly an entry submitted by an earlier logging call (same goroutine, number, writer) *)
Theorem C20_write_was_logged : forall cap a l b s e,
  run cap init (a ++ l :: b) = Some s -> writes_of [l] = [e] -> In e (calls_of a).
Proof. exact FlushProofs.write_was_logged. Qed.

(* nothing is dropped: everything enqueued is written, held by the flusher for its Write, or still queued, in order *)
Theorem C20_conservation : forall cap ls s, run cap init ls = Some s -> hist s = writes_of ls ++ held s ++ q s.
Proof. exact FlushProofs.conservation. Qed.

(* after the request the flusher always has a step until it has acknowledged *)
Theorem C20_flusher_not_blocked_after_request : forall cap s,
  req s = true -> fp s <> Done -> exists l s', flusher_label l /\ step cap s l = Some s'.
Proof. exact FlushProofs.flusher_not_blocked_after_request. Qed.

(* ... and, counted from FlushLogger's (first) signal, [2 * length of the queue + 2] of its steps (a receive and a Write per
   entry) suffice to write every entry whose call had returned, however many entries other goroutines log meanwhile. (That these steps fit into FlushLogger's
   one second depends on the scheduler and the writers' speed: outside the model.) *)
Theorem C20_flush_bounded : forall cap l1 c l2 s1 s2 s,
  run cap init l1 = Some s1 -> req s1 = false -> step cap s1 (Request c) = Some s2 -> run cap s2 l2 = Some s ->
  (2 * length (q s1) + 2 <= flusher_steps l2)%nat ->
  forall e, In e (rets_of l1) -> In e (writes_of (l1 ++ Request c :: l2)).
Proof. exact FlushProofs.flush_bounded. Qed.

(* The log level (rogger.SetLevel at any time, by any goroutine) is a guard on the ACCEPT step of a levelled logging call and
   is consulted nowhere else: all theorems above quantify over schedules with SetLevel / filtered calls anywhere, so what was
   accepted is written whatever the level becomes afterwards; WriteLog / Trace (LogCall) have no level guard *)
Theorem C20_accept_guard : forall cap s e l s',
  step cap s (LogCallAt e l) = Some s' -> lvl s <= l /\ step cap s (LogCall e) = Some s'.
Proof. exact FlushProofs.accept_guard. Qed.
Theorem C20_filtered_call_submits_nothing : forall cap s g l s',
  step cap s (LogFiltered g l) = Some s' -> l < lvl s /\ s' = s.
Proof. exact FlushProofs.filtered_call_submits_nothing. Qed.
Theorem C20_level_consulted_only_at_accept : forall cap s n l, level_blind l = true ->
  step cap (with_lvl s n) l = match step cap s l with Some s' => Some (with_lvl s' n) | None => None end.
Proof. exact FlushProofs.level_consulted_only_at_accept. Qed.

(* FlushLogger is one-shot (known finding "second flush"). The model lets FlushLogger be called again, as the code
   does; without "first call" the completeness statement is FALSE of the faithful model and of the code: *)
Definition C20_flush_complete_any_call_statement : Prop := forall cap l1 c l2 c' l3 s,
  run cap init (l1 ++ FlushCall c :: l2 ++ FlushRet c' true :: l3) = Some s ->
  forall e, In e (rets_of l1) -> In e (writes_of (l1 ++ FlushCall c :: l2)).
Theorem C20_flush_complete_any_call_refuted : ~ C20_flush_complete_any_call_statement.
Proof. exact FlushProofs.flush_complete_any_call_refuted. Qed.
(* witness (vm_compute): log, flush, log e, flush again — the second call returns on the acknowledgement, e stays queued *)
Theorem C20_second_flush_refuted :
  exists cap l1 c l2 l3 e s,
    run cap init (l1 ++ FlushCall c :: l2 ++ FlushRet c true :: l3) = Some s /\ In e (rets_of l1) /\
    ~ In e (writes_of (l1 ++ FlushCall c :: l2 ++ FlushRet c true :: l3)) /\ q s = [e] /\ fl s c = FReturned true.
Proof. exact FlushProofs.second_flush_refuted. Qed.
(* in general: an entry logged after the acknowledged flush is never written, whatever follows — the flusher goroutine
   has returned *)
Theorem C20_logged_after_ack_never_written : forall cap l1 c l3 s,
  run cap init (l1 ++ FlushRet c true :: l3) = Some s ->
  forall e, In e (calls_of l3) -> ~ In e (writes_of (l1 ++ FlushRet c true :: l3)).
Proof. exact FlushProofs.logged_after_ack_never_written. Qed.

(* the tie: every visible trace of the model, under every schedule, is accepted by the specification machine
   that validates the implementation's recorded traces (so a rejected trace is not a behaviour of the model) *)
Theorem C20_trace_validation_sound : forall cap ls s, run cap init ls = Some s -> accepts (visible ls) = true.
Proof. exact FlushProofs.visible_trace_accepted. Qed.

(* "within the flush timeout": the tree's queue is buffered and FlushLogger waits at least one second *)
Theorem C20_tree_constants_in_range : 0 < c_rogger_queue_cap /\ 1000 <= c_rogger_wait_flush_timeout_ms.
Proof. exact FlushProofs.tree_constants_in_range. Qed.

(* ... and acceptance means the property: on an accepted trace every entry whose call returned before FlushLogger was
   called is written before the acknowledged return; each entry is written at most once and only after its call began;
   an entry whose call returned before another's call began is written first (hence per-goroutine order) *)
Theorem C20_accepted_trace_complete : forall t1 c t2 c' t3,
  accepts (t1 ++ EFlushCall c :: t2 ++ EFlushRet c' true :: t3) = true -> existsb is_fcall t1 = false ->
  forall e, In (ERet e) t1 -> In (EWrite e) (t1 ++ EFlushCall c :: t2).
Proof. exact FlushProofs.accepts_complete. Qed.
Theorem C20_accepted_trace_once : forall a e b,
  accepts (a ++ EWrite e :: b) = true -> ~ In (EWrite e) a /\ In (ECall e) a.
Proof. exact FlushProofs.accepts_once. Qed.
Theorem C20_accepted_trace_fifo : forall a1 e1 a2 e2 a3 b,
  accepts (a1 ++ ERet e1 :: a2 ++ ECall e2 :: a3 ++ EWrite e2 :: b) = true ->
  In (EWrite e1) (a1 ++ ERet e1 :: a2 ++ ECall e2 :: a3).
Proof. exact FlushProofs.accepts_fifo. Qed.

Print Assumptions C20_flush_complete.
Print Assumptions C20_written_once.
Print Assumptions C20_no_write_after_ack.
Print Assumptions C20_per_goroutine_order.
Print Assumptions C20_fifo_real_time.
Print Assumptions C20_write_was_logged.
Print Assumptions C20_conservation.
Print Assumptions C20_flusher_not_blocked_after_request.
Print Assumptions C20_trace_validation_sound.
Print Assumptions C20_tree_constants_in_range.
Print Assumptions C20_logged_after_ack_never_written.
Print Assumptions C20_flush_bounded.
Print Assumptions C20_accepted_trace_complete.
Print Assumptions C20_accepted_trace_once.
Print Assumptions C20_accepted_trace_fifo.
Print Assumptions C20_flush_complete_any_call_refuted.
Print Assumptions C20_second_flush_refuted.
Print Assumptions C20_flush_complete_first_call.
Print Assumptions C20_all_before_ack_written.
Print Assumptions C20_accept_guard.
Print Assumptions C20_filtered_call_submits_nothing.
Print Assumptions C20_level_consulted_only_at_accept.
