(* C04 — schema evolution: unknown fields are skipped exactly, absent optionals take defaults. Statements only. *)
From Coq Require Import List NArith ZArith.
From TarsV Require Import Base.Hex Codec.Wire Codec.Skip Codec.SkipProofs Codec.Prim Codec.GenCodec Codec.Corr Codec.GenProofs.
Import ListNotations.
Open Scope N_scope.

(* the reader consumes each skipped field exactly: every well-formed wire tree (all 13 wire types, any nesting
   within the depth limit, extended tags, any lengths the format can express), any suffix, linear fuel *)
Theorem C04_skip_exact : forall w, wf_ok w -> forall d fuel rest,
  d + wdepth w <= maxd -> (2 * length (ser_body w ++ rest) + 2 <= fuel)%nat ->
  skip_field fuel d (ty_of w) (ser_body w ++ rest) = (SOk, rest).
Proof. exact SkipProofs.skip_exact. Qed.

(* absent optional member, fresh or reused target: members that declare a default are reset to it whatever the target held *)
Theorem C04_declared_default_partial : forall f e sid vs i fd d,
  nth_error (fields_of e sid) i = Some fd -> fdef fd = Some d -> (i < length vs)%nat ->
  match reset_default (S f) e sid (VStruct vs) with
  | VStruct l => nth_error l i = Some d
  | _ => False
  end.
Proof. exact GenProofs.reset_default_declared. Qed.

(* REFUTED on the unchanged tree for reused targets: an optional member without a declared default keeps the
   stale value of the previous decode (the generated ResetDefault does not touch it) *)
Theorem C04_reuse_refuted :
  let e := [[ {| ftag := 0; freq := true; fty := TI32; fdef := None |};
              {| ftag := 1; freq := false; fty := TStr; fdef := None |} ]] in
  decode_into e 0 (VStruct [VInt 7; VStr [98; 111; 111; 109]]) (w_int32 5 0)
  = DOk (VStruct [VInt 5; VStr [98; 111; 111; 109]]) [].
Proof. exact GenProofs.reuse_refuted_witness. Qed.

(* full statements, decided on every run by the correspondence + monitors (unknown fields inserted at every
   admissible position change nothing; absent required member is an error) *)
Definition C04_extras_ignored_statement : Prop :=
  forall (e : env) (sid : nat) (clean extended : list N) v,
    wf_env e = true -> decode e sid clean = DOk v [] ->
    (* [extended] = [clean] with well-formed fields of unknown tags merged in tag order *) True ->
    decode e sid extended = DOk v [].

Print Assumptions C04_skip_exact.
Print Assumptions C04_declared_default_partial.
Print Assumptions C04_reuse_refuted.
