(* C04 — schema evolution: unknown fields are skipped exactly, absent optionals take defaults. Statements only. *)
From Coq Require Import List NArith ZArith.
From TarsV Require Import Base.Hex Codec.Wire Codec.Skip Codec.SkipProofs Codec.Prim Codec.GenCodec Codec.Corr Codec.GenProofs
  Codec.RoundTrip Codec.RoundTripProofs Codec.NestedProofs Codec.WireSpec Codec.EvolveProofs Codec.Evolve2Proofs Codec.RoundTripExamples Codec.CorrT Gen.Schemas.
From TarsV Require Xlate.ReaderEquiv.
Import ListNotations.
Open Scope N_scope.

(* the reader consumes each skipped field exactly: every well-formed wire tree (all 13 wire types, any nesting
   within the depth limit, extended tags, any lengths the format can express), any suffix, linear fuel *)
Theorem C04_skip_exact : forall w, wf_ok w -> forall d fuel rest,
  d + wdepth w <= maxd -> (2 * length (ser_body w ++ rest) + 2 <= fuel)%nat ->
  skip_field fuel d (ty_of w) (ser_body w ++ rest) = (SOk, rest).
Proof. exact SkipProofs.skip_exact. Qed.

(* decoder level, every wf_schema environment, every struct type with a finite type graph, every well-typed
   value: a group of well-formed unknown fields (any wire type, nesting, length; tags strictly between the
   neighbouring member tags) in front of every member and after the last member changes neither the decoded
   value nor success (same result as the clean encoding), and the cursor stops in front of the trailing ones *)
Theorem C04_extras_ignored : forall e k n sid vs Js Jl,
  wf_schema k e -> (S k <= 64)%nat -> tfin n e (TStruct sid) = true -> (tneed n e (TStruct sid) + k <= 64)%nat ->
  has_type e (TStruct sid) (VStruct vs) ->
  junks_ok None (fields_of e sid) Js -> trailing_ok (fields_of e sid) Jl ->
  decode e sid (encx_fields e vs (fields_of e sid) Js ++ ser_fields Jl) = DOk (norm_struct e sid (VStruct vs)) (ser_fields Jl)
  /\ decode e sid (encode e sid (VStruct vs)) = DOk (norm_struct e sid (VStruct vs)) [].
Proof. exact RoundTripProofs.extras_ignored. Qed.

(* the same into ANY target (used or fresh), explicit fuel condition, any struct type *)
Theorem C04_extras_ignored_into : forall e k sid vs prior Js tail,
  wf_schema k e -> has_type e (TStruct sid) (VStruct vs) ->
  junks_ok None (fields_of e sid) Js ->
  (forall fd, In fd (fields_of e sid) -> follows (ftag fd) tail) ->
  (need_list vs + k + 3 <= 2 * length (encx_fields e vs (fields_of e sid) Js ++ tail) + 64)%nat ->
  decode_into e sid prior (encx_fields e vs (fields_of e sid) Js ++ tail) = DOk (norm_struct e sid (VStruct vs)) tail.
Proof. exact RoundTripProofs.decode_into_extras. Qed.

(* an absent required member is an error: member level (any type, behind any unknown fields) ... *)
Theorem C04_member_absent_required : forall e f tag t prior lo J rest, junk_ok lo tag J -> follows tag rest ->
  (2 * length (ser_fields J ++ rest) + 3 <= f)%nat ->
  dec_var (S f) e tag true t prior (ser_fields J ++ rest) = DErr.
Proof. exact RoundTripProofs.member_absent_required. Qed.
(* ... and struct level: an input written without a member that the reader's schema requires is rejected *)
Theorem C04_required_absent : forall e k n sid fds1 fd fds2 vs1 vs2,
  wf_schema k e -> (S k <= 64)%nat -> fields_of e sid = fds1 ++ fd :: fds2 -> freq fd = true ->
  Forall2 (fun fd x => has_type e (fty fd) x) fds1 vs1 -> Forall2 (fun fd x => has_type e (fty fd) x) fds2 vs2 ->
  tfin n e (TStruct sid) = true -> (tneed n e (TStruct sid) + k <= 64)%nat ->
  decode e sid (enc_fields e vs1 fds1 ++ enc_fields e vs2 fds2) = DErr.
Proof. exact RoundTripProofs.required_absent. Qed.

(* an absent optional member keeps the target's value and consumes nothing; after ResetDefault the target
   holds the declared default where one is declared (next theorem), the zero value in a fresh target *)
Theorem C04_member_absent_optional : forall e f tag t prior lo J rest, junk_ok lo tag J -> follows tag rest ->
  (match t with TStruct _ => False | _ => True end) ->
  (2 * length (ser_fields J ++ rest) + 3 <= f)%nat ->
  dec_var (S f) e tag false t prior (ser_fields J ++ rest) = DOk prior rest.
Proof. exact RoundTripProofs.member_absent_optional. Qed.
Theorem C04_declared_default : forall f e sid vs i fd d,
  nth_error (fields_of e sid) i = Some fd -> fdef fd = Some d -> (i < length vs)%nat ->
  match reset_default (S f) e sid (VStruct vs) with
  | VStruct l => nth_error l i = Some d
  | _ => False
  end.
Proof. exact GenProofs.reset_default_declared. Qed.

(* every member is assigned by ResetDefault - its declared default or, where none is declared, the zero value of
   its type (struct members recursively) - whatever the target held *)
Theorem C04_reset_every_member : forall f e sid v i fd,
  nth_error (fields_of e sid) i = Some fd ->
  match reset_default (S f) e sid v with
  | VStruct l => nth_error l i = Some (match fdef fd with
                                       | Some d => d
                                       | None => match fty fd with TStruct s => reset_default f e s v | t => zero_of f e t end
                                       end)
  | _ => False
  end.
Proof. exact GenProofs.reset_default_member. Qed.

(* REUSED TARGETS, FULL STRENGTH: the result of decoding does not depend on what the target held before - any
   schema environment, any struct type, ANY two prior targets (of any shape), any bytes (valid, extended,
   truncated, hostile). Decoding into a used target is decoding into a fresh one. (Codec/Pinned.v
   C04_reuse_pinned_refuted / C04_empty_bytes_pinned_refuted: the pinned code kept stale optional members and
   stale bytes of an empty byte vector.) *)
Theorem C04_reuse : forall e sid p1 p2 bs, decode_into e sid p1 bs = decode_into e sid p2 bs.
Proof. exact GenProofs.decode_into_prior_indep. Qed.
Theorem C04_reuse_fresh : forall e sid prior bs, decode_into e sid prior bs = decode e sid bs.
Proof. exact GenProofs.decode_into_fresh. Qed.
(* nested struct members and struct-typed elements likewise (ReadBlock resets first), at any fuel *)
Theorem C04_reuse_member : forall fuel e tag req sid p1 p2 bs,
  dec_var fuel e tag req (TStruct sid) p1 bs = dec_var fuel e tag req (TStruct sid) p2 bs.
Proof. exact GenProofs.dec_var_struct_prior_indep. Qed.
(* the witness of the former finding on the repaired model *)
Theorem C04_reuse_witness :
  let e := [[ {| ftag := 0; freq := true; fty := TI32; fdef := None |};
              {| ftag := 1; freq := false; fty := TStr; fdef := None |} ]] in
  decode_into e 0 (VStruct [VInt 7; VStr [98; 111; 111; 109]]) (w_int32 5 0)
  = DOk (VStruct [VInt 5; VStr []]) [].
Proof. exact GenProofs.reuse_witness. Qed.

(* FIRST CLAUSE AT FULL STRENGTH: unknown fields at EVERY struct level. xfields e fds vs Js body (RoundTrip.v: xenc)
   says that body encodes the members vs with the groups Js of unknown fields in front of the members, and that
   every struct value nested in them - as a member, vector/array element, map key or value, at any depth - again
   carries arbitrary groups of well-formed unknown fields in front of its members and after its last member. For
   every wf_schema environment, every struct type with a finite type graph and every well-typed value, such an
   encoding followed by trailing unknown fields decodes to the same value as the clean encoding, and the cursor
   stops in front of the trailing top-level unknown fields. *)
Theorem C04_extras_nested : forall e k n sid vs Js body Jl,
  wf_schema k e -> (S k <= 64)%nat -> tfin n e (TStruct sid) = true -> (tneed n e (TStruct sid) + k <= 64)%nat ->
  has_type e (TStruct sid) (VStruct vs) ->
  xfields e (fields_of e sid) vs Js body -> junks_ok None (fields_of e sid) Js -> trailing_ok (fields_of e sid) Jl ->
  decode e sid (body ++ ser_fields Jl) = DOk (norm_struct e sid (VStruct vs)) (ser_fields Jl)
  /\ decode e sid (encode e sid (VStruct vs)) = DOk (norm_struct e sid (VStruct vs)) [].
Proof. exact NestedProofs.extras_nested. Qed.
(* instantiated on the schemas regenerated from the tree *)
Theorem C04_code_schemas_extras_nested : forall sid vs Js body Jl, fits_model sid = true ->
  has_type env0 (TStruct sid) (VStruct vs) ->
  xfields env0 (fields_of env0 sid) vs Js body -> junks_ok None (fields_of env0 sid) Js -> trailing_ok (fields_of env0 sid) Jl ->
  decode env0 sid (body ++ ser_fields Jl) = DOk (norm_struct env0 sid (VStruct vs)) (ser_fields Jl)
  /\ decode env0 sid (encode env0 sid (VStruct vs)) = DOk (norm_struct env0 sid (VStruct vs)) [].
Proof. exact RoundTripExamples.env0_extras_nested. Qed.
(* the same for any struct type (recursive ones included) and ANY target, with the explicit fuel hypothesis *)
Theorem C04_extras_nested_into : forall e k sid vs prior Js body tail,
  wf_schema k e -> has_type e (TStruct sid) (VStruct vs) ->
  xfields e (fields_of e sid) vs Js body -> junks_ok None (fields_of e sid) Js ->
  (forall fd, In fd (fields_of e sid) -> follows (ftag fd) tail) ->
  (need_list vs + k + 3 <= 2 * length (body ++ tail) + 64)%nat ->
  decode_into e sid prior (body ++ tail) = DOk (norm_struct e sid (VStruct vs)) tail.
Proof. exact NestedProofs.decode_into_nested. Qed.

(* THE LAST CLAUSE, "so old readers and new writers, and vice versa, interoperate", between two versions of a struct type
   kept in one schema environment (Codec/EvolveProofs.v).
   Old writer -> new reader. evolves e fn fo vo vn: the new member list fn is the old one fo with OPTIONAL members added
   anywhere (of scalar, string, vector, byte-vector or map type, whose default is a value the writer leaves out), and vn
   is vo with every added member at its default (dflt: the declared default, else the zero value). The bytes the old
   writer produces for vo decode, with the new schema, everything consumed, to vn (normal form). *)
Theorem C04_old_writer_new_reader : forall e k n so sn vo vn,
  wf_schema k e -> (S k <= 64)%nat -> tfin n e (TStruct sn) = true -> (tneed n e (TStruct sn) + k <= 64)%nat ->
  evolves e (fields_of e sn) (fields_of e so) vo vn -> has_type e (TStruct so) (VStruct vo) ->
  decode e sn (encode e so (VStruct vo)) = DOk (norm_struct e sn (VStruct vn)) [].
Proof. exact EvolveProofs.old_writer_new_reader. Qed.
(* The same direction for added optional members of ANY type (fixed arrays and nested structs included), i.e. "an absent
   optional field decodes to its IDL default" at struct level for every member type: grows fn fo - fn is fo with optional
   members added; merged - the decoded members are the writer's values (normal forms) at the old positions and, at every
   added position, an admissible reset value of the member's type (prior_ok: the declared default, else the Go zero
   value - for a nested struct its own members reset the same way) *)
Theorem C04_old_writer_new_reader_any : forall e k, wf_schema k e -> forall n so sn vo,
  (S k <= 64)%nat -> tfin n e (TStruct sn) = true -> (tneed n e (TStruct sn) + k <= 64)%nat ->
  grows (fields_of e sn) (fields_of e so) -> has_type e (TStruct so) (VStruct vo) ->
  exists vs, decode e sn (encode e so (VStruct vo)) = DOk (VStruct vs) [] /\ merged e (fields_of e sn) (fields_of e so) vo vs.
Proof. exact Evolve2Proofs.old_writer_new_reader_any. Qed.
Theorem C04_old_writer_new_reader_any_example :
  grows (fields_of gr_schema 1) (fields_of gr_schema 0) /\
  decode gr_schema 1 (encode gr_schema 0 (VStruct [VInt 7])) = DOk (VStruct [VInt 7; VList [VInt 0; VInt 0]; VStruct [VInt 0]; VInt 9]) [].
Proof. exact Evolve2Proofs.gr_example. Qed.
(* New writer -> old reader. projects e fn fo vn vo Js Jl: fn is fo with members added (of ANY type, optional or
   required), vo is vn without them, Js / Jl are the added members that are on the wire, as wire fields. The bytes the
   new writer produces for vn (shorter than 2^30) decode, with the old schema, to vo (normal form), and the cursor stops
   exactly in front of the added members that follow the old schema's last member. *)
Theorem C04_new_writer_old_reader : forall e k n so sn vn vo Js Jl,
  wf_schema k e -> (S k <= 64)%nat ->
  tfin n e (TStruct so) = true -> (tneed n e (TStruct so) + k <= 64)%nat ->
  tfin n e (TStruct sn) = true -> (tneed n e (TStruct sn) <= 512)%nat ->
  projects e (fields_of e sn) (fields_of e so) vn vo Js Jl -> has_type e (TStruct sn) (VStruct vn) ->
  N.of_nat (length (encode e sn (VStruct vn))) < 1073741824 ->
  decode e so (encode e sn (VStruct vn)) = DOk (norm_struct e so (VStruct vo)) (ser_fields Jl).
Proof. exact EvolveProofs.new_writer_old_reader. Qed.
(* the hypotheses are satisfiable: three versions of a struct type (an optional string with a default added in the
   middle and an optional map at the end; a required nested struct and a required byte vector added) *)
Theorem C04_evolution_examples :
  decode ev_schema 1 (encode ev_schema 0 (VStruct ev_v1))
    = DOk (VStruct [VInt 7; VStr [110; 111]; VList [VStr [97]; VStr []]; VMap []]) [] /\
  decode ev_schema 0 (encode ev_schema 2 (VStruct ev_v3))
    = DOk (VStruct [VInt 7; VList [VStr [98]]]) (ser_fields [(200, WSimple [1; 2])]).
Proof. exact (conj EvolveProofs.ev_old_to_new EvolveProofs.ev_new_to_old). Qed.

Print Assumptions C04_skip_exact.
Print Assumptions C04_extras_ignored.
Print Assumptions C04_extras_ignored_into.
Print Assumptions C04_extras_nested.
Print Assumptions C04_code_schemas_extras_nested.
Print Assumptions C04_extras_nested_into.
Print Assumptions C04_member_absent_required.
Print Assumptions C04_required_absent.
Print Assumptions C04_member_absent_optional.
Print Assumptions C04_declared_default.
Print Assumptions C04_reset_every_member.
Print Assumptions C04_reuse.
Print Assumptions C04_reuse_fresh.
Print Assumptions C04_reuse_member.
Print Assumptions C04_reuse_witness.
Print Assumptions C04_old_writer_new_reader.
Print Assumptions C04_new_writer_old_reader.
Print Assumptions C04_evolution_examples.
Print Assumptions C04_old_writer_new_reader_any.
Print Assumptions C04_old_writer_new_reader_any_example.
