(* C06 — truncated or mistyped input is rejected, never decoded into made-up data. Statements only. *)
From Coq Require Import List NArith ZArith.
From TarsV Require Import Base.Hex Codec.Wire Codec.Skip Codec.Prim Codec.PrimProofs Codec.GenCodec Codec.Corr Codec.GenProofs
  Codec.RoundTrip Codec.RoundTripProofs Codec.PrefixProofs Codec.PrefixGenProofs Codec.RoundTripExamples Codec.Damage Codec.DamageProofs Codec.TypedProofs Codec.CanonExamples Codec.CorrT Gen.Schemas.
From TarsV Require Xlate.ReaderSliceEquiv.
Import ListNotations.
Open Scope N_scope.

(* fixed-width reads: all n bytes are there and are the value, or the read fails; never zero-padded *)
Theorem C06_fixed_width_exact : forall n bs v r, bread n bs = Some (v, r) ->
  bs = firstn n bs ++ r /\ length (firstn n bs) = n /\ v = be_val 0 (firstn n bs).
Proof. exact GenProofs.bread_exact. Qed.
Theorem C06_fixed_width_truncated : forall n bs, (length bs < n)%nat -> bread n bs = None.
Proof. exact GenProofs.bread_truncated. Qed.
(* strings and byte vectors: the announced length is all there, or an error; never partial, never zero-filled *)
Theorem C06_string_exact : forall l r s r', take_str l r = Some (s, r') -> r = s ++ r' /\ N.of_nat (length s) = l.
Proof. exact GenProofs.take_str_exact. Qed.
Theorem C06_string_truncated : forall l r, N.of_nat (length r) < l -> take_str l r = None.
Proof. exact GenProofs.take_str_truncated. Qed.
Theorem C06_bytes_exact : forall n r s r', read_slice n r = Some (s, r') -> r = s ++ r' /\ Z.of_nat (length s) = n.
Proof. exact GenProofs.read_slice_exact. Qed.
Theorem C06_bytes_truncated : forall n r, (Z.of_nat (length r) < n)%Z -> read_slice n r = None.
Proof. exact GenProofs.read_slice_truncated. Qed.
Theorem C06_bytes_negative : forall n r, (n < 0)%Z -> read_slice n r = None.
Proof. exact GenProofs.read_slice_negative. Qed.

(* member level, every scalar member type (bool, all integer widths, floats, strings, enums), any tag, required or
   optional: a non-empty proper prefix of the member's encoding is an error - with the single exception that
   the first byte of a two-byte head on its own makes an OPTIONAL member absent (nothing is made up: the
   member keeps the target's value and the stray byte is dropped) *)
Theorem C06_scalar_prefix : forall f tag req t v prior p q, scalar_ty t = true -> sc_typed t v -> tag < 256 ->
  w_scalar t v tag = p ++ q -> q <> [] -> p <> [] ->
  dec_scalar (S f) tag req t prior p = DErr \/ (req = false /\ halfhead p /\ dec_scalar (S f) tag req t prior p = DOk prior []).
Proof. exact PrefixProofs.scalar_prefix. Qed.

(* struct level, every wf_schema environment, every FLAT struct type (all members scalar), every well-typed
   value, EVERY prefix p of its encoding: decoding p fails, or succeeds with exactly the first i members - those
   whose encodings are completely contained in p - and all later members optional and at their reset values
   (prior_ok: the declared default, else the zero value); nothing is left unread *)
Theorem C06_prefix_flat : forall e k sid vs p q,
  wf_schema k e -> (S k <= 64)%nat -> flat (fields_of e sid) -> (length (fields_of e sid) + 4 <= 64)%nat ->
  has_type e (TStruct sid) (VStruct vs) -> encode e sid (VStruct vs) = p ++ q ->
  decode e sid p = DErr \/
  exists i h ps, (i <= length (fields_of e sid))%nat /\
    p = enc_fields e (firstn i vs) (firstn i (fields_of e sid)) ++ h /\ (h = [] \/ halfhead h) /\
    optional (skipn i (fields_of e sid)) /\
    Forall2 (fun fd p => prior_ok e (fty fd) (fdef fd) p) (fields_of e sid) ps /\
    decode e sid p = DOk (VStruct (firstn i (norm_fields e vs (fields_of e sid)) ++ skipn i ps)) [].
Proof. exact PrefixProofs.prefix_flat. Qed.
Theorem C06_code_schemas_prefix_flat : forall sid vs p q, flat_b (fields_of env0 sid) = true ->
  (length (fields_of env0 sid) + 4 <= 64)%nat ->
  has_type env0 (TStruct sid) (VStruct vs) -> encode env0 sid (VStruct vs) = p ++ q ->
  decode env0 sid p = DErr \/
  exists i h ps, (i <= length (fields_of env0 sid))%nat /\
    p = enc_fields env0 (firstn i vs) (firstn i (fields_of env0 sid)) ++ h /\ (h = [] \/ halfhead h) /\
    optional (skipn i (fields_of env0 sid)) /\
    Forall2 (fun fd p => prior_ok env0 (fty fd) (fdef fd) p) (fields_of env0 sid) ps /\
    decode env0 sid p = DOk (VStruct (firstn i (norm_fields env0 vs (fields_of env0 sid)) ++ skipn i ps)) [].
Proof. exact RoundTripExamples.env0_prefix_flat. Qed.
Theorem C06_code_schemas_flat_examples :
  forallb (fun sid => flat_b (fields_of env0 sid) && (length (fields_of env0 sid) + 4 <=? 64)%nat)
          [sid_verifidl_Scalars; sid_endpointf_EndpointF; sid_authf_BasicAuthInfo; sid_authf_TokenKey] = true.
Proof. exact RoundTripExamples.env0_flat_examples. Qed.

(* a present field whose wire type is not admissible for the IDL type of its tag is rejected: member level, every
   type constructor (scalars, vectors, byte vectors, arrays, maps, structs), behind any unknown fields ... *)
Theorem C06_inadmissible_member : forall e f tag req t prior lo J ty r,
  junk_ok lo tag J -> ty < 16 -> tag < 256 -> (ty =? tSE) = false -> adm t ty = false ->
  (2 * length (ser_fields J ++ head ty tag ++ r) + 3 <= f)%nat ->
  dec_var (S f) e tag req t prior (ser_fields J ++ head ty tag ++ r) = DErr.
Proof. exact PrefixProofs.inadmissible_member. Qed.
(* ... and struct level, any struct type with a finite type graph: the members before it encoded normally,
   then a field of an inadmissible wire type under the member's tag, then anything *)
Theorem C06_inadmissible_rejected : forall e k n sid fds1 fd fds2 vs1 ty r,
  wf_schema k e -> (S k <= 64)%nat -> fields_of e sid = fds1 ++ fd :: fds2 ->
  Forall2 (fun fd x => has_type e (fty fd) x) fds1 vs1 ->
  ty < 16 -> (ty =? tSE) = false -> adm (fty fd) ty = false ->
  tfin n e (TStruct sid) = true -> (tneed n e (TStruct sid) + k <= 64)%nat ->
  decode e sid (enc_fields e vs1 fds1 ++ head ty (ftag fd) ++ r) = DErr.
Proof. exact PrefixProofs.inadmissible_rejected. Qed.

(* THE PREFIX CLAUSE AT STRUCT LEVEL FOR ALL MEMBER TYPES: every wf_schema environment, every struct type with a
   finite type graph (members of string, byte-vector, vector, fixed-array, map and nested struct types included),
   every well-typed value, EVERY prefix p of its encoding: decoding p fails with an error, or succeeds
   with exactly the first i members, whose encodings are completely contained in p (p is their encoding,
   possibly followed by the lone first byte of a two-byte head), all later members being optional and holding
   admissible reset values (declared default, else zero), and nothing left unread. A cut inside a string, byte
   vector, list, map or nested struct therefore always fails: no partial strings, no zero-filled buffers, no
   shortened containers. *)
(* the clause for every struct type, recursive ones included, kept visible; proved below for finite type graphs *)
Definition C06_prefix_statement : Prop := forall e k sid vs p q,
  wf_schema k e -> has_type e (TStruct sid) (VStruct vs) -> encode e sid (VStruct vs) = p ++ q ->
  decode e sid p = DErr \/
  exists i h ps, (i <= length (fields_of e sid))%nat /\
    p = enc_fields e (firstn i vs) (firstn i (fields_of e sid)) ++ h /\ (h = [] \/ halfhead h) /\
    optional (skipn i (fields_of e sid)) /\
    Forall2 (fun fd pr => prior_ok e (fty fd) (fdef fd) pr) (fields_of e sid) ps /\
    decode e sid p = DOk (VStruct (firstn i (norm_fields e vs (fields_of e sid)) ++ skipn i ps)) [].
Theorem C06_prefix_general_partial : forall e k n sid vs p q,
  wf_schema k e -> (S k <= 64)%nat -> tfin n e (TStruct sid) = true -> (tneed n e (TStruct sid) + k <= 64)%nat ->
  has_type e (TStruct sid) (VStruct vs) -> encode e sid (VStruct vs) = p ++ q ->
  decode e sid p = DErr \/
  exists i h ps, (i <= length (fields_of e sid))%nat /\
    p = enc_fields e (firstn i vs) (firstn i (fields_of e sid)) ++ h /\ (h = [] \/ halfhead h) /\
    optional (skipn i (fields_of e sid)) /\
    Forall2 (fun fd pr => prior_ok e (fty fd) (fdef fd) pr) (fields_of e sid) ps /\
    decode e sid p = DOk (VStruct (firstn i (norm_fields e vs (fields_of e sid)) ++ skipn i ps)) [].
Proof. exact PrefixGenProofs.prefix_general. Qed.
Theorem C06_code_schemas_prefix_general : forall sid vs p q, fits_model sid = true ->
  has_type env0 (TStruct sid) (VStruct vs) -> encode env0 sid (VStruct vs) = p ++ q ->
  decode env0 sid p = DErr \/
  exists i h ps, (i <= length (fields_of env0 sid))%nat /\
    p = enc_fields env0 (firstn i vs) (firstn i (fields_of env0 sid)) ++ h /\ (h = [] \/ halfhead h) /\
    optional (skipn i (fields_of env0 sid)) /\
    Forall2 (fun fd pr => prior_ok env0 (fty fd) (fdef fd) pr) (fields_of env0 sid) ps /\
    decode env0 sid p = DOk (VStruct (firstn i (norm_fields env0 vs (fields_of env0 sid)) ++ skipn i ps)) [].
Proof. exact RoundTripExamples.env0_prefix_general. Qed.
(* member level, every type: a proper prefix of a member's encoding is an error (or, optional member and nothing /
   the lone first head byte present: the member is absent) *)
Theorem C06_member_prefix : forall e k, wf_schema k e -> forall f m t tag req d v prior p q,
  tfin m e t = true -> has_type e t v -> ty_nest k e t = true -> tag < 256 ->
  (d <> None -> scalar_ty t = true) -> prior_ok e t d prior ->
  enc_var e tag req t d v = p ++ q -> q <> [] -> (tneed m e t + k + 4 * length p + 3 <= f)%nat ->
  dec_var f e tag req t prior p = DErr \/
  (req = false /\ (p = [] \/ halfhead p) /\ exists x, dec_var f e tag req t prior p = DOk x [] /\ prior_ok e t d x).
Proof. exact (fun e k Hwf f => proj1 (PrefixGenProofs.w_all e k Hwf f)). Qed.

(* EMBEDDED LENGTHS that announce more than remains, member level, behind any unknown fields, whatever the rest of
   the input is: a string length (1-byte and 4-byte form) -> error; a byte-vector (SimpleList) count -> error;
   a LIST count beyond the bytes left, a MAP count beyond half the bytes left -> error before anything is allocated
   or decoded; a fixed-array count above the array's length -> error (the pinned code indexed past the end:
   Codec/Pinned.v C06_array_count_pinned_refuted) *)
Theorem C06_inflated_string_member : forall e f tag req prior lo J (four : bool) l r,
  junk_ok lo tag J -> tag < 256 -> N.of_nat (length r) < l -> l < (if four then 4294967296 else 256) ->
  let field := (if four then head tSTR4 tag ++ be 4 l else head tSTR1 tag ++ [l]) ++ r in
  (2 * length (ser_fields J ++ field) + 3 <= f)%nat ->
  dec_var (S f) e tag req TStr prior (ser_fields J ++ field) = DErr.
Proof. exact PrefixProofs.inflated_string_member. Qed.
Theorem C06_inflated_bytes_member : forall e f tag req x prior lo J n r,
  junk_ok lo tag J -> tag < 256 -> is_byte x = true -> (length r < n)%nat -> N.of_nat n < 2147483648 ->
  let field := head tSIMPLE tag ++ head tBYTE 0 ++ w_int32 (Z.of_nat n) 0 ++ r in
  (2 * length (ser_fields J ++ field) + 3 <= f)%nat ->
  dec_var (S f) e tag req (TVec x) prior (ser_fields J ++ field) = DErr.
Proof. exact PrefixProofs.inflated_bytes_member. Qed.
Theorem C06_inflated_list_member : forall e f tag req x prior lo J n r,
  junk_ok lo tag J -> tag < 256 -> (length r < n)%nat -> N.of_nat n < 2147483648 ->
  let field := head tLIST tag ++ w_int32 (Z.of_nat n) 0 ++ r in
  (2 * length (ser_fields J ++ field) + 3 <= f)%nat ->
  dec_var (S f) e tag req (TVec x) prior (ser_fields J ++ field) = DErr.
Proof. exact PrefixProofs.inflated_list_member. Qed.
Theorem C06_inflated_map_member : forall e f tag req kt vt prior lo J n r,
  junk_ok lo tag J -> tag < 256 -> (length r < 2 * n)%nat -> N.of_nat n < 2147483648 ->
  let field := head tMAP tag ++ w_int32 (Z.of_nat n) 0 ++ r in
  (2 * length (ser_fields J ++ field) + 3 <= f)%nat ->
  dec_var (S f) e tag req (TMap kt vt) prior (ser_fields J ++ field) = DErr.
Proof. exact PrefixProofs.inflated_map_member. Qed.
Theorem C06_array_count_member : forall e f tag req len x prior lo J n r,
  junk_ok lo tag J -> tag < 256 -> (len < n)%nat -> N.of_nat n < 2147483648 ->
  let field := head tLIST tag ++ w_int32 (Z.of_nat n) 0 ++ r in
  (2 * length (ser_fields J ++ field) + 3 <= f)%nat ->
  dec_var (S f) e tag req (TArr len x) prior (ser_fields J ++ field) = DErr.
Proof. exact PrefixProofs.array_count_member. Qed.
(* struct level: the members before it encoded normally, then a string member announcing more than is left *)
Theorem C06_inflated_string_rejected : forall e k n sid fds1 fd fds2 vs1 (four : bool) l r,
  wf_schema k e -> (S k <= 64)%nat -> fields_of e sid = fds1 ++ fd :: fds2 -> fty fd = TStr ->
  Forall2 (fun fd x => has_type e (fty fd) x) fds1 vs1 ->
  N.of_nat (length r) < l -> l < (if four then 4294967296 else 256) ->
  tfin n e (TStruct sid) = true -> (tneed n e (TStruct sid) + k <= 64)%nat ->
  decode e sid (enc_fields e vs1 fds1 ++ (if four then head tSTR4 (ftag fd) ++ be 4 l else head tSTR1 (ftag fd) ++ [l]) ++ r) = DErr.
Proof. exact PrefixProofs.inflated_string_rejected. Qed.
(* the hand-written table of admissible wire types (adm) is exactly the acceptance set of the decoder model: for every
   non-struct type shape and each of the 16 wire type codes, a field of that wire type followed by a zero body is
   refused iff adm says "not admissible" (by evaluation; with C06_inadmissible_member the table cannot drift from the
   model's readers, which are tied to the Go readers by Xlate/ReaderEquiv.v and the correspondence) *)
Theorem C06_adm_is_acceptance :
  forallb (fun t => forallb (fun wt => Bool.eqb (adm_probe t wt) (adm t wt && negb (wt =? tSE))) (map N.of_nat (seq 0 16))) adm_types = true.
Proof. exact DamageProofs.adm_is_acceptance. Qed.

(* NEVER MADE-UP DATA, typing half: whatever the input (any bytes < 256, shorter than 2^31) and whatever the target
   held, a value the decoder returns is a value of the struct's IDL type - every integer within the range of its Go
   type (no wrong sign extension, no wrap), float bit patterns of the member's width, strings and byte vectors no
   longer than the input, vectors and maps with a count the input can hold, fixed arrays of exactly the declared
   length, struct members typed by the schema, recursively - and the unread rest is a suffix of the input. Every
   wf_schema environment with typed defaults and expressible array lengths, every struct type with a finite type graph. *)
Theorem C06_decode_typed : forall e k, wf_schema k e -> defaults_typed e -> arrs_ok e -> forall n sid prior bs v r,
  (S k <= 64)%nat -> tfin n e (TStruct sid) = true -> (tneed n e (TStruct sid) + k <= 64)%nat ->
  bytes_ok bs -> lenok bs -> decode_into e sid prior bs = DOk v r -> has_type e (TStruct sid) v /\ sfx r bs.
Proof. exact TypedProofs.decode_typed. Qed.
Theorem C06_code_schemas_decode_typed : forall sid prior bs v r, fits_model sid = true -> bytes_ok bs -> lenok bs ->
  decode_into env0 sid prior bs = DOk v r -> has_type env0 (TStruct sid) v /\ sfx r bs.
Proof. exact CanonExamples.env0_decode_typed. Qed.
(* the scalar readers alone, any bytes: the value is in the member type's range *)
Theorem C06_scalar_typed : forall f tag req t prior bs v r, scalar_ty t = true -> sc_typed t prior -> bytes_ok bs -> lenok bs ->
  dec_scalar f tag req t prior bs = DOk v r -> sc_typed t v /\ sfx r bs.
Proof. exact TypedProofs.dec_scalar_typed. Qed.

(* DAMAGE AT ANY DEPTH (Codec/Damage.v). spot: a field under the member's tag that the reader of the member's IDL
   type refuses on its own - a wire type it does not accept (the single-field wire-type substitution), or a string
   length / byte-vector count / list count / map count / fixed-array count announcing more than is left - followed by
   anything. dmg: the encoding of a member in which such a spot sits at any depth - in the member itself, in an
   element of a vector or fixed array (after any number of normally encoded elements, under any count that reaches
   it), in a key or a value of a map, in a member of a nested struct, recursively - everything in front of the spot
   encoded normally. Every wf_schema environment, every struct type with a finite type graph: the members in front
   encoded normally, then a member damaged at any depth, then anything: rejected. This closes the clauses
   "every inflation of an embedded length" and "every substitution of one field by a field of an inadmissible wire
   type" for nested positions, which were decided by the correspondence only. *)
Theorem C06_damage_rejected : forall e k n sid fds1 fd fds2 vs1 bs',
  wf_schema k e -> (S k <= 64)%nat -> fields_of e sid = fds1 ++ fd :: fds2 ->
  Forall2 (fun fd x => has_type e (fty fd) x) fds1 vs1 -> dmg e (ftag fd) (fty fd) bs' ->
  tfin n e (TStruct sid) = true -> (tneed n e (TStruct sid) + k <= 64)%nat ->
  decode e sid (enc_fields e vs1 fds1 ++ bs') = DErr.
Proof. exact DamageProofs.damage_rejected. Qed.
(* member level, any target that is admissible for the member, fuel linear in the bytes *)
Theorem C06_damaged_member : forall e k, wf_schema k e -> forall tag t bs, dmg e tag t bs ->
  forall m f req d prior, tfin m e t = true -> ty_nest k e t = true -> tag < 256 ->
  (d <> None -> scalar_ty t = true) -> prior_ok e t d prior ->
  (tneed m e t + k + 4 * length bs + 3 <= f)%nat -> dec_var f e tag req t prior bs = DErr.
Proof. exact DamageProofs.dmg_rejected. Qed.
Theorem C06_code_schemas_damage_rejected : forall sid fds1 fd fds2 vs1 bs', fits_model sid = true ->
  fields_of env0 sid = fds1 ++ fd :: fds2 -> Forall2 (fun fd x => has_type env0 (fty fd) x) fds1 vs1 ->
  dmg env0 (ftag fd) (fty fd) bs' -> decode env0 sid (enc_fields env0 vs1 fds1 ++ bs') = DErr.
Proof. exact CanonExamples.env0_damage_rejected. Qed.
(* the hypotheses are satisfiable: a wire-type substitution two struct levels down inside the second element of a
   vector, and a string length inflated in a map value of a nested struct *)
Theorem C06_damage_examples :
  dmg d_schema 2 (TVec (TStruct 1)) d_bytes1 /\ dmg d_schema 2 (TVec (TStruct 1)) d_bytes2 /\
  decode d_schema 0 (enc_fields d_schema [VInt 1] [ {| ftag := 0; freq := true; fty := TI32; fdef := None |} ] ++ d_bytes1) = DErr /\
  decode d_schema 0 (enc_fields d_schema [VInt 1] [ {| ftag := 0; freq := true; fty := TI32; fdef := None |} ] ++ d_bytes2) = DErr.
Proof. exact (conj DamageProofs.d_damaged1 (conj DamageProofs.d_damaged2 DamageProofs.d_rejected)). Qed.
(* not covered by dmg: a damaged spot behind unknown fields inside a nested value, and damage to the inner head of a
   SimpleList; those stay with the correspondence + monitors *)

Print Assumptions C06_fixed_width_exact. Print Assumptions C06_fixed_width_truncated.
Print Assumptions C06_string_exact. Print Assumptions C06_string_truncated.
Print Assumptions C06_bytes_exact. Print Assumptions C06_bytes_truncated. Print Assumptions C06_bytes_negative.
Print Assumptions C06_scalar_prefix.
Print Assumptions C06_prefix_flat.
Print Assumptions C06_code_schemas_prefix_flat.
Print Assumptions C06_code_schemas_flat_examples.
Print Assumptions C06_prefix_general_partial.
Print Assumptions C06_code_schemas_prefix_general.
Print Assumptions C06_member_prefix.
Print Assumptions C06_inflated_string_member.
Print Assumptions C06_inflated_bytes_member.
Print Assumptions C06_inflated_list_member.
Print Assumptions C06_inflated_map_member.
Print Assumptions C06_array_count_member.
Print Assumptions C06_inflated_string_rejected.
Print Assumptions C06_inadmissible_member.
Print Assumptions C06_inadmissible_rejected.
Print Assumptions C06_damage_rejected.
Print Assumptions C06_damaged_member.
Print Assumptions C06_code_schemas_damage_rejected.
Print Assumptions C06_damage_examples.
Print Assumptions C06_decode_typed.
Print Assumptions C06_code_schemas_decode_typed.
Print Assumptions C06_scalar_typed.
Print Assumptions C06_adm_is_acceptance.
