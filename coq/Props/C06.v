(* C06 — truncated or mistyped input is rejected, never decoded into made-up data. Statements only. *)
From Coq Require Import List NArith ZArith.
From TarsV Require Import Base.Hex Codec.Wire Codec.Skip Codec.Prim Codec.PrimProofs Codec.GenCodec Codec.Corr Codec.GenProofs
  Codec.RoundTrip Codec.RoundTripProofs Codec.PrefixProofs Codec.RoundTripExamples Gen.Schemas.
Import ListNotations.
Open Scope N_scope.

(* fixed-width reads: all n bytes are there and are the value, or the read fails; never zero-padded *)
Theorem C06_fixed_width_exact : forall n bs v r, bread n bs = Some (v, r) ->
  bs = firstn n bs ++ r /\ length (firstn n bs) = n /\ v = be_val 0 (firstn n bs).
Proof. exact GenProofs.bread_exact. Qed.
Theorem C06_fixed_width_truncated : forall n bs, (length bs < n)%nat -> bread n bs = None.
Proof. exact GenProofs.bread_truncated. Qed.
(* strings and byte vectors: the announced length is all there, or an error; never partial, never zero-filled *)
Theorem C06_string_exact : forall l r s r', take_str l r = Some (s, r') -> r = s ++ r' /\ N.of_nat (length s) = l.
Proof. exact GenProofs.take_str_exact. Qed.
Theorem C06_string_truncated : forall l r, N.of_nat (length r) < l -> take_str l r = None.
Proof. exact GenProofs.take_str_truncated. Qed.
Theorem C06_bytes_exact : forall n r s r', read_slice n r = Some (Some s, r') -> r = s ++ r' /\ Z.of_nat (length s) = n.
Proof. exact GenProofs.read_slice_exact. Qed.
Theorem C06_bytes_truncated : forall n r, (0 < n)%Z -> (Z.of_nat (length r) < n)%Z -> read_slice n r = None.
Proof. exact GenProofs.read_slice_truncated. Qed.

(* member level, every scalar member type (bool, all integer widths, floats, strings, enums), any tag, required or
   optional: a non-empty proper prefix of the member's encoding is an error - with the single exception that
   the first byte of a two-byte head on its own makes an OPTIONAL member absent (nothing is made up: the
   member keeps the target's value and the stray byte is dropped) *)
Theorem C06_scalar_prefix : forall f tag req t v prior p q, scalar_ty t = true -> sc_typed t v -> tag < 256 ->
  w_scalar t v tag = p ++ q -> q <> [] -> p <> [] ->
  dec_scalar (S f) tag req t prior p = DErr \/ (req = false /\ halfhead p /\ dec_scalar (S f) tag req t prior p = DOk prior []).
Proof. exact PrefixProofs.scalar_prefix. Qed.

(* struct level, every wf_schema environment, every FLAT struct type (all members scalar), every well-typed
   value, EVERY prefix p of its encoding: decoding p fails, or succeeds with exactly the first i members - those
   whose encodings are completely contained in p - and all later members optional and at their reset values
   (prior_ok: the declared default, else the zero value); nothing is left unread *)
Theorem C06_prefix_flat : forall e k sid vs p q,
  wf_schema k e -> (S k <= 64)%nat -> flat (fields_of e sid) -> (length (fields_of e sid) + 4 <= 64)%nat ->
  has_type e (TStruct sid) (VStruct vs) -> encode e sid (VStruct vs) = p ++ q ->
  decode e sid p = DErr \/
  exists i h ps, (i <= length (fields_of e sid))%nat /\
    p = enc_fields e (firstn i vs) (firstn i (fields_of e sid)) ++ h /\ (h = [] \/ halfhead h) /\
    optional (skipn i (fields_of e sid)) /\
    Forall2 (fun fd p => prior_ok e (fty fd) (fdef fd) p) (fields_of e sid) ps /\
    decode e sid p = DOk (VStruct (firstn i (norm_fields e vs (fields_of e sid)) ++ skipn i ps)) [].
Proof. exact PrefixProofs.prefix_flat. Qed.
Theorem C06_code_schemas_prefix_flat : forall sid vs p q, flat_b (fields_of env0 sid) = true ->
  has_type env0 (TStruct sid) (VStruct vs) -> encode env0 sid (VStruct vs) = p ++ q ->
  decode env0 sid p = DErr \/
  exists i h ps, (i <= length (fields_of env0 sid))%nat /\
    p = enc_fields env0 (firstn i vs) (firstn i (fields_of env0 sid)) ++ h /\ (h = [] \/ halfhead h) /\
    optional (skipn i (fields_of env0 sid)) /\
    Forall2 (fun fd p => prior_ok env0 (fty fd) (fdef fd) p) (fields_of env0 sid) ps /\
    decode env0 sid p = DOk (VStruct (firstn i (norm_fields env0 vs (fields_of env0 sid)) ++ skipn i ps)) [].
Proof. exact RoundTripExamples.env0_prefix_flat. Qed.
Theorem C06_code_schemas_flat_types :
  filter (fun sid => flat_b (fields_of env0 sid)) (seq 0 (length env0)) = [3; 4; 6; 9; 10; 11; 12; 13; 14; 15; 17; 20; 22; 23; 29]%nat.
Proof. exact RoundTripExamples.env0_flat_types. Qed.

(* a present field whose wire type is not admissible for the IDL type of its tag is rejected: member level, every
   type constructor (scalars, vectors, byte vectors, arrays, maps, structs), behind any unknown fields ... *)
Theorem C06_inadmissible_member : forall e f tag req t prior lo J ty r,
  junk_ok lo tag J -> ty < 16 -> tag < 256 -> (ty =? tSE) = false -> adm t ty = false ->
  (2 * length (ser_fields J ++ head ty tag ++ r) + 3 <= f)%nat ->
  dec_var (S f) e tag req t prior (ser_fields J ++ head ty tag ++ r) = DErr.
Proof. exact PrefixProofs.inadmissible_member. Qed.
(* ... and struct level, any struct type with a finite type graph: the members before it encoded normally,
   then a field of an inadmissible wire type under the member's tag, then anything *)
Theorem C06_inadmissible_rejected : forall e k n sid fds1 fd fds2 vs1 ty r,
  wf_schema k e -> (S k <= 64)%nat -> fields_of e sid = fds1 ++ fd :: fds2 ->
  Forall2 (fun fd x => has_type e (fty fd) x) fds1 vs1 ->
  ty < 16 -> (ty =? tSE) = false -> adm (fty fd) ty = false ->
  tfin n e (TStruct sid) = true -> (tneed n e (TStruct sid) + k <= 64)%nat ->
  decode e sid (enc_fields e vs1 fds1 ++ head ty (ftag fd) ++ r) = DErr.
Proof. exact PrefixProofs.inadmissible_rejected. Qed.

(* full statement of the prefix clause for ALL struct types (members of container and struct types included),
   kept visible; proved above for flat structs, decided on every run by the correspondence + monitors on every
   generated struct type (all prefixes of small encodings, sampled prefixes, every embedded length inflated) *)
Definition C06_prefix_statement : Prop :=
  forall (e : env) (k : nat) (sid : nat) (vs : list val) (p q : list N),
  wf_schema k e -> has_type e (TStruct sid) (VStruct vs) -> encode e sid (VStruct vs) = p ++ q -> q <> [] ->
  match decode e sid p with
  | DErr | DHuge => True
  | DOk v r => exists i ps, v = VStruct (firstn i (norm_fields e vs (fields_of e sid)) ++ skipn i ps) /\
                            Forall2 (fun fd p => prior_ok e (fty fd) (fdef fd) p) (fields_of e sid) ps
  | _ => False
  end.

Print Assumptions C06_fixed_width_exact. Print Assumptions C06_fixed_width_truncated.
Print Assumptions C06_string_exact. Print Assumptions C06_string_truncated.
Print Assumptions C06_bytes_exact. Print Assumptions C06_bytes_truncated.
Print Assumptions C06_scalar_prefix.
Print Assumptions C06_prefix_flat.
Print Assumptions C06_code_schemas_prefix_flat.
Print Assumptions C06_code_schemas_flat_types.
Print Assumptions C06_inadmissible_member.
Print Assumptions C06_inadmissible_rejected.
