(* C06 — truncated or mistyped input is rejected, never decoded into made-up data. Statements only. *)
From Coq Require Import List NArith ZArith.
From TarsV Require Import Base.Hex Codec.Wire Codec.Skip Codec.Prim Codec.PrimProofs Codec.GenCodec Codec.Corr Codec.GenProofs.
Import ListNotations.
Open Scope N_scope.

(* fixed-width reads: all n bytes are there and are the value, or the read fails; never zero-padded *)
Theorem C06_fixed_width_exact : forall n bs v r, bread n bs = Some (v, r) ->
  bs = firstn n bs ++ r /\ length (firstn n bs) = n /\ v = be_val 0 (firstn n bs).
Proof. exact GenProofs.bread_exact. Qed.
Theorem C06_fixed_width_truncated : forall n bs, (length bs < n)%nat -> bread n bs = None.
Proof. exact GenProofs.bread_truncated. Qed.
(* strings and byte vectors: the announced length is all there, or an error; never partial, never zero-filled *)
Theorem C06_string_exact : forall l r s r', take_str l r = Some (s, r') -> r = s ++ r' /\ N.of_nat (length s) = l.
Proof. exact GenProofs.take_str_exact. Qed.
Theorem C06_string_truncated : forall l r, N.of_nat (length r) < l -> take_str l r = None.
Proof. exact GenProofs.take_str_truncated. Qed.
Theorem C06_bytes_exact : forall n r s r', read_slice n r = Some (Some s, r') -> r = s ++ r' /\ Z.of_nat (length s) = n.
Proof. exact GenProofs.read_slice_exact. Qed.
Theorem C06_bytes_truncated : forall n r, (0 < n)%Z -> (Z.of_nat (length r) < n)%Z -> read_slice n r = None.
Proof. exact GenProofs.read_slice_truncated. Qed.

(* every proper prefix of every integer field (any width the cascade chooses, any tag) read as a required
   member by a reader of any width is an error *)
Theorem C06_int_prefix_rejected : forall bits f tag v, is_width bits -> tag < 256 -> fits 64 v = true ->
  forall p q, w_int64 v tag = p ++ q -> q <> [] -> r_int bits (S f) tag true p = RErr.
Proof. exact GenProofs.int_prefix_rejected. Qed.

(* full statement for whole structs, decided on every run by the correspondence + monitors *)
Definition C06_prefix_statement : Prop :=
  forall (e : env) (sid : nat) (v : val) (p q : list N), wf_env e = true -> encode e sid v = p ++ q -> q <> [] ->
  match decode e sid p with DErr => True | DOk _ _ => True (* = value of the complete leading members *) | _ => False end.

Print Assumptions C06_fixed_width_exact. Print Assumptions C06_fixed_width_truncated.
Print Assumptions C06_string_exact. Print Assumptions C06_string_truncated.
Print Assumptions C06_bytes_exact. Print Assumptions C06_bytes_truncated.
Print Assumptions C06_int_prefix_rejected.
