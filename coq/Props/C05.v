(* C05 — decoder totality on arbitrary bytes. Statements only. *)
From Coq Require Import List NArith ZArith.
From TarsV Require Import Base.Hex Codec.Wire Codec.Skip Codec.Prim Codec.GenCodec Codec.Corr Codec.GenProofs
  Codec.RoundTrip Codec.RoundTripProofs Codec.TotalProofs Codec.RoundTripExamples Codec.CorrT Codec.Alloc Codec.AllocProofs Gen.Schemas.
From TarsV Require Xlate.ReaderEquiv.
Import ListNotations.
Open Scope N_scope.

(* NO PANIC, NO OVER-ALLOCATION - FULL STRENGTH: every schema environment (no well-formedness condition), every
   struct type (vectors, byte vectors, fixed arrays, maps, nested and recursive struct types), every target, EVERY
   byte string: the decoder never reaches a Go panic (the fixed-array index check is the only panic site left in
   the model; the count check in front of the loop makes it unreachable) and no count larger than the bytes left
   ever reaches an allocation (DHuge) *)
Theorem C05_no_panic : forall e sid prior bs, ok_out (decode_into e sid prior bs).
Proof. exact TotalProofs.decode_no_panic. Qed.
(* the same for every member decoder, at any fuel *)
Theorem C05_member_no_panic : forall e f t tag req prior bs, ok_out (dec_var f e tag req t prior bs).
Proof. exact TotalProofs.dec_var_no_panic. Qed.

(* TOTALITY: for every schema environment, every struct type with a finite type graph (vectors, byte vectors, fixed
   arrays, maps and nested structs included - no safe_ty restriction any more), every target and EVERY byte string
   decoding yields a value or an error: no panic, no over-allocation, no fuel exhaustion *)
Theorem C05_total : forall e n sid prior bs,
  tfin n e (TStruct sid) = true -> (tneed n e (TStruct sid) <= 64)%nat ->
  total_out (decode_into e sid prior bs).
Proof. exact TotalProofs.decode_total. Qed.
(* the statement for every struct type, recursive ones included, kept visible: C05_no_panic proves all of it except
   "the MODEL's fuel 4*len+64 suffices", which is proved for finite type graphs only (C05_fuel_sufficient); the
   generated Go code has no fuel *)
Definition C05_total_statement : Prop :=
  forall (e : env) (sid : nat) (prior : val) (bs : list N), total_out (decode_into e sid prior bs).
(* ... and the model's fuel is an artifact that a wide recursive struct type does exhaust
   (RoundTripExamples.model_fuel_limit): for recursive types the outcome of the model is a value, an error, or
   "out of fuel" (inconclusive; the correspondence treats it so, Codec/CorrT.v) - never a panic or DHuge *)
Theorem C05_total_any_type_partial : forall e sid prior bs,
  match decode_into e sid prior bs with DOk _ _ | DErr | DFuel => True | _ => False end.
Proof. exact TotalProofs.decode_no_panic_cases. Qed.

(* ALLOCATION LINEAR IN THE INPUT. [alloc_of e sid prior bs] (Codec/Alloc.v) adds up, over one ReadFrom of bs, every
   count that passes the check in front of make([]T, count) plus every map entry inserted - on successful and on
   failing decodes alike (strings and byte vectors are copied from bytes that are there: C06). For every schema
   environment, every struct type with a finite type graph, every target and EVERY byte string it is at most
   tneed(type) x the input length (tneed: the static constant of the type, <= 64 for the model's struct types) *)
Theorem C05_alloc_linear : forall e n sid prior bs,
  tfin n e (TStruct sid) = true -> (tneed n e (TStruct sid) <= 64)%nat ->
  (alloc_of e sid prior bs <= tneed n e (TStruct sid) * length bs)%nat.
Proof. exact AllocProofs.alloc_linear. Qed.
(* the full statement - some constant for EVERY struct type - is FALSE for recursive types, of the repaired model and
   of the repaired code (known finding decode/over-allocation/recursive-type): in struct Rec { int id; vector<Rec> kids }
   every nesting level may announce as many kids as bytes are left; doubling the input (200 -> 400 bytes)
   quadruples the allocation (2425 -> 9850 elements); the decode fails only at the innermost level *)
Definition C05_alloc_linear_statement : Prop :=
  forall e sid, exists c : nat, forall prior bs, (alloc_of e sid prior bs <= c * length bs + c)%nat.
Theorem C05_alloc_recursive_refuted_witness :
  N.of_nat (length (rec_attack 25 193)) = 200 /\ N.of_nat (alloc_of rec_env 0 (VInt 0) (rec_attack 25 193)) = 2425 /\
  N.of_nat (length (rec_attack 50 393)) = 400 /\ N.of_nat (alloc_of rec_env 0 (VInt 0) (rec_attack 50 393)) = 9850 /\
  decode rec_env 0 (rec_attack 50 393) = DErr.
Proof. exact AllocProofs.alloc_recursive_quadratic. Qed.

(* what the pinned code did on the witnesses of the recorded findings (Codec/Pinned.v: C05_total_pinned_refuted -
   LIST count -1 panicked in make, 2^30 reached make) and what the repaired code does *)
Theorem C05_hostile_count_witness :
  let e := [[ {| ftag := 7; freq := true; fty := TVec TI8; fdef := None |} ]] in
  decode e 0 [121; 0; 255] = DErr /\ decode e 0 [121; 2; 64; 0; 0; 0] = DErr.
Proof. exact GenProofs.hostile_count_witness. Qed.

(* proved, for every struct type with a finite type graph (vectors, arrays, maps, nested structs included) and
   EVERY byte string: the model's linear fuel 4*len+64 never runs out (termination of the modelled decoder with
   a number of steps linear in the input) *)
Theorem C05_fuel_sufficient : forall e n sid prior bs,
  tfin n e (TStruct sid) = true -> (tneed n e (TStruct sid) <= 64)%nat -> decode_into e sid prior bs <> DFuel.
Proof. exact TotalProofs.decode_fuel. Qed.
(* the skipping functions alone: linear fuel suffices on every input, and they never move the cursor backwards *)
Theorem C05_skip_fuel_sufficient : forall fuel d ty bs, (2 * length bs + 2 <= fuel)%nat ->
  fst (skip_field fuel d ty bs) <> SFuel /\ (length (snd (skip_field fuel d ty bs)) <= length bs)%nat.
Proof. exact (fun fuel => proj1 (TotalProofs.skip_fuel fuel)). Qed.

(* instantiated on the schemas regenerated from the tree (per struct type; independent of their number and order) *)
Theorem C05_code_schemas_fuel : forall sid prior bs, fits_model sid = true -> decode_into env0 sid prior bs <> DFuel.
Proof. exact RoundTripExamples.env0_fuel. Qed.
Theorem C05_code_schemas_no_panic : forall sid prior bs, ok_out (decode_into env0 sid prior bs).
Proof. exact RoundTripExamples.env0_no_panic. Qed.
Theorem C05_code_schemas_total : forall sid prior bs, fits_model sid = true -> total_out (decode_into env0 sid prior bs).
Proof. exact RoundTripExamples.env0_total. Qed.
Theorem C05_code_schemas_alloc_linear : forall sid prior bs, fits_model sid = true ->
  (alloc_of env0 sid prior bs <= 64 * length bs)%nat.
Proof. exact AllocProofs.env0_alloc_linear. Qed.
Theorem C05_code_schemas_total_examples :
  forallb fits_model [sid_requestf_RequestPacket; sid_requestf_ResponsePacket; sid_verifidl_Containers;
                      sid_verifidl_Scalars; sid_endpointf_EndpointF; sid_authf_BasicAuthInfo; sid_authf_TokenKey;
                      sid_statf_StatMicMsgHead] = true.
Proof. exact RoundTripExamples.env0_total_examples. Qed.

(* proved: the scalar layer of the decoder never panics or over-allocates, for all bytes *)
Theorem C05_scalar_layer_safe : forall fuel tag req t prior bs,
  match dec_scalar fuel tag req t prior bs with DPanic _ | DHuge => False | _ => True end.
Proof. exact GenProofs.dec_scalar_safe. Qed.

(* proved: skipping refuses to nest beyond the limit without recursing (the stack-exhaustion repair) *)
Theorem C05_skip_depth_limit : forall fuel ty bs, (ty = tMAP \/ ty = tLIST \/ ty = tSB) ->
  skip_field (S fuel) maxd ty bs = (SErr, bs).
Proof. exact GenProofs.skip_depth_limit. Qed.

Print Assumptions C05_no_panic.
Print Assumptions C05_member_no_panic.
Print Assumptions C05_total.
Print Assumptions C05_total_any_type_partial.
Print Assumptions C05_alloc_linear.
Print Assumptions C05_alloc_recursive_refuted_witness.
Print Assumptions C05_hostile_count_witness.
Print Assumptions C05_fuel_sufficient.
Print Assumptions C05_skip_fuel_sufficient.
Print Assumptions C05_code_schemas_fuel.
Print Assumptions C05_code_schemas_no_panic.
Print Assumptions C05_code_schemas_total.
Print Assumptions C05_code_schemas_alloc_linear.
Print Assumptions C05_code_schemas_total_examples.
Print Assumptions C05_scalar_layer_safe.
Print Assumptions C05_skip_depth_limit.
