(* C05 — decoder totality on arbitrary bytes. Statements only. *)
From Coq Require Import List NArith ZArith.
From TarsV Require Import Base.Hex Codec.Wire Codec.Skip Codec.Prim Codec.GenCodec Codec.Corr Codec.GenProofs.
Import ListNotations.
Open Scope N_scope.

(* full statement: no panic, no over-allocation (a count never exceeds the bytes left), no fuel exhaustion *)
Definition C05_total_statement : Prop :=
  forall (e : env) (sid : nat) (bs : list N), wf_env e = true ->
  match decode e sid bs with DOk _ _ | DErr => True | _ => False end.

(* REFUTED on the unchanged tree: the generated LIST branch calls make with the wire-supplied count *)
Theorem C05_total_refuted :
  let e := [[ {| ftag := 7; freq := true; fty := TVec TI8; fdef := None |} ]] in
  decode e 0 [121; 0; 255] = DPanic site_makeslice /\ decode e 0 [121; 2; 64; 0; 0; 0] = DHuge.
Proof. exact GenProofs.no_panic_refuted_witness. Qed.

(* proved: the scalar layer of the decoder never panics or over-allocates, for all bytes *)
Theorem C05_scalar_layer_safe_partial : forall fuel tag req t prior bs,
  match dec_scalar fuel tag req t prior bs with DPanic _ | DHuge => False | _ => True end.
Proof. exact GenProofs.dec_scalar_safe. Qed.

(* proved: skipping refuses to nest beyond the limit without recursing (the stack-exhaustion repair) *)
Theorem C05_skip_depth_limit : forall fuel ty bs, (ty = tMAP \/ ty = tLIST \/ ty = tSB) ->
  skip_field (S fuel) maxd ty bs = (SErr, bs).
Proof. exact GenProofs.skip_depth_limit. Qed.

Print Assumptions C05_total_refuted.
Print Assumptions C05_scalar_layer_safe_partial.
Print Assumptions C05_skip_depth_limit.
