(* C05 — decoder totality on arbitrary bytes. Statements only. *)
From Coq Require Import List NArith ZArith.
From TarsV Require Import Base.Hex Codec.Wire Codec.Skip Codec.Prim Codec.GenCodec Codec.Corr Codec.GenProofs
  Codec.RoundTrip Codec.RoundTripProofs Codec.TotalProofs Codec.RoundTripExamples Codec.CorrT Gen.Schemas.
Import ListNotations.
Open Scope N_scope.

(* full statement: no panic, no over-allocation (a count never exceeds the bytes left), no fuel exhaustion *)
Definition C05_total_statement : Prop :=
  forall (e : env) (sid : nat) (bs : list N), wf_env e = true ->
  match decode e sid bs with DOk _ _ | DErr => True | _ => False end.

(* REFUTED on the unchanged tree: the generated LIST branch calls make with the wire-supplied count *)
Theorem C05_total_refuted :
  let e := [[ {| ftag := 7; freq := true; fty := TVec TI8; fdef := None |} ]] in
  decode e 0 [121; 0; 255] = DPanic site_makeslice /\ decode e 0 [121; 2; 64; 0; 0; 0] = DHuge.
Proof. exact GenProofs.no_panic_refuted_witness. Qed.

(* proved, for every schema environment, every struct type from which no vector or fixed array is reachable
   (safe_ty: the sites of the recorded findings excluded), every target and EVERY byte string: decoding yields
   a value or an error - no panic, no over-allocation, no fuel exhaustion *)
Theorem C05_total_without_lists_partial : forall e n sid prior bs,
  safe_ty n e (TStruct sid) = true -> (tneed n e (TStruct sid) <= 64)%nat ->
  total_out (decode_into e sid prior bs).
Proof. exact TotalProofs.decode_total. Qed.
Theorem C05_no_panic_without_lists_partial : forall e n sid prior bs,
  safe_ty n e (TStruct sid) = true -> ok_out (decode_into e sid prior bs).
Proof. exact TotalProofs.decode_no_panic. Qed.

(* proved, for every struct type with a finite type graph (vectors, arrays, maps, nested structs included) and
   EVERY byte string: the model's linear fuel 4*len+64 never runs out (termination of the modelled decoder with
   a number of steps linear in the input) *)
Theorem C05_fuel_sufficient : forall e n sid prior bs,
  tfin n e (TStruct sid) = true -> (tneed n e (TStruct sid) <= 64)%nat -> decode_into e sid prior bs <> DFuel.
Proof. exact TotalProofs.decode_fuel. Qed.
(* the skipping functions alone: linear fuel suffices on every input, and they never move the cursor backwards *)
Theorem C05_skip_fuel_sufficient : forall fuel d ty bs, (2 * length bs + 2 <= fuel)%nat ->
  fst (skip_field fuel d ty bs) <> SFuel /\ (length (snd (skip_field fuel d ty bs)) <= length bs)%nat.
Proof. exact (fun fuel => proj1 (TotalProofs.skip_fuel fuel)). Qed.

(* instantiated on the schemas regenerated from the tree (per struct type; independent of their number and order) *)
Theorem C05_code_schemas_fuel : forall sid prior bs, fits_model sid = true -> decode_into env0 sid prior bs <> DFuel.
Proof. exact RoundTripExamples.env0_fuel. Qed.
Theorem C05_code_schemas_total : forall sid prior bs, safe_ty 8 env0 (TStruct sid) = true -> fits_model sid = true ->
  total_out (decode_into env0 sid prior bs).
Proof. exact RoundTripExamples.env0_total. Qed.
Theorem C05_code_schemas_safe_examples :
  forallb (fun sid => safe_ty 8 env0 (TStruct sid) && fits_model sid)
          [sid_verifidl_Scalars; sid_endpointf_EndpointF; sid_authf_BasicAuthInfo; sid_authf_TokenKey; sid_statf_StatMicMsgHead] = true
  /\ safe_ty 8 env0 (TStruct sid_requestf_RequestPacket) = false.
Proof. exact RoundTripExamples.env0_safe_examples. Qed.

(* proved: the scalar layer of the decoder never panics or over-allocates, for all bytes *)
Theorem C05_scalar_layer_safe : forall fuel tag req t prior bs,
  match dec_scalar fuel tag req t prior bs with DPanic _ | DHuge => False | _ => True end.
Proof. exact GenProofs.dec_scalar_safe. Qed.

(* proved: skipping refuses to nest beyond the limit without recursing (the stack-exhaustion repair) *)
Theorem C05_skip_depth_limit : forall fuel ty bs, (ty = tMAP \/ ty = tLIST \/ ty = tSB) ->
  skip_field (S fuel) maxd ty bs = (SErr, bs).
Proof. exact GenProofs.skip_depth_limit. Qed.

Print Assumptions C05_total_refuted.
Print Assumptions C05_total_without_lists_partial.
Print Assumptions C05_no_panic_without_lists_partial.
Print Assumptions C05_fuel_sufficient.
Print Assumptions C05_skip_fuel_sufficient.
Print Assumptions C05_code_schemas_fuel.
Print Assumptions C05_code_schemas_total.
Print Assumptions C05_code_schemas_safe_examples.
Print Assumptions C05_scalar_layer_safe.
Print Assumptions C05_skip_depth_limit.
