(* C02 (extra) — the IEEE-754 meaning of the FLOAT -> double widening read (ReadFloat64 of a 4-byte FLOAT field).
   Statements only.  [widen32] is the bit-pattern function of Codec/Prim.v that C02_widen_float (Props/C02.v) proves
   ReadFloat64 returns; here it is related to Flocq's IEEE-754 formalisation: [b32_of_bits]/[b64_of_bits] decode a
   pattern into a binary32/binary64 datum, [B2R] is its real value, [Bsign] its sign bit.
   Unlike Props/C02.v these theorems depend on the axioms of the standard library's real numbers (through Flocq);
   see the Print Assumptions output at the end.  Nothing here is in the closure of Props/C02.v. *)
From Coq Require Import List NArith ZArith Reals Bool.
From Flocq Require Import Core IEEE754.Binary IEEE754.Bits.
From TarsV Require Import Codec.Prim Codec.FloatWiden.
Import ListNotations.
Open Scope N_scope.

(* the result is a 64-bit pattern *)
Theorem C02_float_range : forall b, b < 4294967296 -> widen32 b < 18446744073709551616.
Proof. exact FloatWiden.widen32_range. Qed.

(* the whole classification in integer arithmetic, on the patterns as Flocq's decoder [binary_float_of_bits_aux] splits
   them (sign, integer significand, exponent), before any real number is involved: zero -> zero, infinity -> infinity,
   NaN -> NaN with the stated fraction, finite m*2^e -> finite m'*2^e' with m' = m * 2^(e-e') (same rational value),
   m' of full 53-bit width; always the same sign.  This one is axiom-free. *)
Theorem C02_float_structural : forall b, b < 4294967296 ->
  match binary_float_of_bits_aux 23 8 (Z.of_N b) with
  | F754_zero s => binary_float_of_bits_aux 52 11 (Z.of_N (widen32 b)) = F754_zero s
  | F754_infinity s => binary_float_of_bits_aux 52 11 (Z.of_N (widen32 b)) = F754_infinity s
  | F754_nan s pl => exists pl', binary_float_of_bits_aux 52 11 (Z.of_N (widen32 b)) = F754_nan s pl' /\
      Zpos pl' = (2^51 + (Zpos pl mod 2^22) * 2^29)%Z
  | F754_finite s m e => exists m' e', binary_float_of_bits_aux 52 11 (Z.of_N (widen32 b)) = F754_finite s m' e' /\
      (e' <= e)%Z /\ Zpos m' = (Zpos m * 2 ^ (e - e'))%Z /\ (2^52 <= Zpos m' < 2^53)%Z
  end.
Proof. exact FloatWiden.widen32_widens. Qed.
(* the value clause on the same pre-floats ([FF2R radix2] is their real value): needs only the axioms behind R *)
Theorem C02_float_value_prefloat : forall b, b < 4294967296 ->
  is_finite_FF (binary_float_of_bits_aux 23 8 (Z.of_N b)) = true ->
  is_finite_FF (binary_float_of_bits_aux 52 11 (Z.of_N (widen32 b))) = true /\
  FF2R radix2 (binary_float_of_bits_aux 52 11 (Z.of_N (widen32 b))) = FF2R radix2 (binary_float_of_bits_aux 23 8 (Z.of_N b)) /\
  sign_FF (binary_float_of_bits_aux 52 11 (Z.of_N (widen32 b))) = sign_FF (binary_float_of_bits_aux 23 8 (Z.of_N b)).
Proof. exact FloatWiden.widen32_value_FF. Qed.

(* (1) finite float32 (zero, subnormal, normal): the double is finite with EXACTLY the same real value and the same
   sign bit (so -0 -> -0), and it is non-zero iff the single is *)
Theorem C02_float_finite : forall b, b < 4294967296 ->
  is_finite 24 128 (b32_of_bits (Z.of_N b)) = true ->
  is_finite 53 1024 (b64_of_bits (Z.of_N (widen32 b))) = true /\
  B2R 53 1024 (b64_of_bits (Z.of_N (widen32 b))) = B2R 24 128 (b32_of_bits (Z.of_N b)) /\
  Bsign 53 1024 (b64_of_bits (Z.of_N (widen32 b))) = Bsign 24 128 (b32_of_bits (Z.of_N b)) /\
  is_finite_strict 53 1024 (b64_of_bits (Z.of_N (widen32 b))) = is_finite_strict 24 128 (b32_of_bits (Z.of_N b)).
Proof. exact FloatWiden.widen32_finite. Qed.

Theorem C02_float_zero : forall b s, b < 4294967296 ->
  b32_of_bits (Z.of_N b) = B754_zero 24 128 s -> b64_of_bits (Z.of_N (widen32 b)) = B754_zero 53 1024 s.
Proof. exact FloatWiden.widen32_zero. Qed.

(* every non-zero finite single — subnormal ones included — becomes a NORMAL double: full-width (53-bit) integer
   significand in Flocq's representation, i.e. biased exponent field of the pattern in 874..1150 (never 0 or 2047) *)
Theorem C02_float_normal : forall b, b < 4294967296 ->
  is_finite_strict 24 128 (b32_of_bits (Z.of_N b)) = true ->
  (exists s m e, B2FF 53 1024 (b64_of_bits (Z.of_N (widen32 b))) = F754_finite s m e /\ (2^52 <= Zpos m < 2^53)%Z) /\
  874 <= (widen32 b / 4503599627370496) mod 2048 <= 1150.
Proof. exact FloatWiden.widen32_normal. Qed.

(* (2) infinities map to the infinity of the same sign *)
Theorem C02_float_infinity : forall b s, b < 4294967296 ->
  b32_of_bits (Z.of_N b) = B754_infinity 24 128 s -> b64_of_bits (Z.of_N (widen32 b)) = B754_infinity 53 1024 s.
Proof. exact FloatWiden.widen32_infinity. Qed.

(* (3) NaNs map to NaNs of the same sign.  [nan_pl] is the fraction field (payload incl. quiet bit) of a NaN.
   Fraction p (23 bits) becomes 2^51 + (p mod 2^22) * 2^29: payload bits 0..21 move to bits 29..50, the quiet bit
   (bit 22 of a single, bit 51 of a double) is set whatever it was, bits 0..28 are zero. *)
Theorem C02_float_nan : forall b, b < 4294967296 ->
  is_nan 24 128 (b32_of_bits (Z.of_N b)) = true ->
  is_nan 53 1024 (b64_of_bits (Z.of_N (widen32 b))) = true /\
  Bsign 53 1024 (b64_of_bits (Z.of_N (widen32 b))) = Bsign 24 128 (b32_of_bits (Z.of_N b)) /\
  nan_pl (b64_of_bits (Z.of_N (widen32 b))) = (2^51 + (nan_pl (b32_of_bits (Z.of_N b)) mod 2^22) * 2^29)%Z.
Proof. exact FloatWiden.widen32_nan. Qed.
(* equivalently: a quiet NaN keeps its fraction (shifted left by 29); a signalling NaN is quieted, nothing else changes;
   the result is always quiet *)
Theorem C02_float_nan_quiet : forall b, b < 4294967296 ->
  is_nan 24 128 (b32_of_bits (Z.of_N b)) = true ->
  nan_pl (b64_of_bits (Z.of_N (widen32 b))) =
    (if Z.testbit (nan_pl (b32_of_bits (Z.of_N b))) 22 then nan_pl (b32_of_bits (Z.of_N b)) * 2^29
     else nan_pl (b32_of_bits (Z.of_N b)) * 2^29 + 2^51)%Z /\
  Z.testbit (nan_pl (b64_of_bits (Z.of_N (widen32 b)))) 51 = true.
Proof. exact FloatWiden.widen32_nan_quiet. Qed.

(* (4) injective on non-NaN inputs *)
Theorem C02_float_injective : forall b1 b2, b1 < 4294967296 -> b2 < 4294967296 ->
  is_nan 24 128 (b32_of_bits (Z.of_N b1)) = false -> is_nan 24 128 (b32_of_bits (Z.of_N b2)) = false ->
  widen32 b1 = widen32 b2 -> b1 = b2.
Proof. exact FloatWiden.widen32_inj. Qed.
(* the same with the NaN test on the bit pattern (exponent field 255, fraction non-zero); this one uses no reals *)
Theorem C02_float_nan_test : forall b, b < 4294967296 ->
  is_nan 24 128 (b32_of_bits (Z.of_N b)) = ((b / 8388608) mod 256 =? 255) && negb (b mod 8388608 =? 0).
Proof. exact FloatWiden.is_nan32_spec. Qed.
Theorem C02_float_injective_bits : forall b1 b2, b1 < 4294967296 -> b2 < 4294967296 ->
  ((b1 / 8388608) mod 256 =? 255) && negb (b1 mod 8388608 =? 0) = false ->
  ((b2 / 8388608) mod 256 =? 255) && negb (b2 mod 8388608 =? 0) = false ->
  widen32 b1 = widen32 b2 -> b1 = b2.
Proof. exact FloatWiden.widen32_inj_non_nan. Qed.
(* on NaNs it is not injective: exactly the quiet bit of the input is forgotten *)
Theorem C02_float_nan_not_injective :
  is_nan 24 128 (b32_of_bits 2139095041) = true /\ is_nan 24 128 (b32_of_bits 2143289345) = true /\
  widen32 2139095041 = widen32 2143289345.
Proof. exact FloatWiden.widen32_nan_collision'. Qed.
Theorem C02_float_nan_eq_iff : forall b1 b2, b1 < 4294967296 -> b2 < 4294967296 ->
  ((b1 / 8388608) mod 256 =? 255) && negb (b1 mod 8388608 =? 0) = true ->
  ((b2 / 8388608) mod 256 =? 255) && negb (b2 mod 8388608 =? 0) = true ->
  (widen32 b1 = widen32 b2 <->
   b1 / 2147483648 = b2 / 2147483648 /\ (b1 mod 8388608) mod 4194304 = (b2 mod 8388608) mod 4194304).
Proof. exact FloatWiden.widen32_nan_eq_iff. Qed.

(* composed with the reader (C02_widen_float): a finite float32 written as a FLOAT field and read by ReadFloat64 yields
   a double of exactly the same real value and sign, with the reader exactly at the suffix *)
Theorem C02_float_read_value : forall f tag req b rest, tag < 256 -> b < 4294967296 ->
  is_finite 24 128 (b32_of_bits (Z.of_N b)) = true ->
  exists d, r_f64 (S f) tag req (w_f32 b tag ++ rest) = ROk d rest /\ d < 18446744073709551616 /\
    is_finite 53 1024 (b64_of_bits (Z.of_N d)) = true /\
    B2R 53 1024 (b64_of_bits (Z.of_N d)) = B2R 24 128 (b32_of_bits (Z.of_N b)) /\
    Bsign 53 1024 (b64_of_bits (Z.of_N d)) = Bsign 24 128 (b32_of_bits (Z.of_N b)).
Proof. exact FloatWiden.read_f32_as_f64_value. Qed.

(* the hypotheses are satisfiable; known IEEE-754 answers *)
Theorem C02_float_examples :
  forallb (fun b => is_finite 24 128 (b32_of_bits (Z.of_N b)))
    [1; 8388607; 8388608; 1065353216; 2139095039; 2147483648; 3226013659] = true /\
  forallb (fun b => is_nan 24 128 (b32_of_bits (Z.of_N b))) [2139095041; 2143289344; 4290772992; 4294967295] = true /\
  b32_of_bits 2139095040 = B754_infinity 24 128 false /\ b32_of_bits 4286578688 = B754_infinity 24 128 true /\
  b32_of_bits 0 = B754_zero 24 128 false /\ b32_of_bits 2147483648 = B754_zero 24 128 true.
Proof. exact FloatWiden.instances. Qed.
Theorem C02_float_known_answers :
  widen32 1 = 3936146074321813504 /\              (* 00000001 -> 36A0000000000000 : 2^-149 *)
  widen32 8388607 = 4039728864677593088 /\        (* 007FFFFF -> 380FFFFFC0000000 : largest subnormal *)
  widen32 8388608 = 4039728865751334912 /\        (* 00800000 -> 3810000000000000 : 2^-126 *)
  widen32 1065353216 = 4607182418800017408 /\     (* 3F800000 -> 3FF0000000000000 : 1.0 *)
  widen32 2139095039 = 5183643170566569984 /\     (* 7F7FFFFF -> 47EFFFFFE0000000 : max float32 *)
  widen32 2147483648 = 9223372036854775808 /\     (* 80000000 -> 8000000000000000 : -0 *)
  widen32 4286578688 = 18442240474082181120 /\    (* FF800000 -> FFF0000000000000 : -inf *)
  widen32 2143289344 = 9221120237041090560 /\     (* 7FC00000 -> 7FF8000000000000 : default quiet NaN *)
  widen32 2139095041 = 9221120237577961472 /\     (* 7F800001 -> 7FF8000020000000 : signalling NaN, quieted *)
  widen32 3226013659 = 13837628693603680256.      (* C0490FDB -> C00921FB60000000 : -pi as float32 *)
Proof. exact FloatWiden.known_answers. Qed.

Print Assumptions C02_float_range. Print Assumptions C02_float_structural.
Print Assumptions C02_float_value_prefloat. Print Assumptions C02_float_finite. Print Assumptions C02_float_zero.
Print Assumptions C02_float_normal. Print Assumptions C02_float_infinity. Print Assumptions C02_float_nan.
Print Assumptions C02_float_nan_quiet. Print Assumptions C02_float_injective. Print Assumptions C02_float_nan_test.
Print Assumptions C02_float_injective_bits. Print Assumptions C02_float_nan_not_injective.
Print Assumptions C02_float_nan_eq_iff. Print Assumptions C02_float_read_value. Print Assumptions C02_float_examples.
Print Assumptions C02_float_known_answers.
