(* C12 — graceful shutdown answers every request already received. Statements only.
   Model: Conc/Shutdown.v (labelled transition system of tarsserver.go Shutdown, tcphandler.go Handle / recv /
   handleConn / CloseIdles / sendCloseMsg and the worker pool as used by them). Inputs of the model, all universally
   quantified: W = maxroutine (0: one goroutine per request; > 0: pool of W workers), cap = capacity of JobQueue,
   early = false for the code after fix 0e6f835 / true for the code before it, and the label sequence ls = any
   number of connections and requests, any handler durations, any interleaving of the accept loop, the receive
   loops, the dispatcher, the handlers, the Shutdown poller, the context and the process exit. *)
From Coq Require Import List NArith Bool Arith.
From TarsV Require Gen.Consts.
From TarsV Require Import Conc.Shutdown Conc.ShutdownProofs Conc.ShutdownSrc.
Import ListNotations.

(* The model now has the code's granularity at the two places where a step used to be atomic: recv's conn.Read
   returning a request (LReadBytes) and handleConn's numInvoke++ (LRead) are two steps, and so are CloseIdles' test of
   numInvoke / idle time (LPollCheck) and its conn.Close() (LPollClose). The ghost flag [raced] records that one of the
   two windows was hit (bytes read between the poller's test and its Close, or the test made while a request was read
   and not yet counted).

   1. Every request read from a connection is answered before the server closes that connection.
   Full statement, for every schedule: *)
Definition C12_answered_before_close_statement : Prop :=
  forall W cap early ls s, run W cap early init ls = Some s ->
  forall c, cst s c = CClosed -> rdbuf s c = None /\ forall r, unanswered (rs s c r) = false /\ rs s c r <> Lost.

(* It is FALSE of the faithful model, hence of the code: both windows lose a request that the server had read
   (response written to a closed socket). The first witness is replayed on the code on every run (known finding
   shutdown/race/read-then-count: a yield point between Read and numInvoke++ holds the receive loop while the poller
   closes the connection). *)
Theorem C12_answered_before_close_refuted :
  (exists s, run 0 10 false init race_read_then_count = Some s /\ cst s 0 = CClosed /\ rs s 0 0 = Lost /\ raced s = true) /\
  (exists s, run 0 10 false init race_check_then_close = Some s /\ cst s 0 = CClosed /\ rs s 0 0 = Lost /\ raced s = true) /\
  ~ C12_answered_before_close_statement.
Proof. exact ShutdownProofs.c12_answered_before_close_refuted. Qed.

(* the same race lets Shutdown return "drained" with a request read and unanswered *)
Theorem C12_drained_return_refuted_by_race :
  exists s s', run 2 10 false init [LConnect 0; LSend 0 0; LShutdown; LAcceptExit; LReadBytes 0 0; LPollBegin; LPollCheck 0;
                                    LPollClose 0; LRead 0 0] = Some s /\
    step 2 10 false s LPollReturn = Some s' /\ ph s' = SRetDrained /\ unanswered (rs s' 0 0) = true /\ raced s' = true.
Proof. exact ShutdownProofs.c12_drained_return_refuted_by_race. Qed.

(* Proved for every run in which neither window was hit — the windows are the ONLY way to violate the clause: a closed
   connection has no request that is read (counted or not) and unanswered, and nothing was lost to a closed socket. *)
Theorem C12_answered_before_close_partial : forall W cap early ls s, run W cap early init ls = Some s ->
  raced s = false ->
  forall c, cst s c = CClosed -> rdbuf s c = None /\ forall r, unanswered (rs s c r) = false /\ rs s c r <> Lost.
Proof. exact ShutdownProofs.c12_answered_before_close. Qed.

(* ... and the closing step itself is one of the two close sites, taken with numInvoke = 0 and nothing uncounted *)
Theorem C12_close_step : forall W cap early ls s l s' c, run W cap early init ls = Some s ->
  step W cap early s l = Some s' -> raced s' = false -> cst s c <> CClosed -> cst s' c = CClosed ->
  (l = LPollClose c \/ l = LRecvClose c) /\ busy s c = [] /\ rdbuf s c = None /\
  forall r, unanswered (rs s c r) = false /\ rs s' c r = rs s c r.
Proof. exact ShutdownProofs.c12_close_step. Qed.

(* ... and a request that was read, counted and not answered — whether pending, queued in JobQueue, in the
   dispatcher's hand, spawned or running — is in numInvoke and keeps its connection in the table on every schedule,
   and open on every schedule without a race *)
Theorem C12_unanswered_keeps_connection : forall W cap early ls s, run W cap early init ls = Some s ->
  forall c r, unanswered (rs s c r) = true ->
  In r (busy s c) /\ inmap s c = true /\ (raced s = false -> cst s c = COpen \/ cst s c = CExited).
Proof. exact ShutdownProofs.c12_unanswered_keeps_connection. Qed.

(* 2. Every request read is executed, with and without a pool (repaired code): while the process lives, a request
   that is read and unanswered never gets stuck — some step of the request pipeline is enabled in every shutdown
   phase; every step keeps or raises the rank of every request, a pipeline step raises the rank of an unanswered
   one, and ranks are bounded by 6. Hence with finitely many requests only finitely many pipeline steps exist and
   the pipeline cannot stop before every read request is answered (termination under weak fairness of the pipeline;
   handlers that never return are the label sequences in which LFinish is withheld). *)
Theorem C12_read_requests_progress : forall W cap ls s, (0 < cap)%N ->
  run W cap false init ls = Some s -> alive (ph s) = true ->
  forall c r, unanswered (rs s c r) = true -> exists l, pipeline_label l /\ step W cap false s l <> None.
Proof. exact ShutdownProofs.c12_progress. Qed.

Theorem C12_rank_monotone : forall W cap early ls s l s', run W cap early init ls = Some s ->
  step W cap early s l = Some s' -> forall c r, rank (rs s c r) <= rank (rs s' c r) <= 6.
Proof. exact ShutdownProofs.c12_rank_mono. Qed.

Theorem C12_pipeline_step_advances : forall W cap early ls s l s', run W cap early init ls = Some s ->
  step W cap early s l = Some s' -> pipeline_label l ->
  exists c r, unanswered (rs s c r) = true /\ rank (rs s c r) < rank (rs s' c r).
Proof. exact ShutdownProofs.c12_pipeline_advances. Qed.

(* the pipeline work of any run is bounded by the requests sent: at most 6 pipeline steps per request that ever
   left the client (L is any list covering the requests that are not Fresh) ... *)
Theorem C12_pipeline_work_bounded : forall W cap early ls s (L : list req),
  run W cap early init ls = Some s ->
  (forall c r, rs s c r <> Fresh -> In (c, r) L) ->
  count_pipeline ls <= rank_sum s L /\ rank_sum s L <= 6 * length L.
Proof. exact ShutdownProofs.pipeline_work_bounded. Qed.

(* ... and the drain can always complete: from every reachable live state of the repaired code, in every shutdown
   phase and for every pool size, pipeline steps alone lead to a state with nothing read left unanswered *)
Theorem C12_can_always_drain : forall W cap, (0 < cap)%N -> forall ls s, run W cap false init ls = Some s ->
  alive (ph s) = true ->
  exists ls' s', Forall pipeline_label ls' /\ run W cap false s ls' = Some s' /\
                 ph s' = ph s /\ forall c r, unanswered (rs s' c r) = false.
Proof. exact ShutdownProofs.can_always_drain. Qed.

(* no request is executed twice or answered twice, on any schedule: in any run the handler of (c, r) is started at
   most once and finishes (response written) at most once — the counterpart of the duplicate-response monitor *)
Theorem C12_executed_and_answered_at_most_once : forall W cap early ls s c r, run W cap early init ls = Some s ->
  count_lab (is_finish c r) ls <= 1 /\ (count_lab (is_finish c r) ls = 1 -> rank (rs s c r) = 6) /\
  count_lab (is_start c r) ls <= 1 /\ (count_lab (is_start c r) ls = 1 -> 5 <= rank (rs s c r)).
Proof. exact ShutdownProofs.answered_at_most_once. Qed.

(* The code before the fix violates clause 2 with a pool: after this run request (0,1) is read and queued, and on
   EVERY continuation it stays queued, its connection is never closed by the server and Shutdown never returns
   drained (only its context ends it). Replayed on the unrepaired code by the harness scenario recorded in
   known_findings.d/C12.json. *)
Theorem C12_progress_refuted_before_fix :
  exists ls s, run 1 10 true init ls = Some s /\ alive (ph s) = true /\ unanswered (rs s 0 1) = true /\
    forall ls' s', run 1 10 true s ls' = Some s' ->
      rs s' 0 1 = Queued /\ cst s' 0 <> CClosed /\ ph s' <> SRetDrained.
Proof. exact ShutdownProofs.c12_progress_refuted_before_fix. Qed.

(* 3. Close notification. Full statement: every connection the server closes before Shutdown returns has been sent
   the close message. *)
Definition C12_notification_statement : Prop :=
  forall W cap early ls s, run W cap early init ls = Some s -> returned (ph s) = false ->
  forall c, cst s c = CClosed -> notified s c = true.

(* proved under the hypothesis that no poller tick began while the listener was still up (ghost earlypoll) *)
Theorem C12_notification_partial : forall W cap early ls s, run W cap early init ls = Some s ->
  earlypoll s = false -> returned (ph s) = false -> forall c, cst s c = CClosed -> notified s c = true.
Proof. exact ShutdownProofs.c12_notification_partial. Qed.

(* the hypothesis is needed: a tick with isListenClosed = 0 closes an idle connection without the message *)
Theorem C12_notification_refuted : ~ C12_notification_statement.
Proof. exact ShutdownProofs.c12_notification_refuted. Qed.

(* the message precedes the close: it was already written in the state before the closing step *)
Theorem C12_close_step_notified : forall W cap early ls s l s' c, run W cap early init ls = Some s ->
  step W cap early s l = Some s' -> cst s c <> CClosed -> cst s' c = CClosed -> earlypoll s' = false ->
  returned (ph s') = false -> notified s c = true.
Proof. exact ShutdownProofs.c12_close_step_notified. Qed.

(* at the drained return every connection ever accepted has been sent the message *)
Theorem C12_drained_return_notified : forall W cap early ls s s', run W cap early init ls = Some s ->
  step W cap early s LPollReturn = Some s' -> earlypoll s' = false ->
  forall c, In c (known s') -> notified s' c = true.
Proof. exact ShutdownProofs.c12_drained_return_notified. Qed.

(* the notifying tick is per connection: connection c gets the message iff c itself is in the table and not closed,
   whatever the other connections are, however many, in whatever order, and whether or not the writes to them
   succeed (clients that reset their connection are, for the server, connections like the others) *)
Theorem C12_notifying_tick_per_connection : forall W cap early s s', step W cap early s LPollBegin = Some s' ->
  listen s = 1 -> listen s' = 2 /\
  forall c, notified s' c = notified s c || (inmap s c && negb (cstate_eqb (cst s c) CClosed)).
Proof. exact ShutdownProofs.c12_notifying_tick_per_connection. Qed.

(* after the first tick with the listener down every connection still in the table has the message *)
Theorem C12_all_open_notified : forall W cap early ls s, run W cap early init ls = Some s -> listen s = 2 ->
  forall c, inmap s c = true -> cst s c <> CClosed -> notified s c = true.
Proof. exact ShutdownProofs.c12_all_open_notified. Qed.

(* 4. Shutdown returns once all connections have drained, or when its context expires. The drained return is
   taken only with every accepted connection closed and nothing read left unanswered; with every connection
   closed it is taken at the poller's next tick; the context ends Shutdown from any point of the drain. *)
Theorem C12_drained_return_sound : forall W cap early ls s s', run W cap early init ls = Some s -> raced s = false ->
  step W cap early s LPollReturn = Some s' ->
  ph s' = SRetDrained /\ (forall c, In c (known s') -> cst s' c = CClosed) /\
  (forall c r, unanswered (rs s' c r) = false) /\ (forall c, rdbuf s' c = None).
Proof. exact ShutdownProofs.c12_drained_return_sound. Qed.

(* on every schedule, race or not: CloseIdles' "all closed" is a conjunction over the whole table — the drained return
   needs EVERY accepted connection closed (not the last one visited: seeded C12-m12) *)
Theorem C12_drained_return_needs_all : forall W cap early ls s s', run W cap early init ls = Some s ->
  step W cap early s LPollReturn = Some s' ->
  ph s' = SRetDrained /\ forall c, In c (known s') -> cst s' c = CClosed.
Proof. exact ShutdownProofs.c12_drained_return_needs_all. Qed.

(* a non-timeout Accept error (EMFILE ...) is a step of the accept loop that changes nothing and is always possible
   while the listener is up: the server goes on accepting and a later shutdown is the same (seeded C12-m11) *)
Theorem C12_accept_error_is_noop : forall W cap early s s', step W cap early s LAcceptErr = Some s' -> s' = s.
Proof. exact ShutdownProofs.c12_accept_error_is_noop. Qed.
Theorem C12_accept_error_enabled : forall W cap early s, alive (ph s) = true -> listen s = 0 ->
  step W cap early s LAcceptErr = Some s.
Proof. exact ShutdownProofs.c12_accept_error_enabled. Qed.

Theorem C12_drained_return_enabled : forall W cap early s, is_down (ph s) = true -> all_closed s = true ->
  nochk s = true ->   (* the poller is between two connections of its sweep *)
  exists s', run W cap early s (if inpoll s then [LPollReturn] else [LPollBegin; LPollReturn]) = Some s' /\
             ph s' = SRetDrained.
Proof. exact ShutdownProofs.drained_return_enabled. Qed.

(* ... and the repaired code can always get there: from every reachable state with Shutdown in progress, for every
   pool size, some continuation (the pipeline answering what was read, then one tick closing every connection)
   returns drained — the opposite of C12_progress_refuted_before_fix *)
Theorem C12_can_always_return_drained : forall W cap, (0 < cap)%N -> forall ls s,
  run W cap false init ls = Some s -> ph s = SDown ->
  exists ls' s', run W cap false s ls' = Some s' /\ ph s' = SRetDrained /\ raced s' = raced s.   (* without a new race *)
Proof. exact ShutdownProofs.can_always_return_drained. Qed.

Theorem C12_ctx_expiry_enabled : forall W cap early s, is_down (ph s) = true ->
  exists s', step W cap early s LCtxExpire = Some s' /\ ph s' = SRetCtx.
Proof. exact ShutdownProofs.ctx_expiry_enabled. Qed.

(* 6. What the model takes from the source text of tars/transport, regenerated on every run (the c_c12 definitions of Gen/Consts.v):
   the two tickers have the same period (the model's [polled] guard), the shutdown read deadline is shorter than a
   tick, the idle threshold, and the shape of the steps the model mirrors. *)
Theorem C12_source_tickers_same_period :
  (Consts.c_c12_shutdown_tick_ms = Consts.c_c12_recv_drain_tick_ms /\ 0 < Consts.c_c12_shutdown_tick_ms)%N.
Proof. exact ShutdownSrc.src_tickers_same_period. Qed.
Theorem C12_source_read_deadline_below_tick : (Consts.c_c12_shutdown_read_deadline_ms < Consts.c_c12_shutdown_tick_ms)%N.
Proof. exact ShutdownSrc.src_read_deadline_below_tick. Qed.
Theorem C12_source_idle_threshold : (Consts.c_c12_closeidles_idle_s = 2)%N.
Proof. exact ShutdownSrc.src_idle_threshold_s. Qed.
Theorem C12_source_step_shape :
  (Consts.c_c12_closemsg_before_sweep = 1 /\ Consts.c_c12_accept_error_continues = 1 /\ Consts.c_c12_count_before_dispatch = 1 /\
   Consts.c_c12_allclosed_only_cleared = 1 /\ Consts.c_c12_closemsg_range_continues = 1 /\ Consts.c_c12_decrement_deferred_in_handler = 1 /\
   Consts.c_c12_drain_wait_only_exit = 1)%N.
Proof. exact ShutdownSrc.src_step_shape. Qed.

(* 5. The tie: a recorded shutdown accepted by the trace validator is explained by a run of the repaired model
   that ends with the process exit, so 1-4 hold of its explanation. *)
Theorem C12_accepts_sound : forall W cap tr, accepts W cap tr = true ->
  exists ls s, run W cap false init ls = Some s /\ ph s = SExited.
Proof. exact ShutdownProofs.accepts_sound. Qed.

Print Assumptions C12_answered_before_close_refuted.
Print Assumptions C12_drained_return_refuted_by_race.
Print Assumptions C12_answered_before_close_partial.
Print Assumptions C12_close_step.
Print Assumptions C12_unanswered_keeps_connection.
Print Assumptions C12_read_requests_progress.
Print Assumptions C12_rank_monotone.
Print Assumptions C12_pipeline_step_advances.
Print Assumptions C12_pipeline_work_bounded.
Print Assumptions C12_can_always_drain.
Print Assumptions C12_executed_and_answered_at_most_once.
Print Assumptions C12_progress_refuted_before_fix.
Print Assumptions C12_notification_partial.
Print Assumptions C12_notification_refuted.
Print Assumptions C12_close_step_notified.
Print Assumptions C12_drained_return_notified.
Print Assumptions C12_notifying_tick_per_connection.
Print Assumptions C12_all_open_notified.
Print Assumptions C12_drained_return_sound.
Print Assumptions C12_drained_return_needs_all.
Print Assumptions C12_accept_error_is_noop.
Print Assumptions C12_accept_error_enabled.
Print Assumptions C12_drained_return_enabled.
Print Assumptions C12_can_always_return_drained.
Print Assumptions C12_ctx_expiry_enabled.
Print Assumptions C12_accepts_sound.
Print Assumptions C12_source_tickers_same_period.
Print Assumptions C12_source_read_deadline_below_tick.
Print Assumptions C12_source_idle_threshold.
Print Assumptions C12_source_step_shape.
