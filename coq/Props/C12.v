(* C12 — statements only (stub while the proofs are written) *)
From TarsV Require Import Conc.Shutdown.
