(* C17 specification side (definitions only): what a configuration document *contains*, independently of the
   parser's store: the sequence of events (domain openings and content lines with the domain path that encloses
   them), the per-domain line lists, the per-key assignments; and the concrete syntax of rendered documents
   (text written with raw characters / entities / CR LF forms, tags with optional blanks). *)
From Coq Require Import List NArith ZArith Bool.
From TarsV Require Import Base.Hex Gen.Consts Conf.Conf.
Import ListNotations.
Open Scope bool_scope.
Open Scope N_scope.

(* ------------------------------------------------------------------------------------------- *)
(* events of a token list *)
Inductive event := EvOpen (k : key) | EvLine (k : key) (line : bytes).

(* the lines of a text run that are neither blank nor comments, trimmed *)
Definition content_lines (t : bytes) : list bytes :=
  flat_map (fun seg => match content_line seg with Some l => [l] | None => [] end) (split_lines t).

Fixpoint events (ts : list token) (stk : key) : list event :=
  match ts with
  | [] => []
  | TText t :: r => map (EvLine stk) (content_lines t) ++ events r stk
  | TStart n :: r => EvOpen (n :: stk) :: events r (n :: stk)
  | TEnd _ :: r => events r (tl stk)
  end.

Definition apply_ev (s : store) (e : event) : store :=
  match e with
  | EvOpen k => match lookup s k with Some _ => s | None => (k, new_node) :: s end
  | EvLine k l => do_line s k l
  end.
Definition run_events (evs : list event) : store := fold_left apply_ev evs init_store.

(* every line of every text run is short enough for bufio.Scanner *)
Definition short_lines (ts : list token) : Prop :=
  forall t seg, In (TText t) ts -> In seg (split_lines t) -> N.of_nat (length seg) < max_scan_token.

(* what the document says, read off the events *)
Definition opens (evs : list event) : list key :=
  flat_map (fun e => match e with EvOpen k => [k] | _ => [] end) evs.
Definition live (evs : list event) (K : key) : Prop := K = [root_name] \/ In K (opens evs).
Definition lines_of (evs : list event) (K : key) : list bytes :=
  flat_map (fun e => match e with EvLine k l => if key_eqb k K then [l] else [] | _ => [] end) evs.
Definition key_of_line (l : bytes) : bytes := fst (line_kv l).
Definition value_of_line (l : bytes) : bytes := snd (line_kv l).
(* the values written for key [k] directly inside domain [K], in document order *)
Definition assigns (evs : list event) (K : key) (k : bytes) : list bytes :=
  map value_of_line (filter (fun l => bytes_eqb (key_of_line l) k) (lines_of evs K)).
(* the key names written directly inside domain [K] *)
Definition keys_of (evs : list event) (K : key) : list bytes :=
  filter nonempty (map key_of_line (lines_of evs K)).

(* structural well-formedness of an event list: lines are written inside opened domains, domains are opened
   inside opened domains ([o] = the domains open so far) *)
Fixpoint ev_wf (o : list key) (evs : list event) : Prop :=
  match evs with
  | [] => True
  | EvLine K l :: r => In K o /\ ev_wf o r
  | EvOpen K :: r => (exists n K0, K = n :: K0 /\ In K0 o) /\ ev_wf (K :: o) r
  end.

(* within one domain, key names and sub-domain names are disjoint *)
Definition no_clobber (evs : list event) : Prop :=
  forall K l, In (EvLine K l) evs -> key_of_line l <> [] -> ~ live evs (key_of_line l :: K).

(* the store represents exactly the events: every domain with all its lines in order, every key with its last
   value, nothing else, no duplicates *)
Record represents (s : store) (evs : list event) : Prop := {
  rep_domain : forall K, live evs K ->
      exists i, lookup s K = Some i /\ ikind i = KNode /\ ilines i = rev (lines_of evs K);
  rep_key : forall K k, k <> [] -> assigns evs K k <> [] ->
      lookup s (k :: K) = Some (new_leaf (last (assigns evs K k) []));
  rep_only : forall X i, lookup s X = Some i ->
      live evs X \/ exists K k, X = k :: K /\ k <> [] /\ assigns evs K k <> [];
  rep_nodup : NoDup (map fst s)
}.

(* ------------------------------------------------------------------------------------------- *)
(* concrete syntax: how text may be written *)
Inductive atom :=
| ARaw (c : N)                      (* the character itself (ASCII) *)
| AEnt (raw : bytes) (c : N)        (* & raw ; denoting the ASCII character c *)
| AEntU (raw bs : bytes)            (* & raw ; a numeric entity >= 128, delivered UTF-8 encoded as bs *)
| AUtf8 (bs : bytes)                (* a run of bytes >= 128 that is valid UTF-8 without U+FFFE / U+FFFF *)
| ACr | ACrLf.                      (* CR and CR LF are delivered as LF *)

Definition atom_bytes (a : atom) : bytes :=
  match a with
  | ARaw c => [c]
  | AEnt raw _ => c_amp :: raw ++ [c_semi]
  | AEntU raw _ => c_amp :: raw ++ [c_semi]
  | AUtf8 bs => bs
  | ACr => [c_cr]
  | ACrLf => [c_cr; c_nl]
  end.
Definition atom_chars (a : atom) : bytes :=
  match a with ARaw c => [c] | AEnt _ c => [c] | AEntU _ bs => bs | AUtf8 bs => bs | ACr => [c_nl] | ACrLf => [c_nl] end.
(* the last raw byte (what the tokenizer remembers for its "]]>" and CR LF checks); 0 after an entity *)
Definition atom_last (a : atom) : N :=
  match a with ARaw c => c | AEnt _ _ => 0 | AEntU _ _ => 0 | AUtf8 bs => last bs 0 | ACr => c_cr | ACrLf => c_nl end.

Definition atom_ok (prev : N) (a : atom) : Prop :=
  match a with
  | ARaw c => c < 128 /\ c <> c_lt /\ c <> c_amp /\ c <> c_cr /\ is_ctrl c = false
              /\ ~ (prev = c_rb /\ c = c_gt)          (* "]>" is written "]&gt;" : no "]]>" can arise *)
              /\ ~ (prev = c_cr /\ c = c_nl)          (* CR then LF is the atom ACrLf *)
  | AEnt raw c => Forall (fun b => is_ent_char b = true) raw /\ decode_entity raw = EntText c /\ is_ctrl c = false /\ c < 128
  | AEntU raw bs => Forall (fun b => is_ent_char b = true) raw /\ decode_entity raw = EntBytes bs /\ bs <> [] /\ utf8_valid bs = true
  | AUtf8 bs => bs <> [] /\ Forall (fun c => 128 <= c) bs /\ utf8_valid bs = true
  | ACr => True
  | ACrLf => True
  end.
Fixpoint atoms_ok (prev : N) (l : list atom) : Prop :=
  match l with
  | [] => True
  | a :: r => atom_ok prev a /\ atoms_ok (atom_last a) r
  end.
Definition text_bytes (l : list atom) : bytes := concat (map atom_bytes l).
Definition text_chars (l : list atom) : bytes := concat (map atom_chars l).

(* a document as a flat, well-nested sequence of pieces *)
Inductive piece :=
| PText (l : list atom)
| POpen (name ws : bytes)            (* <name ws> *)
| PClose (name ws : bytes)           (* </name ws> *)
| PEmpty (name ws : bytes).          (* <name ws/> *)

Definition piece_bytes (p : piece) : bytes :=
  match p with
  | PText l => text_bytes l
  | POpen n ws => c_lt :: n ++ ws ++ [c_gt]
  | PClose n ws => c_lt :: c_slash :: n ++ ws ++ [c_gt]
  | PEmpty n ws => c_lt :: n ++ ws ++ [c_slash; c_gt]
  end.
Definition render (ps : list piece) : bytes := concat (map piece_bytes ps).

Definition piece_tokens (p : piece) : list token :=
  match p with
  | PText l => [TText (text_chars l)]
  | POpen n _ => [TStart n]
  | PClose n _ => [TEnd n]
  | PEmpty n _ => [TStart n; TEnd n]
  end.
Definition tokens_of (ps : list piece) : list token := concat (map piece_tokens ps).

Definition name_ok (n : bytes) : Prop :=
  match n with
  | [] => False
  | c :: r => is_name_start c = true /\ Forall (fun b => is_name_char b = true) r
  end.
Definition ws_ok (ws : bytes) : Prop := Forall (fun b => is_xml_blank b = true) ws.
Definition piece_ok (p : piece) : Prop :=
  match p with
  | PText l => l <> [] /\ atoms_ok 0 l
  | POpen n ws | PClose n ws | PEmpty n ws => name_ok n /\ ws_ok ws
  end.
Definition is_text (p : piece) : bool := match p with PText _ => true | _ => false end.
(* two text pieces are never adjacent (they would be one text run) *)
Fixpoint no_adjacent_text (ps : list piece) : Prop :=
  match ps with
  | p :: ((q :: _) as r) => (is_text p && is_text q = false) /\ no_adjacent_text r
  | _ => True
  end.
Definition doc_ok (ps : list piece) : Prop :=
  Forall piece_ok ps /\ no_adjacent_text ps /\ balanced (tokens_of ps) = true.

(* ------------------------------------------------------------------------------------------- *)
(* how lines may be written inside a text run: the grammar's key = value line with arbitrary blanks *)
Definition blanks (w : bytes) : Prop := Forall (fun c => is_conf_blank c = true /\ c <> c_nl) w.   (* spaces, tabs *)
Definition edges_ok (s : bytes) : Prop :=
  (exists c r, s = c :: r /\ is_conf_blank c = false) /\ (exists r c, s = r ++ [c] /\ is_conf_blank c = false).
Definition clean_key (k : bytes) : Prop :=
  edges_ok k /\ ~ In c_eq k /\ ~ In c_nl k /\ ~ In c_cr k /\ hd 0 k <> c_hash.
Definition clean_value (v : bytes) : Prop := v = [] \/ (edges_ok v /\ ~ In c_nl v /\ ~ In c_cr v).
(* the line as written, and as recorded (trimmed; blanks before an empty value disappear) *)
Definition kv_line (w0 k w1 w2 v w3 : bytes) : bytes := w0 ++ k ++ w1 ++ [c_eq] ++ w2 ++ v ++ w3.
Definition kv_text (k w1 w2 v : bytes) : bytes := k ++ w1 ++ [c_eq] ++ match v with [] => [] | _ => w2 ++ v end.
(* lines joined into a text run, each terminated by a newline *)
Definition join_lines (ls : list bytes) : bytes := concat (map (fun l => l ++ [c_nl]) ls).
Definition line_content (seg : bytes) : list bytes := match content_line seg with Some l => [l] | None => [] end.

(* the grammar's lines: key = value, comment, blank *)
Inductive gline :=
| GKV (w0 k w1 w2 v w3 : bytes)
| GComment (w rest : bytes)
| GBlank (w : bytes).
Definition gline_bytes (g : gline) : bytes :=
  match g with
  | GKV w0 k w1 w2 v w3 => kv_line w0 k w1 w2 v w3
  | GComment w rest => w ++ c_hash :: rest
  | GBlank w => w
  end.
Definition gline_ok (g : gline) : Prop :=
  match g with
  | GKV w0 k w1 w2 v w3 => blanks w0 /\ blanks w1 /\ blanks w2 /\ blanks w3 /\ clean_key k /\ clean_value v
  | GComment w rest => blanks w /\ ~ In c_nl rest
  | GBlank w => blanks w
  end.
Definition gline_text (g : gline) : list bytes := match g with GKV _ k w1 w2 v _ => [kv_text k w1 w2 v] | _ => [] end.
Definition gline_kv (g : gline) : list (bytes * bytes) := match g with GKV _ k _ _ v _ => [(k, v)] | _ => [] end.
Definition gline_val (k : bytes) (g : gline) : list bytes :=
  match g with GKV _ k' _ _ v _ => if bytes_eqb k' k then [v] else [] | _ => [] end.
(* a text run written as grammar lines: every line newline-terminated, or the last one left unterminated
   (before a tag or the end of the document) *)
Definition glines_text (ls : list gline) : bytes := join_lines (map gline_bytes ls).
Definition glines_text_open (ls : list gline) : bytes :=
  join_lines (map gline_bytes (removelast ls)) ++ gline_bytes (last ls (GBlank [])).
Definition gtext (ls : list gline) (terminated : bool) : bytes := if terminated then glines_text ls else glines_text_open ls.

(* a document whose text runs are grammar lines ([dec] names the lines of each run): what it assigns to key [k]
   directly inside domain [K], and the lines it writes there, read off the pieces *)
Section Grammar.
  Variable dec : list atom -> list gline * bool.
  Fixpoint gassigns (ps : list piece) (stk K : key) (k : bytes) : list bytes :=
    match ps with
    | [] => []
    | PText l :: r => (if key_eqb stk K then flat_map (gline_val k) (fst (dec l)) else []) ++ gassigns r stk K k
    | POpen n _ :: r => gassigns r (n :: stk) K k
    | PClose _ _ :: r => gassigns r (tl stk) K k
    | PEmpty _ _ :: r => gassigns r stk K k
    end.
  Fixpoint glines (ps : list piece) (stk K : key) : list bytes :=
    match ps with
    | [] => []
    | PText l :: r => (if key_eqb stk K then flat_map gline_text (fst (dec l)) else []) ++ glines r stk K
    | POpen n _ :: r => glines r (n :: stk) K
    | PClose _ _ :: r => glines r (tl stk) K
    | PEmpty _ _ :: r => glines r stk K
    end.
  Definition grammar_text (ps : list piece) : Prop :=
    forall l, In (PText l) ps -> Forall gline_ok (fst (dec l)) /\ text_chars l = gtext (fst (dec l)) (snd (dec l)).
End Grammar.

(* ------------------------------------------------------------------------------------------- *)
(* how a path is written: /a/b  and  /a/b<key> *)
Definition path_string (v : list bytes) (k : option bytes) : bytes :=
  concat (map (fun n => c_slash :: n) v) ++ match k with Some k => c_lt :: k ++ [c_gt] | None => [] end.
Definition path_name (n : bytes) : Prop := n <> [] /\ ~ In c_slash n /\ ~ In c_lt n.
Definition path_key (k : bytes) : Prop :=
  ~ In c_slash k /\ ~ In c_lt k /\ (exists c r, k = c :: r /\ c <> c_gt) /\ (exists r c, k = r ++ [c] /\ c <> c_gt).

(* ------------------------------------------------------------------------------------------- *)
(* the same documents as trees: any nesting; flattening gives a well-nested piece list *)
Inductive node :=
| NText (l : list atom)
| NDomain (name ws1 ws2 : bytes) (body : list node)       (* <name ws1> body </name ws2> *)
| NEmpty (name ws : bytes).                               (* <name ws/> *)
Fixpoint flatten (n : node) : list piece :=
  match n with
  | NText l => [PText l]
  | NDomain nm w1 w2 body => POpen nm w1 :: flat_map flatten body ++ [PClose nm w2]
  | NEmpty nm w => [PEmpty nm w]
  end.
Definition flatten_doc (d : list node) : list piece := flat_map flatten d.
