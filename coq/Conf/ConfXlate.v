(* C17: the Go source of the line-level logic of tars/util/conf/conf.go, translated on every run
   (Gen/ConfTranslated.v, harness/c17xlate.go), computes what the hand-written model Conf/Conf.v computes - for all
   inputs. An edit of the source that changes the meaning of the line loop, of analysisPath or of a typed getter
   makes one of these proofs fail (layer L1). *)
From Coq Require Import List NArith ZArith Bool Lia ZifyBool ZifyNat ZifyN Permutation.
From TarsV Require Import Base.Hex Gen.Consts Conf.Conf Conf.ConfSpec Conf.ConfProofs Conf.GoStr Gen.ConfTranslated.
Import ListNotations.
Open Scope bool_scope.
Open Scope Z_scope.

(* ------------------------------------------------------------------------------------------- *)
(* the string functions of GoStr on this program's arguments are the model's functions *)
Lemma blanks_same : k_conf_whiteSpaceChars = c_conf_blanks.
Proof. reflexivity. Qed.

Lemma gs_trim_left_conf s : gs_trim_left k_conf_whiteSpaceChars s = trim_left s.
Proof.
  induction s as [|c r IH]; [reflexivity|]. cbn [gs_trim_left trim_left]. rewrite IH. unfold gs_mem, is_conf_blank. rewrite blanks_same. reflexivity.
Qed.
Lemma gs_trim_conf s : gs_trim k_conf_whiteSpaceChars s = trim s.
Proof. unfold gs_trim, gs_trim_right, trim. rewrite !frev_rev, !gs_trim_left_conf. reflexivity. Qed.

Lemma gs_cut_eq : forall l, gs_cut l [61%N] = match cut_eq l with (a, Some b) => Some (a, b) | (_, None) => None end.
Proof.
  induction l as [|c r IH]; [reflexivity|]. cbn [gs_cut cut_eq gs_has_prefix]. unfold c_eq.
  rewrite N.eqb_sym. destruct (c =? 61)%N; cbn [andb].
  - destruct r; reflexivity.
  - rewrite IH. destruct (cut_eq r) as [a [b|]]; reflexivity.
Qed.

Lemma gs_splitn_eq2 l : gs_splitn l [61%N] 2 = match cut_eq l with (a, Some b) => [a; b] | (a, None) => [l] end.
Proof.
  unfold gs_splitn. cbn [Z.eqb gs_splitn_fuel]. rewrite gs_cut_eq. destruct (cut_eq l) as [a [b|]]; [|reflexivity].
  destruct (length l); reflexivity.
Qed.
Lemma cut_eq_none : forall l a, cut_eq l = (a, None) -> a = l.
Proof.
  induction l as [|c r IH]; intros a H; cbn in H; [congruence|]. destruct (c =? c_eq)%N; [discriminate|].
  destruct (cut_eq r) as [a' [b|]]; inversion H; subst. f_equal. apply IH. reflexivity.
Qed.

Lemma gs_eqb_nil k : gs_eqb k [] = match k with [] => true | _ => false end.
Proof. destruct k; reflexivity. Qed.

(* ------------------------------------------------------------------------------------------- *)
(* the line loop *)
Definition kind_of (z : Z) : kind := if z =? k_conf_Leaf then KLeaf else KNode.
Definition apply_effect (cur : key) (s : store) (e : conf_effect) : store :=
  match e with
  | EffAddLine l => add_line s cur l
  | EffAddChild k (kd, _, v) => (k :: cur, {| ikind := kind_of kd; ivalue := v; ilines := [] |}) :: remove_under s (k :: cur)
  end.
(* the effects of one scanned line according to the model *)
Definition line_effects (text : bytes) : list conf_effect :=
  match trim text with
  | [] => []
  | c :: _ => if (c =? c_hash)%N then []
              else EffAddLine (trim text) ::
                   (let '(k, v) := line_kv (trim text) in match k with [] => [] | _ => [EffAddChild k (k_conf_Leaf, k, v)] end)
  end.

Theorem tr_conf_line_equiv : forall text, tr_conf_line text = Some (line_effects text).
Proof.
  intros text. unfold tr_conf_line, line_effects. rewrite gs_trim_conf. destruct (trim text) as [|c r] eqn:T; [reflexivity|].
  assert (L : Z.gtb (gs_len (c :: r)) 0 = true) by (unfold gs_len; cbn [length]; lia).
  rewrite L. cbn [gs_in_range gs_nth Z.to_nat nth]. replace (gs_in_range (c :: r) 0) with true by (unfold gs_in_range, gs_len; cbn [length]; lia).
  unfold c_hash. destruct (c =? 35)%N; [reflexivity|]. cbn [gs_eqb list_eqb app].
  rewrite gs_splitn_eq2. unfold line_kv. destruct (cut_eq (c :: r)) as [a [b|]] eqn:CE.
  - replace (gs_in_range [a; b] 0) with true by reflexivity. replace (gs_in_range [a; b] 1) with true by reflexivity.
    cbn [gs_nth Z.to_nat nth Pos.to_nat Pos.iter_op Nat.add]. rewrite !gs_trim_conf, gs_eqb_nil.
    destruct (trim a) as [|k0 kr]; [reflexivity|]. reflexivity.
  - apply cut_eq_none in CE. subst a. replace (gs_in_range [c :: r] 0) with true by reflexivity.
    cbn [gs_nth Z.to_nat nth]. rewrite !gs_trim_conf, gs_eqb_nil.
    destruct (trim (c :: r)) as [|k0 kr]; [reflexivity|]. reflexivity.
Qed.

Lemma apply_line_effects s cur seg :
  fold_left (apply_effect cur) (line_effects (drop_cr seg)) s =
  match content_line seg with Some line => do_line s cur line | None => s end.
Proof.
  unfold line_effects, content_line. destruct (trim (drop_cr seg)) as [|c r]; [reflexivity|].
  destruct (c =? c_hash)%N; [reflexivity|]. unfold do_line. destruct (line_kv (c :: r)) as [k v].
  destruct k; reflexivity.
Qed.

(* the scanner loop over one text run with the translated body in place of the model's step *)
Fixpoint tr_segments (s : store) (cur : key) (segs : list bytes) : option store :=
  match segs with
  | [] => Some s
  | seg :: r => if (max_scan_token <=? N.of_nat (length seg))%N then None
                else match tr_conf_line (drop_cr seg) with
                     | Some effs => tr_segments (fold_left (apply_effect cur) effs s) cur r
                     | None => None
                     end
  end.

Theorem tr_segments_equiv : forall segs s cur, tr_segments s cur segs = do_segments s cur segs.
Proof.
  induction segs as [|seg r IH]; intros s cur; [reflexivity|]. cbn [tr_segments do_segments].
  destruct (max_scan_token <=? N.of_nat (length seg))%N; [reflexivity|].
  rewrite tr_conf_line_equiv, apply_line_effects. destruct (content_line seg); apply IH.
Qed.

Theorem tr_conf_line_frame_pinned : tr_conf_line_frame = true /\ tr_conf_decode_loop_frame = true /\ tr_conf_tag_cases_frame = true.
Proof. repeat split; reflexivity. Qed.

(* ------------------------------------------------------------------------------------------- *)
(* the typed getters: c.root.getValue(path) is the model's element lookup (value of the element, "not find") *)
Definition value_of_elem (e : option (key * info)) : bytes * bool :=
  match e with Some (_, i) => (ivalue i, false) | None => ([], true) end.

Lemma gs_atoi_model s : gs_atoi s = gs_of_opt 0 (atoi s).
Proof. reflexivity. Qed.
Lemma gs_parse_int32_model s : gs_parse_int s 10 32 = gs_of_opt 0 (atoi32 s).
Proof. reflexivity. Qed.

Theorem tr_getters_equiv : forall e,
  (forall d, tr_GetStringWithDef (fst (value_of_elem e)) (snd (value_of_elem e)) d =
             Some (match e with Some (_, i) => ivalue i | None => d end)) /\
  (forall d, tr_GetIntWithDef (fst (value_of_elem e)) (snd (value_of_elem e)) d =
             Some (match e with Some (_, i) => match atoi (ivalue i) with Some v => v | None => d end | None => d end)) /\
  (forall d, tr_GetInt32WithDef (fst (value_of_elem e)) (snd (value_of_elem e)) d =
             Some (match e with Some (_, i) => match atoi32 (ivalue i) with Some v => v | None => d end | None => d end)) /\
  (forall d, tr_GetBoolWithDef (fst (value_of_elem e)) (snd (value_of_elem e)) d =
             Some (match e with Some (_, i) => match parse_bool (ivalue i) with Some v => v | None => d end | None => d end)).
Proof.
  intros [[k i]|]; cbn [value_of_elem fst snd]; repeat split; intros d; try reflexivity.
  - unfold tr_GetIntWithDef. cbn [Bool.eqb negb]. rewrite gs_atoi_model. destruct (atoi (ivalue i)); reflexivity.
  - unfold tr_GetInt32WithDef. cbn [Bool.eqb negb]. rewrite gs_parse_int32_model. destruct (atoi32 (ivalue i)); reflexivity.
  - unfold tr_GetBoolWithDef, gs_parse_bool. cbn [Bool.eqb negb]. destruct (parse_bool (ivalue i)); reflexivity.
Qed.

(* ... so the model's getters are the translated bodies applied to the looked-up element *)
Definition lift {A} (o : option A) : outcome A := match o with Some v => Ok v | None => Panic 0 end.
Definition on_elem {A} (s : store) (p : bytes) (f : bytes -> bool -> option A) : outcome A :=
  match get_elem s p with
  | Ok e => lift (f (fst (value_of_elem e)) (snd (value_of_elem e)))
  | Panic n => Panic n | Err n => Err n | Unmodelled => Unmodelled
  end.
Theorem getters_translated s p :
  (forall d, get_string_def s p d = on_elem s p (fun v e => tr_GetStringWithDef v e d)) /\
  (forall d, get_int_def s p d = on_elem s p (fun v e => tr_GetIntWithDef v e d)) /\
  (forall d, get_int32_def s p d = on_elem s p (fun v e => tr_GetInt32WithDef v e d)) /\
  (forall d, get_bool_def s p d = on_elem s p (fun v e => tr_GetBoolWithDef v e d)).
Proof.
  unfold get_string_def, get_int_def, get_int32_def, get_bool_def, typed, with_elem, on_elem.
  destruct (get_elem s p) as [e| | |]; repeat split; intros d; try reflexivity;
    destruct (tr_getters_equiv e) as (H1 & H2 & H3 & H4); rewrite ?H1, ?H2, ?H3, ?H4; reflexivity.
Qed.

(* ------------------------------------------------------------------------------------------- *)
(* analysisPath *)
Lemma gs_cut_spec c : forall s,
  match gs_cut s [c] with
  | Some (a, b) => s = a ++ c :: b /\ ~ In c a
  | None => ~ In c s
  end.
Proof.
  induction s as [|x r IH]; [intros []|]. cbn [gs_cut gs_has_prefix]. destruct (c =? x)%N eqn:E; cbn [andb].
  - apply N.eqb_eq in E. subst x. destruct r; cbn; split; auto.
  - destruct (gs_cut r [c]) as [[a b]|].
    + destruct IH as [-> Hn]. split; [reflexivity|]. intros [H|H]; [subst; rewrite N.eqb_refl in E; discriminate|contradiction].
    + intros [H|H]; [subst; rewrite N.eqb_refl in E; discriminate|contradiction].
Qed.

Lemma gs_splitn_fuel_split c : forall fuel s n, (length s < fuel)%nat -> n < 0 -> gs_splitn_fuel fuel s [c] n = split_on c s.
Proof.
  induction fuel as [|f IH]; intros s n Hl Hn; [lia|]. cbn [gs_splitn_fuel].
  destruct (n =? 1) eqn:E1; [lia|]. pose proof (gs_cut_spec c s) as H. destruct (gs_cut s [c]) as [[a b]|].
  - destruct H as [-> Hna]. rewrite split_on_sep by assumption. f_equal. apply IH; [|lia].
    rewrite app_length in Hl. cbn in Hl. lia.
  - rewrite split_on_nosep by assumption. reflexivity.
Qed.
Lemma gs_split_byte s c : gs_split s [c] = split_on c s.
Proof. unfold gs_split, gs_splitn. cbn [Z.eqb]. apply gs_splitn_fuel_split; lia. Qed.

Lemma gs_trim_left_c c s : gs_trim_left [c] s = trim_left_c c s.
Proof.
  induction s as [|x r IH]; [reflexivity|]. cbn [gs_trim_left trim_left_c gs_mem existsb]. rewrite IH, orb_false_r. reflexivity.
Qed.
Lemma gs_trim_c c s : gs_trim [c] s = trim_c c s.
Proof. unfold gs_trim, gs_trim_right, trim_c. rewrite !frev_rev, !gs_trim_left_c. reflexivity. Qed.

Lemma filter_fold : forall l acc,
  fold_left (fun (g_st : option (list gstr)) (g_item : gstr) =>
               match g_st with
               | None => None
               | Some g_ret => if negb (gs_eqb g_item []) then (let g_ret := g_ret ++ [g_item] in Some g_ret) else (Some g_ret)
               end) l (Some acc) = Some (acc ++ filter nonempty l).
Proof.
  induction l as [|x l IH]; intros acc; cbn [fold_left filter]; [rewrite app_nil_r; reflexivity|].
  rewrite gs_eqb_nil. destruct x as [|c r]; cbn [negb nonempty]; rewrite IH; [reflexivity|]. rewrite <- app_assoc. reflexivity.
Qed.

Lemma last_slice {A} (l : list A) d : l <> [] ->
  gs_in_range l (gs_len l - 1) = true /\ gs_nth l (gs_len l - 1) d = last l d /\
  gs_slice_ok l 0 (gs_len l - 1) = true /\ gs_slice l 0 (gs_len l - 1) = removelast l.
Proof.
  intros H. destruct (exists_last H) as (init & x & ->). unfold gs_in_range, gs_nth, gs_slice_ok, gs_slice, gs_len.
  rewrite app_length. cbn [length]. replace (Z.of_nat (length init + 1) - 1) with (Z.of_nat (length init)) by lia.
  rewrite Z.sub_0_r, !Nat2Z.id, last_last, removelast_last. cbn [Z.to_nat skipn].
  repeat split; try lia.
  - rewrite app_nth2 by lia. rewrite Nat.sub_diag. reflexivity.
  - rewrite firstn_app, Nat.sub_diag, firstn_all. cbn. apply app_nil_r.
Qed.

Theorem tr_analysisPath_equiv : forall p,
  tr_analysisPath p = match analysis_path p with Ok v => Some v | _ => None end.
Proof.
  intros p. unfold tr_analysisPath, analysis_path. rewrite gs_split_byte, frev_rev.
  assert (NE : split_on c_slash p <> []) by (unfold split_on; apply split_on_aux_nonempty).
  change 47%N with c_slash. set (l := split_on c_slash p) in *.
  destruct (last_slice l [] NE) as (E1 & E2 & E3 & E4). unfold gstr, bytes in *. rewrite E1, E2, E3, E4.
  assert (R : rev l = last l [] :: rev (removelast l)).
  { transitivity (rev (removelast l ++ [last l []])); [f_equal; apply app_removelast_last; exact NE|]. rewrite rev_app_distr. reflexivity. }
  rewrite R, frev_rev, rev_involutive.
  rewrite gs_split_byte. change 60%N with c_lt. set (lp := split_on c_lt (last l [])).
  rewrite !filter_fold. destruct lp as [|a [|b [|c lp']]].
  - reflexivity.
  - reflexivity.
  - replace (gs_len [a; b] =? 2) with true by reflexivity. replace (gs_in_range [a; b] 0) with true by reflexivity.
    replace (gs_in_range [a; b] 1) with true by reflexivity. cbn [gs_nth Z.to_nat nth Pos.to_nat Pos.iter_op Nat.add].
    rewrite gs_trim_c. change 62%N with c_gt. rewrite <- app_assoc. reflexivity.
  - match goal with |- context [?x =? 2] => replace (x =? 2) with false by (unfold gs_len; cbn [length]; lia) end. reflexivity.
Qed.

(* ------------------------------------------------------------------------------------------- *)
(* the methods of elem and the listing getters *)
Theorem tr_elem_methods : forall e name child line value kd,
  tr_addLine e line = Some (ge_set_line e (ge_line e ++ [line])) /\
  tr_setValue e value = Some (ge_set_value e value) /\
  tr_addChild e name child = Some (ge_set_children e (gs_map_set (ge_children e) name child)) /\
  tr_findChild e name = Some (gs_map_get2 (ge_children e) name) /\
  tr_newElem kd name = Some {| ge_kind := kd; ge_name := name; ge_value := []; ge_children := []; ge_line := [] |}.
Proof.
  intros. repeat split; try reflexivity. unfold tr_findChild. destruct (gs_map_get2 (ge_children e) name); reflexivity.
Qed.

(* an element of the model's store as the Go code sees it: its children (in store order) and its lines *)
Definition kind_z (k : kind) : Z := match k with KNode => k_conf_Node | KLeaf => k_conf_Leaf end.
Fixpoint child_view (s : store) (K : key) : list (gstr * gchild) :=
  match s with
  | [] => []
  | e :: r => match child_name K e with
              | Some n => (n, {| gc_kind := kind_z (ikind (snd e)); gc_name := n; gc_value := ivalue (snd e) |}) :: child_view r K
              | None => child_view r K
              end
  end.
Definition elem_view (s : store) (K : key) (i : info) : gelem :=
  {| ge_kind := kind_z (ikind i); ge_name := hd [] K; ge_value := ivalue i; ge_children := child_view s K; ge_line := rev (ilines i) |}.
Definition no_elem : gelem := {| ge_kind := 0; ge_name := []; ge_value := []; ge_children := []; ge_line := [] |}.
(* e.getElem(pathVec) *)
Definition get_elem_view (s : store) (v : list bytes) : gelem * bool :=
  match lookup s (key_of_vec v) with Some i => (elem_view s (key_of_vec v) i, false) | None => (no_elem, true) end.

Definition kind_test (kd : kind) (c : gchild) : option bool :=
  match kd with KNode => tr_isNode c | KLeaf => tr_isLeaf c end.
Lemma kind_test_view kd i n : kind_test kd {| gc_kind := kind_z (ikind i); gc_name := n; gc_value := ivalue i |} = Some (is_kind kd i).
Proof. destruct kd; destruct i as [[|] v l]; reflexivity. Qed.

Lemma fold_names kd : forall s K acc,
  fold_left (fun (g_st : option (list gstr)) (g_child : gchild) =>
     match g_st with
     | None => None
     | Some a => if gs_is_some (kind_test kd g_child)
                 then (if gs_get false (kind_test kd g_child) then (let a := a ++ [gc_name g_child] in Some a) else Some a)
                 else None
     end) (map snd (child_view s K)) (Some acc) = Some (acc ++ map fst (children kd s K)).
Proof.
  induction s as [|e r IH]; intros K acc; cbn [child_view children map fold_left]; [rewrite app_nil_r; reflexivity|].
  destruct (child_name K e) as [n|]; [|apply IH]. cbn [map snd fold_left]. rewrite kind_test_view. cbn [gs_is_some gs_get].
  destruct (is_kind kd (snd e)); cbn [gc_name map fst]; rewrite IH; [rewrite <- app_assoc; reflexivity|reflexivity].
Qed.

Lemma fold_pairs : forall s K acc,
  fold_left (fun (g_st : option (list (gstr * gstr))) (g_child : gchild) =>
     match g_st with
     | None => None
     | Some a => if gs_is_some (tr_isLeaf g_child)
                 then (if gs_get false (tr_isLeaf g_child) then (let a := gs_map_set a (gc_name g_child) (gc_value g_child) in Some a) else Some a)
                 else None
     end) (map snd (child_view s K)) (Some acc) =
  Some (fold_left (fun m kv => gs_map_set m (fst kv) (snd kv)) (children KLeaf s K) acc).
Proof.
  induction s as [|e r IH]; intros K acc; cbn [child_view children map fold_left]; [reflexivity|].
  destruct (child_name K e) as [n|]; [|apply IH]. cbn [map snd fold_left].
  change (tr_isLeaf ?c) with (kind_test KLeaf c). rewrite kind_test_view. cbn [gs_is_some gs_get].
  destruct (is_kind KLeaf (snd e)); cbn [gc_name gc_value fold_left fst snd]; apply IH.
Qed.

Theorem tr_listing_getters_equiv : forall s p v, analysis_path p = Ok v ->
  let nd := get_elem_view s v in
  tr_getDomain p (fst nd) (snd nd) = Some (match get_domain s p with Ok l => l | _ => [] end, snd nd) /\
  tr_getDomainKey p (fst nd) (snd nd) = Some (match get_domain_key s p with Ok l => l | _ => [] end, snd nd) /\
  tr_getDomainLine p (fst nd) (snd nd) = Some (match get_domain_line s p with Ok l => l | _ => [] end, snd nd) /\
  tr_getMap p (fst nd) (snd nd) =
    Some (fold_left (fun m kv => gs_map_set m (fst kv) (snd kv)) (match get_map s p with Ok l => l | _ => [] end) [], snd nd) /\
  (forall d, tr_getValue p (fst nd) (snd nd) = Some (match lookup s (key_of_vec v) with Some i => ivalue i | None => [] end, snd nd)
             /\ get_string_def s p d = Ok (match lookup s (key_of_vec v) with Some i => ivalue i | None => d end)).
Proof.
  intros s p v Hp nd. subst nd. unfold get_elem_view.
  unfold tr_getDomain, tr_getDomainKey, tr_getDomainLine, tr_getMap, tr_getValue, get_domain, get_domain_key, get_domain_line, get_map, get_string_def.
  rewrite !(with_elem_path s p v Hp), tr_analysisPath_equiv, Hp.
  destruct (lookup s (key_of_vec v)) as [i|] eqn:L; cbn [fst snd Bool.eqb negb].
  - repeat split; try reflexivity;
      try (change (tr_isNode ?c) with (kind_test KNode c); cbn [elem_view ge_children]; rewrite fold_names; reflexivity);
      try (change (tr_isLeaf ?c) with (kind_test KLeaf c); cbn [elem_view ge_children]; rewrite fold_names; reflexivity);
      try (cbn [elem_view ge_line app]; rewrite frev_rev; reflexivity);
      try (cbn [elem_view ge_children]; rewrite fold_pairs; reflexivity);
      try (rewrite (with_elem_path s p v Hp), L; reflexivity).
  - repeat split; try reflexivity; rewrite (with_elem_path s p v Hp), L; reflexivity.
Qed.

(* with distinct names (every represented store) the map built by getMap is the list of leaves itself *)
Lemma map_set_fresh {V} : forall (m : list (gstr * V)) k v, ~ In k (map fst m) -> gs_map_set m k v = m ++ [(k, v)].
Proof.
  induction m as [|[k' v'] m IH]; intros k v H; [reflexivity|]. cbn [gs_map_set]. cbn in H.
  destruct (gs_eqb k' k) eqn:E.
  - exfalso. apply H. left. apply (proj1 (bytes_eqb_eq k' k)). exact E.
  - rewrite IH by tauto. reflexivity.
Qed.
Lemma map_set_all {V} : forall (l acc : list (gstr * V)), NoDup (map fst (acc ++ l)) ->
  fold_left (fun m kv => gs_map_set m (fst kv) (snd kv)) l acc = acc ++ l.
Proof.
  induction l as [|[k v] l IH]; intros acc ND; [rewrite app_nil_r; reflexivity|]. cbn [fold_left fst snd].
  assert (F : ~ In k (map fst acc)).
  { rewrite map_app in ND. apply NoDup_remove_2 in ND. intros Hin. apply ND. apply in_or_app. left. exact Hin. }
  rewrite map_set_fresh by exact F. rewrite IH; rewrite <- app_assoc; [reflexivity|exact ND].
Qed.

(* ------------------------------------------------------------------------------------------- *)
(* getElem walks the tree from the root, child by child; the model looks the whole path up in its flat store. The two
   agree on every store the parser produces: such a store holds, with every element, all its ancestors. *)
Definition present (s : store) (K : key) : Prop := lookup s K <> None.
Definition closed (s : store) : Prop := forall n K, present s (n :: K) -> K <> [] -> present s K.
Definition find_in (s : store) (K : key) (n : gstr) : option key * bool :=
  match lookup s (n :: K) with Some _ => (Some (n :: K), true) | None => (None, false) end.

Lemma closed_suffix s : closed s -> forall pre X, present s (pre ++ X) -> X <> [] -> present s X.
Proof.
  intros C. induction pre as [|n pre IH]; intros X H HX; [exact H|]. apply IH; [|exact HX].
  apply (C n); [exact H|]. destruct pre; destruct X; cbn; try discriminate. contradiction.
Qed.

Lemma fold_inr {H} (f : H -> gstr -> option H * bool) r : forall v,
  fold_left (fun (g_st : option (option H + (option H * bool))) (g_item : gstr) =>
     match g_st with
     | None => None
     | Some (inr g_r) => Some (inr g_r)
     | Some (inl g_targetNode) =>
         if gs_is_some g_targetNode
         then (let '(g_t, g_ok) := gs_find f g_targetNode g_item in
               if negb g_ok then Some (inr (None, true)) else (let g_targetNode := g_t in Some (inl g_targetNode)))
         else None
     end) v (Some (inr r)) = Some (inr r).
Proof. induction v as [|n v IH]; [reflexivity|]. cbn [fold_left]. exact IH. Qed.

Lemma walk_fold s : closed s -> forall v K, present s K -> K <> [] ->
  fold_left (fun (g_st : option (option key + (option key * bool))) (g_item : gstr) =>
     match g_st with
     | None => None
     | Some (inr g_r) => Some (inr g_r)
     | Some (inl g_targetNode) =>
         if gs_is_some g_targetNode
         then (let '(g_t, g_ok) := gs_find (find_in s) g_targetNode g_item in
               if negb g_ok then Some (inr (None, true)) else (let g_targetNode := g_t in Some (inl g_targetNode)))
         else None
     end) v (Some (inl (Some K))) =
  Some (match lookup s (rev v ++ K) with Some _ => inl (Some (rev v ++ K)) | None => inr (None, true) end).
Proof.
  intros C. induction v as [|n v IH]; intros K HK HN.
  - cbn [fold_left rev app]. destruct (lookup s K) eqn:L; [reflexivity|]. exfalso. exact (HK L).
  - cbn [fold_left gs_is_some gs_find rev]. rewrite <- app_assoc. cbn [app].
    destruct (lookup s (n :: K)) as [i|] eqn:L.
    + assert (FI : find_in s K n = (Some (n :: K), true)) by (unfold find_in; rewrite L; reflexivity).
      rewrite FI. cbv beta iota zeta. cbn [negb]. apply IH; [unfold present; rewrite L; discriminate|discriminate].
    + assert (FI : find_in s K n = (None, false)) by (unfold find_in; rewrite L; reflexivity).
      rewrite FI. cbv beta iota zeta. cbn [negb]. rewrite fold_inr. match goal with |- context [lookup s ?X] => destruct (lookup s X) eqn:L2 end; [|reflexivity].
      exfalso. assert (P : present s (n :: K)).
      { apply (closed_suffix s C (rev v)); [|discriminate]. unfold present. unfold gstr, key, bytes in *. rewrite L2. discriminate. }
      exact (P L).
Qed.

Theorem tr_getElem_walk s v : closed s -> present s [root_name] ->
  tr_getElem (find_in s) (Some [root_name]) v =
  Some (match lookup s (key_of_vec v) with Some _ => (Some (key_of_vec v), false) | None => (None, true) end).
Proof.
  intros C R. unfold tr_getElem, key_of_vec. rewrite frev_rev. pose proof (walk_fold s C v [root_name] R) as W.
  cbv zeta in W |- *. unfold gstr, key, bytes in *. rewrite W by discriminate.
  match goal with |- context [lookup s ?X] => destruct (lookup s X) end; reflexivity.
Qed.

(* the invariant of the loop of InitFromBytes: the store is closed and holds the root and every element of the stack *)
Definition stack_present (s : store) (stk : key) : Prop := forall pre X, stk = pre ++ X -> X <> [] -> present s X.
Definition walk_inv (s : store) (stk : key) : Prop := closed s /\ present s [root_name] /\ stack_present s stk.

Lemma is_suffix_length a K : is_suffix a K = true -> (length a <= length K)%nat.
Proof. intros H. apply is_suffix_iff in H. destruct H as [pre ->]. rewrite app_length. lia. Qed.
Lemma is_suffix_cons_r a n K : is_suffix a K = true -> is_suffix a (n :: K) = true.
Proof. intros H. apply is_suffix_iff in H. destruct H as [pre ->]. apply is_suffix_iff. exists (n :: pre). reflexivity. Qed.

Lemma present_do_line s K1 l1 X : present (do_line s K1 l1) X <->
  match key_of_line l1 with
  | [] => present s X
  | k1 => X = k1 :: K1 \/ (is_suffix (k1 :: K1) X = false /\ present s X)
  end.
Proof.
  unfold present. rewrite lookup_do_line. cbv zeta.
  assert (E : (if key_eqb K1 X then option_map (with_line l1) (lookup s X) else lookup s X) <> None <-> lookup s X <> None).
  { destruct (key_eqb K1 X); [|tauto]. destruct (lookup s X); cbn; split; intros H; try discriminate; assumption. }
  destruct (key_of_line l1) as [|c r]; [exact E|].
  unfold key, bytes in *. destruct (key_eqb ((c :: r) :: K1) X) eqn:E1.
  - apply key_eqb_eq in E1. split; [intros _; left; symmetry; exact E1|intros _; discriminate].
  - destruct (is_suffix ((c :: r) :: K1) X) eqn:E2.
    + split; [intros H; contradiction|]. intros [H|[H _]]; [subst X; rewrite key_eqb_refl in E1; discriminate|discriminate].
    + rewrite E. split; [intros H; right; split; [reflexivity|exact H]|].
      intros [H|[_ H]]; [subst X; rewrite key_eqb_refl in E1; discriminate|exact H].
Qed.

Lemma walk_inv_do_line s stk line : stk <> [] -> walk_inv s stk -> walk_inv (do_line s stk line) stk.
Proof.
  intros NE (C & R & SP).
  assert (PS : present s stk) by (apply (SP [] stk); [reflexivity|exact NE]).
  destruct (key_of_line line) as [|c r] eqn:KL.
  - assert (EQ : forall X, present (do_line s stk line) X <-> present s X) by (intros X; rewrite present_do_line, KL; cbv beta iota; split; intro HH; exact HH).
    repeat split.
    + intros n K H HK. apply EQ. apply (C n); [apply EQ; exact H|exact HK].
    + apply EQ. exact R.
    + intros pre X E HX. apply EQ. apply (SP pre X E HX).
  - assert (EQ : forall X, present (do_line s stk line) X <-> (X = (c :: r) :: stk \/ (is_suffix ((c :: r) :: stk) X = false /\ present s X)))
      by (intros X; rewrite present_do_line, KL; cbv beta iota; split; intro HH; exact HH).
    assert (SHORT : forall X, (length X <= length stk)%nat -> is_suffix ((c :: r) :: stk) X = false).
    { intros X HL. destruct (is_suffix ((c :: r) :: stk) X) eqn:E; [|reflexivity]. apply is_suffix_length in E. cbn in E. lia. }
    repeat split.
    + intros n K H HK. apply EQ. apply EQ in H. destruct H as [H|[H1 H2]].
      * injection H as -> ->. right. split; [apply SHORT; lia|exact PS].
      * destruct (is_suffix ((c :: r) :: stk) K) eqn:E.
        -- apply (is_suffix_cons_r _ n) in E. unfold key, bytes in *. rewrite E in H1. discriminate.
        -- right. split; [reflexivity|]. apply (C n); assumption.
    + apply EQ. right. split; [|exact R]. apply SHORT. destruct stk; [contradiction|]. cbn. lia.
    + intros pre X E HX. apply EQ. right. split; [|apply (SP pre X E HX)]. apply SHORT. subst stk. rewrite app_length. lia.
Qed.

Lemma walk_inv_segments : forall segs s stk s', stk <> [] -> walk_inv s stk -> do_segments s stk segs = Some s' -> walk_inv s' stk.
Proof.
  induction segs as [|seg r IH]; intros s stk s' NE I H; cbn [do_segments] in H; [inversion H; subst; exact I|].
  destruct (max_scan_token <=? N.of_nat (length seg))%N; [discriminate|].
  destruct (content_line seg) as [b|]; [|apply (IH s stk s' NE I H)]. apply (IH (do_line s stk b) stk s' NE); [apply walk_inv_do_line; assumption|exact H].
Qed.

Lemma walk_inv_loop : forall ts s stk t, walk_inv s stk -> conf_loop ts s stk = Ok t -> closed t /\ present t [root_name].
Proof.
  induction ts as [|tok ts IH]; intros s stk t I H.
  - destruct stk; cbn in H; [discriminate|]. inversion H; subst. destruct I as (C & R & _). auto.
  - destruct stk as [|top below]; [cbn in H; discriminate|]. destruct I as (C & R & SP).
    assert (PS : present s (top :: below)) by (apply (SP [] (top :: below)); [reflexivity|discriminate]).
    destruct tok as [n|n|tx]; cbn [conf_loop] in H.
    + destruct (lookup s (n :: top :: below)) eqn:L.
      * apply (IH s (n :: top :: below) t); [|exact H]. repeat split; try assumption.
        intros pre X E HX. destruct pre as [|m pre]; cbn in E.
        -- subst X. unfold present. rewrite L. discriminate.
        -- injection E as _ E. apply (SP pre X E HX).
      * apply (IH ((n :: top :: below, new_node) :: s) (n :: top :: below) t); [|exact H].
        assert (EQ : forall X, present ((n :: top :: below, new_node) :: s) X <-> (X = n :: top :: below \/ present s X)).
        { intros X. unfold present. cbn [lookup]. destruct (key_eqb (n :: top :: below) X) eqn:E.
          - apply key_eqb_eq in E. split; [intros _; left; symmetry; exact E|intros _; discriminate].
          - split; [intros HH; right; exact HH|]. intros [HH|HH]; [subst X; rewrite key_eqb_refl in E; discriminate|exact HH]. }
        repeat split.
        -- intros m K HP HK. apply EQ. apply EQ in HP. destruct HP as [HP|HP].
           ++ injection HP as -> ->. right. exact PS.
           ++ right. apply (C m); assumption.
        -- apply EQ. right. exact R.
        -- intros pre X E HX. apply EQ. destruct pre as [|m pre]; cbn in E; [left; symmetry; exact E|].
           injection E as _ E. right. apply (SP pre X E HX).
    + destruct (bytes_eqb top n); [|discriminate]. apply (IH s below t); [|exact H]. repeat split; try assumption.
      intros pre X E HX. apply (SP (top :: pre) X); [cbn; rewrite E; reflexivity|exact HX].
    + destruct (do_segments s (top :: below) (split_lines tx)) as [s'|] eqn:D; [|discriminate].
      apply (IH s' (top :: below) t); [|exact H]. apply (walk_inv_segments (split_lines tx) s (top :: below) s'); [discriminate| |exact D]. repeat split; assumption.
Qed.

Theorem parse_store_closed bs t : parse bs = Ok t -> closed t /\ present t [root_name].
Proof.
  intros H. unfold parse in H. destruct (raw_status bs); try discriminate.
  destruct (balanced (raw_tokens bs)); [|discriminate].
  apply (walk_inv_loop (raw_tokens bs) init_store [root_name] t); [|exact H]. repeat split.
  - intros n K HP HK. unfold present, init_store in HP. cbn [lookup] in HP.
    destruct (key_eqb [root_name] (n :: K)) eqn:E; [|contradiction]. apply key_eqb_eq in E. injection E as _ E. subst K. contradiction.
  - unfold present. cbn. discriminate.
  - intros pre X E HX. destruct pre as [|m pre]; cbn in E; [subst X; unfold present; cbn; discriminate|].
    injection E as _ E. destruct pre; destruct X; cbn in E; try discriminate. contradiction.
Qed.

(* getElem on every store the parser produces = the model's direct lookup *)
Theorem getElem_translated bs t v : parse bs = Ok t ->
  tr_getElem (find_in t) (Some [root_name]) v =
  Some (match lookup t (key_of_vec v) with Some _ => (Some (key_of_vec v), false) | None => (None, true) end).
Proof. intros H. destruct (parse_store_closed bs t H) as [C R]. apply tr_getElem_walk; assumption. Qed.

(* ------------------------------------------------------------------------------------------- *)
(* a Go map iterates in an unspecified order: whatever the order of the children, the listings are the same up to
   order, each child of the kind once, and getMap builds the same map *)
Definition kind_is (kd : kind) (c : gchild) : bool := Z.eqb (gc_kind c) (kind_z kd).
Definition names_of (kd : kind) (cs : list gchild) : list gstr := map gc_name (filter (kind_is kd) cs).

Lemma kind_test_total kd c : kind_test kd c = Some (kind_is kd c).
Proof. destruct kd; reflexivity. Qed.

Lemma fold_names_any kd : forall cs acc,
  fold_left (fun (g_st : option (list gstr)) (g_child : gchild) =>
     match g_st with
     | None => None
     | Some a => if gs_is_some (kind_test kd g_child)
                 then (if gs_get false (kind_test kd g_child) then (let a := a ++ [gc_name g_child] in Some a) else Some a)
                 else None
     end) cs (Some acc) = Some (acc ++ names_of kd cs).
Proof.
  unfold names_of. induction cs as [|c cs IH]; intros acc; cbn [fold_left filter map]; [rewrite app_nil_r; reflexivity|].
  rewrite kind_test_total. cbn [gs_is_some gs_get]. destruct (kind_is kd c); cbn [map]; rewrite IH; [rewrite <- app_assoc; reflexivity|reflexivity].
Qed.

Theorem listing_any_order p v nd : analysis_path p = Ok v ->
  tr_getDomain p nd false = Some (names_of KNode (map snd (ge_children nd)), false) /\
  tr_getDomainKey p nd false = Some (names_of KLeaf (map snd (ge_children nd)), false).
Proof.
  intros Hp. unfold tr_getDomain, tr_getDomainKey. rewrite tr_analysisPath_equiv, Hp. cbn [Bool.eqb negb]. split.
  - change (tr_isNode ?c) with (kind_test KNode c). rewrite fold_names_any. reflexivity.
  - change (tr_isLeaf ?c) with (kind_test KLeaf c). rewrite fold_names_any. reflexivity.
Qed.

Lemma names_of_perm kd cs cs' : Permutation cs cs' -> Permutation (names_of kd cs) (names_of kd cs').
Proof.
  unfold names_of. intros P. apply Permutation_map. induction P as [|x l l' P IH|x y l|l l' l'' P1 IH1 P2 IH2]; cbn [filter].
  - constructor.
  - destruct (kind_is kd x); [constructor; exact IH|exact IH].
  - destruct (kind_is kd x); destruct (kind_is kd y); try apply Permutation_refl. apply perm_swap.
  - eapply Permutation_trans; eassumption.
Qed.

(* the two listings of an element do not depend on the order in which its children are visited *)
Theorem listing_order_independent p v nd nd' : analysis_path p = Ok v ->
  Permutation (map snd (ge_children nd)) (map snd (ge_children nd')) ->
  exists l l' k k', tr_getDomain p nd false = Some (l, false) /\ tr_getDomain p nd' false = Some (l', false) /\ Permutation l l' /\
                    tr_getDomainKey p nd false = Some (k, false) /\ tr_getDomainKey p nd' false = Some (k', false) /\ Permutation k k'.
Proof.
  intros Hp P. destruct (listing_any_order p v nd Hp) as [A1 A2]. destruct (listing_any_order p v nd' Hp) as [B1 B2].
  do 4 eexists. repeat split; try eassumption; apply names_of_perm; exact P.
Qed.

Example ex_listing_order :
  let c1 := {| gc_kind := k_conf_Node; gc_name := [97%N]; gc_value := [] |} in
  let c2 := {| gc_kind := k_conf_Leaf; gc_name := [98%N]; gc_value := [49%N] |} in
  analysis_path [47%N; 120%N] = Ok [[120%N]] /\ Permutation [c1; c2] [c2; c1].
Proof. split; [reflexivity|apply perm_swap]. Qed.
