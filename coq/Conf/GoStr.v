(* Target language of the C17 source-to-model translation (harness/c17xlate.go -> Gen/ConfTranslated.v).
   Hand-written and trusted: the meaning given to the Go constructs and to the few functions of packages strings and
   strconv that tars/util/conf/conf.go uses (or that a plausible edit of it would use). Definitions only.
   Strings and []byte are [list N] (bytes), []string is [list (list N)], int is Z (no wrap: only lengths and small
   literals occur), error is bool ("is not nil"). A translated statement list denotes an [option]: None = a Go
   run-time panic (index or slice bounds). *)
From Coq Require Import List NArith ZArith Bool.
From TarsV Require Import Base.Hex Conf.Conf.
Import ListNotations.
Open Scope Z_scope.

Definition gstr := list N.
Definition gs_len {A} (l : list A) : Z := Z.of_nat (length l).
Definition gs_in_range {A} (l : list A) (i : Z) : bool := (0 <=? i) && (i <? gs_len l).
Definition gs_nth {A} (l : list A) (i : Z) (d : A) : A := nth (Z.to_nat i) l d.
Definition gs_slice_ok {A} (l : list A) (lo hi : Z) : bool := (0 <=? lo) && (lo <=? hi) && (hi <=? gs_len l).
Definition gs_slice {A} (l : list A) (lo hi : Z) : list A := firstn (Z.to_nat (hi - lo)) (skipn (Z.to_nat lo) l).
Definition gs_eqb (a b : gstr) : bool := list_eqb N.eqb a b.
Definition gs_mem (c : N) (cut : gstr) : bool := existsb (N.eqb c) cut.

(* strings.TrimLeft / TrimRight / Trim with an ASCII cut set; TrimSpace for ASCII input; TrimPrefix / TrimSuffix *)
Fixpoint gs_trim_left (cut s : gstr) : gstr :=
  match s with
  | c :: r => if gs_mem c cut then gs_trim_left cut r else s
  | [] => []
  end.
Definition gs_trim_right (cut s : gstr) : gstr := rev (gs_trim_left cut (rev s)).
Definition gs_trim (cut s : gstr) : gstr := gs_trim_right cut (gs_trim_left cut s).
Definition gs_space : gstr := [9; 10; 11; 12; 13; 32]%N.
Definition gs_trim_space (s : gstr) : gstr := gs_trim gs_space s.
Fixpoint gs_has_prefix (s p : gstr) : bool :=
  match p, s with
  | [], _ => true
  | x :: p', y :: s' => N.eqb x y && gs_has_prefix s' p'
  | _ :: _, [] => false
  end.
Definition gs_has_suffix (s p : gstr) : bool := gs_has_prefix (rev s) (rev p).
Definition gs_trim_prefix (s p : gstr) : gstr := if gs_has_prefix s p then skipn (length p) s else s.
Definition gs_trim_suffix (s p : gstr) : gstr := if gs_has_suffix s p then firstn (length s - length p) s else s.

(* strings.Cut-like: the text before and after the first occurrence of a non-empty separator *)
Fixpoint gs_cut (s sep : gstr) : option (gstr * gstr) :=
  match s with
  | [] => None
  | c :: r => if gs_has_prefix s sep then Some ([], skipn (length sep) s)
              else match gs_cut r sep with Some (a, b) => Some (c :: a, b) | None => None end
  end.
Definition gs_contains (s sub : gstr) : bool :=
  match sub with [] => true | _ => match gs_cut s sub with Some _ => true | None => false end end.
Definition gs_index_byte (s : gstr) (c : N) : Z :=
  match gs_cut s [c] with Some (a, _) => gs_len a | None => -1 end.

(* strings.SplitN(s, sep, n) for a non-empty separator: n = 0 gives nil, n < 0 all pieces, n > 0 at most n pieces,
   the last one unsplit; strings.Split(s, sep) = SplitN(s, sep, -1) *)
Fixpoint gs_splitn_fuel (fuel : nat) (s sep : gstr) (n : Z) : list gstr :=
  match fuel with
  | O => [s]
  | S f => if n =? 1 then [s]
           else match gs_cut s sep with
                | None => [s]
                | Some (a, b) => a :: gs_splitn_fuel f b sep (n - 1)
                end
  end.
Definition gs_splitn (s sep : gstr) (n : Z) : list gstr :=
  if n =? 0 then [] else gs_splitn_fuel (S (length s)) s sep n.
Definition gs_split (s sep : gstr) : list gstr := gs_splitn s sep (-1).

(* what the line loop of InitFromBytes does to the current element, in order; a freshly made element is
   (kind, name, value) *)
Inductive conf_effect := EffAddLine (line : gstr) | EffAddChild (key : gstr) (child : Z * gstr * gstr).

(* strconv.Atoi, ParseInt(s, base, bits), ParseBool: value and "err != nil". Base 10 only (the model's decimal parser
   Conf.parse_int); bits = 0 is int (64 bits) *)
Definition gs_of_opt {A} (d : A) (o : option A) : A * bool := match o with Some v => (v, false) | None => (d, true) end.
Definition gs_parse_int (s : gstr) (base bits : Z) : Z * bool :=
  if base =? 10 then
    let b := if bits =? 0 then 64 else bits in
    gs_of_opt 0 (parse_int (- 2 ^ (b - 1)) (2 ^ (b - 1) - 1) s)
  else (0, true).       (* other bases (0: prefixes and underscores) are not given a meaning: no equivalence can be proved *)
Definition gs_atoi (s : gstr) : Z * bool := gs_parse_int s 10 0.
Definition gs_parse_bool (s : gstr) : bool * bool := gs_of_opt false (parse_bool s).

(* elements as their methods and the getters see them: an element with its children one level deep; a map is an
   association list (the order of a Go map iteration is unspecified: theorems about loops over a map hold for every order) *)
Record gchild := { gc_kind : Z; gc_name : gstr; gc_value : gstr }.
Record gelem := { ge_kind : Z; ge_name : gstr; ge_value : gstr; ge_children : list (gstr * gchild); ge_line : list gstr }.
Definition ge_set_value (e : gelem) (v : gstr) : gelem :=
  {| ge_kind := ge_kind e; ge_name := ge_name e; ge_value := v; ge_children := ge_children e; ge_line := ge_line e |}.
Definition ge_set_line (e : gelem) (l : list gstr) : gelem :=
  {| ge_kind := ge_kind e; ge_name := ge_name e; ge_value := ge_value e; ge_children := ge_children e; ge_line := l |}.
Definition ge_set_children (e : gelem) (c : list (gstr * gchild)) : gelem :=
  {| ge_kind := ge_kind e; ge_name := ge_name e; ge_value := ge_value e; ge_children := c; ge_line := ge_line e |}.
Fixpoint gs_map_get {V} (m : list (gstr * V)) (k : gstr) : option V :=
  match m with [] => None | (k', v) :: r => if gs_eqb k' k then Some v else gs_map_get r k end.
Definition gs_map_get2 {V} (m : list (gstr * V)) (k : gstr) : option V * bool :=
  match gs_map_get m k with Some v => (Some v, true) | None => (None, false) end.
Fixpoint gs_map_set {V} (m : list (gstr * V)) (k : gstr) (v : V) : list (gstr * V) :=
  match m with
  | [] => [(k, v)]
  | (k', v') :: r => if gs_eqb k' k then (k', v) :: r else (k', v') :: gs_map_set r k v
  end.
Definition gs_is_some {A} (o : option A) : bool := match o with Some _ => true | None => false end.
Definition gs_get {A} (d : A) (o : option A) : A := match o with Some v => v | None => d end.
(* a method call through a pointer that may be nil (None): the guard gs_is_some comes first *)
Definition gs_find {H} (f : H -> gstr -> option H * bool) (p : option H) (k : gstr) : option H * bool :=
  match p with Some h => f h k | None => (None, false) end.

(* self-test of this file against the Go library (harness/c17.go writes the cases on every run): operation code,
   arguments, and what package strings returned *)
Inductive gs_case :=
| GsStr (op : N) (a b : hexs) (n : Z) (want : hexs)            (* string-valued *)
| GsList (op : N) (a b : hexs) (n : Z) (want : list hexs)      (* []string-valued *)
| GsInt (op : N) (a b : hexs) (want : Z)
| GsBool (op : N) (a b : hexs) (want : bool).
Definition gs_case_ok (c : gs_case) : bool :=
  match c with
  | GsStr op a b _ want =>
      let (x, y) := (unhex a, unhex b) in
      gs_eqb (match op with
              | 0%N => gs_trim y x | 1%N => gs_trim_left y x | 2%N => gs_trim_right y x | 3%N => gs_trim_space x
              | 4%N => gs_trim_prefix x y | _ => gs_trim_suffix x y
              end) (unhex want)
  | GsList op a b n want =>
      list_eqb gs_eqb (match op with 0%N => gs_splitn (unhex a) (unhex b) n | _ => gs_split (unhex a) (unhex b) end) (map unhex want)
  | GsInt _ a b want => Z.eqb (gs_index_byte (unhex a) (hd 0%N (unhex b))) want
  | GsBool op a b want =>
      Bool.eqb (match op with 0%N => gs_contains (unhex a) (unhex b) | 1%N => gs_has_prefix (unhex a) (unhex b) | _ => gs_has_suffix (unhex a) (unhex b) end) want
  end.
Definition gs_mismatch (off : N) (cs : list gs_case) : list N := failing_from gs_case_ok off cs.
