(* Proofs about the model Conf/Conf.v (C17). *)
From Coq Require Import List NArith ZArith Bool Lia ZifyBool ZifyNat ZifyN.
From TarsV Require Import Base.Hex Gen.Consts Conf.Conf Conf.ConfSpec.
From TarsV Require Endpoint.Parse Endpoint.ParseProofs.
Import ListNotations.
Open Scope bool_scope.
Open Scope N_scope.

Lemma frev_rev {A} (l : list A) : frev l = rev l.
Proof. unfold frev. symmetry. apply rev_alt. Qed.

Lemma key_eqb_eq a b : key_eqb a b = true <-> a = b.
Proof. apply list_eqb_eq. apply bytes_eqb_eq. Qed.
Lemma key_eqb_refl a : key_eqb a a = true.
Proof. apply key_eqb_eq. reflexivity. Qed.
Lemma key_eqb_neq a b : a <> b -> key_eqb a b = false.
Proof. intros H. destruct (key_eqb a b) eqn:E; [apply key_eqb_eq in E; contradiction|reflexivity]. Qed.
Lemma bytes_eqb_refl a : bytes_eqb a a = true.
Proof. apply bytes_eqb_eq. reflexivity. Qed.
Lemma bytes_eqb_neq a b : a <> b -> bytes_eqb a b = false.
Proof. intros H. destruct (bytes_eqb a b) eqn:E; [apply bytes_eqb_eq in E; contradiction|reflexivity]. Qed.

(* ------------------------------------------------------------------------------------------- *)
(* the loop of InitFromBytes on a balanced token list: no index panic, no "xml end not match" *)
Lemma conf_loop_balanced : forall ts s names,
  balanced_from names ts = true ->
  (exists r, conf_loop ts s (names ++ [root_name]) = Ok r) \/ conf_loop ts s (names ++ [root_name]) = Err 3.
Proof.
  induction ts as [|t ts IH]; intros s names Hb.
  - destruct names; cbn; left; eexists; reflexivity.
  - destruct t as [n|n|t].
    + cbn in Hb.
      destruct names as [|top below]; cbn [app conf_loop].
      * destruct (lookup s [n; root_name]); apply (IH _ [n]); exact Hb.
      * destruct (lookup s (n :: top :: below ++ [root_name])); apply (IH _ (n :: top :: below)); exact Hb.
    + cbn in Hb. destruct names as [|top below]; [discriminate|].
      destruct (bytes_eqb top n) eqn:E; [|discriminate].
      cbn [app conf_loop]. rewrite E. apply IH. exact Hb.
    + cbn in Hb.
      destruct names as [|top below]; cbn [app conf_loop].
      * destruct (do_segments s [root_name] (split_lines t)); [apply (IH _ []); exact Hb | right; reflexivity].
      * destruct (do_segments s (top :: below ++ [root_name]) (split_lines t)); [apply (IH _ (top :: below)); exact Hb | right; reflexivity].
Qed.

Theorem parse_no_panic : forall bs n, parse bs <> Panic n.
Proof.
  intros bs n. unfold parse.
  destruct (raw_status bs); try discriminate.
  destruct (balanced (raw_tokens bs)) eqn:B; [|discriminate].
  destruct (conf_loop_balanced (raw_tokens bs) init_store [] B) as [[r H]|H]; cbn [app] in H; rewrite H; discriminate.
Qed.

(* the getters: strings.Split never returns an empty slice, so pathVec[len(pathVec)-1] is in range *)
Lemma split_on_aux_nonempty sep : forall s cur, split_on_aux sep cur s <> [].
Proof. induction s as [|c r IH]; intros cur; cbn; [discriminate|]. destruct (c =? sep); [discriminate|apply IH]. Qed.

Lemma analysis_path_ok p : exists v, analysis_path p = Ok v.
Proof.
  unfold analysis_path. rewrite frev_rev.
  destruct (rev (split_on c_slash p)) eqn:E.
  - exfalso. apply (f_equal (@rev _)) in E. rewrite rev_involutive in E. cbn in E.
    unfold split_on in E. exact (split_on_aux_nonempty _ _ _ E).
  - eexists; reflexivity.
Qed.

Lemma with_elem_ok {A} s p (f : option (key * info) -> A) : exists e, with_elem s p f = Ok (f e).
Proof.
  unfold with_elem, get_elem. destruct (analysis_path_ok p) as [v ->]. eexists; reflexivity.
Qed.

Theorem getters_no_panic : forall s p,
  (forall d, exists v, get_string_def s p d = Ok v) /\ (forall d, exists v, get_int_def s p d = Ok v) /\
  (forall d, exists v, get_int32_def s p d = Ok v) /\ (forall d, exists v, get_bool_def s p d = Ok v) /\
  (exists v, get_domain s p = Ok v) /\ (exists v, get_domain_key s p = Ok v) /\
  (exists v, get_domain_line s p = Ok v) /\ (exists v, get_map s p = Ok v).
Proof.
  intros s p. unfold get_string_def, get_int_def, get_int32_def, get_bool_def, typed, get_domain, get_domain_key, get_domain_line, get_map.
  repeat split; intros;
    match goal with |- exists v, with_elem ?s ?p ?f = Ok v => destruct (with_elem_ok s p f) as [e ->]; eexists; reflexivity end.
Qed.

(* ------------------------------------------------------------------------------------------- *)
(* the loop is the fold of the document's events *)
Lemma do_segments_events : forall segs s stk s',
  do_segments s stk segs = Some s' ->
  s' = fold_left apply_ev (map (EvLine stk) (flat_map (fun seg => match content_line seg with Some l => [l] | None => [] end) segs)) s
  /\ Forall (fun seg => N.of_nat (length seg) < max_scan_token) segs.
Proof.
  induction segs as [|seg r IH]; intros s stk s' H; cbn in H.
  - inversion H; subst. split; [reflexivity|constructor].
  - destruct (max_scan_token <=? N.of_nat (length seg)) eqn:E; [discriminate|].
    cbn [flat_map]. destruct (content_line seg) as [l|].
    + apply IH in H. destruct H as [-> HF]. split; [reflexivity|]. constructor; [lia|assumption].
    + apply IH in H. destruct H as [-> HF]. split; [reflexivity|]. constructor; [lia|assumption].
Qed.

Lemma do_segments_short : forall segs s stk,
  Forall (fun seg => N.of_nat (length seg) < max_scan_token) segs ->
  do_segments s stk segs =
  Some (fold_left apply_ev (map (EvLine stk) (flat_map (fun seg => match content_line seg with Some l => [l] | None => [] end) segs)) s).
Proof.
  induction segs as [|seg r IH]; intros s stk HF; cbn [do_segments flat_map map fold_left].
  - reflexivity.
  - inversion HF as [|? ? H1 H2]; subst.
    destruct (max_scan_token <=? N.of_nat (length seg)) eqn:E; [lia|].
    destruct (content_line seg) as [l|]; cbn [app map fold_left]; apply IH; assumption.
Qed.

Lemma conf_loop_ok_events : forall ts s stk t,
  conf_loop ts s stk = Ok t -> t = fold_left apply_ev (events ts stk) s /\ short_lines ts.
Proof.
  induction ts as [|tok ts IH]; intros s stk t H.
  - destruct stk; cbn in H; [discriminate|]. inversion H; subst. split; [reflexivity|]. intros ? ? [].
  - destruct stk as [|top below]; [cbn in H; discriminate|].
    destruct tok as [n|n|tx]; cbn [conf_loop] in H.
    + cbn [events fold_left apply_ev].
      destruct (lookup s (n :: top :: below)); apply IH in H; destruct H as [-> HS]; (split; [reflexivity|]);
        intros t0 seg [E|Hin]; try discriminate; apply HS; assumption.
    + destruct (bytes_eqb top n); [|discriminate]. apply IH in H. destruct H as [-> HS].
      split; [reflexivity|]. intros t0 seg [E|Hin]; try discriminate; apply HS; assumption.
    + destruct (do_segments s (top :: below) (split_lines tx)) as [s'|] eqn:D; [|discriminate].
      apply do_segments_events in D. destruct D as [-> HF]. apply IH in H. destruct H as [-> HS].
      split.
      * cbn [events]. rewrite fold_left_app. reflexivity.
      * intros t0 seg [E|Hin] Hseg; [inversion E; subst; rewrite Forall_forall in HF; apply HF; assumption | apply (HS t0); assumption].
Qed.

Lemma conf_loop_events : forall ts s names,
  balanced_from names ts = true -> short_lines ts ->
  conf_loop ts s (names ++ [root_name]) = Ok (fold_left apply_ev (events ts (names ++ [root_name])) s).
Proof.
  induction ts as [|tok ts IH]; intros s names Hb HS.
  - destruct names; reflexivity.
  - assert (HS' : short_lines ts) by (intros t0 seg Hin; apply HS; right; assumption).
    destruct tok as [n|n|tx]; cbn in Hb.
    + destruct names as [|top below]; cbn [app conf_loop events fold_left apply_ev].
      * destruct (lookup s [n; root_name]); apply (IH _ [n]); assumption.
      * destruct (lookup s (n :: top :: below ++ [root_name])); apply (IH _ (n :: top :: below)); assumption.
    + destruct names as [|top below]; [discriminate|].
      destruct (bytes_eqb top n) eqn:E; [|discriminate].
      cbn [app conf_loop events tl]. rewrite E. apply IH; assumption.
    + assert (HF : Forall (fun seg => N.of_nat (length seg) < max_scan_token) (split_lines tx)).
      { apply Forall_forall. intros seg Hseg. apply (HS tx); [left; reflexivity|assumption]. }
      destruct names as [|top below]; cbn [app conf_loop events]; rewrite do_segments_short by assumption;
        rewrite fold_left_app; [apply (IH _ [])|apply (IH _ (top :: below))]; assumption.
Qed.

(* ------------------------------------------------------------------------------------------- *)
(* the store as a finite map: how each operation changes lookups *)
Definition with_line (l : bytes) (i : info) : info := {| ikind := ikind i; ivalue := ivalue i; ilines := l :: ilines i |}.

Lemma lookup_add_line : forall s cur l X,
  lookup (add_line s cur l) X = if key_eqb cur X then option_map (with_line l) (lookup s X) else lookup s X.
Proof.
  induction s as [|[k' i] r IH]; intros cur l X; cbn [add_line lookup].
  - destruct (key_eqb cur X); reflexivity.
  - destruct (key_eqb k' cur) eqn:E1.
    + apply key_eqb_eq in E1. subst k'. cbn [lookup]. destruct (key_eqb cur X) eqn:E2; reflexivity.
    + cbn [lookup]. destruct (key_eqb k' X) eqn:E2.
      * apply key_eqb_eq in E2. subst k'. rewrite key_eqb_neq; [reflexivity|].
        intros ->. rewrite key_eqb_refl in E1. discriminate.
      * apply IH.
Qed.

Lemma map_fst_add_line : forall s cur l, map fst (add_line s cur l) = map fst s.
Proof.
  induction s as [|[k' i] r IH]; intros cur l; cbn [add_line]; [reflexivity|].
  destruct (key_eqb k' cur); cbn [map fst]; [reflexivity|]. rewrite IH. reflexivity.
Qed.

Lemma lookup_filter (f : key -> bool) : forall s X,
  lookup (filter (fun e => f (fst e)) s) X = if f X then lookup s X else None.
Proof.
  induction s as [|[k' i] r IH]; intros X; cbn [filter lookup fst].
  - destruct (f X); reflexivity.
  - destruct (f k') eqn:F; cbn [lookup]; destruct (key_eqb k' X) eqn:E.
    + apply key_eqb_eq in E. subst. rewrite F. reflexivity.
    + apply IH.
    + apply key_eqb_eq in E. subst. rewrite IH, F. reflexivity.
    + apply IH.
Qed.

Lemma lookup_remove_under s k X : lookup (remove_under s k) X = if is_suffix k X then None else lookup s X.
Proof.
  unfold remove_under. rewrite (lookup_filter (fun K => negb (is_suffix k K))). destruct (is_suffix k X); reflexivity.
Qed.

Lemma lookup_none_notin : forall s K, lookup s K = None -> ~ In K (map fst s).
Proof.
  induction s as [|[k' i] r IH]; intros K H; cbn in *; [tauto|].
  destruct (key_eqb k' K) eqn:E; [discriminate|]. intros [->|Hin]; [rewrite key_eqb_refl in E; discriminate | exact (IH _ H Hin)].
Qed.

Lemma lookup_in : forall s K i, lookup s K = Some i -> In (K, i) s.
Proof.
  induction s as [|[k' i'] r IH]; intros K i H; cbn in *; [discriminate|].
  destruct (key_eqb k' K) eqn:E; [apply key_eqb_eq in E; inversion H; subst; left; reflexivity | right; apply IH; assumption].
Qed.

Lemma in_lookup : forall s K i, NoDup (map fst s) -> In (K, i) s -> lookup s K = Some i.
Proof.
  induction s as [|[k' i'] r IH]; intros K i ND Hin; cbn in *; [contradiction|].
  inversion ND as [|? ? Hn ND']; subst. destruct Hin as [E|Hin].
  - inversion E; subst. rewrite key_eqb_refl. reflexivity.
  - destruct (key_eqb k' K) eqn:E; [|apply IH; assumption].
    apply key_eqb_eq in E. subst. exfalso. apply Hn. apply (in_map fst) in Hin. exact Hin.
Qed.

(* suffixes *)
Lemma skipn_app_length {A} (a b : list A) : skipn (length a) (a ++ b) = b.
Proof. induction a; cbn; auto. Qed.

Lemma is_suffix_iff a K : is_suffix a K = true <-> exists pre, K = pre ++ a.
Proof.
  unfold is_suffix. split.
  - intros H. apply andb_true_iff in H. destruct H as [_ H]. apply key_eqb_eq in H.
    exists (firstn (length K - length a) K).
    transitivity (firstn (length K - length a) K ++ skipn (length K - length a) K); [symmetry; apply firstn_skipn | f_equal; exact H].
  - intros [pre ->]. apply andb_true_iff. split.
    + rewrite app_length. apply Nat.leb_le. lia.
    + apply key_eqb_eq. rewrite app_length. replace (length pre + length a - length a)%nat with (length pre) by lia.
      apply skipn_app_length.
Qed.
Lemma is_suffix_refl a : is_suffix a a = true.
Proof. apply is_suffix_iff. exists []. reflexivity. Qed.
Lemma is_suffix_cons a n K : is_suffix a (n :: K) = true -> a = n :: K \/ is_suffix a K = true.
Proof.
  intros H. apply is_suffix_iff in H. destruct H as [[|m pre] E]; cbn in E.
  - left. congruence.
  - right. inversion E; subst. apply is_suffix_iff. exists pre. reflexivity.
Qed.

(* ------------------------------------------------------------------------------------------- *)
(* reading the event list *)
Lemma opens_app a b : opens (a ++ b) = opens a ++ opens b.
Proof. unfold opens. apply flat_map_app. Qed.
Lemma lines_of_app a b K : lines_of (a ++ b) K = lines_of a K ++ lines_of b K.
Proof. unfold lines_of. apply flat_map_app. Qed.
Lemma assigns_app a b K k : assigns (a ++ b) K k = assigns a K k ++ assigns b K k.
Proof. unfold assigns. rewrite lines_of_app, filter_app, map_app. reflexivity. Qed.
Lemma live_app_l a b K : live a K -> live (a ++ b) K.
Proof. intros [H|H]; [left; assumption|right; rewrite opens_app; apply in_or_app; left; assumption]. Qed.

Lemma lines_of_in : forall evs K l, In l (lines_of evs K) -> In (EvLine K l) evs.
Proof.
  induction evs as [|e r IH]; intros K l H; cbn in H; [contradiction|].
  apply in_app_or in H. destruct H as [H|H]; [|right; apply IH; assumption].
  destruct e as [k|k l']; [contradiction|]. destruct (key_eqb k K) eqn:E; [|contradiction].
  apply key_eqb_eq in E. destruct H as [->|[]]. subst. left. reflexivity.
Qed.
Lemma assigns_in evs K k : assigns evs K k <> [] -> exists l, In (EvLine K l) evs /\ key_of_line l = k.
Proof.
  unfold assigns. intros H.
  destruct (filter (fun l => bytes_eqb (key_of_line l) k) (lines_of evs K)) as [|l r] eqn:E; [contradiction|].
  assert (Hin : In l (filter (fun l => bytes_eqb (key_of_line l) k) (lines_of evs K))) by (rewrite E; left; reflexivity).
  apply filter_In in Hin. destruct Hin as [Hin Hk]. apply bytes_eqb_eq in Hk. exists l. split; [apply lines_of_in; assumption|assumption].
Qed.

Lemma ev_wf_app : forall a o b, ev_wf o (a ++ b) <-> ev_wf o a /\ ev_wf (rev (opens a) ++ o) b.
Proof.
  induction a as [|e a IH]; intros o b; cbn [app].
  - cbn. tauto.
  - destruct e as [K|K l]; cbn [ev_wf].
    + rewrite IH. replace (rev (opens (EvOpen K :: a)) ++ o) with (rev (opens a) ++ K :: o); [tauto|].
      change (opens (EvOpen K :: a)) with (K :: opens a). cbn [rev]. rewrite <- app_assoc. reflexivity.
    + rewrite IH. change (opens (EvLine K l :: a)) with (opens a). tauto.
Qed.

Lemma in_opened a K : In K (rev (opens a) ++ [[root_name]]) <-> live a K.
Proof.
  unfold live. rewrite in_app_iff, <- in_rev. cbn. split; [intros [H|[H|[]]]; auto | intros [H|H]; auto].
Qed.

Lemma ev_wf_line_live : forall evs o K l, ev_wf o evs -> In (EvLine K l) evs -> In K o \/ In K (opens evs).
Proof.
  induction evs as [|e r IH]; intros o K l W Hin; [contradiction|].
  destruct e as [K'|K' l']; cbn [ev_wf] in W; destruct W as [W1 W2]; destruct Hin as [E|Hin]; try discriminate.
  - destruct (IH _ _ _ W2 Hin) as [[->|H]|H]; [right; left; reflexivity | left; assumption | right; right; assumption].
  - inversion E; subst. left. assumption.
  - apply (IH _ _ _ W2 Hin).
Qed.

Lemma ev_wf_open_parent : forall evs o K, ev_wf o evs -> In K (opens evs) ->
  exists n K0, K = n :: K0 /\ (In K0 o \/ In K0 (opens evs)).
Proof.
  induction evs as [|e r IH]; intros o K W Hin; [contradiction|].
  destruct e as [K'|K' l']; cbn [ev_wf] in W; destruct W as [W1 W2].
  - change (opens (EvOpen K' :: r)) with (K' :: opens r) in *. destruct Hin as [->|Hin].
    + destruct W1 as (n & K0 & -> & H0). exists n, K0. split; [reflexivity|left; assumption].
    + destruct (IH _ _ W2 Hin) as (n & K0 & -> & [[->|H]|H]); exists n, K0; (split; [reflexivity|]).
      * right. left. reflexivity.
      * left. assumption.
      * right. right. assumption.
  - change (opens (EvLine K' l' :: r)) with (opens r) in *. apply (IH _ _ W2 Hin).
Qed.

(* every non-empty suffix of a live domain path is a live domain path *)
Lemma live_suffix evs : ev_wf [[root_name]] evs -> forall pre X, X <> [] -> live evs (pre ++ X) -> live evs X.
Proof.
  intros W. induction pre as [|n pre IH]; intros X HX HL; [exact HL|].
  apply IH; [assumption|]. cbn [app] in HL. destruct HL as [E|Hin].
  - inversion E as [[E1 E2]]. destruct pre; destruct X; cbn in E2; try discriminate. contradiction.
  - destruct (ev_wf_open_parent _ _ _ W Hin) as (n' & K0 & E & H). injection E as _ E2. rewrite E2.
    destruct H as [[H|[]]|H]; [left; symmetry; exact H | right; exact H].
Qed.

(* ------------------------------------------------------------------------------------------- *)
(* the store built from the events represents them *)
Lemma run_events_snoc a e : run_events (a ++ [e]) = apply_ev (run_events a) e.
Proof. unfold run_events. rewrite fold_left_app. reflexivity. Qed.

Lemma no_clobber_prefix a b : no_clobber (a ++ b) -> no_clobber a.
Proof.
  intros H K l Hin Hk HL. apply (H K l); [apply in_or_app; left; assumption | assumption | apply live_app_l; assumption].
Qed.

Lemma represents_nil : represents init_store [].
Proof.
  constructor.
  - intros K [->|[]]. exists new_node. repeat split.
  - intros K k _ H. exfalso. apply H. reflexivity.
  - intros X i H. unfold init_store in H. cbn [lookup] in H. destruct (key_eqb [root_name] X) eqn:E; [|discriminate].
    apply key_eqb_eq in E. left. left. symmetry. assumption.
  - cbn. constructor; [intros []|constructor].
Qed.

Lemma live_snoc_open a K0 X : live (a ++ [EvOpen K0]) X <-> live a X \/ X = K0.
Proof.
  unfold live. rewrite opens_app, in_app_iff. cbn. split.
  - intros [H|[H|[H|[]]]]; auto.
  - intros [[H|H]|H]; auto.
Qed.
Lemma live_snoc_line a K l X : live (a ++ [EvLine K l]) X <-> live a X.
Proof. unfold live. rewrite opens_app. cbn. rewrite app_nil_r. tauto. Qed.

Lemma represents_open a K0 :
  ev_wf [[root_name]] (a ++ [EvOpen K0]) -> no_clobber (a ++ [EvOpen K0]) ->
  represents (run_events a) a -> represents (apply_ev (run_events a) (EvOpen K0)) (a ++ [EvOpen K0]).
Proof.
  intros W NC R. set (s' := run_events a) in *.
  apply ev_wf_app in W. destruct W as [Wa _].
  assert (FL : forall X, lines_of (a ++ [EvOpen K0]) X = lines_of a X) by (intros; rewrite lines_of_app; cbn; apply app_nil_r).
  assert (FA : forall X k, assigns (a ++ [EvOpen K0]) X k = assigns a X k) by (intros; unfold assigns; rewrite FL; reflexivity).
  assert (C : forall i0, lookup s' K0 = Some i0 -> live a K0).
  { intros i0 L. destruct (rep_only _ _ R _ _ L) as [H|(K' & k & -> & Hk & Ha)]; [assumption|].
    exfalso. destruct (assigns_in _ _ _ Ha) as (l & Hin & Hl).
    apply (NC K' l); [apply in_or_app; left; assumption | rewrite Hl; assumption |].
    rewrite Hl. apply live_snoc_open. right. reflexivity. }
  assert (D : lookup s' K0 = None -> lines_of a K0 = []).
  { intros L. destruct (lines_of a K0) as [|l r] eqn:E; [reflexivity|]. exfalso.
    assert (Hin : In (EvLine K0 l) a) by (apply lines_of_in; rewrite E; left; reflexivity).
    assert (HL : live a K0).
    { destruct (ev_wf_line_live _ _ _ _ Wa Hin) as [[H|[]]|H]; [left; symmetry; assumption|right; assumption]. }
    destruct (rep_domain _ _ R _ HL) as (i & Li & _). rewrite Li in L. discriminate. }
  cbn [apply_ev]. destruct (lookup s' K0) as [i0|] eqn:L.
  - (* the domain exists already *)
    constructor.
    + intros X HX. rewrite FL. apply live_snoc_open in HX. destruct HX as [HX| ->]; [|pose proof (C i0 eq_refl) as HX]; apply (rep_domain _ _ R _ HX).
    + intros K k Hk Ha. rewrite FA in *. apply (rep_key _ _ R); assumption.
    + intros X i Hi. destruct (rep_only _ _ R _ _ Hi) as [H|(K' & k & E & Hk & Ha)].
      * left. apply live_app_l. assumption.
      * right. exists K', k. rewrite FA. auto.
    + apply (rep_nodup _ _ R).
  - (* a new, empty domain *)
    constructor.
    + intros X HX. rewrite FL. cbn [lookup]. destruct (key_eqb K0 X) eqn:E.
      * apply key_eqb_eq in E. subst X. exists new_node. rewrite (D eq_refl). repeat split.
      * apply live_snoc_open in HX. destruct HX as [HX| ->]; [apply (rep_domain _ _ R _ HX) | rewrite key_eqb_refl in E; discriminate].
    + intros K k Hk Ha. rewrite FA in *. cbn [lookup]. destruct (key_eqb K0 (k :: K)) eqn:E.
      * apply key_eqb_eq in E. subst K0. rewrite (rep_key _ _ R K k Hk Ha) in L. discriminate.
      * apply (rep_key _ _ R); assumption.
    + intros X i Hi. cbn [lookup] in Hi. destruct (key_eqb K0 X) eqn:E.
      * apply key_eqb_eq in E. subst X. left. apply live_snoc_open. right. reflexivity.
      * destruct (rep_only _ _ R _ _ Hi) as [H|(K' & k & E' & Hk & Ha)].
        -- left. apply live_app_l. assumption.
        -- right. exists K', k. rewrite FA. auto.
    + cbn [map fst]. constructor; [apply lookup_none_notin; assumption | apply (rep_nodup _ _ R)].
Qed.

Lemma lookup_do_line s K1 l1 X :
  lookup (do_line s K1 l1) X =
    let s1v := if key_eqb K1 X then option_map (with_line l1) (lookup s X) else lookup s X in
    match key_of_line l1 with
    | [] => s1v
    | k1 => if key_eqb (k1 :: K1) X then Some (new_leaf (value_of_line l1))
            else if is_suffix (k1 :: K1) X then None else s1v
    end.
Proof.
  unfold do_line, key_of_line, value_of_line. destruct (line_kv l1) as [k v]. cbn [fst snd].
  destruct k as [|c r]; [apply lookup_add_line|].
  cbn [lookup]. unfold key, bytes in *. destruct (key_eqb ((c :: r) :: K1) X); [reflexivity|].
  rewrite lookup_remove_under. destruct (is_suffix ((c :: r) :: K1) X); [reflexivity|apply lookup_add_line].
Qed.

Lemma NoDup_map_filter {A B} (g : A -> B) (f : A -> bool) : forall l, NoDup (map g l) -> NoDup (map g (filter f l)).
Proof.
  induction l as [|x l IH]; intros ND; cbn in *; [constructor|].
  inversion ND as [|? ? Hn ND']; subst. destruct (f x); cbn; [|apply IH; assumption].
  constructor; [|apply IH; assumption]. intros Hin. apply Hn. apply in_map_iff in Hin. destruct Hin as (y & E & Hy).
  apply filter_In in Hy. apply in_map_iff. exists y. tauto.
Qed.

Lemma represents_line a K1 l1 :
  ev_wf [[root_name]] (a ++ [EvLine K1 l1]) -> no_clobber (a ++ [EvLine K1 l1]) ->
  represents (run_events a) a -> represents (apply_ev (run_events a) (EvLine K1 l1)) (a ++ [EvLine K1 l1]).
Proof.
  intros W NC R. set (s' := run_events a) in *.
  remember (key_of_line l1) as k1 eqn:Hk1. remember (value_of_line l1) as v1 eqn:Hv1.
  apply ev_wf_app in W. destruct W as [Wa [W1 _]]. apply in_opened in W1.
  assert (NC1 : k1 <> [] -> ~ live a (k1 :: K1)).
  { intros Hk HL. apply (NC K1 l1); [apply in_or_app; right; left; reflexivity | rewrite <- Hk1; exact Hk | rewrite <- Hk1; apply live_snoc_line; exact HL]. }
  assert (OUT : forall X, live a X -> k1 <> [] -> key_eqb (k1 :: K1) X = false /\ is_suffix (k1 :: K1) X = false).
  { intros X HX Hk. split.
    - destruct (key_eqb (k1 :: K1) X) eqn:E; [|reflexivity]. apply key_eqb_eq in E. subst X. exfalso. exact (NC1 Hk HX).
    - destruct (is_suffix (k1 :: K1) X) eqn:E; [|reflexivity]. apply is_suffix_iff in E. destruct E as [pre ->].
      exfalso. apply (NC1 Hk). apply (live_suffix _ Wa pre); [discriminate|assumption]. }
  assert (FL : forall X, lines_of (a ++ [EvLine K1 l1]) X = lines_of a X ++ (if key_eqb K1 X then [l1] else [])).
  { intros. rewrite lines_of_app. cbn. rewrite app_nil_r. reflexivity. }
  assert (FA : forall X k, assigns (a ++ [EvLine K1 l1]) X k =
                           assigns a X k ++ (if key_eqb K1 X then if bytes_eqb k1 k then [v1] else [] else [])).
  { intros. unfold assigns. rewrite FL, filter_app, map_app. f_equal.
    destruct (key_eqb K1 X); [|reflexivity]. cbn [filter]. rewrite <- Hk1. destruct (bytes_eqb k1 k); [cbn; rewrite <- Hv1|]; reflexivity. }
  assert (MONO : forall X k, assigns a X k <> [] -> assigns (a ++ [EvLine K1 l1]) X k <> []).
  { intros X k H E. rewrite FA in E. apply app_eq_nil in E. destruct E. contradiction. }
  assert (LK : forall X, lookup (do_line s' K1 l1) X =
    let s1v := if key_eqb K1 X then option_map (with_line l1) (lookup s' X) else lookup s' X in
    match k1 with
    | [] => s1v
    | _ => if key_eqb (k1 :: K1) X then Some (new_leaf v1) else if is_suffix (k1 :: K1) X then None else s1v
    end).
  { intros X. rewrite lookup_do_line, <- Hk1, <- Hv1. destruct k1; reflexivity. }
  cbn [apply_ev]. constructor.
  - (* domains *)
    intros X HX. apply live_snoc_line in HX. destruct (rep_domain _ _ R _ HX) as (i & Li & Ki & Hl).
    assert (E : lookup (do_line s' K1 l1) X = if key_eqb K1 X then Some (with_line l1 i) else Some i).
    { rewrite LK. cbv zeta. rewrite Li. destruct k1 as [|c r]; [destruct (key_eqb K1 X); reflexivity|].
      destruct (OUT X HX) as [O1 O2]; [discriminate|]. rewrite O1, O2. destruct (key_eqb K1 X); reflexivity. }
    rewrite E, FL. destruct (key_eqb K1 X).
    + exists (with_line l1 i). repeat split; [assumption|]. cbn [with_line ilines]. rewrite rev_app_distr, Hl. reflexivity.
    + exists i. rewrite app_nil_r. auto.
  - (* keys *)
    intros K k Hk Ha. rewrite LK. cbv zeta.
    destruct (key_eqb K1 K && bytes_eqb k1 k) eqn:Both.
    + apply andb_true_iff in Both. destruct Both as [E1 E2]. apply key_eqb_eq in E1. apply bytes_eqb_eq in E2. subst K. subst k.
      rewrite FA, (key_eqb_refl K1), (bytes_eqb_refl k1), last_last.
      destruct k1 as [|c r]; [contradiction|]. rewrite key_eqb_refl. reflexivity.
    + assert (E0 : assigns (a ++ [EvLine K1 l1]) K k = assigns a K k).
      { rewrite FA. destruct (key_eqb K1 K); [|apply app_nil_r]. cbn [andb] in Both. rewrite Both. apply app_nil_r. }
      rewrite E0 in *. pose proof (rep_key _ _ R K k Hk Ha) as Lk.
      destruct (assigns_in _ _ _ Ha) as (l & Hin & Hlk).
      assert (HK : live a K).
      { destruct (ev_wf_line_live _ _ _ _ Wa Hin) as [[H|[]]|H]; [left; symmetry; assumption|right; assumption]. }
      assert (NCk : ~ live a (k :: K)).
      { intros HL. apply (NC K l); [apply in_or_app; left; assumption | rewrite Hlk; assumption | rewrite Hlk; apply live_snoc_line; assumption]. }
      assert (E1 : key_eqb K1 (k :: K) = false).
      { destruct (key_eqb K1 (k :: K)) eqn:E; [|reflexivity]. apply key_eqb_eq in E. subst K1. contradiction. }
      rewrite E1. destruct k1 as [|c r]; [exact Lk|]. unfold key, bytes in *.
      destruct (key_eqb ((c :: r) :: K1) (k :: K)) eqn:E2.
      * apply key_eqb_eq in E2. injection E2 as E3 E4. subst K1. rewrite key_eqb_refl in Both. cbn [andb] in Both.
        rewrite E3, bytes_eqb_refl in Both. discriminate.
      * destruct (is_suffix ((c :: r) :: K1) (k :: K)) eqn:E3; [|exact Lk]. exfalso.
        apply is_suffix_cons in E3. destruct E3 as [E3|E3].
        -- rewrite E3, key_eqb_refl in E2. discriminate.
        -- destruct (OUT K HK) as [_ O2]; [discriminate|]. rewrite O2 in E3. discriminate.
  - (* nothing else *)
    intros X i Hi. rewrite LK in Hi. cbv zeta in Hi.
    assert (OLD : forall i', (if key_eqb K1 X then option_map (with_line l1) (lookup s' X) else lookup s' X) = Some i' ->
                  live (a ++ [EvLine K1 l1]) X \/ exists K k, X = k :: K /\ k <> [] /\ assigns (a ++ [EvLine K1 l1]) K k <> []).
    { intros i' H. assert (exists i0, lookup s' X = Some i0) as [i0 L0].
      { destruct (key_eqb K1 X); destruct (lookup s' X) as [i0|]; try discriminate; exists i0; reflexivity. }
      destruct (rep_only _ _ R _ _ L0) as [HL|(K' & k & E & Hk & Ha)].
      - left. apply live_snoc_line. assumption.
      - right. exists K', k. auto. }
    destruct k1 as [|c r]; [apply (OLD i); assumption|]. unfold key, bytes in *.
    destruct (key_eqb ((c :: r) :: K1) X) eqn:E2.
    + apply key_eqb_eq in E2. subst X. right. exists K1, (c :: r). repeat split; [discriminate|].
      rewrite FA, key_eqb_refl, bytes_eqb_refl. intros E. apply app_eq_nil in E. destruct E. discriminate.
    + destruct (is_suffix ((c :: r) :: K1) X); [discriminate|]. apply (OLD i); assumption.
  - (* no duplicates *)
    pose proof (rep_nodup _ _ R) as ND. unfold do_line. destruct (line_kv l1) as [k v].
    destruct k as [|c r]; [rewrite map_fst_add_line; assumption|].
    cbn [map fst]. constructor.
    + apply lookup_none_notin. rewrite lookup_remove_under, is_suffix_refl. reflexivity.
    + unfold remove_under. apply NoDup_map_filter. rewrite map_fst_add_line. assumption.
Qed.

Theorem run_events_represents : forall evs,
  ev_wf [[root_name]] evs -> no_clobber evs -> represents (run_events evs) evs.
Proof.
  induction evs as [|e a IH] using rev_ind; intros W NC; [apply represents_nil|].
  rewrite run_events_snoc.
  assert (R : represents (run_events a) a).
  { apply IH; [apply ev_wf_app in W; tauto | apply (no_clobber_prefix _ _ NC)]. }
  destruct e as [K0|K1 l1]; [apply represents_open | apply represents_line]; assumption.
Qed.

(* ------------------------------------------------------------------------------------------- *)
(* the events of a well-nested token list are well formed *)
Definition stack_in (o : list key) (stk : key) : Prop := forall pre X, stk = pre ++ X -> X <> [] -> In X o.

Lemma opens_lines stk ls : opens (map (EvLine stk) ls) = [].
Proof. induction ls; cbn; auto. Qed.
Lemma ev_wf_lines o stk ls : In stk o -> ev_wf o (map (EvLine stk) ls).
Proof. intros H. induction ls; cbn; auto. Qed.

Lemma events_wf : forall ts names o,
  balanced_from names ts = true -> stack_in o (names ++ [root_name]) -> ev_wf o (events ts (names ++ [root_name])).
Proof.
  induction ts as [|tok ts IH]; intros names o Hb HS; [exact I|].
  assert (Hin : In (names ++ [root_name]) o) by (apply (HS []); [reflexivity|destruct names; discriminate]).
  destruct tok as [n|n|tx]; cbn in Hb; cbn [events].
  - cbn [ev_wf]. split; [exists n, (names ++ [root_name]); auto|].
    apply (IH (n :: names)); [assumption|].
    intros pre X E HX. destruct pre as [|m pre]; cbn in E.
    + left. congruence.
    + right. injection E as _ E. apply (HS pre X); assumption.
  - destruct names as [|top below]; [discriminate|]. destruct (bytes_eqb top n); [|discriminate].
    cbn [app tl]. apply IH; [assumption|]. intros pre X E HX. apply (HS (top :: pre) X); [cbn; rewrite E; reflexivity|assumption].
  - apply ev_wf_app. split; [apply ev_wf_lines; assumption|]. rewrite opens_lines. cbn [rev app]. apply IH; assumption.
Qed.

Lemma stack_in_root : stack_in [[root_name]] ([] ++ [root_name]).
Proof.
  intros pre X E HX. destruct pre as [|m pre]; cbn in E.
  - left. assumption.
  - injection E as _ E. destruct pre; destruct X; cbn in E; try discriminate. contradiction.
Qed.

Lemma balanced_events_wf ts : balanced ts = true -> ev_wf [[root_name]] (events ts [root_name]).
Proof. intros B. apply (events_wf ts [] _ B stack_in_root). Qed.

(* ------------------------------------------------------------------------------------------- *)
(* parse: the whole document or an error *)
Definition doc_events (bs : bytes) : list event := events (raw_tokens bs) [root_name].

Theorem parse_whole_or_error : forall bs t, parse bs = Ok t ->
  raw_status bs = Clean /\ balanced (raw_tokens bs) = true /\ short_lines (raw_tokens bs) /\ t = run_events (doc_events bs).
Proof.
  intros bs t H. unfold parse in H. destruct (raw_status bs); try discriminate.
  destruct (balanced (raw_tokens bs)) eqn:B; [|discriminate].
  apply conf_loop_ok_events in H. destruct H as [-> HS]. repeat split; assumption.
Qed.

Theorem parse_accepts : forall bs,
  raw_status bs = Clean -> balanced (raw_tokens bs) = true -> short_lines (raw_tokens bs) ->
  parse bs = Ok (run_events (doc_events bs)).
Proof.
  intros bs HC HB HS. unfold parse. rewrite HC, HB. apply (conf_loop_events _ init_store [] HB HS).
Qed.

Theorem parse_error_cases : forall bs,
  (exists t, parse bs = Ok t) \/ parse bs = Unmodelled \/ parse bs = Err 1 \/ parse bs = Err 3.
Proof.
  intros bs. unfold parse. destruct (raw_status bs); auto.
  destruct (balanced (raw_tokens bs)) eqn:B; auto.
  destruct (conf_loop_balanced (raw_tokens bs) init_store [] B) as [[r H]|H]; cbn [app] in H; rewrite H; eauto.
Qed.

Theorem parse_represents : forall bs t, parse bs = Ok t -> no_clobber (doc_events bs) -> represents t (doc_events bs).
Proof.
  intros bs t H NC. apply parse_whole_or_error in H. destruct H as (_ & B & _ & ->).
  apply run_events_represents; [apply balanced_events_wf; assumption|assumption].
Qed.

(* the loop before the repair does not have this property: the rest of the document after "a&b" is dropped *)

Definition old_witness : bytes := raw "<a>
k1=v1
k2=a&b
k3=v3
</a>"%hex.
Definition old_result : store := match parse_old old_witness with Ok t => t | _ => [] end.
Theorem parse_old_refuted : exists bs t, parse_old bs = Ok t /\ no_clobber (doc_events bs) /\ ~ represents t (doc_events bs).
Proof.
  exists old_witness, old_result. split; [vm_compute; reflexivity|]. split.
  - intros K l Hin Hk HL.
    assert (E : doc_events old_witness = [EvOpen [[97]; root_name]; EvLine [[97]; root_name] [107; 49; 61; 118; 49];
        EvLine [[97]; root_name] [107; 50; 61; 97; 38; 98]; EvLine [[97]; root_name] [107; 51; 61; 118; 51]]) by (vm_compute; reflexivity).
    rewrite E in Hin, HL. clear E.
    destruct Hin as [Hin|[Hin|[Hin|[Hin|[]]]]]; try discriminate; injection Hin as <- <-;
      (destruct HL as [HL|[HL|[]]]; vm_compute in HL; discriminate).
  - intros R. pose proof (rep_key _ _ R [[97]; root_name] [107; 51]) as H.
    assert (H1 : [107; 51] <> ([] : bytes)) by discriminate.
    assert (H2 : assigns (doc_events old_witness) [[97]; root_name] [107; 51] <> []) by (vm_compute; discriminate).
    specialize (H H1 H2). vm_compute in H. discriminate.
Qed.

(* ------------------------------------------------------------------------------------------- *)
(* the tokenizer on rendered documents *)
Ltac chars := unfold is_ent_char, is_name_char, is_name_start, is_xml_blank, is_letter, is_digit, in_range, is_ctrl,
  c_lt, c_gt, c_amp, c_semi, c_slash, c_eq, c_hash, c_rb, c_cr, c_nl, c_tab, c_sp, c_colon, c_bang, c_qm in *.

Lemma ent_char_facts b : is_ent_char b = true -> (b =? c_semi) = false /\ b < 128.
Proof. chars. lia. Qed.
Lemma name_char_facts b : is_name_char b = true ->
  (b =? c_colon) = false /\ (b =? c_gt) = false /\ (b =? c_slash) = false /\ is_xml_blank b = false /\ b < 128.
Proof. chars. lia. Qed.
Lemma name_start_facts b : is_name_start b = true ->
  (b =? c_slash) = false /\ (b =? c_qm) = false /\ (b =? c_bang) = false /\ (b =? c_colon) = false /\ is_name_char b = true /\ b < 128
  /\ (128 <=? b) = false.
Proof. chars. lia. Qed.
Lemma blank_facts b : is_xml_blank b = true ->
  is_name_char b = false /\ (b =? c_colon) = false /\ (b =? c_gt) = false /\ (b =? c_slash) = false /\ b < 128
  /\ (128 <=? b) = false.
Proof. chars. lia. Qed.

Notation B := Build_lstate.
Definition flushed (t : bytes) (o : list token) : list token := match t with [] => o | t' => TText (frev t') :: o end.

Lemma lex_ent_chars : forall raw acc t p q o,
  Forall (fun b => is_ent_char b = true) raw ->
  fold_left lex_step raw (B (MEnt acc) t p q o Clean) = B (MEnt (rev raw ++ acc)) t p q o Clean.
Proof.
  induction raw as [|b raw IH]; intros acc t p q o HF; [reflexivity|].
  inversion HF as [|? ? Hb HF']; subst. destruct (ent_char_facts _ Hb) as [H1 _].
  cbn [fold_left]. unfold lex_step at 2. cbn [mode]. rewrite H1, Hb. unfold set_mode. cbn [mode txt b0 b1 out st].
  rewrite IH by assumption. cbn [rev]. rewrite <- app_assoc. reflexivity.
Qed.

Lemma last_nonnil {A} (l : list A) d d' : l <> [] -> last l d = last l d'.
Proof.
  induction l as [|x l IH]; intros H; [contradiction|]. destruct l as [|y l]; [reflexivity|]. cbn [last] in *. apply IH. discriminate.
Qed.

(* bytes >= 128 are copied *)
Lemma lex_high_bytes : forall bs t p q o, Forall (fun c => 128 <= c) bs ->
  exists p', fold_left lex_step bs (B MText t p q o Clean) = B MText (rev bs ++ t) p' (last bs q) o Clean.
Proof.
  induction bs as [|c bs IH]; intros t p q o HF; [exists p; reflexivity|].
  inversion HF as [|? ? Hc HF']; subst.
  assert (E : lex_step (B MText t p q o Clean) c = B MText (c :: t) q c o Clean).
  { unfold lex_step, text_step. cbn [mode b0 b1].
    assert (E1 : (c =? c_gt) = false) by (chars; lia). assert (E2 : (c =? c_lt) = false) by (chars; lia).
    assert (E3 : (c =? c_amp) = false) by (chars; lia). assert (E4 : (c =? c_cr) = false) by (chars; lia).
    assert (E5 : (c =? c_nl) = false) by (chars; lia). assert (E6 : is_ctrl c = false) by (chars; lia).
    rewrite E1, andb_false_r, E2, E3, E4. cbn [b1]. rewrite E5, andb_false_r, E6. reflexivity. }
  cbn [fold_left]. rewrite E. destruct (IH (c :: t) q c o HF') as [p' ->]. exists p'.
  cbn [rev]. rewrite <- app_assoc. cbn [app]. destruct bs as [|n bs]; [reflexivity|].
  rewrite (last_nonnil (n :: bs) c q) by discriminate. reflexivity.
Qed.

Lemma lex_atom a t p q o : atom_ok q a ->
  exists p', fold_left lex_step (atom_bytes a) (B MText t p q o Clean) = B MText (rev (atom_chars a) ++ t) p' (atom_last a) o Clean.
Proof.
  destruct a as [c|raw c|raw bs|bs| |]; cbn [atom_ok atom_bytes atom_chars atom_last rev app].
  - intros (H1 & H2 & H3 & H4 & H5 & H6 & H7). exists q.
    cbn [fold_left]. unfold lex_step, text_step. cbn [mode b0 b1].
    assert (E1 : (p =? c_rb) && (q =? c_rb) && (c =? c_gt) = false) by (chars; lia).
    assert (E2 : (c =? c_lt) = false) by (chars; lia).
    assert (E3 : (c =? c_amp) = false) by (chars; lia).
    assert (E4 : (c =? c_cr) = false) by (chars; lia).
    assert (E5 : (q =? c_cr) && (c =? c_nl) = false) by (chars; lia).
    rewrite E1, E2, E3, E4. cbn [b1]. rewrite E5, H5. reflexivity.
  - intros (H1 & H2 & H3 & H4). exists 0.
    cbn [fold_left]. rewrite fold_left_app.
    assert (E0 : lex_step (B MText t p q o Clean) c_amp = B (MEnt []) t p q o Clean).
    { unfold lex_step, text_step. cbn [mode b0 b1].
      replace (c_amp =? c_gt) with false by reflexivity. rewrite andb_false_r. reflexivity. }
    rewrite E0, lex_ent_chars by assumption. rewrite app_nil_r. cbn [fold_left].
    unfold lex_step. cbn [mode]. replace (c_semi =? c_semi) with true by reflexivity.
    rewrite frev_rev, rev_involutive, H2, H3. reflexivity.
  - intros (H1 & H2 & H3 & H4). exists 0.
    cbn [fold_left]. rewrite fold_left_app.
    assert (E0 : lex_step (B MText t p q o Clean) c_amp = B (MEnt []) t p q o Clean).
    { unfold lex_step, text_step. cbn [mode b0 b1].
      replace (c_amp =? c_gt) with false by reflexivity. rewrite andb_false_r. reflexivity. }
    rewrite E0, lex_ent_chars by assumption. rewrite app_nil_r. cbn [fold_left].
    unfold lex_step. cbn [mode]. replace (c_semi =? c_semi) with true by reflexivity.
    rewrite frev_rev, rev_involutive, H2. unfold reset_b, set_mode, puts. cbn [mode txt b0 b1 out st]. rewrite frev_rev. reflexivity.
  - intros (H1 & H2 & H3). destruct (lex_high_bytes bs t p q o H2) as [p' ->]. exists p'.
    rewrite (last_nonnil bs q 0 H1). reflexivity.
  - intros _. exists q. cbn [fold_left]. unfold lex_step, text_step. cbn [mode b0 b1].
    replace (c_cr =? c_gt) with false by reflexivity. rewrite andb_false_r. reflexivity.
  - intros _. exists c_cr. cbn [fold_left]. unfold lex_step, text_step. cbn [mode b0 b1].
    replace (c_cr =? c_gt) with false by reflexivity. rewrite andb_false_r. cbn.
    rewrite andb_false_r. reflexivity.
Qed.

Lemma lex_atoms : forall l t p q o, atoms_ok q l ->
  exists p' q', fold_left lex_step (text_bytes l) (B MText t p q o Clean) = B MText (rev (text_chars l) ++ t) p' q' o Clean.
Proof.
  induction l as [|a l IH]; intros t p q o H.
  - exists p, q. reflexivity.
  - destruct H as [Ha Hl]. destruct (lex_atom a t p q o Ha) as [p1 E1].
    destruct (IH (rev (atom_chars a) ++ t) p1 (atom_last a) o Hl) as (p' & q' & E2).
    exists p', q'. unfold text_bytes in *. cbn [map concat]. rewrite fold_left_app, E1, E2.
    unfold text_chars. cbn [map concat]. rewrite rev_app_distr, <- app_assoc. reflexivity.
Qed.

(* UTF-8 validity composes *)
Fixpoint urun (u : ustate) (s : bytes) : option ustate :=
  match s with
  | [] => Some u
  | c :: r => match utf8_step u c with Some u' => urun u' r | None => None end
  end.
Lemma utf8_from_run : forall s u, utf8_from u s = match urun u s with Some U0 => true | _ => false end.
Proof.
  induction s as [|c r IH]; intros u; cbn [utf8_from urun]; [destruct u; reflexivity|].
  destruct (utf8_step u c); [apply IH|reflexivity].
Qed.
Lemma urun_app : forall a u b, urun u (a ++ b) = match urun u a with Some u' => urun u' b | None => None end.
Proof. induction a as [|c a IH]; intros u b; cbn [app urun]; [reflexivity|]. destruct (utf8_step u c); [apply IH|reflexivity]. Qed.
Lemma utf8_valid_run s : utf8_valid s = true <-> urun U0 s = Some U0.
Proof.
  unfold utf8_valid. rewrite utf8_from_run. destruct (urun U0 s) as [[| | |]|]; split; intros H; try discriminate; reflexivity.
Qed.
Lemma utf8_valid_app a b : utf8_valid a = true -> utf8_valid b = true -> utf8_valid (a ++ b) = true.
Proof. rewrite !utf8_valid_run. intros Ha Hb. rewrite urun_app, Ha. exact Hb. Qed.
Lemma utf8_valid_ascii1 c : c < 128 -> utf8_valid [c] = true.
Proof. intros H. unfold utf8_valid. cbn. destruct (c <? 128) eqn:E; [reflexivity|lia]. Qed.

(* the pending (reversed) text of a run is valid so far *)
Definition uvalid (t : bytes) : Prop := utf8_valid (rev t) = true.
Lemma uvalid_nil : uvalid [].
Proof. reflexivity. Qed.
Lemma uvalid_push t s : uvalid t -> utf8_valid s = true -> uvalid (rev s ++ t).
Proof. unfold uvalid. intros Ht Hs. rewrite rev_app_distr, rev_involutive. apply utf8_valid_app; assumption. Qed.

Lemma flush_valid t p q o : uvalid t -> flush (B MText t p q o Clean) = B MText [] 0 0 (flushed t o) Clean.
Proof.
  intros H. unfold flush, flushed. cbn [mode txt b0 b1 out st]. rewrite frev_rev, H.
  destruct t; [reflexivity|]. rewrite <- frev_rev. reflexivity.
Qed.

Lemma lex_lt t p q o : uvalid t -> lex_step (B MText t p q o Clean) c_lt = B MLt [] 0 0 (flushed t o) Clean.
Proof.
  intros H. unfold lex_step, text_step. cbn [mode b0 b1]. replace (c_lt =? c_gt) with false by reflexivity.
  rewrite andb_false_r. replace (c_lt =? c_lt) with true by reflexivity.
  rewrite flush_valid by assumption. reflexivity.
Qed.

Lemma lex_start_name_chars : forall r acc t p q o,
  Forall (fun b => is_name_char b = true) r ->
  fold_left lex_step r (B (MStartName acc) t p q o Clean) = B (MStartName (rev r ++ acc)) t p q o Clean.
Proof.
  induction r as [|b r IH]; intros acc t p q o HF; [reflexivity|].
  inversion HF as [|? ? Hb HF']; subst.
  cbn [fold_left]. unfold lex_step at 2. cbn [mode]. rewrite Hb. unfold set_mode. cbn [mode txt b0 b1 out st].
  rewrite IH by assumption. cbn [rev]. rewrite <- app_assoc. reflexivity.
Qed.
Lemma lex_end_name_chars : forall r acc t p q o,
  Forall (fun b => is_name_char b = true) r ->
  fold_left lex_step r (B (MEndName acc) t p q o Clean) = B (MEndName (rev r ++ acc)) t p q o Clean.
Proof.
  induction r as [|b r IH]; intros acc t p q o HF; [reflexivity|].
  inversion HF as [|? ? Hb HF']; subst.
  cbn [fold_left]. unfold lex_step at 2. cbn [mode]. rewrite Hb. unfold set_mode. cbn [mode txt b0 b1 out st].
  rewrite IH by assumption. cbn [rev]. rewrite <- app_assoc. reflexivity.
Qed.
Lemma lex_start_ws : forall ws n t p q o, ws_ok ws ->
  fold_left lex_step ws (B (MStartWs n) t p q o Clean) = B (MStartWs n) t p q o Clean.
Proof.
  induction ws as [|b ws IH]; intros n t p q o HF; [reflexivity|].
  inversion HF as [|? ? Hb HF']; subst. cbn [fold_left]. unfold lex_step at 2. cbn [mode]. rewrite Hb. apply IH. assumption.
Qed.
Lemma lex_end_ws : forall ws n t p q o, ws_ok ws ->
  fold_left lex_step ws (B (MEndWs n) t p q o Clean) = B (MEndWs n) t p q o Clean.
Proof.
  induction ws as [|b ws IH]; intros n t p q o HF; [reflexivity|].
  inversion HF as [|? ? Hb HF']; subst. cbn [fold_left]. unfold lex_step at 2. cbn [mode]. rewrite Hb. apply IH. assumption.
Qed.

(* after the name of a start tag: optional blanks, then [tail] = ">" or "/>" *)
Lemma lex_start_tail name ws o : ws_ok ws ->
  fold_left lex_step (ws ++ [c_gt]) (B (MStartName (rev name)) [] 0 0 o Clean) = B MText [] 0 0 (TStart name :: o) Clean
  /\ fold_left lex_step (ws ++ [c_slash; c_gt]) (B (MStartName (rev name)) [] 0 0 o Clean) = B MText [] 0 0 (TEnd name :: TStart name :: o) Clean.
Proof.
  intros HW. destruct ws as [|b ws].
  - cbn [app fold_left]. unfold lex_step. cbn [mode]. rewrite frev_rev, rev_involutive. split; reflexivity.
  - inversion HW as [|? ? Hb HW']; subst. destruct (blank_facts _ Hb) as (F1 & F2 & F3 & F4 & _ & F6).
    cbn [app fold_left].
    assert (E : lex_step (B (MStartName (rev name)) [] 0 0 o Clean) b = B (MStartWs name) [] 0 0 o Clean).
    { unfold lex_step. cbn [mode]. rewrite F1, F2, F6, F3, F4, Hb, frev_rev, rev_involutive. reflexivity. }
    rewrite E, !fold_left_app, lex_start_ws by assumption. split; reflexivity.
Qed.

Lemma lex_end_tail name ws o : ws_ok ws ->
  fold_left lex_step (ws ++ [c_gt]) (B (MEndName (rev name)) [] 0 0 o Clean) = B MText [] 0 0 (TEnd name :: o) Clean.
Proof.
  intros HW. destruct ws as [|b ws].
  - cbn [app fold_left]. unfold lex_step. cbn [mode]. rewrite frev_rev, rev_involutive. reflexivity.
  - inversion HW as [|? ? Hb HW']; subst. destruct (blank_facts _ Hb) as (F1 & F2 & F3 & F4 & _ & F6).
    cbn [app fold_left].
    assert (E : lex_step (B (MEndName (rev name)) [] 0 0 o Clean) b = B (MEndWs name) [] 0 0 o Clean).
    { unfold lex_step. cbn [mode]. rewrite F1, F2, F6, F3, Hb, frev_rev, rev_involutive. reflexivity. }
    rewrite E, fold_left_app, lex_end_ws by assumption. reflexivity.
Qed.

Lemma lex_piece_tag pc t p q o : piece_ok pc -> is_text pc = false -> uvalid t ->
  fold_left lex_step (piece_bytes pc) (B MText t p q o Clean) = B MText [] 0 0 (rev (piece_tokens pc) ++ flushed t o) Clean.
Proof.
  destruct pc as [l|n ws|n ws|n ws]; intros HP HT HA; try discriminate; destruct HP as [HN HW];
    destruct n as [|c r]; try contradiction; destruct HN as [Hc Hr];
    destruct (name_start_facts _ Hc) as (G1 & G2 & G3 & G4 & G5 & _ & G7); cbn [piece_bytes piece_tokens rev app fold_left]; rewrite lex_lt by assumption.
  - assert (E : lex_step (B MLt [] 0 0 (flushed t o) Clean) c = B (MStartName [c]) [] 0 0 (flushed t o) Clean).
    { unfold lex_step. cbn [mode]. rewrite G1, G2, G3, G4, G7, Hc. reflexivity. }
    rewrite E, fold_left_app, lex_start_name_chars by assumption.
    replace (rev r ++ [c]) with (rev (c :: r)) by reflexivity. apply (lex_start_tail (c :: r) ws _ HW).
  - cbn [fold_left].
    assert (E0 : lex_step (B MLt [] 0 0 (flushed t o) Clean) c_slash = B MLtSlash [] 0 0 (flushed t o) Clean) by reflexivity.
    assert (E : lex_step (B MLtSlash [] 0 0 (flushed t o) Clean) c = B (MEndName [c]) [] 0 0 (flushed t o) Clean).
    { unfold lex_step. cbn [mode]. rewrite Hc. reflexivity. }
    rewrite E0, E, fold_left_app, lex_end_name_chars by assumption.
    replace (rev r ++ [c]) with (rev (c :: r)) by reflexivity. apply (lex_end_tail (c :: r) ws _ HW).
  - assert (E : lex_step (B MLt [] 0 0 (flushed t o) Clean) c = B (MStartName [c]) [] 0 0 (flushed t o) Clean).
    { unfold lex_step. cbn [mode]. rewrite G1, G2, G3, G4, G7, Hc. reflexivity. }
    rewrite E, fold_left_app, lex_start_name_chars by assumption.
    replace (rev r ++ [c]) with (rev (c :: r)) by reflexivity. apply (lex_start_tail (c :: r) ws _ HW).
Qed.

Lemma atom_chars_facts prev a : atom_ok prev a -> atom_chars a <> [] /\ utf8_valid (atom_chars a) = true.
Proof.
  destruct a as [c|raw c|raw bs|bs| |]; cbn [atom_ok atom_chars].
  - intros (H1 & _). split; [discriminate|apply utf8_valid_ascii1; assumption].
  - intros (_ & _ & _ & H). split; [discriminate|apply utf8_valid_ascii1; assumption].
  - intros (_ & _ & H1 & H2). auto.
  - intros (H1 & _ & H2). auto.
  - intros _. split; [discriminate|reflexivity].
  - intros _. split; [discriminate|reflexivity].
Qed.

Lemma text_chars_facts : forall l prev, atoms_ok prev l -> (l <> [] -> text_chars l <> []) /\ utf8_valid (text_chars l) = true.
Proof.
  induction l as [|a l IH]; intros prev H; [split; [intros C; contradiction|reflexivity]|].
  destruct H as [Ha Hl]. destruct (atom_chars_facts _ _ Ha) as [N1 V1]. destruct (IH _ Hl) as [_ V2].
  unfold text_chars in *. cbn [map concat]. split.
  - intros _ E. apply app_eq_nil in E. destruct E. contradiction.
  - apply utf8_valid_app; assumption.
Qed.

Lemma lex_pieces : forall ps t p q o,
  Forall piece_ok ps -> no_adjacent_text ps -> uvalid t ->
  (match ps with pc :: _ => is_text pc = true -> t = [] /\ q = 0 | [] => True end) ->
  exists t' p' q' o', fold_left lex_step (render ps) (B MText t p q o Clean) = B MText t' p' q' o' Clean
     /\ rev (flushed t' o') = rev (flushed t o) ++ tokens_of ps /\ uvalid t'.
Proof.
  induction ps as [|pc ps IH]; intros t p q o HP HA HAS HT.
  - exists t, p, q, o. split; [reflexivity|]. split; [|assumption]. cbn. rewrite app_nil_r. reflexivity.
  - inversion HP as [|? ? Hpc HP']; subst.
    assert (HA' : no_adjacent_text ps) by (destruct ps; [exact I|apply HA]).
    unfold render, tokens_of in *. cbn [map concat]. rewrite fold_left_app.
    destruct (is_text pc) eqn:T.
    + destruct pc as [l| | |]; try discriminate. destruct Hpc as [Hne Hok].
      destruct (HT eq_refl) as [-> ->].
      destruct (lex_atoms l [] p 0 o Hok) as (p1 & q1 & E1). cbn [piece_bytes]. rewrite E1.
      destruct (IH (rev (text_chars l) ++ []) p1 q1 o HP' HA') as (t' & p' & q' & o' & E2 & E3 & E4).
      { apply uvalid_push; [apply uvalid_nil|apply (text_chars_facts l 0 Hok)]. }
      { destruct ps as [|pc2 ps]; [exact I|]. destruct HA as [HA _]. cbn in HA. intros H. rewrite H in HA. discriminate. }
      exists t', p', q', o'. split; [exact E2|]. split; [|exact E4]. rewrite E3. cbn [piece_tokens app flushed rev].
      rewrite app_nil_r. destruct (rev (text_chars l)) as [|c r] eqn:ER.
      * exfalso. apply (proj1 (text_chars_facts l 0 Hok) Hne). apply (f_equal (@rev _)) in ER. rewrite rev_involutive in ER. exact ER.
      * cbn [flushed rev]. rewrite <- ER, frev_rev, rev_involutive, <- app_assoc. reflexivity.
    + rewrite (lex_piece_tag pc t p q o Hpc T HAS).
      destruct (IH [] 0 0 (rev (piece_tokens pc) ++ flushed t o) HP' HA') as (t' & p' & q' & o' & E2 & E3 & E4).
      { apply uvalid_nil. }
      { destruct ps; [exact I|]. intros _. split; reflexivity. }
      exists t', p', q', o'. split; [exact E2|]. split; [|exact E4]. rewrite E3. cbn [flushed].
      rewrite rev_app_distr, rev_involutive, <- app_assoc. reflexivity.
Qed.

Theorem lex_rendered ps : Forall piece_ok ps -> no_adjacent_text ps ->
  raw_tokens (render ps) = tokens_of ps /\ raw_status (render ps) = Clean.
Proof.
  intros HP HA.
  destruct (lex_pieces ps [] 0 0 [] HP HA) as (t' & p' & q' & o' & E & ET & EA).
  { apply uvalid_nil. }
  { destruct ps; [exact I|]. intros _. split; reflexivity. }
  unfold raw_tokens, raw_status, lex_run, lex_init. rewrite E.
  unfold lex_finish. cbn [mode]. rewrite flush_valid by assumption. cbn [out st]. split; [|reflexivity].
  rewrite frev_rev. cbn in ET. rewrite <- ET. reflexivity.
Qed.

(* ------------------------------------------------------------------------------------------- *)
(* complete: a rendered document is accepted and represented exactly *)
Definition piece_events (ps : list piece) : list event := events (tokens_of ps) [root_name].

Theorem parse_rendered ps : doc_ok ps -> short_lines (tokens_of ps) ->
  parse (render ps) = Ok (run_events (piece_events ps)).
Proof.
  intros (HP & HA & HB) HS. destruct (lex_rendered ps HP HA) as [ET EC].
  rewrite parse_accepts; [unfold doc_events, piece_events; rewrite ET; reflexivity|assumption|rewrite ET; assumption|rewrite ET; assumption].
Qed.

Theorem rendered_represented ps : doc_ok ps -> short_lines (tokens_of ps) -> no_clobber (piece_events ps) ->
  exists t, parse (render ps) = Ok t /\ represents t (piece_events ps).
Proof.
  intros HD HS NC. exists (run_events (piece_events ps)). split; [apply parse_rendered; assumption|].
  apply run_events_represents; [|assumption]. apply balanced_events_wf. apply HD.
Qed.

(* ------------------------------------------------------------------------------------------- *)
(* the getters on a store that represents the events *)
Lemma key_of_vec_snoc v k : key_of_vec (v ++ [k]) = k :: key_of_vec v.
Proof. unfold key_of_vec. rewrite !frev_rev, rev_app_distr. reflexivity. Qed.

Definition absent (evs : list event) (X : key) : Prop :=
  ~ live evs X /\ forall K k, X = k :: K -> k <> [] -> assigns evs K k = [].

Lemma absent_lookup s evs X : represents s evs -> absent evs X -> lookup s X = None.
Proof.
  intros R [H1 H2]. destruct (lookup s X) as [i|] eqn:L; [|reflexivity]. exfalso.
  destruct (rep_only _ _ R _ _ L) as [H|(K & k & E & Hk & Ha)]; [exact (H1 H)|]. exact (Ha (H2 K k E Hk)).
Qed.

Section Getters.
  Variable s : store.
  Variable evs : list event.
  Hypothesis R : represents s evs.
  Variable p : bytes.
  Variable v : list bytes.
  Hypothesis Hp : analysis_path p = Ok v.

  Lemma with_elem_path {A} (f : option (key * info) -> A) :
    with_elem s p f = Ok (f (match lookup s (key_of_vec v) with Some i => Some (key_of_vec v, i) | None => None end)).
  Proof. unfold with_elem, get_elem. rewrite Hp. reflexivity. Qed.

  (* a domain: its lines in document order *)
  Theorem lines_exact : live evs (key_of_vec v) -> get_domain_line s p = Ok (lines_of evs (key_of_vec v)).
  Proof.
    intros HL. destruct (rep_domain _ _ R _ HL) as (i & Li & _ & Hl).
    unfold get_domain_line. rewrite with_elem_path, Li, frev_rev, Hl, rev_involutive. reflexivity.
  Qed.

  (* a key: its last written value, converted, or the default when the conversion fails *)
  Theorem value_exact : forall v0 k, v = v0 ++ [k] -> k <> [] -> assigns evs (key_of_vec v0) k <> [] ->
    let x := last (assigns evs (key_of_vec v0) k) [] in
    (forall d, get_string_def s p d = Ok x) /\
    (forall d, get_int_def s p d = Ok (match atoi x with Some z => z | None => d end)) /\
    (forall d, get_int32_def s p d = Ok (match atoi32 x with Some z => z | None => d end)) /\
    (forall d, get_bool_def s p d = Ok (match parse_bool x with Some b => b | None => d end)).
  Proof.
    intros v0 k Ev Hk Ha x. pose proof (rep_key _ _ R _ _ Hk Ha) as L. rewrite <- key_of_vec_snoc, <- Ev in L.
    unfold get_string_def, get_int_def, get_int32_def, get_bool_def, typed. repeat split; intros d; rewrite with_elem_path, L; reflexivity.
  Qed.

  (* nothing there: the defaults and empty listings *)
  Theorem absent_defaults : absent evs (key_of_vec v) ->
    (forall d, get_string_def s p d = Ok d) /\ (forall d, get_int_def s p d = Ok d) /\
    (forall d, get_int32_def s p d = Ok d) /\ (forall d, get_bool_def s p d = Ok d) /\
    get_domain s p = Ok [] /\ get_domain_key s p = Ok [] /\ get_domain_line s p = Ok [] /\ get_map s p = Ok [].
  Proof.
    intros HA. pose proof (absent_lookup _ _ _ R HA) as L.
    unfold get_string_def, get_int_def, get_int32_def, get_bool_def, typed, get_domain, get_domain_key, get_domain_line, get_map.
    repeat split; intros; rewrite with_elem_path, L; reflexivity.
  Qed.
End Getters.

(* listings *)
Lemma child_name_some K e n : child_name K e = Some n <-> fst e = n :: K.
Proof.
  unfold child_name. destruct (fst e) as [|m K']; [split; discriminate|].
  destruct (key_eqb K' K) eqn:E.
  - apply key_eqb_eq in E. subst. split; [intros H; inversion H; reflexivity|intros H; inversion H; reflexivity].
  - split; [discriminate|]. intros H. inversion H; subst. rewrite key_eqb_refl in E. discriminate.
Qed.

Lemma children_in kd : forall s K n val,
  In (n, val) (children kd s K) <-> exists i, In (n :: K, i) s /\ is_kind kd i = true /\ val = ivalue i.
Proof.
  induction s as [|e r IH]; intros K n val; cbn [children].
  - split; [intros []|intros (i & [] & _)].
  - destruct (child_name K e) as [m|] eqn:C.
    + apply child_name_some in C. destruct e as [k i0]. cbn [fst snd] in *. subst k.
      destruct (is_kind kd i0) eqn:Kd.
      * cbn [In]. rewrite IH. split.
        -- intros [E|(i & Hin & H)]; [inversion E; subst; exists i0; auto|exists i; auto].
        -- intros (i & [E|Hin] & Hk & Hv); [inversion E; subst; left; reflexivity|right; exists i; auto].
      * rewrite IH. split.
        -- intros (i & Hin & H). exists i. cbn. auto.
        -- intros (i & [E|Hin] & Hk & Hv); [inversion E; subst; rewrite Kd in Hk; discriminate|exists i; auto].
    + rewrite IH. split.
      * intros (i & Hin & H). exists i. cbn. auto.
      * intros (i & [E|Hin] & Hk & Hv); [|exists i; auto].
        subst e. cbn in C. rewrite key_eqb_refl in C. discriminate.
Qed.

Lemma children_nodup kd : forall s K, NoDup (map fst s) -> NoDup (map fst (children kd s K)).
Proof.
  induction s as [|e r IH]; intros K ND; cbn [children]; [constructor|].
  inversion ND as [|? ? Hn ND']; subst.
  destruct (child_name K e) as [m|] eqn:C; [|apply IH; assumption].
  destruct (is_kind kd (snd e)); [|apply IH; assumption].
  cbn [map fst]. constructor; [|apply IH; assumption].
  intros Hin. apply in_map_iff in Hin. destruct Hin as ([m' val] & E & Hin). cbn in E. subst m'.
  apply children_in in Hin. destruct Hin as (i & Hin & _). apply child_name_some in C.
  apply Hn. rewrite C. apply (in_map fst) in Hin. exact Hin.
Qed.

Section Listings.
  Variable s : store.
  Variable evs : list event.
  Hypothesis R : represents s evs.
  Variable K : key.

  Lemma children_lookup kd n val :
    In (n, val) (children kd s K) <-> exists i, lookup s (n :: K) = Some i /\ is_kind kd i = true /\ val = ivalue i.
  Proof.
    rewrite children_in. split; intros (i & H & H'); exists i; (split; [|exact H']).
    - apply in_lookup; [apply (rep_nodup _ _ R)|assumption].
    - apply lookup_in. assumption.
  Qed.

  Theorem subdomains_exact : forall n, In n (map fst (children KNode s K)) <-> live evs (n :: K).
  Proof.
    intros n. rewrite in_map_iff. split.
    - intros ([n' val] & E & Hin). cbn in E. subst n'. apply children_lookup in Hin. destruct Hin as (i & L & Kd & _).
      destruct (rep_only _ _ R _ _ L) as [H|(K' & k & E & Hk & Ha)]; [exact H|].
      injection E as E1 E2. subst k K'. pose proof (rep_key _ _ R _ _ Hk Ha) as L2. unfold key, bytes in *. rewrite L2 in L. inversion L; subst. discriminate.
    - intros H. destruct (rep_domain _ _ R (n :: K) H) as (i & L & Kd & _).
      exists (n, ivalue i). split; [reflexivity|]. apply children_lookup. exists i. unfold is_kind. rewrite Kd. auto.
  Qed.

  Theorem keys_exact : forall k val, In (k, val) (children KLeaf s K) <->
    k <> [] /\ assigns evs K k <> [] /\ val = last (assigns evs K k) [].
  Proof.
    intros k val. rewrite children_lookup. split.
    - intros (i & L & Kd & ->). destruct (rep_only _ _ R _ _ L) as [H|(K' & k' & E & Hk & Ha)].
      + destruct (rep_domain _ _ R _ H) as (i' & L' & Kd' & _). unfold key, bytes in *. rewrite L in L'. inversion L'; subst. unfold is_kind in Kd. rewrite Kd' in Kd. discriminate.
      + injection E as E1 E2. subst k' K'. pose proof (rep_key _ _ R _ _ Hk Ha) as L2. unfold key, bytes in *. rewrite L2 in L. inversion L; subst. auto.
    - intros (Hk & Ha & ->). exists (new_leaf (last (assigns evs K k) [])). split; [apply (rep_key _ _ R); assumption|]. auto.
  Qed.

  Theorem listings_nodup : NoDup (map fst (children KNode s K)) /\ NoDup (map fst (children KLeaf s K)).
  Proof. split; apply children_nodup; apply (rep_nodup _ _ R). Qed.
End Listings.

Theorem listing_getters : forall s p v i, analysis_path p = Ok v -> lookup s (key_of_vec v) = Some i ->
  get_domain s p = Ok (map fst (children KNode s (key_of_vec v))) /\
  get_domain_key s p = Ok (map fst (children KLeaf s (key_of_vec v))) /\
  get_map s p = Ok (children KLeaf s (key_of_vec v)).
Proof.
  intros s p v i Hp L. unfold get_domain, get_domain_key, get_map.
  rewrite !(with_elem_path s p v Hp), L. auto.
Qed.

(* ------------------------------------------------------------------------------------------- *)
(* paths: /a/b and /a/b<key> are analysed into their components *)
Lemma split_on_aux_nosep sep : forall s cur, ~ In sep s -> split_on_aux sep cur s = [rev cur ++ s].
Proof.
  induction s as [|c r IH]; intros cur H; cbn [split_on_aux].
  - rewrite frev_rev, app_nil_r. reflexivity.
  - destruct (c =? sep) eqn:E; [exfalso; apply H; left; apply N.eqb_eq; assumption|].
    rewrite IH by (intros Hin; apply H; right; assumption). cbn [rev]. rewrite <- app_assoc. reflexivity.
Qed.
Lemma split_on_aux_sep sep : forall a cur b, ~ In sep a ->
  split_on_aux sep cur (a ++ sep :: b) = (rev cur ++ a) :: split_on_aux sep [] b.
Proof.
  induction a as [|c r IH]; intros cur b H; cbn [app split_on_aux].
  - rewrite N.eqb_refl, frev_rev, app_nil_r. reflexivity.
  - destruct (c =? sep) eqn:E; [exfalso; apply H; left; apply N.eqb_eq; assumption|].
    rewrite IH by (intros Hin; apply H; right; assumption). cbn [rev]. rewrite <- app_assoc. reflexivity.
Qed.
Lemma split_on_nosep sep s : ~ In sep s -> split_on sep s = [s].
Proof. intros H. unfold split_on. rewrite split_on_aux_nosep by assumption. reflexivity. Qed.
Lemma split_on_sep sep a b : ~ In sep a -> split_on sep (a ++ sep :: b) = a :: split_on sep b.
Proof. intros H. unfold split_on. rewrite split_on_aux_sep by assumption. reflexivity. Qed.

Lemma split_path_rest tl : ~ In c_slash tl -> forall l n,
  ~ In c_slash n -> Forall (fun m => ~ In c_slash m) l ->
  split_on c_slash (n ++ concat (map (fun m => c_slash :: m) l) ++ tl) = removelast (n :: l) ++ [last (n :: l) [] ++ tl].
Proof.
  intros Ht. induction l as [|m l IH]; intros n Hn Hl.
  - cbn [map concat app]. rewrite split_on_nosep; [reflexivity|]. intros Hin. apply in_app_or in Hin. tauto.
  - inversion Hl as [|? ? Hm Hl']; subst. cbn [map concat].
    replace (n ++ ((c_slash :: m) ++ concat (map (fun m0 => c_slash :: m0) l)) ++ tl)
      with (n ++ c_slash :: (m ++ concat (map (fun m0 => c_slash :: m0) l) ++ tl)) by (cbn [app]; rewrite <- app_assoc; reflexivity).
    rewrite split_on_sep by assumption. rewrite (IH m Hm Hl'). reflexivity.
Qed.

Lemma trim_left_c_head ch c r : c <> ch -> trim_left_c ch (c :: r) = c :: r.
Proof. intros H. cbn. destruct (c =? ch) eqn:E; [apply N.eqb_eq in E; contradiction|reflexivity]. Qed.

Lemma trim_c_key k : (exists c r, k = c :: r /\ c <> c_gt) -> (exists r c, k = r ++ [c] /\ c <> c_gt) ->
  trim_c c_gt (k ++ [c_gt]) = k.
Proof.
  intros H1 (r' & c' & E2 & H2). unfold trim_c.
  assert (S1 : trim_left_c c_gt (k ++ [c_gt]) = k ++ [c_gt]).
  { destruct H1 as (c & r & -> & H1). cbn [app]. apply trim_left_c_head. assumption. }
  rewrite S1, !frev_rev, rev_app_distr. cbn [rev app trim_left_c]. rewrite N.eqb_refl.
  assert (S2 : trim_left_c c_gt (rev k) = rev k).
  { rewrite E2, rev_app_distr. cbn [rev app]. apply trim_left_c_head. assumption. }
  rewrite S2. apply rev_involutive.
Qed.

Lemma filter_nonempty_names l : Forall path_name l -> filter nonempty l = l.
Proof.
  induction 1 as [|n l Hn Hl IH]; [reflexivity|]. cbn. destruct n; [destruct Hn as [Hn _]; contradiction|]. cbn. rewrite IH. reflexivity.
Qed.

Theorem analysis_path_domain v : Forall path_name v -> analysis_path (path_string v None) = Ok v.
Proof.
  intros HV. unfold path_string. rewrite app_nil_r. destruct v as [|n l]; [reflexivity|].
  inversion HV as [|? ? Hn Hl]; subst.
  assert (Hl' : Forall (fun m => ~ In c_slash m) l) by (eapply Forall_impl; [|exact Hl]; intros m Hm; apply Hm).
  pose proof (split_path_rest [] (fun H => H) l n (proj1 (proj2 Hn)) Hl') as S. rewrite !app_nil_r in S.
  unfold analysis_path. cbn [map concat app]. change (c_slash :: n ++ concat (map (fun m => c_slash :: m) l)) with ([] ++ c_slash :: (n ++ concat (map (fun m => c_slash :: m) l))).
  rewrite split_on_sep by (intros []). rewrite S, frev_rev. cbn [rev]. rewrite rev_app_distr. cbn [rev app].
  assert (HL : path_name (last (n :: l) [])).
  { destruct (exists_last (l:=n :: l)) as (l0 & x & E); [discriminate|]. rewrite E, last_last.
    rewrite E in HV. apply Forall_app in HV. destruct HV as [_ HV]. inversion HV; assumption. }
  rewrite split_on_nosep by apply HL. rewrite frev_rev, rev_app_distr, rev_involutive. cbn [rev app].
  f_equal. cbn [filter nonempty]. rewrite <- app_removelast_last by discriminate. apply filter_nonempty_names. assumption.
Qed.

Theorem analysis_path_key v k : Forall path_name v -> path_key k -> analysis_path (path_string v (Some k)) = Ok (v ++ [k]).
Proof.
  intros HV (K1 & K2 & K3 & K4). unfold path_string.
  assert (Ht : ~ In c_slash (c_lt :: k ++ [c_gt])).
  { intros [H|H]; [discriminate|]. apply in_app_or in H. destruct H as [H|[H|[]]]; [contradiction|discriminate]. }
  assert (Hgt : ~ In c_lt (k ++ [c_gt])).
  { intros H. apply in_app_or in H. destruct H as [H|[H|[]]]; [contradiction|discriminate]. }
  assert (Hk : nonempty k = true) by (destruct K3 as (c & r & -> & _); reflexivity).
  destruct v as [|n l].
  - cbn [map concat app]. unfold analysis_path. rewrite split_on_nosep by assumption. cbn [frev rev_append].
    change (c_lt :: k ++ [c_gt]) with ([] ++ c_lt :: (k ++ [c_gt])). rewrite split_on_sep by (intros []).
    rewrite split_on_nosep by assumption. cbn [app]. rewrite trim_c_key by assumption. cbn [filter nonempty]. rewrite Hk. reflexivity.
  - inversion HV as [|? ? Hn Hl]; subst.
    assert (Hl' : Forall (fun m => ~ In c_slash m) l) by (eapply Forall_impl; [|exact Hl]; intros m Hm; apply Hm).
    pose proof (split_path_rest _ Ht l n (proj1 (proj2 Hn)) Hl') as S.
    unfold analysis_path. cbn [map concat]. rewrite <- app_assoc.
    change ((c_slash :: n) ++ concat (map (fun m => c_slash :: m) l) ++ c_lt :: k ++ [c_gt])
      with ([] ++ c_slash :: (n ++ concat (map (fun m => c_slash :: m) l) ++ c_lt :: k ++ [c_gt])).
    rewrite split_on_sep by (intros []). rewrite S, frev_rev. cbn [rev]. rewrite rev_app_distr. cbn [rev app].
    assert (HL : path_name (last (n :: l) [])).
    { destruct (exists_last (l:=n :: l)) as (l0 & x & E); [discriminate|]. rewrite E, last_last.
      rewrite E in HV. apply Forall_app in HV. destruct HV as [_ HV]. inversion HV; assumption. }
    rewrite split_on_sep by apply HL. rewrite split_on_nosep by assumption.
    rewrite frev_rev, rev_app_distr, rev_involutive. cbn [rev app]. rewrite trim_c_key by assumption.
    f_equal. cbn [filter nonempty].
    assert (E : removelast (n :: l) ++ [last (n :: l) []; k] = (n :: l) ++ [k]).
    { transitivity ((removelast (n :: l) ++ [last (n :: l) []]) ++ [k]); [rewrite <- app_assoc; reflexivity|].
      f_equal. symmetry. apply app_removelast_last. discriminate. }
    unfold bytes in *. rewrite E, filter_app, filter_nonempty_names by assumption. cbn [filter]. rewrite Hk. reflexivity.
Qed.

(* ------------------------------------------------------------------------------------------- *)
(* lines: how a key = value line, a comment and a blank line are read *)
Lemma conf_blank_facts c : is_conf_blank c = true -> c <> c_eq /\ c <> c_cr /\ c <> c_hash.
Proof. unfold is_conf_blank, c_conf_blanks. cbn [existsb]. chars. lia. Qed.
Lemma conf_nonblank_consts : is_conf_blank c_eq = false /\ is_conf_blank c_hash = false.
Proof. split; reflexivity. Qed.

Lemma trim_left_blanks w x : Forall (fun c => is_conf_blank c = true) w -> trim_left (w ++ x) = trim_left x.
Proof. induction 1 as [|c w Hc Hw IH]; [reflexivity|]. cbn [app trim_left]. rewrite Hc. exact IH. Qed.
Lemma trim_left_head c r : is_conf_blank c = false -> trim_left (c :: r) = c :: r.
Proof. intros H. cbn [trim_left]. rewrite H. reflexivity. Qed.
Lemma trim_left_snoc c : is_conf_blank c = false -> forall x, exists y, trim_left (x ++ [c]) = y ++ [c].
Proof.
  intros H. induction x as [|a x IH]; cbn [app trim_left].
  - rewrite H. exists []. reflexivity.
  - destruct (is_conf_blank a); [exact IH|]. exists (a :: x). reflexivity.
Qed.
Lemma blanks_conf w : blanks w -> Forall (fun c => is_conf_blank c = true) w.
Proof. intros H. eapply Forall_impl; [|exact H]. intros c Hc. apply Hc. Qed.
Lemma Forall_rev' {A} (P : A -> Prop) l : Forall P l -> Forall P (rev l).
Proof. intros H. apply Forall_forall. intros x Hx. apply in_rev in Hx. rewrite Forall_forall in H. auto. Qed.

Lemma trim_edges w0 m w1 : blanks w0 -> blanks w1 -> edges_ok m -> trim (w0 ++ m ++ w1) = m.
Proof.
  intros H0 H1 [(c & r & E1 & Hc) (r' & c' & E2 & Hc')]. unfold trim.
  rewrite trim_left_blanks by (apply blanks_conf; assumption).
  rewrite E1 at 1. cbn [app]. rewrite trim_left_head by assumption.
  change (c :: r ++ w1) with ((c :: r) ++ w1). rewrite <- E1. rewrite !frev_rev, rev_app_distr.
  rewrite trim_left_blanks by (apply Forall_rev'; apply blanks_conf; assumption).
  rewrite E2, rev_app_distr. cbn [rev app]. rewrite trim_left_head by assumption.
  change (c' :: rev r') with (rev [c'] ++ rev r'). rewrite <- rev_app_distr. apply rev_involutive.
Qed.

Lemma trim_blanks w : blanks w -> trim w = [].
Proof.
  intros H. unfold trim. rewrite <- (app_nil_r w), trim_left_blanks by (apply blanks_conf; assumption). reflexivity.
Qed.

Lemma trim_head w c r : blanks w -> is_conf_blank c = false -> exists y, trim (w ++ c :: r) = c :: y.
Proof.
  intros Hw Hc. unfold trim. rewrite trim_left_blanks by (apply blanks_conf; assumption).
  rewrite trim_left_head by assumption. rewrite !frev_rev. cbn [rev].
  destruct (trim_left_snoc c Hc (rev r)) as [y ->]. exists (rev y). rewrite rev_app_distr. reflexivity.
Qed.

Lemma drop_cr_nocr l : ~ In c_cr l -> drop_cr l = l.
Proof.
  intros H. unfold drop_cr. rewrite frev_rev. destruct (rev l) as [|c r] eqn:E; [reflexivity|].
  destruct (c =? c_cr) eqn:Ec; [|reflexivity]. exfalso. apply H. apply N.eqb_eq in Ec. subst c.
  apply in_rev. rewrite E. left. reflexivity.
Qed.

Lemma drop_cr_form a c r : c <> c_cr -> exists r', drop_cr (a ++ c :: r) = a ++ c :: r'.
Proof.
  intros Hc. unfold drop_cr. rewrite frev_rev, rev_app_distr. cbn [rev]. rewrite <- app_assoc. cbn [app].
  destruct (rev r) as [|z zs] eqn:E; cbn [app].
  - destruct (c =? c_cr) eqn:Ec; [apply N.eqb_eq in Ec; contradiction|]. exists r. reflexivity.
  - destruct (z =? c_cr); [|exists r; reflexivity].
    exists (rev zs). rewrite frev_rev, rev_app_distr. cbn [rev]. rewrite rev_involutive, <- app_assoc. reflexivity.
Qed.

Lemma cut_eq_app : forall a b, ~ In c_eq a -> cut_eq (a ++ c_eq :: b) = (a, Some b).
Proof.
  induction a as [|c a IH]; intros b H; cbn [app cut_eq].
  - rewrite N.eqb_refl. reflexivity.
  - destruct (c =? c_eq) eqn:E; [exfalso; apply H; left; apply N.eqb_eq; assumption|].
    rewrite IH by (intros Hin; apply H; right; assumption). reflexivity.
Qed.

Lemma blanks_notin w x : blanks w -> (is_conf_blank x = false \/ x = c_nl) -> ~ In x w.
Proof.
  intros Hw Hx Hin. unfold blanks in Hw. rewrite Forall_forall in Hw. destruct (Hw _ Hin) as [H1 H2]. destruct Hx as [Hx| ->]; [congruence|contradiction].
Qed.

Theorem kv_line_read w0 k w1 w2 v w3 :
  blanks w0 -> blanks w1 -> blanks w2 -> blanks w3 -> clean_key k -> clean_value v ->
  content_line (kv_line w0 k w1 w2 v w3) = Some (kv_text k w1 w2 v) /\ line_kv (kv_text k w1 w2 v) = (k, v)
  /\ ~ In c_nl (kv_line w0 k w1 w2 v w3).
Proof.
  intros B0 B1 B2 B3 (KE & Keq & Knl & Kcr & Kh) HV.
  assert (NB : forall w x, blanks w -> x = c_eq \/ x = c_cr \/ x = c_nl -> ~ In x w).
  { intros w x Hw Hx Hin. unfold blanks in Hw. rewrite Forall_forall in Hw. destruct (Hw _ Hin) as [H1 H2].
    destruct (conf_blank_facts _ H1) as (F1 & F2 & F3). destruct Hx as [->|[->| ->]]; contradiction. }
  assert (Vnl : ~ In c_nl v /\ ~ In c_cr v) by (destruct HV as [->|(_ & H1 & H2)]; [split; intros []|tauto]).
  assert (HM : edges_ok (kv_text k w1 w2 v)).
  { destruct KE as [(c & r & E1 & Hc) _]. unfold kv_text. split.
    - exists c, (r ++ w1 ++ [c_eq] ++ match v with [] => [] | _ => w2 ++ v end). rewrite E1. split; [reflexivity|assumption].
    - destruct HV as [->|([_ (r' & c' & E2 & Hc')] & _)].
      + exists (k ++ w1), c_eq. split; [rewrite <- app_assoc; reflexivity|reflexivity].
      + exists (k ++ w1 ++ [c_eq] ++ w2 ++ r'), c'. split; [|assumption].
        rewrite E2. destruct (r' ++ [c']) eqn:E; [destruct r'; discriminate|]. rewrite <- E. rewrite <- !app_assoc. reflexivity. }
  assert (SEG : exists w', blanks w' /\ kv_line w0 k w1 w2 v w3 = w0 ++ kv_text k w1 w2 v ++ w').
  { unfold kv_line, kv_text. destruct v as [|c v'].
    - exists (w2 ++ w3). split; [apply Forall_app; split; assumption|]. rewrite <- !app_assoc. reflexivity.
    - exists w3. split; [assumption|]. rewrite <- !app_assoc. reflexivity. }
  assert (NL : forall x, x = c_nl \/ x = c_cr -> ~ In x (kv_line w0 k w1 w2 v w3)).
  { intros x Hx Hin. unfold kv_line in Hin. repeat (apply in_app_or in Hin; destruct Hin as [Hin|Hin]).
    - apply (NB w0 x); tauto.
    - destruct Hx as [-> | ->]; contradiction.
    - apply (NB w1 x); tauto.
    - destruct Hin as [<-|[]]. destruct Hx; discriminate.
    - apply (NB w2 x); tauto.
    - destruct Hx as [-> | ->]; tauto.
    - apply (NB w3 x); tauto. }
  split; [|split].
  - unfold content_line. rewrite drop_cr_nocr by (apply NL; auto).
    destruct SEG as (w' & Bw' & ->). rewrite trim_edges by assumption.
    destruct KE as [(c & r & E1 & Hc) _]. unfold kv_text at 1. rewrite E1 at 1. cbn [app].
    rewrite E1 in Kh. cbn in Kh. destruct (c =? c_hash) eqn:E; [apply N.eqb_eq in E; contradiction|reflexivity].
  - unfold line_kv, kv_text. rewrite app_assoc. cbn [app].
    rewrite cut_eq_app.
    + f_equal.
      * rewrite <- (app_nil_l (k ++ w1)). apply trim_edges; [constructor|assumption|assumption].
      * destruct HV as [->|(VE & _)]; [reflexivity|]. destruct v as [|c v']; [destruct VE as [(? & ? & E & _) _]; discriminate|].
        rewrite <- (app_nil_r (w2 ++ c :: v')), <- app_assoc. apply trim_edges; [assumption|constructor|assumption].
    + intros Hin. apply in_app_or in Hin. destruct Hin as [Hin|Hin]; [contradiction|]. apply (NB w1 c_eq); auto.
  - apply NL. auto.
Qed.

Theorem comment_line_read w rest : blanks w -> content_line (w ++ c_hash :: rest) = None.
Proof.
  intros Bw. unfold content_line. destruct (drop_cr_form w c_hash rest) as [r' ->]; [discriminate|].
  destruct (trim_head w c_hash r' Bw) as [y ->]; reflexivity.
Qed.

Theorem blank_line_read w : blanks w -> content_line w = None.
Proof.
  intros Bw. unfold content_line. rewrite drop_cr_nocr.
  - rewrite trim_blanks by assumption. reflexivity.
  - intros Hin. unfold blanks in Bw. rewrite Forall_forall in Bw. destruct (Bw _ Hin) as [H _]. apply conf_blank_facts in H. tauto.
Qed.

(* a text run made of newline-terminated lines is read line by line *)
Lemma split_lines_aux_line : forall l cur rest, ~ In c_nl l ->
  split_lines_aux cur (l ++ c_nl :: rest) = (rev cur ++ l) :: split_lines_aux [] rest.
Proof.
  induction l as [|c l IH]; intros cur rest H; cbn [app split_lines_aux].
  - rewrite N.eqb_refl, frev_rev, app_nil_r. reflexivity.
  - destruct (c =? c_nl) eqn:E; [exfalso; apply H; left; apply N.eqb_eq; assumption|].
    rewrite IH by (intros Hin; apply H; right; assumption). cbn [rev]. rewrite <- app_assoc. reflexivity.
Qed.

Theorem split_lines_join ls : Forall (fun l => ~ In c_nl l) ls -> split_lines (join_lines ls) = ls.
Proof.
  unfold split_lines, join_lines. induction 1 as [|l ls Hl Hls IH]; [reflexivity|].
  cbn [map concat]. rewrite <- app_assoc. cbn [app]. rewrite split_lines_aux_line by assumption. rewrite IH. reflexivity.
Qed.

Definition one_line (x : bytes) : list bytes := match x with [] => [] | c :: r => [c :: r] end.
Lemma split_lines_aux_end : forall x cur, ~ In c_nl x -> split_lines_aux cur x = one_line (rev cur ++ x).
Proof.
  induction x as [|c x IH]; intros cur H; cbn [split_lines_aux].
  - rewrite app_nil_r, frev_rev. destruct cur as [|a cur]; [reflexivity|]. destruct (rev (a :: cur)) eqn:E; [|reflexivity].
    apply (f_equal (@rev _)) in E. rewrite rev_involutive in E. discriminate.
  - destruct (c =? c_nl) eqn:E; [exfalso; apply H; left; apply N.eqb_eq; assumption|].
    rewrite IH by (intros Hin; apply H; right; assumption). cbn [rev]. rewrite <- app_assoc. reflexivity.
Qed.

Theorem content_lines_join_open ls x : Forall (fun l => ~ In c_nl l) ls -> ~ In c_nl x ->
  content_lines (join_lines ls ++ x) = flat_map line_content (ls ++ [x]).
Proof.
  intros H Hx. unfold content_lines, split_lines, join_lines.
  assert (E : forall cur, cur = [] -> split_lines_aux cur (concat (map (fun l => l ++ [c_nl]) ls) ++ x) = ls ++ one_line x).
  { induction H as [|l ls Hl Hls IH]; intros cur ->.
    - cbn [map concat app]. rewrite split_lines_aux_end by assumption. reflexivity.
    - cbn [map concat]. rewrite <- !app_assoc. cbn [app]. rewrite split_lines_aux_line by assumption. rewrite IH by reflexivity. reflexivity. }
  rewrite (E [] eq_refl), !flat_map_app. f_equal. destruct x; [reflexivity|]. reflexivity.
Qed.

Theorem content_lines_join ls : Forall (fun l => ~ In c_nl l) ls -> content_lines (join_lines ls) = flat_map line_content ls.
Proof. intros H. unfold content_lines. rewrite split_lines_join by assumption. reflexivity. Qed.

(* ------------------------------------------------------------------------------------------- *)
(* trees flatten to well-nested piece lists *)
Lemma tokens_of_app a b : tokens_of (a ++ b) = tokens_of a ++ tokens_of b.
Proof. unfold tokens_of. rewrite map_app, concat_app. reflexivity. Qed.

Fixpoint node_balanced (n : node) : forall stk rest,
  balanced_from stk (tokens_of (flatten n) ++ rest) = balanced_from stk rest.
Proof.
  destruct n as [l|nm w1 w2 body|nm w]; intros stk rest.
  - reflexivity.
  - cbn [flatten]. change (POpen nm w1 :: flat_map flatten body ++ [PClose nm w2]) with ([POpen nm w1] ++ flat_map flatten body ++ [PClose nm w2]).
    rewrite !tokens_of_app, <- !app_assoc. cbn [tokens_of map concat piece_tokens app balanced_from].
    assert (L : forall b r, balanced_from (nm :: stk) (tokens_of (flat_map flatten b) ++ r) = balanced_from (nm :: stk) r).
    { induction b as [|x b IHb]; intros r; [reflexivity|]. cbn [flat_map]. rewrite tokens_of_app, <- app_assoc, node_balanced. apply IHb. }
    rewrite L. cbn [app balanced_from]. rewrite bytes_eqb_refl. reflexivity.
  - cbn. rewrite bytes_eqb_refl. reflexivity.
Qed.

Theorem flatten_doc_balanced d : balanced (tokens_of (flatten_doc d)) = true.
Proof.
  unfold balanced, flatten_doc. rewrite <- (app_nil_r (tokens_of _)).
  induction d as [|n d IH]; [reflexivity|]. cbn [flat_map]. rewrite tokens_of_app, <- app_assoc, node_balanced. exact IH.
Qed.


(* ------------------------------------------------------------------------------------------- *)
(* text runs written as grammar lines *)
Lemma gline_no_nl g : gline_ok g -> ~ In c_nl (gline_bytes g).
Proof.
  destruct g as [w0 k w1 w2 v w3|w rest|w]; cbn [gline_ok gline_bytes].
  - intros (B0 & B1 & B2 & B3 & HK & HV). apply (kv_line_read w0 k w1 w2 v w3); assumption.
  - intros [Bw Hr] Hin. apply in_app_or in Hin. destruct Hin as [Hin|[Hin|Hin]]; [|discriminate|contradiction].
    apply (blanks_notin w c_nl Bw); auto.
  - intros Bw. apply (blanks_notin w c_nl Bw). auto.
Qed.

Lemma gline_content g : gline_ok g -> line_content (gline_bytes g) = gline_text g.
Proof.
  unfold line_content. destruct g as [w0 k w1 w2 v w3|w rest|w]; cbn [gline_ok gline_bytes gline_text].
  - intros (B0 & B1 & B2 & B3 & HK & HV). destruct (kv_line_read w0 k w1 w2 v w3) as (-> & _); auto.
  - intros [Bw _]. rewrite comment_line_read by assumption. reflexivity.
  - intros Bw. rewrite blank_line_read by assumption. reflexivity.
Qed.

Theorem glines_read ls : Forall gline_ok ls ->
  content_lines (glines_text ls) = flat_map gline_text ls /\ map line_kv (flat_map gline_text ls) = flat_map gline_kv ls.
Proof.
  intros H. split.
  - unfold glines_text. rewrite content_lines_join.
    + induction H as [|g ls Hg Hls IH]; [reflexivity|]. cbn [map flat_map]. rewrite gline_content by assumption. rewrite IH. reflexivity.
    + apply Forall_forall. intros l Hl. apply in_map_iff in Hl. destruct Hl as (g & <- & Hg). rewrite Forall_forall in H. apply gline_no_nl. auto.
  - induction H as [|g ls Hg Hls IH]; [reflexivity|]. cbn [flat_map]. rewrite map_app, IH. f_equal.
    destruct g as [w0 k w1 w2 v w3|w rest|w]; try reflexivity. cbn [gline_text gline_kv map].
    destruct Hg as (B0 & B1 & B2 & B3 & HK & HV). destruct (kv_line_read w0 k w1 w2 v w3) as (_ & -> & _); auto.
Qed.

Lemma removelast_last_forall {A} (P : A -> Prop) (l : list A) d : Forall P l -> P d -> Forall P (removelast l) /\ P (last l d).
Proof.
  induction 1 as [|x l Hx Hl IH]; intros Hd; [split; [constructor|assumption]|].
  destruct l as [|y l]; [split; [constructor|assumption]|]. destruct (IH Hd) as [I1 I2]. split; [constructor; assumption|assumption].
Qed.

Lemma flat_content ls : Forall gline_ok ls -> flat_map line_content (map gline_bytes ls) = flat_map gline_text ls.
Proof.
  induction 1 as [|g ls Hg Hls IH]; [reflexivity|]. cbn [map flat_map]. rewrite gline_content by assumption. rewrite IH. reflexivity.
Qed.

Theorem gtext_read ls b : Forall gline_ok ls -> content_lines (gtext ls b) = flat_map gline_text ls.
Proof.
  intros H. destruct b; [apply (glines_read ls H)|]. unfold gtext, glines_text_open.
  destruct (removelast_last_forall gline_ok ls (GBlank []) H) as [H1 H2]; [constructor|].
  rewrite content_lines_join_open.
  - destruct ls as [|g0 ls0]; [reflexivity|].
    rewrite <- (flat_content (g0 :: ls0) H). rewrite (app_removelast_last (GBlank []) (l:=g0 :: ls0)) at 3 by discriminate.
    rewrite map_app. reflexivity.
  - apply Forall_forall. intros l Hl. apply in_map_iff in Hl. destruct Hl as (g & <- & Hg). rewrite Forall_forall in H1. apply gline_no_nl. auto.
  - apply gline_no_nl. assumption.
Qed.

Lemma lines_of_map K ls : lines_of (map (EvLine K) ls) K = ls.
Proof. induction ls as [|l ls IH]; [reflexivity|]. cbn. rewrite key_eqb_refl. cbn. f_equal. exact IH. Qed.

(* the values assigned to a key by a text run are those of its key = value lines with that key, in order *)
Theorem glines_assigns K k ls b : Forall gline_ok ls ->
  lines_of (map (EvLine K) (content_lines (gtext ls b))) K = flat_map gline_text ls /\
  assigns (map (EvLine K) (content_lines (gtext ls b))) K k = flat_map (gline_val k) ls.
Proof.
  intros H. pose proof (gtext_read ls b H) as E. unfold assigns. rewrite E, lines_of_map. split; [reflexivity|].
  clear E. induction H as [|g ls Hg Hls IH]; [reflexivity|]. cbn [flat_map]. rewrite filter_app, map_app.
  rewrite IH. f_equal.
  destruct g as [w0 k' w1 w2 v w3|w rest|w]; try reflexivity. cbn [gline_text gline_val filter].
  destruct Hg as (B0 & B1 & B2 & B3 & HK & HV). destruct (kv_line_read w0 k' w1 w2 v w3) as (_ & E2 & _); auto.
  unfold key_of_line. rewrite E2. cbn [fst]. destruct (bytes_eqb k' k); [|reflexivity].
  cbn [map]. unfold value_of_line. rewrite E2. reflexivity.
Qed.

Lemma lines_of_map_other stk K ls : key_eqb stk K = false -> lines_of (map (EvLine stk) ls) K = [].
Proof. intros E. induction ls as [|l ls IH]; [reflexivity|]. cbn. rewrite E. exact IH. Qed.

Section GrammarProofs.
  Variable dec : list atom -> list gline * bool.

  Lemma grammar_events : forall ps stk K k, grammar_text dec ps ->
    lines_of (events (tokens_of ps) stk) K = glines dec ps stk K /\
    assigns (events (tokens_of ps) stk) K k = gassigns dec ps stk K k.
  Proof.
    induction ps as [|pc ps IH]; intros stk K k HG; [split; reflexivity|].
    assert (HG' : grammar_text dec ps) by (intros l Hl; apply HG; right; assumption).
    change (tokens_of (pc :: ps)) with (piece_tokens pc ++ tokens_of ps).
    destruct pc as [l|n ws|n ws|n ws]; cbn [piece_tokens app events gassigns glines tl].
    - destruct (HG l (or_introl eq_refl)) as [Hok Htx]. rewrite lines_of_app, assigns_app, Htx.
      destruct (IH stk K k HG') as [-> ->]. destruct (key_eqb stk K) eqn:E.
      + apply key_eqb_eq in E. subst K. destruct (glines_assigns stk k (fst (dec l)) (snd (dec l)) Hok) as [-> ->]. split; reflexivity.
      + unfold assigns. rewrite lines_of_map_other by assumption. split; reflexivity.
    - apply (IH (n :: stk) K k HG').
    - apply (IH (tl stk) K k HG').
    - apply (IH stk K k HG').
  Qed.

  (* end to end, in the grammar's terms: the document is accepted; /path<key> is the value of the last
     key = value line with that key in the domains of that path; the lines are the written lines *)
  Theorem grammar_value ps v k :
    doc_ok ps -> short_lines (tokens_of ps) -> no_clobber (piece_events ps) -> grammar_text dec ps ->
    Forall path_name v -> path_key k -> gassigns dec ps [root_name] (key_of_vec v) k <> [] ->
    exists t, parse (render ps) = Ok t /\
      let x := last (gassigns dec ps [root_name] (key_of_vec v) k) [] in
      (forall d, get_string_def t (path_string v (Some k)) d = Ok x) /\
      (forall d, get_int_def t (path_string v (Some k)) d = Ok (match atoi x with Some z => z | None => d end)) /\
      (forall d, get_int32_def t (path_string v (Some k)) d = Ok (match atoi32 x with Some z => z | None => d end)) /\
      (forall d, get_bool_def t (path_string v (Some k)) d = Ok (match parse_bool x with Some b => b | None => d end)).
  Proof.
    intros HD HS NC HG HV HK HA.
    destruct (rendered_represented ps HD HS NC) as (t & Hp & R). exists t. split; [exact Hp|].
    destruct (grammar_events ps [root_name] (key_of_vec v) k HG) as [_ EA]. fold (piece_events ps) in EA. rewrite <- EA in *.
    assert (Hk : k <> []) by (destruct HK as (_ & _ & (c & r & -> & _) & _); discriminate).
    apply (value_exact t _ R _ _ (analysis_path_key v k HV HK) v k eq_refl Hk HA).
  Qed.

  Theorem grammar_lines ps v :
    doc_ok ps -> short_lines (tokens_of ps) -> no_clobber (piece_events ps) -> grammar_text dec ps ->
    Forall path_name v -> live (piece_events ps) (key_of_vec v) ->
    exists t, parse (render ps) = Ok t /\ get_domain_line t (path_string v None) = Ok (glines dec ps [root_name] (key_of_vec v)).
  Proof.
    intros HD HS NC HG HV HL.
    destruct (rendered_represented ps HD HS NC) as (t & Hp & R). exists t. split; [exact Hp|].
    destruct (grammar_events ps [root_name] (key_of_vec v) [] HG) as [EL _]. fold (piece_events ps) in EL. rewrite <- EL.
    apply (lines_exact t _ R _ _ (analysis_path_domain v HV) HL).
  Qed.
End GrammarProofs.

(* ------------------------------------------------------------------------------------------- *)
(* typed getters: the decimal rendering of an integer in range parses to that integer (fmt %d / strconv.Itoa form) *)
Lemma dec_z_value : forall s acc, dec_z acc s = Endpoint.Parse.dec_value acc s.
Proof.
  induction s as [|c r IH]; intros acc; cbn [dec_z Endpoint.Parse.dec_value]; [reflexivity|].
  unfold Endpoint.Parse.digit_of, is_digit, in_range. destruct (N.leb 48 c && N.leb c 57) eqn:E; [|reflexivity].
  rewrite IH. f_equal. lia.
Qed.

Lemma parse_int_digit_head lo hi c r : 48 <= c <= 57 ->
  parse_int lo hi (c :: r) = match dec_z 0 (c :: r) with
                             | None => None
                             | Some v => if ((lo <=? v) && (v <=? hi))%Z then Some v else None
                             end.
Proof.
  intros Hc. unfold parse_int. destruct c as [|cp]; [lia|]. do 7 (try destruct cp as [cp|cp|]); try lia; reflexivity.
Qed.

Lemma parse_int_minus lo hi c r :
  parse_int lo hi (45 :: c :: r) = match dec_z 0 (c :: r) with
                                   | None => None
                                   | Some v => if ((lo <=? - v) && (- v <=? hi))%Z then Some (- v)%Z else None
                                   end.
Proof. reflexivity. Qed.

Theorem parse_int_dec lo hi z : (lo <= z <= hi)%Z -> parse_int lo hi (Endpoint.Parse.dec z) = Some z.
Proof.
  intros Hr. pose proof (DecimalZ.of_to z) as Hz. unfold Endpoint.Parse.dec.
  destruct z as [|p|p]; cbn [Z.to_int] in *.
  - cbn. destruct ((lo <=? 0)%Z && (0 <=? hi)%Z) eqn:E; [reflexivity|lia].
  - unfold Z.of_int, Z.of_uint in Hz.
    pose proof (DecimalPos.Unsigned.to_uint_nonnil p) as Hn.
    pose proof (Endpoint.ParseProofs.uint_bytes_digits (Pos.to_uint p)) as Hd.
    pose proof (Endpoint.ParseProofs.dec_value_uint (Pos.to_uint p)) as Hv. rewrite Hz in Hv.
    destruct (Endpoint.Parse.uint_bytes (Pos.to_uint p)) as [|c r] eqn:E.
    + exfalso. apply (Endpoint.ParseProofs.uint_bytes_nonnil _ Hn E).
    + inversion Hd as [|? ? Hc _]; subst.
      rewrite parse_int_digit_head by assumption. rewrite dec_z_value, Hv.
      destruct ((lo <=? Z.pos p)%Z && (Z.pos p <=? hi)%Z) eqn:E2; [reflexivity|lia].
  - unfold Z.of_int, Z.of_uint in Hz.
    pose proof (DecimalPos.Unsigned.to_uint_nonnil p) as Hn.
    pose proof (Endpoint.ParseProofs.dec_value_uint (Pos.to_uint p)) as Hv.
    assert (Hp : Z.of_N (Pos.of_uint (Pos.to_uint p)) = Z.pos p) by lia. rewrite Hp in Hv.
    destruct (Endpoint.Parse.uint_bytes (Pos.to_uint p)) as [|c r] eqn:E.
    + exfalso. apply (Endpoint.ParseProofs.uint_bytes_nonnil _ Hn E).
    + rewrite parse_int_minus, dec_z_value, Hv. destruct ((lo <=? - Z.pos p)%Z && (- Z.pos p <=? hi)%Z) eqn:E2; [reflexivity|lia].
Qed.

Lemma parse_int_factor s : exists o, forall lo hi,
  parse_int lo hi s = match o with Some v => if ((lo <=? v) && (v <=? hi))%Z then Some v else None | None => None end.
Proof.
  unfold parse_int. match goal with |- context [let '(a, b) := ?M in _] => destruct M as [neg body] end.
  destruct body as [|n body]; [exists None; reflexivity|].
  destruct (dec_z 0 (n :: body)) as [w|]; [|exists None; reflexivity].
  exists (Some (if neg then (- w)%Z else w)). reflexivity.
Qed.

Theorem parse_int_out_of_range lo hi z : ~ (lo <= z <= hi)%Z -> parse_int lo hi (Endpoint.Parse.dec z) = None.
Proof.
  intros Hr. destruct (parse_int_factor (Endpoint.Parse.dec z)) as [o Ho].
  pose proof (parse_int_dec (Z.min lo z) (Z.max hi z) z ltac:(lia)) as H. rewrite Ho in H. rewrite Ho.
  destruct o as [v|]; [|reflexivity].
  destruct ((Z.min lo z <=? v)%Z && (v <=? Z.max hi z)%Z); [|discriminate]. inversion H; subst.
  destruct ((lo <=? z)%Z && (z <=? hi)%Z) eqn:E; [lia|reflexivity].
Qed.

Theorem int_parsed : forall z,
  ((-9223372036854775808 <= z <= 9223372036854775807)%Z -> atoi (Endpoint.Parse.dec z) = Some z) /\
  ((-2147483648 <= z <= 2147483647)%Z -> atoi32 (Endpoint.Parse.dec z) = Some z) /\
  (~ (-2147483648 <= z <= 2147483647)%Z -> atoi32 (Endpoint.Parse.dec z) = None) /\
  (~ (-9223372036854775808 <= z <= 9223372036854775807)%Z -> atoi (Endpoint.Parse.dec z) = None).
Proof.
  intros z. repeat split; intros H; first [apply parse_int_dec; exact H | apply parse_int_out_of_range; exact H].
Qed.

Theorem grammar_lines_read : forall ls b, Forall gline_ok ls ->
  content_lines (gtext ls b) = flat_map gline_text ls /\ map line_kv (flat_map gline_text ls) = flat_map gline_kv ls.
Proof. intros ls b H. split; [apply gtext_read; exact H | apply (glines_read ls H)]. Qed.

(* ------------------------------------------------------------------------------------------- *)
(* a concrete document satisfying every hypothesis of the theorems above, and the theorems applied to it *)
Definition ex_text : list atom :=
  map ARaw (raw " k = v1 "%hex) ++ [ACrLf] ++ map ARaw (raw "#c"%hex) ++ [AUtf8 [230; 151; 165]; AEntU (raw "#233"%hex) [195; 169]; ARaw 10] ++
  map ARaw (raw "k=a"%hex) ++ [AEnt (raw "amp"%hex) 38] ++ map ARaw (raw "b=c ]"%hex) ++ [AEnt (raw "gt"%hex) 62; ARaw 10].
Definition ex_doc : list piece :=
  [POpen (raw "a"%hex) [32]; PText ex_text; PEmpty (raw "b.1"%hex) []; PClose (raw "a"%hex) [10];
   PText (map ARaw (raw "top=1"%hex))].

Ltac solve_ok := repeat (split || constructor); try reflexivity; try (intros HH; discriminate HH);
                 try (intros [HH1 HH2]; discriminate).

Example ex_doc_ok : doc_ok ex_doc.
Proof. unfold doc_ok. split; [|split]; solve_ok. Qed.

Example ex_short : short_lines (tokens_of ex_doc).
Proof.
  intros t seg Hin Hseg. vm_compute in Hin.
  repeat (destruct Hin as [Hin|Hin]; [first [discriminate Hin | injection Hin as <-; vm_compute in Hseg;
    repeat (destruct Hseg as [<-|Hseg]; [vm_compute; reflexivity|]); contradiction]|]).
  contradiction.
Qed.

Example ex_no_clobber : no_clobber (piece_events ex_doc).
Proof.
  intros K l Hin Hk HL. vm_compute in Hin.
  repeat (destruct Hin as [Hin|Hin]; [first [discriminate Hin | injection Hin as <- <-;
    destruct HL as [HL|HL]; [vm_compute in HL; discriminate HL|vm_compute in HL; repeat (destruct HL as [HL|HL]; [discriminate HL|]); contradiction]]|]).
  contradiction.
Qed.

(* end to end through the theorems: the document is accepted and /a<k> is the last written value "a&b=c ]>" *)
Example ex_end_to_end : exists t, parse (render ex_doc) = Ok t /\
  get_string_def t (raw "/a<k>"%hex) [] = Ok (raw "a&b=c ]>"%hex) /\
  get_domain_line t (raw "/a"%hex) = Ok [raw "k = v1"%hex; raw "k=a&b=c ]>"%hex] /\
  get_int_def t (raw "<top>"%hex) 7%Z = Ok 1%Z.
Proof.
  destruct (rendered_represented ex_doc ex_doc_ok ex_short ex_no_clobber) as (t & Hp & R). exists t. split; [exact Hp|].
  assert (P1 : analysis_path (raw "/a<k>"%hex) = Ok [raw "a"%hex; raw "k"%hex]).
  { apply (analysis_path_key [raw "a"%hex] (raw "k"%hex)); solve_ok; try (intros [HH|HH]; [discriminate|contradiction]).
    - exists 107, []. split; [reflexivity|discriminate].
    - exists [], 107. split; [reflexivity|discriminate]. }
  assert (P2 : analysis_path (raw "/a"%hex) = Ok [raw "a"%hex]).
  { apply (analysis_path_domain [raw "a"%hex]); solve_ok; try (intros [HH|HH]; [discriminate|contradiction]). }
  assert (P3 : analysis_path (raw "<top>"%hex) = Ok [raw "top"%hex]) by reflexivity.
  split; [|split].
  - destruct (value_exact _ _ R _ _ P1 [raw "a"%hex] (raw "k"%hex) eq_refl) as (H & _); [discriminate|vm_compute; discriminate|].
    rewrite H. vm_compute. reflexivity.
  - rewrite (lines_exact _ _ R _ _ P2); [vm_compute; reflexivity|]. right. vm_compute. left. reflexivity.
  - destruct (value_exact _ _ R _ _ P3 [] (raw "top"%hex) eq_refl) as (_ & H & _); [discriminate|vm_compute; discriminate|].
    rewrite H. vm_compute. reflexivity.
Qed.

Example ex_kv_line : content_line (raw "  locator = tars.tarsregistry.QueryObj@tcp -h 10.0.0.1 -p 17890	 "%hex)
   = Some (raw "locator = tars.tarsregistry.QueryObj@tcp -h 10.0.0.1 -p 17890"%hex)
  /\ line_kv (raw "locator = tars.tarsregistry.QueryObj@tcp -h 10.0.0.1 -p 17890"%hex)
   = (raw "locator"%hex, raw "tars.tarsregistry.QueryObj@tcp -h 10.0.0.1 -p 17890"%hex).
Proof.
  destruct (kv_line_read (raw "  "%hex) (raw "locator"%hex) (raw " "%hex) (raw " "%hex)
    (raw "tars.tarsregistry.QueryObj@tcp -h 10.0.0.1 -p 17890"%hex) [9; 32]) as (H1 & H2 & _);
    try (solve_ok; fail).
  - split; [split|]; try solve_ok; try (intros HH; vm_compute in HH; repeat (destruct HH as [HH|HH]; [discriminate|]); contradiction).
    + exists 108, (raw "ocator"%hex). split; reflexivity.
    + exists (raw "locato"%hex), 114. split; reflexivity.
  - right. split; [split|split].
    + exists 116, (raw "ars.tarsregistry.QueryObj@tcp -h 10.0.0.1 -p 17890"%hex). split; reflexivity.
    + exists (raw "tars.tarsregistry.QueryObj@tcp -h 10.0.0.1 -p 1789"%hex), 48. split; reflexivity.
    + intros HH; vm_compute in HH; repeat (destruct HH as [HH|HH]; [discriminate|]); contradiction.
    + intros HH; vm_compute in HH; repeat (destruct HH as [HH|HH]; [discriminate|]); contradiction.
Qed.

(* the same document read as grammar lines *)
Definition ex_dec (l : list atom) : list gline * bool :=
  if (length l =? 5)%nat then ([GKV [] (raw "top"%hex) [] [] (raw "1"%hex) []], false)
  else ([GKV [32] (raw "k"%hex) [32] [32] (raw "v1"%hex) [32]; GComment [] (raw "c"%hex ++ [230; 151; 165; 195; 169]);
         GKV [] (raw "k"%hex) [] [] (raw "a&b=c ]>"%hex) []], true).

Ltac notin := intros HH; vm_compute in HH; repeat (destruct HH as [HH|HH]; [discriminate HH|]); contradiction.
Ltac edges a b c d := split; [exists a, b; split; reflexivity | exists c, d; split; reflexivity].

Ltac bl := unfold blanks; solve [repeat (apply Forall_cons; [split; [reflexivity|discriminate]|]); apply Forall_nil].
Ltac ckey a b c d := split; [edges a b c d|repeat split; try notin; discriminate].
Ltac cval a b c d := right; split; [edges a b c d|split; notin].

Ltac evalfst := match goal with |- Forall _ ?x => let y := eval vm_compute in x in change x with y end.

Example ex_grammar_text : grammar_text ex_dec ex_doc.
Proof.
  intros l Hl. vm_compute in Hl.
  repeat (destruct Hl as [Hl|Hl]; [first [discriminate Hl | injection Hl as <-]|]); try contradiction.
  - split; [|reflexivity]. evalfst. apply Forall_cons; [|apply Forall_cons; [|apply Forall_cons; [|apply Forall_nil]]].
    + repeat (split; [bl|]). split; [ckey 107 (@nil N) (@nil N) 107 | cval 118 [49] [118] 49].
    + split; [bl|notin].
    + repeat (split; [bl|]). split; [ckey 107 (@nil N) (@nil N) 107 | cval 97 (raw "&b=c ]>"%hex) (raw "a&b=c ]"%hex) 62].
  - split; [|reflexivity]. evalfst. apply Forall_cons; [|apply Forall_nil].
    repeat (split; [bl|]). split; [ckey 116 (raw "op"%hex) (raw "to"%hex) 112 | cval 49 (@nil N) (@nil N) 49].
Qed.

Example ex_grammar_value : exists t, parse (render ex_doc) = Ok t /\
  get_string_def t (path_string [raw "a"%hex] (Some (raw "k"%hex))) [] = Ok (raw "a&b=c ]>"%hex) /\
  get_int32_def t (path_string [] (Some (raw "top"%hex))) 5%Z = Ok 1%Z.
Proof.
  destruct (grammar_value ex_dec ex_doc [raw "a"%hex] (raw "k"%hex) ex_doc_ok ex_short ex_no_clobber ex_grammar_text) as (t & Hp & H1 & _).
  - repeat constructor; try discriminate; notin.
  - repeat split; try notin; [exists 107, []|exists [], 107]; split; try reflexivity; discriminate.
  - vm_compute. discriminate.
  - exists t. split; [exact Hp|]. split; [rewrite H1; vm_compute; reflexivity|].
    destruct (grammar_value ex_dec ex_doc [] (raw "top"%hex) ex_doc_ok ex_short ex_no_clobber ex_grammar_text) as (t' & Hp' & _ & _ & H3 & _).
    + constructor.
    + repeat split; try notin; [exists 116, (raw "op"%hex)|exists (raw "to"%hex), 112]; split; try reflexivity; discriminate.
    + vm_compute. discriminate.
    + rewrite Hp in Hp'. injection Hp' as <-. rewrite H3. vm_compute. reflexivity.
Qed.

(* ------------------------------------------------------------------------------------------- *)
(* without the disjointness of key and sub-domain names the statement is false of the model (and of the code):
   a key line named like an earlier sub-domain of the same domain replaces the whole sub-domain *)
Definition complete_full_statement : Prop := forall ps,
  doc_ok ps -> short_lines (tokens_of ps) -> exists t, parse (render ps) = Ok t /\ represents t (piece_events ps).

Definition col_doc : list piece :=
  [POpen (raw "a"%hex) []; POpen (raw "b"%hex) []; PText (map ARaw (raw "c=2"%hex)); PClose (raw "b"%hex) [];
   PText (map ARaw (raw "b=1"%hex)); PClose (raw "a"%hex) []].

Example col_doc_ok : doc_ok col_doc.
Proof. unfold doc_ok. split; [|split]; solve_ok. Qed.
Example col_short : short_lines (tokens_of col_doc).
Proof.
  intros t seg Hin Hseg. vm_compute in Hin.
  repeat (destruct Hin as [Hin|Hin]; [first [discriminate Hin | injection Hin as <-; vm_compute in Hseg;
    repeat (destruct Hseg as [<-|Hseg]; [vm_compute; reflexivity|]); contradiction]|]).
  contradiction.
Qed.

Theorem complete_full_refuted : ~ complete_full_statement.
Proof.
  intros H. destruct (H col_doc col_doc_ok col_short) as (t & Hp & R).
  assert (E : parse (render col_doc) = Ok (run_events (piece_events col_doc))) by (apply parse_rendered; [apply col_doc_ok|apply col_short]).
  rewrite E in Hp. injection Hp as <-.
  pose proof (rep_key _ _ R [raw "b"%hex; raw "a"%hex; root_name] (raw "c"%hex)) as K.
  assert (H1 : raw "c"%hex <> []) by discriminate.
  assert (H2 : assigns (piece_events col_doc) [raw "b"%hex; raw "a"%hex; root_name] (raw "c"%hex) <> []) by (vm_compute; discriminate).
  specialize (K H1 H2). vm_compute in K. discriminate.
Qed.

(* observable through the getters: /a/b<c> was written as 2 and reads as the default *)
Example col_observable : exists t, parse (render col_doc) = Ok t /\
  get_string_def t (raw "/a/b<c>"%hex) (raw "?"%hex) = Ok (raw "?"%hex) /\ get_string_def t (raw "/a<b>"%hex) [] = Ok (raw "1"%hex)
  /\ get_domain t (raw "/a"%hex) = Ok [].
Proof. eexists. split; [apply parse_rendered; [apply col_doc_ok|apply col_short]|]. vm_compute. repeat split. Qed.

(* ------------------------------------------------------------------------------------------- *)
(* the repairs are conservative: whatever the repaired parser accepts, the old loop accepted with the same tree *)
Lemma st_set_mode m x : st (set_mode m x) = st x. Proof. reflexivity. Qed.
Lemma st_emit ts x : st (emit ts x) = st x. Proof. reflexivity. Qed.
Lemma st_put c x : st (put c x) = st x. Proof. reflexivity. Qed.
Lemma st_puts cs x : st (puts cs x) = st x. Proof. reflexivity. Qed.
Lemma st_shift c x : st (shift c x) = st x. Proof. reflexivity. Qed.
Lemma st_reset_b x : st (reset_b x) = st x. Proof. reflexivity. Qed.
Lemma st_mark s x : st x <> Clean -> mark s x = x.
Proof. unfold mark. destruct (st x); [contradiction|reflexivity|reflexivity]. Qed.
Lemma st_flush x : st x <> Clean -> st (flush x) = st x.
Proof. unfold flush. cbn [st]. destruct (st x); [contradiction|reflexivity|reflexivity]. Qed.
Lemma st_junk s x : st x <> Clean -> st (junk s x) = st x.
Proof. intros H. unfold junk. rewrite st_set_mode, st_mark by assumption. reflexivity. Qed.

Lemma st_text_step x c : st x <> Clean -> st (text_step x c) = st x.
Proof.
  intros H. unfold text_step. cbv zeta.
  repeat match goal with |- context [if ?b then _ else _] => destruct b end;
    rewrite ?(st_mark Failed x H); rewrite ?st_set_mode, ?st_shift, ?st_put, ?st_flush by assumption; reflexivity.
Qed.

Lemma st_drop2 x : st (drop2 x) = st x. Proof. reflexivity. Qed.
Lemma st_cdata_step x c : st x <> Clean -> st (cdata_step x c) = st x.
Proof.
  intros H. unfold cdata_step.
  repeat match goal with |- context [if ?b then _ else _] => destruct b end;
    rewrite ?(st_mark Failed x H); rewrite ?st_set_mode, ?st_shift, ?st_put; rewrite ?st_flush by (rewrite st_drop2; assumption);
    rewrite ?st_drop2; reflexivity.
Qed.

Lemma st_sticky x c : st x <> Clean -> st (lex_step x c) = st x.
Proof.
  intros H. unfold lex_step.
  destruct (mode x); try (apply st_cdata_step; assumption);
    repeat match goal with
           | |- context [if ?b then _ else _] => destruct b
           | |- context [match decode_entity ?r with _ => _ end] => destruct (decode_entity r)
           | |- context [match frev ?r with _ => _ end] => destruct (frev r)
           end;
    rewrite ?(st_mark Failed x H), ?(st_mark Unmod x H);
    rewrite ?st_text_step, ?st_reset_b, ?st_set_mode, ?st_emit, ?st_puts, ?st_put, ?st_junk by (rewrite ?st_reset_b, ?st_set_mode, ?st_puts, ?st_put; assumption);
    rewrite ?st_reset_b, ?st_set_mode, ?st_emit, ?st_puts, ?st_put; try reflexivity.
Qed.

Lemma fold_sticky : forall bs x, st x <> Clean -> st (fold_left lex_step bs x) = st x.
Proof.
  induction bs as [|c r IH]; intros x H; [reflexivity|]. cbn [fold_left].
  rewrite IH by (rewrite st_sticky; assumption). apply st_sticky. assumption.
Qed.
Lemma finish_sticky x : st x <> Clean -> st (lex_finish x) = st x.
Proof.
  intros H. unfold lex_finish. destruct (mode x); rewrite ?(st_mark Failed x H); try reflexivity.
  - apply st_flush. assumption.
  - rewrite st_flush; [reflexivity|]. rewrite st_puts. assumption.
Qed.

Lemma lex_prefix_clean : forall bs x, st (lex_finish (fold_left lex_step bs x)) = Clean ->
  lex_prefix x bs = frev (out (lex_finish (fold_left lex_step bs x))).
Proof.
  induction bs as [|c r IH]; intros x H; cbn [lex_prefix fold_left] in *.
  - rewrite H. reflexivity.
  - destruct (st (lex_step x c)) eqn:E; [apply IH; assumption| |].
    + exfalso. rewrite finish_sticky, fold_sticky in H by (rewrite ?fold_sticky; rewrite E; discriminate). rewrite E in H. discriminate.
    + exfalso. rewrite finish_sticky, fold_sticky in H by (rewrite ?fold_sticky; rewrite E; discriminate). rewrite E in H. discriminate.
Qed.

Lemma balanced_prefix_id : forall ts stk, balanced_from stk ts = true -> balanced_prefix stk ts = ts.
Proof.
  induction ts as [|tok ts IH]; intros stk H; [reflexivity|]. destruct tok as [n|n|tx]; cbn in *.
  - rewrite IH by assumption. reflexivity.
  - destruct stk as [|top stk']; [discriminate|]. destruct (bytes_eqb top n); [|discriminate]. rewrite IH by assumption. reflexivity.
  - rewrite IH by assumption. reflexivity.
Qed.

Lemma conf_loop_old_same : forall ts s stk t, conf_loop ts s stk = Ok t -> conf_loop_old ts s stk = Ok t.
Proof.
  induction ts as [|tok ts IH]; intros s stk t H.
  - destruct stk; cbn in *; [discriminate|assumption].
  - destruct stk as [|top below]; [cbn in H; discriminate|].
    destruct tok as [n|n|tx]; cbn [conf_loop conf_loop_old] in *.
    + destruct (lookup s (n :: top :: below)); apply IH; assumption.
    + destruct (bytes_eqb top n); [apply IH; assumption|discriminate].
    + destruct (do_segments s (top :: below) (split_lines tx)) as [s'|] eqn:D; [|discriminate].
      apply IH in H. revert s D. induction (split_lines tx) as [|seg l IHl]; intros s D; cbn [do_segments] in D.
      * inversion D; subst. exact H.
      * destruct (max_scan_token <=? N.of_nat (length seg)); [discriminate|].
        destruct (content_line seg); apply IHl; assumption.
Qed.

Theorem repair_conservative : forall bs t, parse bs = Ok t -> parse_old bs = Ok t.
Proof.
  intros bs t H. unfold parse in H. destruct (raw_status bs) eqn:S; try discriminate.
  destruct (balanced (raw_tokens bs)) eqn:B; [|discriminate].
  unfold parse_old. unfold raw_status, lex_run in S. rewrite (lex_prefix_clean bs lex_init S).
  fold (lex_run bs). fold (raw_tokens bs). rewrite balanced_prefix_id by exact B.
  apply conf_loop_old_same. exact H.
Qed.

(* ------------------------------------------------------------------------------------------- *)
(* "malformed" at full strength: the decimal parser accepts exactly [+-]?[0-9]+ inside the range, with its value *)
Fixpoint dval (acc : Z) (ds : bytes) : Z :=
  match ds with [] => acc | c :: r => dval (acc * 10 + Z.of_N (c - 48))%Z r end.
Definition decimal_shape (s sign ds : bytes) : Prop :=
  s = sign ++ ds /\ (sign = [] \/ sign = [43] \/ sign = [45]) /\ ds <> [] /\ Forall (fun c => is_digit c = true) ds.

Lemma dec_z_spec : forall s acc v, dec_z acc s = Some v <-> Forall (fun c => is_digit c = true) s /\ v = dval acc s.
Proof.
  induction s as [|c r IH]; intros acc v; cbn [dec_z dval].
  - split; [intros H; inversion H; split; [constructor|reflexivity] | intros [_ ->]; reflexivity].
  - destruct (is_digit c) eqn:E.
    + rewrite IH. split; intros [H1 H2]; (split; [|assumption]).
      * constructor; assumption.
      * inversion H1; assumption.
    + split; [discriminate|]. intros [H _]. inversion H; congruence.
Qed.

Lemma parse_int_other lo hi c r : c <> 45 -> c <> 43 ->
  parse_int lo hi (c :: r) = match dec_z 0 (c :: r) with
                             | None => None
                             | Some v => if ((lo <=? v) && (v <=? hi))%Z then Some v else None
                             end.
Proof.
  intros H1 H2. unfold parse_int. destruct c as [|p]; [reflexivity|]. do 7 (try destruct p as [p|p|]); try reflexivity; contradiction.
Qed.

Theorem parse_int_spec lo hi s z :
  parse_int lo hi s = Some z <->
  exists sign ds, decimal_shape s sign ds /\ z = (if bytes_eqb sign [45%N] then - dval 0 ds else dval 0 ds)%Z /\ (lo <= z <= hi)%Z.
Proof.
  assert (DIG : forall c, is_digit c = true -> c <> 45 /\ c <> 43) by (intros c H; unfold is_digit, in_range in H; lia).
  assert (BODY : forall (neg : bool) (body : bytes), (match body with
      | [] => None
      | _ => match dec_z 0 body with
             | None => None
             | Some v => let v := if neg then (- v)%Z else v in if ((lo <=? v) && (v <=? hi))%Z then Some v else None
             end end = Some z) <->
      (body <> [] /\ Forall (fun c => is_digit c = true) body /\ z = (if neg then - dval 0 body else dval 0 body)%Z /\ (lo <= z <= hi)%Z)).
  { intros neg body. destruct body as [|c r]; [split; [discriminate|intros [H _]; contradiction]|].
    destruct (dec_z 0 (c :: r)) as [v|] eqn:D.
    - apply dec_z_spec in D. destruct D as [DF ->]. remember (dval 0 (c :: r)) as dv eqn:Edv. destruct neg; cbv beta iota zeta.
      + destruct ((lo <=? - dv)%Z && (- dv <=? hi)%Z) eqn:R.
        * split; [intros H; inversion H; subst; repeat split; try discriminate; try assumption; lia | intros (_ & _ & -> & _); reflexivity].
        * split; [discriminate|]. intros (_ & _ & -> & H). lia.
      + destruct ((lo <=? dv)%Z && (dv <=? hi)%Z) eqn:R.
        * split; [intros H; inversion H; subst; repeat split; try discriminate; try assumption; lia | intros (_ & _ & -> & _); reflexivity].
        * split; [discriminate|]. intros (_ & _ & -> & H). lia.
    - split; [discriminate|]. intros (_ & HF & _). assert (X : dec_z 0 (c :: r) = Some (dval 0 (c :: r))) by (apply dec_z_spec; auto). congruence. }
  destruct s as [|c r].
  - unfold parse_int. rewrite (BODY false []). split; [intros [H _]; contradiction|]. intros (sign & ds & (E & _ & Hne & _) & _).
    destruct sign; destruct ds; try discriminate. contradiction.
  - destruct (N.eq_dec c 45) as [->|N45]; [|destruct (N.eq_dec c 43) as [->|N43]].
    + unfold parse_int. rewrite (BODY true r). split.
      * intros (Hne & HF & -> & Hr). exists [45], r. split; [repeat split; auto|split; [reflexivity|exact Hr]].
      * intros (sign & ds & (E & Hs & Hne & HF) & -> & Hr). destruct Hs as [->|[->| ->]]; cbn in E.
        -- subst ds. inversion HF as [|? ? Hd _]. destruct (DIG _ Hd). congruence.
        -- discriminate.
        -- injection E as <-. cbn. auto.
    + unfold parse_int. rewrite (BODY false r). split.
      * intros (Hne & HF & -> & Hr). exists [43], r. split; [repeat split; auto|split; [reflexivity|exact Hr]].
      * intros (sign & ds & (E & Hs & Hne & HF) & -> & Hr). destruct Hs as [->|[->| ->]]; cbn in E.
        -- subst ds. inversion HF as [|? ? Hd _]. destruct (DIG _ Hd). congruence.
        -- injection E as <-. cbn. auto.
        -- discriminate.
    + rewrite parse_int_other by assumption. pose proof (BODY false (c :: r)) as B. cbv beta iota zeta in B. rewrite B. split.
      * intros (Hne & HF & -> & Hr). exists [], (c :: r). split; [repeat split; auto|split; [reflexivity|exact Hr]].
      * intros (sign & ds & (E & Hs & Hne & HF) & -> & Hr). destruct Hs as [->|[->| ->]]; cbn in E.
        -- subst ds. cbn. auto.
        -- injection E as E1 _. congruence.
        -- injection E as E1 _. congruence.
Qed.

(* ------------------------------------------------------------------------------------------- *)
(* a re-opened domain and a repeated key, through the grammar theorems: the lines of both blocks in order, the last value *)
Definition ex2_doc : list piece :=
  [POpen (raw "a"%hex) []; PText (map ARaw (raw "k=1"%hex) ++ [ARaw 10]); PClose (raw "a"%hex) [];
   POpen (raw "b"%hex) []; PClose (raw "b"%hex) [];
   POpen (raw "a"%hex) [32]; PText (map ARaw (raw "k = 2"%hex) ++ [ARaw 10] ++ map ARaw (raw "k=3"%hex)); PClose (raw "a"%hex) []].
Definition ex2_dec (l : list atom) : list gline * bool :=
  if (length l =? 4)%nat then ([GKV [] (raw "k"%hex) [] [] (raw "1"%hex) []], true)
  else ([GKV [] (raw "k"%hex) [32] [32] (raw "2"%hex) []; GKV [] (raw "k"%hex) [] [] (raw "3"%hex) []], false).

Example ex2_doc_ok : doc_ok ex2_doc.
Proof. unfold doc_ok. split; [|split]; solve_ok. Qed.
Example ex2_short : short_lines (tokens_of ex2_doc).
Proof.
  intros t seg Hin Hseg. vm_compute in Hin.
  repeat (destruct Hin as [Hin|Hin]; [first [discriminate Hin | injection Hin as <-; vm_compute in Hseg;
    repeat (destruct Hseg as [<-|Hseg]; [vm_compute; reflexivity|]); contradiction]|]).
  contradiction.
Qed.
Example ex2_no_clobber : no_clobber (piece_events ex2_doc).
Proof.
  intros K l Hin Hk HL. vm_compute in Hin.
  repeat (destruct Hin as [Hin|Hin]; [first [discriminate Hin | injection Hin as <- <-;
    destruct HL as [HL|HL]; [vm_compute in HL; discriminate HL|vm_compute in HL; repeat (destruct HL as [HL|HL]; [discriminate HL|]); contradiction]]|]).
  contradiction.
Qed.
Example ex2_grammar_text : grammar_text ex2_dec ex2_doc.
Proof.
  intros l Hl. vm_compute in Hl.
  repeat (destruct Hl as [Hl|Hl]; [first [discriminate Hl | injection Hl as <-]|]); try contradiction.
  - split; [|reflexivity]. evalfst. apply Forall_cons; [|apply Forall_nil].
    repeat (split; [bl|]). split; [ckey 107 (@nil N) (@nil N) 107 | cval 49 (@nil N) (@nil N) 49].
  - split; [|reflexivity]. evalfst. apply Forall_cons; [|apply Forall_cons; [|apply Forall_nil]].
    + repeat (split; [bl|]). split; [ckey 107 (@nil N) (@nil N) 107 | cval 50 (@nil N) (@nil N) 50].
    + repeat (split; [bl|]). split; [ckey 107 (@nil N) (@nil N) 107 | cval 51 (@nil N) (@nil N) 51].
Qed.

Example ex2_reopened_domain : exists t, parse (render ex2_doc) = Ok t /\
  get_int_def t (path_string [raw "a"%hex] (Some (raw "k"%hex))) 0%Z = Ok 3%Z /\
  get_domain_line t (path_string [raw "a"%hex] None) = Ok [raw "k=1"%hex; raw "k = 2"%hex; raw "k=3"%hex].
Proof.
  destruct (grammar_value ex2_dec ex2_doc [raw "a"%hex] (raw "k"%hex) ex2_doc_ok ex2_short ex2_no_clobber ex2_grammar_text) as (t & Hp & _ & H2 & _).
  - apply Forall_cons; [|apply Forall_nil]. split; [discriminate|split; notin].
  - repeat split; try notin; [exists 107, []|exists [], 107]; split; try reflexivity; discriminate.
  - vm_compute. discriminate.
  - exists t. split; [exact Hp|]. split; [rewrite H2; vm_compute; reflexivity|].
    destruct (grammar_lines ex2_dec ex2_doc [raw "a"%hex] ex2_doc_ok ex2_short ex2_no_clobber ex2_grammar_text) as (t' & Hp' & HL).
    + apply Forall_cons; [|apply Forall_nil]. split; [discriminate|split; notin].
    + right. vm_compute. left. reflexivity.
    + rewrite Hp in Hp'. injection Hp' as <-. rewrite HL. vm_compute. reflexivity.
Qed.
