(* Proofs about the model Conf/Conf.v (C17). *)
From Coq Require Import List NArith ZArith Bool Lia ZifyBool ZifyNat ZifyN.
From TarsV Require Import Base.Hex Gen.Consts Conf.Conf.
Import ListNotations.
Open Scope bool_scope.
Open Scope N_scope.

(* ------------------------------------------------------------------------------------------- *)
(* the loop of InitFromBytes on a balanced token list: no index panic, no "xml end not match" *)
Lemma conf_loop_balanced : forall ts s names,
  balanced_from names ts = true ->
  (exists r, conf_loop ts s (names ++ [root_name]) = Ok r) \/ conf_loop ts s (names ++ [root_name]) = Err 3.
Proof.
  induction ts as [|t ts IH]; intros s names Hb.
  - destruct names; cbn; left; eexists; reflexivity.
  - destruct t as [n|n|t].
    + cbn in Hb. specialize (IH).
      destruct names as [|top below]; cbn [app conf_loop].
      * destruct (lookup s [n; root_name]); apply (IH _ [n]); exact Hb.
      * destruct (lookup s (n :: top :: below ++ [root_name])); apply (IH _ (n :: top :: below)); exact Hb.
    + cbn in Hb. destruct names as [|top below]; [discriminate|].
      destruct (bytes_eqb top n) eqn:E; [|discriminate].
      cbn [app conf_loop]. rewrite E. apply IH. exact Hb.
    + cbn in Hb.
      destruct names as [|top below]; cbn [app conf_loop].
      * destruct (do_segments s [root_name] (split_lines t)); [apply (IH _ []); exact Hb | right; reflexivity].
      * destruct (do_segments s (top :: below ++ [root_name]) (split_lines t)); [apply (IH _ (top :: below)); exact Hb | right; reflexivity].
Qed.

Theorem parse_no_panic : forall bs n, parse bs <> Panic n.
Proof.
  intros bs n. unfold parse.
  destruct (raw_status bs); try discriminate.
  destruct (balanced (raw_tokens bs)) eqn:B; [|discriminate].
  destruct (conf_loop_balanced (raw_tokens bs) init_store [] B) as [[r H]|H]; cbn [app] in H; rewrite H; discriminate.
Qed.
