(* C17 model: tars/util/conf/conf.go (InitFromBytes and the getters) on top of a lexical model of
   Go's encoding/xml tokenizer in strict mode.

   Layers (definitions only; proofs are in ConfProofs.v):
   1. raw_lex      — Decoder.rawToken on a stated alphabet, one byte at a time (total, no fuel);
                     a sticky status records the first token error (Failed) or the first construct
                     outside the alphabet (Unmod); after either the machine goes on tolerantly so
                     that "what the document contains" is defined for malformed input too.
   2. balanced     — Decoder.Token's element stack (end tag must match, EOF needs an empty stack).
   3. conf_loop    — the loop of InitFromBytes over the tokens: node stack, line scanner
                     (bufio.ScanLines + Trim + '#'/blank skipping + SplitN at the first '='), with
                     Go's index panic (empty node stack), the "xml end not match" error and the
                     scanner's ErrTooLong as explicit outcomes. The repaired code is modelled:
                     a token error and a scanner error are returned, not swallowed.
   4. getters      — analysisPath, getElem, GetString/Int/Int32/Bool WithDef, GetDomain, GetDomainKey,
                     GetDomainLine, GetMap.
   The element tree is a flat store keyed by the *reversed* path (innermost name first, the root's
   name last): Go's pointer tree with "addChild replaces the whole subtree" is "remove every entry
   whose key has this key as a suffix".

   Alphabet: all byte strings except those containing a directive "<!x", the declaration "<?xml", ':' or a byte
   >= 128 in a tag or PI name, or attributes (those are Unmod). Tags <name>, </name>, <name/> with blanks after the
   name; names [A-Za-z_][A-Za-z0-9_.-]*; comments <!-- -->, CDATA sections, processing instructions; text of any
   bytes: the five predefined entities, numeric entities (UTF-8 encoded, surrogates as U+FFFD), CR / CRLF
   normalisation, and the end-of-run check: valid UTF-8 without U+FFFE / U+FFFF, no control characters. *)
From Coq Require Import List NArith ZArith Bool.
From TarsV Require Import Base.Hex Gen.Consts.
Import ListNotations.
Open Scope bool_scope.
Open Scope N_scope.

Definition bytes := list N.
(* list reversal in linear time (the model is evaluated on lines of 64 KiB); frev l = rev l (ConfProofs.frev_rev) *)
Definition frev {A} (l : list A) : list A := rev_append l [].


Inductive outcome (A : Type) := Ok (a : A) | Err (e : N) | Panic (site : N) | Unmodelled.
Arguments Ok {A} a. Arguments Err {A} e. Arguments Panic {A} site. Arguments Unmodelled {A}.
(* error classes: 1 tokenizer error (incl. unbalanced tags / EOF in an open element), 2 "xml end not match",
   3 scanner ErrTooLong.   panic sites: 1 nodeStack[len-1], 2 pathVec[len-1], 3 kv[0] *)

(* ------------------------------------------------------------------------------------------- *)
(* characters *)
Definition c_lt := 60. Definition c_gt := 62. Definition c_amp := 38. Definition c_semi := 59.
Definition c_slash := 47. Definition c_eq := 61. Definition c_hash := 35. Definition c_rb := 93.
Definition c_cr := 13. Definition c_nl := 10. Definition c_tab := 9. Definition c_sp := 32.
Definition c_colon := 58. Definition c_bang := 33. Definition c_qm := 63.

Definition in_range (lo hi c : N) : bool := (lo <=? c) && (c <=? hi).
Definition is_letter (c : N) : bool := in_range 65 90 c || in_range 97 122 c.
Definition is_digit (c : N) : bool := in_range 48 57 c.
Definition is_name_start (c : N) : bool := is_letter c || (c =? 95).                  (* ':' handled apart *)
Definition is_name_char (c : N) : bool := is_letter c || is_digit c || (c =? 95) || (c =? 46) || (c =? 45).
Definition is_xml_blank (c : N) : bool := (c =? c_sp) || (c =? c_tab) || (c =? c_cr) || (c =? c_nl).
(* isInCharacterRange on bytes < 128 *)
Definition is_ctrl (c : N) : bool := (c <? 32) && negb ((c =? c_tab) || (c =? c_nl) || (c =? c_cr)).
Definition is_ent_char (c : N) : bool := is_name_char c || (c =? c_hash) || (c =? c_colon).

(* ------------------------------------------------------------------------------------------- *)
(* entities *)
Fixpoint dec_val (acc : N) (s : bytes) : option N :=
  match s with
  | [] => Some acc
  | c :: r => if is_digit c then dec_val (acc * 10 + (c - 48)) r else None
  end.
Definition hex_digit (c : N) : option N :=
  if is_digit c then Some (c - 48)
  else if in_range 97 102 c then Some (c - 87)
  else if in_range 65 70 c then Some (c - 55) else None.
Fixpoint hex_val (acc : N) (s : bytes) : option N :=
  match s with
  | [] => Some acc
  | c :: r => match hex_digit c with Some d => hex_val (acc * 16 + d) r | None => None end
  end.

(* string(rune(n)): UTF-8 encoding; surrogates become U+FFFD *)
Definition utf8_encode (n : N) : bytes :=
  if n <? 2048 then [192 + n / 64; 128 + n mod 64]
  else if (55296 <=? n) && (n <=? 57343) then [239; 191; 189]
  else if n <? 65536 then [224 + n / 4096; 128 + (n / 64) mod 64; 128 + n mod 64]
  else [240 + n / 262144; 128 + (n / 4096) mod 64; 128 + (n / 64) mod 64; 128 + n mod 64].

Inductive ent_result := EntText (b : N) | EntBytes (bs : bytes) | EntBad.
Definition ent_of_code (o : option N) : ent_result :=
  match o with
  | None => EntBad
  | Some n => if n <? 128 then EntText n else if n <=? 1114111 then EntBytes (utf8_encode n) else EntBad
  end.
(* [s] = the bytes between '&' and ';' *)
Definition decode_entity (s : bytes) : ent_result :=
  match s with
  | [108; 116] => EntText 60                      (* lt *)
  | [103; 116] => EntText 62                      (* gt *)
  | [97; 109; 112] => EntText 38                  (* amp *)
  | [97; 112; 111; 115] => EntText 39             (* apos *)
  | [113; 117; 111; 116] => EntText 34            (* quot *)
  | 35 :: 120 :: ((_ :: _) as d) => ent_of_code (hex_val 0 d)      (* #x H+ *)
  | 35 :: ((_ :: _) as d) => ent_of_code (dec_val 0 d)             (* # D+ ; "#x" alone ends here: 'x' is no digit *)
  | _ => EntBad
  end.

(* ------------------------------------------------------------------------------------------- *)
(* the check at the end of Decoder.text: the run must be valid UTF-8 (utf8.DecodeRune's acceptance table) and free
   of U+FFFE / U+FFFF (isInCharacterRange; control characters < 0x20 are tested where the byte is read) *)
Inductive ustate := U0 | UC (n : N) (lo hi : N) | UEF | UEFBF.
Definition utf8_step (u : ustate) (c : N) : option ustate :=
  match u with
  | U0 => if c <? 128 then Some U0
          else if in_range 194 223 c then Some (UC 1 128 191)
          else if c =? 224 then Some (UC 2 160 191)
          else if in_range 225 236 c || (c =? 238) then Some (UC 2 128 191)
          else if c =? 237 then Some (UC 2 128 159)
          else if c =? 239 then Some UEF
          else if c =? 240 then Some (UC 3 144 191)
          else if in_range 241 243 c then Some (UC 3 128 191)
          else if c =? 244 then Some (UC 3 128 143)
          else None
  | UC n lo hi => if in_range lo hi c then Some (if n =? 1 then U0 else UC (n - 1) 128 191) else None
  | UEF => if c =? 191 then Some UEFBF else if in_range 128 190 c then Some (UC 1 128 191) else None
  | UEFBF => if in_range 128 189 c then Some U0 else None
  end.
Fixpoint utf8_from (u : ustate) (s : bytes) : bool :=
  match s with
  | [] => match u with U0 => true | _ => false end
  | c :: r => match utf8_step u c with Some u' => utf8_from u' r | None => false end
  end.
Definition utf8_valid (s : bytes) : bool := utf8_from U0 s.

(* ------------------------------------------------------------------------------------------- *)
(* 1. raw tokens *)
Inductive token := TStart (n : bytes) | TEnd (n : bytes) | TText (s : bytes).
Inductive status := Clean | Failed | Unmod.

Inductive lmode :=
| MText | MEnt (raw : bytes) | MLt | MStartName (n : bytes) | MStartWs (n : bytes) | MSlash (n : bytes)
| MLtSlash | MEndName (n : bytes) | MEndWs (n : bytes) | MJunk
| MBang | MBangDash | MComment (p q : N) | MCdataOpen (i : nat) | MCdata | MPiName (n : bytes) | MPi (q : N).

Record lstate := { mode : lmode; txt : bytes (* reversed *); b0 : N; b1 : N; out : list token (* reversed *); st : status }.

Definition mark (s : status) (x : lstate) : lstate :=
  match st x with
  | Clean => {| mode := mode x; txt := txt x; b0 := b0 x; b1 := b1 x; out := out x; st := s |}
  | _ => x
  end.
Definition set_mode (m : lmode) (x : lstate) : lstate :=
  {| mode := m; txt := txt x; b0 := b0 x; b1 := b1 x; out := out x; st := st x |}.
Definition flush (x : lstate) : lstate :=
  {| mode := mode x; txt := []; b0 := 0; b1 := 0;
     out := match txt x with [] => out x | t => TText (frev t) :: out x end;
     st := match st x with Clean => if utf8_valid (frev (txt x)) then Clean else Failed | s => s end |}.
Definition emit (ts : list token) (x : lstate) : lstate :=   (* ts in reverse order *)
  {| mode := MText; txt := []; b0 := 0; b1 := 0; out := ts ++ out x; st := st x |}.
Definition put (c : N) (x : lstate) : lstate :=
  {| mode := mode x; txt := c :: txt x; b0 := b0 x; b1 := b1 x; out := out x; st := st x |}.
Definition puts (cs : bytes) (x : lstate) : lstate :=        (* cs in order *)
  {| mode := mode x; txt := frev cs ++ txt x; b0 := b0 x; b1 := b1 x; out := out x; st := st x |}.
Definition shift (c : N) (x : lstate) : lstate :=
  {| mode := mode x; txt := txt x; b0 := b1 x; b1 := c; out := out x; st := st x |}.
Definition reset_b (x : lstate) : lstate :=
  {| mode := mode x; txt := txt x; b0 := 0; b1 := 0; out := out x; st := st x |}.

(* one byte of Decoder.text(-1, false) *)
Definition text_step (x : lstate) (c : N) : lstate :=
  let x := if (b0 x =? c_rb) && (b1 x =? c_rb) && (c =? c_gt) then mark Failed x else x in
  if c =? c_lt then set_mode MLt (flush x)
  else if c =? c_amp then set_mode (MEnt []) x
  else if c =? c_cr then shift c (put c_nl x)
  else if (b1 x =? c_cr) && (c =? c_nl) then shift c x
  else shift c (put c (if is_ctrl c then mark Failed x else x)).

Definition junk (s : status) (x : lstate) : lstate := set_mode MJunk (mark s x).

(* one byte of Decoder.text(-1, true), the body of <![CDATA[ ... ]]> : no markup, no entities; the same CR handling and
   end-of-run checks; the data without the closing "]]" is delivered as CharData *)
Definition drop2 (x : lstate) : lstate :=
  {| mode := mode x; txt := tl (tl (txt x)); b0 := b0 x; b1 := b1 x; out := out x; st := st x |}.
Definition cdata_step (x : lstate) (c : N) : lstate :=
  if (b0 x =? c_rb) && (b1 x =? c_rb) && (c =? c_gt) then set_mode MText (flush (drop2 x))
  else if c =? c_cr then shift c (put c_nl x)
  else if (b1 x =? c_cr) && (c =? c_nl) then shift c x
  else shift c (put c (if is_ctrl c then mark Failed x else x)).
Definition s_cdata : bytes := [67; 68; 65; 84; 65; 91].     (* CDATA[ *)
Definition s_xml : bytes := [120; 109; 108].
Definition c_dash := 45. Definition c_lb := 91.

Definition lex_step (x : lstate) (c : N) : lstate :=
  match mode x with
  | MText => text_step x c
  | MEnt raw =>
      if c =? c_semi then
        match decode_entity (frev raw) with
        | EntText b => reset_b (set_mode MText (put b (if is_ctrl b then mark Failed x else x)))
        | EntBad => reset_b (set_mode MText (puts (c_amp :: frev raw ++ [c_semi]) (mark Failed x)))
        | EntBytes bs => reset_b (set_mode MText (puts bs x))
        end
      else if is_ent_char c then set_mode (MEnt (c :: raw)) x
      else text_step (reset_b (set_mode MText (puts (c_amp :: frev raw) (mark Failed x)))) c
  | MLt =>
      if c =? c_slash then set_mode MLtSlash x
      else if c =? c_qm then set_mode (MPiName []) x
      else if c =? c_bang then set_mode MBang x
      else if (c =? c_colon) || (128 <=? c) then junk Unmod x
      else if is_name_start c then set_mode (MStartName [c]) x
      else text_step (set_mode MText (put c_lt (mark Failed x))) c
  | MStartName n =>
      if is_name_char c then set_mode (MStartName (c :: n)) x
      else if (c =? c_colon) || (128 <=? c) then junk Unmod x
      else if c =? c_gt then emit [TStart (frev n)] x
      else if c =? c_slash then set_mode (MSlash (frev n)) x
      else if is_xml_blank c then set_mode (MStartWs (frev n)) x
      else junk Failed x
  | MStartWs n =>
      if is_xml_blank c then x
      else if c =? c_gt then emit [TStart n] x
      else if c =? c_slash then set_mode (MSlash n) x
      else if is_name_char c || (c =? c_colon) || (128 <=? c) then junk Unmod x
      else junk Failed x
  | MSlash n =>
      if c =? c_gt then emit [TEnd n; TStart n] x else junk Failed x
  | MLtSlash =>
      if is_name_start c then set_mode (MEndName [c]) x
      else if (c =? c_colon) || (128 <=? c) then junk Unmod x
      else junk Failed x
  | MEndName n =>
      if is_name_char c then set_mode (MEndName (c :: n)) x
      else if (c =? c_colon) || (128 <=? c) then junk Unmod x
      else if c =? c_gt then emit [TEnd (frev n)] x
      else if is_xml_blank c then set_mode (MEndWs (frev n)) x
      else junk Failed x
  | MEndWs n =>
      if is_xml_blank c then x
      else if c =? c_gt then emit [TEnd n] x
      else junk Failed x
  | MJunk => if c =? c_gt then emit [] x else x
  (* <!-- comment --> : "--" must be followed by '>' ; the content is not checked *)
  | MBang => if c =? c_dash then set_mode MBangDash x
             else if c =? c_lb then set_mode (MCdataOpen 0) x
             else junk Unmod x                                   (* a directive *)
  | MBangDash => if c =? c_dash then set_mode (MComment 0 0) x else junk Failed x
  | MComment p q => if (p =? c_dash) && (q =? c_dash)
                    then (if c =? c_gt then emit [] x else junk Failed x)
                    else set_mode (MComment q c) x
  | MCdataOpen i => if c =? nth i s_cdata 0
                    then (if (i =? 5)%nat then set_mode MCdata (reset_b x) else set_mode (MCdataOpen (S i)) x)
                    else junk Failed x
  | MCdata => cdata_step x c
  (* <?target content?> : the target is a name (':' allowed); target "xml" is outside the model *)
  | MPiName n =>
      if is_name_char c || (c =? c_colon) then set_mode (MPiName (c :: n)) x
      else if 128 <=? c then junk Unmod x
      else match frev n with
           | [] => junk Failed x
           | f :: _ => if negb (is_name_start f || (f =? c_colon)) then junk Failed x
                       else if bytes_eqb (frev n) s_xml then junk Unmod x
                       else set_mode (MPi c) x
           end
  | MPi q => if (q =? c_qm) && (c =? c_gt) then emit [] x else set_mode (MPi c) x
  end.

Definition lex_init : lstate := {| mode := MText; txt := []; b0 := 0; b1 := 0; out := []; st := Clean |}.
Definition lex_finish (x : lstate) : lstate :=
  match mode x with
  | MText => flush x
  | MEnt raw => flush (puts (c_amp :: frev raw) (mark Failed x))
  | _ => mark Failed x
  end.
Definition lex_run (bs : bytes) : lstate := lex_finish (fold_left lex_step bs lex_init).
Definition raw_tokens (bs : bytes) : list token := frev (out (lex_run bs)).
Definition raw_status (bs : bytes) : status := st (lex_run bs).

(* ------------------------------------------------------------------------------------------- *)
(* 2. Decoder.Token's element stack *)
Fixpoint balanced_from (stk : list bytes) (ts : list token) : bool :=
  match ts with
  | [] => match stk with [] => true | _ => false end
  | TStart n :: r => balanced_from (n :: stk) r
  | TEnd n :: r => match stk with
                   | top :: stk' => if bytes_eqb top n then balanced_from stk' r else false
                   | [] => false
                   end
  | TText _ :: r => balanced_from stk r
  end.
Definition balanced (ts : list token) : bool := balanced_from [] ts.

(* ------------------------------------------------------------------------------------------- *)
(* 3. the line scanner and the loop of InitFromBytes *)
Definition max_scan_token : N := c_conf_max_scan_token.    (* bufio.MaxScanTokenSize, regenerated from the tree *)

(* bufio.ScanLines segments (before dropCR): split at '\n'; a final unterminated segment only when non-empty *)
Fixpoint split_lines_aux (cur : bytes) (s : bytes) : list bytes :=
  match s with
  | [] => match cur with [] => [] | _ => [frev cur] end
  | c :: r => if c =? c_nl then frev cur :: split_lines_aux [] r else split_lines_aux (c :: cur) r
  end.
Definition split_lines (s : bytes) : list bytes := split_lines_aux [] s.

Definition drop_cr (l : bytes) : bytes :=
  match frev l with
  | c :: r => if c =? c_cr then frev r else l
  | [] => l
  end.
Definition is_conf_blank (c : N) : bool := existsb (N.eqb c) c_conf_blanks.   (* whiteSpaceChars " \n\t", regenerated from the tree *)
Fixpoint trim_left (l : bytes) : bytes :=
  match l with
  | c :: r => if is_conf_blank c then trim_left r else l
  | [] => []
  end.
Definition trim (l : bytes) : bytes := frev (trim_left (frev (trim_left l))).

(* strings.SplitN(line, "=", 2): kv[0] and, when there is a '=', kv[1] *)
Fixpoint cut_eq (l : bytes) : bytes * option bytes :=
  match l with
  | [] => ([], None)
  | c :: r => if c =? c_eq then ([], Some r) else let '(a, b) := cut_eq r in (c :: a, b)
  end.

Inductive kind := KNode | KLeaf.
Record info := { ikind : kind; ivalue : bytes; ilines : list bytes (* most recent first *) }.
Definition key := list bytes.     (* innermost name first, root last *)
Definition store := list (key * info).
Definition key_eqb : key -> key -> bool := list_eqb bytes_eqb.

Fixpoint lookup (s : store) (k : key) : option info :=
  match s with
  | [] => None
  | (k', i) :: r => if key_eqb k' k then Some i else lookup r k
  end.
Fixpoint add_line (s : store) (k : key) (l : bytes) : store :=
  match s with
  | [] => []
  | (k', i) :: r => if key_eqb k' k
                    then (k', {| ikind := ikind i; ivalue := ivalue i; ilines := l :: ilines i |}) :: r
                    else (k', i) :: add_line r k l
  end.
(* [suf] is a suffix of [k] *)
Definition is_suffix (suf k : key) : bool :=
  (length suf <=? length k)%nat && key_eqb (skipn (length k - length suf) k) suf.
Definition remove_under (s : store) (k : key) : store := filter (fun e => negb (is_suffix k (fst e))) s.
Definition new_node : info := {| ikind := KNode; ivalue := []; ilines := [] |}.
Definition new_leaf (v : bytes) : info := {| ikind := KLeaf; ivalue := v; ilines := [] |}.

(* a scanned line that survives trimming and the blank / '#' test *)
Definition content_line (seg : bytes) : option bytes :=
  let line := trim (drop_cr seg) in
  match line with
  | [] => None
  | c :: _ => if c =? c_hash then None else Some line
  end.
Definition line_kv (line : bytes) : bytes * bytes :=
  let '(a, b) := cut_eq line in (trim a, match b with Some v => trim v | None => [] end).

Definition do_line (s : store) (cur : key) (line : bytes) : store :=
  let s := add_line s cur line in
  let '(k, v) := line_kv line in
  match k with
  | [] => s
  | _ => (k :: cur, new_leaf v) :: remove_under s (k :: cur)
  end.

(* the lines of one CharData token; None = the scanner stopped with ErrTooLong *)
Fixpoint do_segments (s : store) (cur : key) (segs : list bytes) : option store :=
  match segs with
  | [] => Some s
  | seg :: r => if max_scan_token <=? N.of_nat (length seg) then None
                else match content_line seg with
                     | None => do_segments s cur r
                     | Some line => do_segments (do_line s cur line) cur r
                     end
  end.

Definition root_name : bytes := [114; 111; 111; 116].
Definition init_store : store := [([root_name], new_node)].

Fixpoint conf_loop (ts : list token) (s : store) (stk : key) : outcome store :=
  match stk with
  | [] => Panic 1                                   (* nodeStack[len(nodeStack)-1] *)
  | top :: below =>
      match ts with
      | [] => Ok s
      | TText t :: r => match do_segments s stk (split_lines t) with
                        | None => Err 3
                        | Some s' => conf_loop r s' stk
                        end
      | TStart n :: r => match lookup s (n :: stk) with
                         | Some _ => conf_loop r s (n :: stk)
                         | None => conf_loop r ((n :: stk, new_node) :: s) (n :: stk)
                         end
      | TEnd n :: r => if bytes_eqb top n then conf_loop r s below else Err 2
      end
  end.

Definition parse (bs : bytes) : outcome store :=
  match raw_status bs with
  | Unmod => Unmodelled
  | Failed => Err 1
  | Clean => let ts := raw_tokens bs in
             if balanced ts then conf_loop ts init_store [root_name] else Err 1
  end.

(* The loop as it was before the repair c849a72: the first token error ends the loop silently. Used only
   to show that the statement C17_whole_or_error separates the two (ConfProofs.old_loop_refuted).
   [good_prefix] = the tokens delivered before the first error: everything emitted before the failing run. *)
Fixpoint lex_prefix (x : lstate) (bs : bytes) : list token :=
  match bs with
  | [] => match st (lex_finish x) with Clean => frev (out (lex_finish x)) | _ => frev (out x) end
  | c :: r => let x' := lex_step x c in
              match st x' with Clean => lex_prefix x' r | _ => frev (out x) end
  end.
Fixpoint balanced_prefix (stk : list bytes) (ts : list token) : list token :=
  match ts with
  | [] => []
  | TStart n :: r => TStart n :: balanced_prefix (n :: stk) r
  | TEnd n :: r => match stk with
                   | top :: stk' => if bytes_eqb top n then TEnd n :: balanced_prefix stk' r else []
                   | [] => []
                   end
  | TText t :: r => TText t :: balanced_prefix stk r
  end.
Fixpoint conf_loop_old (ts : list token) (s : store) (stk : key) : outcome store :=
  match stk with
  | [] => Panic 1
  | top :: below =>
      match ts with
      | [] => Ok s
      | TText t :: r =>
          (fix segs (s : store) (l : list bytes) : outcome store :=
             match l with
             | [] => conf_loop_old r s stk
             | seg :: l' => if max_scan_token <=? N.of_nat (length seg) then conf_loop_old r s stk
                            else match content_line seg with
                                 | None => segs s l'
                                 | Some line => segs (do_line s stk line) l'
                                 end
             end) s (split_lines t)
      | TStart n :: r => match lookup s (n :: stk) with
                         | Some _ => conf_loop_old r s (n :: stk)
                         | None => conf_loop_old r ((n :: stk, new_node) :: s) (n :: stk)
                         end
      | TEnd n :: r => if bytes_eqb top n then conf_loop_old r s below else Err 2
      end
  end.
Definition parse_old (bs : bytes) : outcome store :=
  conf_loop_old (balanced_prefix [] (lex_prefix lex_init bs)) init_store [root_name].

(* ------------------------------------------------------------------------------------------- *)
(* 4. getters *)
Fixpoint split_on_aux (sep : N) (cur : bytes) (s : bytes) : list bytes :=
  match s with
  | [] => [frev cur]
  | c :: r => if c =? sep then frev cur :: split_on_aux sep [] r else split_on_aux sep (c :: cur) r
  end.
Definition split_on (sep : N) (s : bytes) : list bytes := split_on_aux sep [] s.   (* strings.Split, one-byte separator *)

Fixpoint trim_left_c (ch : N) (l : bytes) : bytes :=
  match l with
  | c :: r => if c =? ch then trim_left_c ch r else l
  | [] => []
  end.
Definition trim_c (ch : N) (l : bytes) : bytes := frev (trim_left_c ch (frev (trim_left_c ch l))).
Definition nonempty (b : bytes) : bool := match b with [] => false | _ => true end.

Definition analysis_path (p : bytes) : outcome (list bytes) :=
  match frev (split_on c_slash p) with
  | [] => Panic 2                                       (* pathVec[len(pathVec)-1] *)
  | last_item :: init_rev =>
      let vec := match split_on c_lt last_item with
                 | [a; b] => frev init_rev ++ [a; trim_c c_gt b]
                 | _ => frev init_rev ++ [last_item]
                 end in
      Ok (filter nonempty vec)
  end.
Definition key_of_vec (v : list bytes) : key := frev v ++ [root_name].

Definition get_elem (s : store) (p : bytes) : outcome (option (key * info)) :=
  match analysis_path p with
  | Ok v => let k := key_of_vec v in Ok (match lookup s k with Some i => Some (k, i) | None => None end)
  | Panic n => Panic n
  | Err e => Err e
  | Unmodelled => Unmodelled
  end.

Definition with_elem {A} (s : store) (p : bytes) (f : option (key * info) -> A) : outcome A :=
  match get_elem s p with
  | Ok e => Ok (f e)
  | Panic n => Panic n
  | Err e => Err e
  | Unmodelled => Unmodelled
  end.

(* strconv.Atoi / ParseInt(s, 10, bits): [+-]?[0-9]+ within the range *)
Fixpoint dec_z (acc : Z) (s : bytes) : option Z :=
  match s with
  | [] => Some acc
  | c :: r => if is_digit c then dec_z (acc * 10 + Z.of_N (c - 48))%Z r else None
  end.
Definition parse_int (lo hi : Z) (s : bytes) : option Z :=
  let '(neg, body) := match s with
                      | 45 :: r => (true, r)
                      | 43 :: r => (false, r)
                      | _ => (false, s)
                      end in
  match body with
  | [] => None
  | _ => match dec_z 0 body with
         | None => None
         | Some v => let v := if neg then (- v)%Z else v in
                     if ((lo <=? v) && (v <=? hi))%Z then Some v else None
         end
  end.
Definition atoi := parse_int (-9223372036854775808)%Z 9223372036854775807%Z.
Definition atoi32 := parse_int (-2147483648)%Z 2147483647%Z.
Definition parse_bool (s : bytes) : option bool :=
  match s with
  | [49] | [116] | [84] | [84; 82; 85; 69] | [116; 114; 117; 101] | [84; 114; 117; 101] => Some true
  | [48] | [102] | [70] | [70; 65; 76; 83; 69] | [102; 97; 108; 115; 101] | [70; 97; 108; 115; 101] => Some false
  | _ => None
  end.

Definition get_string_def (s : store) (p : bytes) (def : bytes) : outcome bytes :=
  with_elem s p (fun e => match e with Some (_, i) => ivalue i | None => def end).
Definition typed {A} (conv : bytes -> option A) (s : store) (p : bytes) (def : A) : outcome A :=
  with_elem s p (fun e => match e with
                          | Some (_, i) => match conv (ivalue i) with Some v => v | None => def end
                          | None => def
                          end).
Definition get_int_def := typed atoi.
Definition get_int32_def := typed atoi32.
Definition get_bool_def := typed parse_bool.

(* children of [k]: entries whose key is name :: k *)
Definition child_name (k : key) (e : key * info) : option bytes :=
  match fst e with
  | n :: k' => if key_eqb k' k then Some n else None
  | [] => None
  end.
Definition is_kind (kd : kind) (i : info) : bool :=
  match kd, ikind i with KNode, KNode => true | KLeaf, KLeaf => true | _, _ => false end.
Fixpoint children (kd : kind) (s : store) (k : key) : list (bytes * bytes) :=
  match s with
  | [] => []
  | e :: r => match child_name k e with
              | Some n => if is_kind kd (snd e) then (n, ivalue (snd e)) :: children kd r k else children kd r k
              | None => children kd r k
              end
  end.
Definition get_domain (s : store) (p : bytes) : outcome (list bytes) :=
  with_elem s p (fun e => match e with Some (k, _) => map fst (children KNode s k) | None => [] end).
Definition get_domain_key (s : store) (p : bytes) : outcome (list bytes) :=
  with_elem s p (fun e => match e with Some (k, _) => map fst (children KLeaf s k) | None => [] end).
Definition get_domain_line (s : store) (p : bytes) : outcome (list bytes) :=
  with_elem s p (fun e => match e with Some (_, i) => frev (ilines i) | None => [] end).
Definition get_map (s : store) (p : bytes) : outcome (list (bytes * bytes)) :=
  with_elem s p (fun e => match e with Some (k, _) => children KLeaf s k | None => [] end).

(* ------------------------------------------------------------------------------------------- *)
(* correspondence: one case = the document (segments: repeat count x hex bytes), whether InitFromBytes
   returned an error, and — when it did not — a battery of getter observations.
   Defaults used by the harness: string "?DEF" , int -77, int32 12345, bool true and bool false.
   Listings come from Go map iteration: compared as sets (the harness sorts, the model side is duplicate-free). *)
Definition def_str : bytes := [63; 68; 69; 70].
(* observed strings are written run-length encoded (n x bytes) like the document: values can be 64 KiB long *)
Definition rle : Type := list (N * hexs).
Definition c17_query : Type := hexs * rle * Z * Z * bool * bool * list hexs * list hexs * list rle * list (hexs * rle).
Definition c17_case : Type := rle * bool * list c17_query.

Fixpoint repeat_bytes (n : nat) (b : bytes) : bytes :=
  match n with O => [] | S n' => b ++ repeat_bytes n' b end.
Definition unrle (segs : rle) : bytes :=
  concat (map (fun s => repeat_bytes (N.to_nat (fst s)) (unhex (snd s))) segs).
Definition input_of : rle -> bytes := unrle.

Definition incl_b (a b : list bytes) : bool := forallb (fun x => existsb (bytes_eqb x) b) a.
Definition same_set (a b : list bytes) : bool := (length a =? length b)%nat && incl_b a b && incl_b b a.
Definition pair_eqb (x y : bytes * bytes) : bool := bytes_eqb (fst x) (fst y) && bytes_eqb (snd x) (snd y).
Definition incl_p (a b : list (bytes * bytes)) : bool := forallb (fun x => existsb (pair_eqb x) b) a.
Definition same_pairs (a b : list (bytes * bytes)) : bool := (length a =? length b)%nat && incl_p a b && incl_p b a.
Definition is_ok {A} (o : outcome A) (chk : A -> bool) : bool := match o with Ok a => chk a | _ => false end.

Definition query_ok (s : store) (q : c17_query) : bool :=
  let '(p, str, i, i32, bt, bf, dom, keys, lines, mp) := q in
  let p := unhex p in
  is_ok (get_string_def s p def_str) (bytes_eqb (unrle str))
  && is_ok (get_int_def s p (-77)%Z) (Z.eqb i)
  && is_ok (get_int32_def s p 12345%Z) (Z.eqb i32)
  && is_ok (get_bool_def s p true) (Bool.eqb bt)
  && is_ok (get_bool_def s p false) (Bool.eqb bf)
  && is_ok (get_domain s p) (same_set (map unhex dom))
  && is_ok (get_domain_key s p) (same_set (map unhex keys))
  && is_ok (get_domain_line s p) (list_eqb bytes_eqb (map unrle lines))
  && is_ok (get_map s p) (same_pairs (map (fun kv => (unhex (fst kv), unrle (snd kv))) mp)).

(* [sure] = the harness's conservative claim that the input is inside the alphabet *)
Definition c17_check (c : c17_case * bool) : bool :=
  let '((segs, err, qs), sure) := c in
  match parse (input_of segs) with
  | Unmodelled => negb sure
  | Err _ => err
  | Panic _ => false
  | Ok s => negb err && forallb (query_ok s) qs
  end.
Definition c17_mismatch (off : N) (cs : list (c17_case * bool)) : list N := failing_from c17_check off cs.
