(* Correspondence evaluator for selector histories (C13, C14): the model's [step] is replayed over the
   history observed on the implementation.  Oracle values that cannot be observed (the start position a
   round-robin rebuild draws, the draw of random.Select) are existentially quantified over their range. *)
From Coq Require Import List NArith ZArith Bool Arith.
From TarsV Require Import Base.Hex Select.Selectors Select.Manager.
Import ListNotations.
Open Scope N_scope.

Definition mk (h s : hexs) (w t : Z) : ep := {| host := unhex h; skey := unhex s; wgt := w; wty := t |}.

Inductive hop :=
| ORefresh (l : list ep)
| OAdd (e : ep) (ok : bool)
| ORemove (e : ep) (ok : bool)
| OSelRun (codes : list N) (obs : list (option hexs)).   (* consecutive selections, no update in between *)

(* virtual-node table read from the implementation: (host, rounds) -> points *)
Definition ptable := list (hexs * nat * list N).
Definition points_of (t : ptable) (h : list N) (k : nat) : list N :=
  match find (fun x => bytes_eqb (unhex (fst (fst x))) h && Nat.eqb (snd (fst x)) k) t with
  | Some x => snd x | None => [] end.

Definition obs_eqb (o : option hexs) (r : res) : bool :=
  match o, r with
  | None, RErr => true
  | Some a, RSel e => bytes_eqb (unhex a) (host e)
  | _, _ => false
  end.

Fixpoint nseq (start : N) (len : nat) : list N :=
  match len with O => [] | S k => start :: nseq (start + 1) k end.

Section eval.
  Variable t : ptable.
  Variable k : kind.
  Variable weighted : bool.

  (* deterministic replay of a selection run from a given state *)
  Fixpoint replay (s : Selectors.sel) (codes : list N) (obs : list (option hexs)) : bool :=
    match codes, obs with
    | [], [] => true
    | c :: cs, o :: os => let '(s', r) := select k s c 0 in obs_eqb o r && replay s' cs os
    | _, _ => false
    end.

  Definition set_cursor (s : Selectors.sel) (p : N) : Selectors.sel :=
    {| eps := eps s; cache := cache s; pos := p; wpos := p; hring := hring s |}.

  Definition check_run (s : Selectors.sel) (codes : list N) (obs : list (option hexs)) : bool :=
    match k with
    | RoundRobin => existsb (fun p => replay (set_cursor s p) codes obs) (nseq 0 (Nat.max 1 (cyc_len s)))
    | Random => Nat.eqb (length codes) (length obs) &&
                forallb (fun o => existsb (fun rnd => obs_eqb o (snd (select k s 0 rnd))) (nseq 0 (Nat.max 1 (cyc_len s)))) obs
    | _ => replay s codes obs
    end.

  Fixpoint check_ops (s : Selectors.sel) (ops : list hop) : bool :=
    match ops with
    | [] => true
    | ORefresh l :: rest =>
        match step (points_of t) k weighted s (Refresh l 0 0) with (s', RDone) => check_ops s' rest | _ => false end
    | OAdd e ok :: rest =>
        match step (points_of t) k weighted s (Add e 0 0) with (s', RAdded ok') => Bool.eqb ok ok' && check_ops s' rest | _ => false end
    | ORemove e ok :: rest =>
        match step (points_of t) k weighted s (Remove e 0 0) with (s', RRemoved ok') => Bool.eqb ok ok' && check_ops s' rest | _ => false end
    | OSelRun codes obs :: rest => check_run s codes obs && check_ops s rest
    end.
End eval.

Definition hist_case := (kind * bool * ptable * list hop)%type.
Definition hist_check (c : hist_case) : bool :=
  let '(k, weighted, t, ops) := c in check_ops t k weighted sel0 ops.

(* BuildStaticWeightList alone: endpoints and the observed index list *)
Definition bswl_case := (list ep * list N)%type.
Definition bswl_check (c : bswl_case) : bool :=
  let '(l, obs) := c in
  match build_static_weight_list l with
  | BOk c _ => list_eqb N.eqb (map N.of_nat c) obs
  | BPanic _ => false
  end.

(* the endpoint manager over a history of registry answers (Select/Manager.v): the order in which the final list was
   installed is read back from the implementation (hosts of activeEp) and must be an order of the answer the model's
   manager is working from; the selections are then those of a fresh selector on that list in the model's weight mode *)
Definition mgr_case := (kind * ptable * list (list ep) * list hexs * list N * list (option hexs))%type.
Definition order_by (hosts : list hexs) (a : list ep) : list ep :=
  flat_map (fun h => match find (fun e => bytes_eqb (host e) (unhex h)) a with Some e => [e] | None => [] end) hosts.
Definition mgr_check (c : mgr_case) : bool :=
  let '(k, t, answers, installed, codes, obs) := c in
  let m := mgr_state (order_by installed) answers in
  Nat.eqb (length (m_eps m)) (length (m_raw m)) && Nat.eqb (length installed) (length (m_raw m)) &&
  check_ops t k (m_weighted m) sel0 [ORefresh (m_eps m); OSelRun codes obs].

Definition sel_case := (hist_case + bswl_case + mgr_case)%type.
Definition sel_check (c : sel_case) : bool :=
  match c with inl (inl h) => hist_check h | inl (inr b) => bswl_check b | inr m => mgr_check m end.
