(* Correspondence evaluator for selector histories (C13, C14). *)
From Coq Require Import List NArith ZArith Bool Arith.
From TarsV Require Import Base.Hex Select.Selectors.
Import ListNotations.
Open Scope N_scope.

Definition mk (h s : hexs) (w t : Z) : ep := {| host := unhex h; skey := unhex s; wgt := w; wty := t |}.

Inductive op :=
| ORefresh (l : list ep)
| OAdd (e : ep) (ok : bool)
| ORemove (e : ep) (ok : bool)
| OSelRun (codes : list N) (obs : list (option hexs)).   (* consecutive selections, no update in between *)

(* virtual-node table read from the implementation: (host, rounds) -> points *)
Definition ptable := list (hexs * nat * list N).
Definition points_of (t : ptable) (h : list N) (k : nat) : list N :=
  match find (fun x => bytes_eqb (unhex (fst (fst x))) h && Nat.eqb (snd (fst x)) k) t with
  | Some x => snd x | None => [] end.

Definition obs_eqb (o : option hexs) (m : option (list N)) : bool :=
  match o, m with
  | None, None => true
  | Some a, Some b => bytes_eqb (unhex a) b
  | _, _ => false
  end.

Fixpoint forall2b {A B} (f : A -> B -> bool) (a : list A) (b : list B) : bool :=
  match a, b with
  | [], [] => true | x :: a', y :: b' => f x y && forall2b f a' b' | _, _ => false end.

Fixpoint nseq (start : N) (len : nat) : list N :=
  match len with O => [] | S k => start :: nseq (start + 1) k end.

Definition check_run (k : kind) (s : sel) (r : ring) (codes : list N) (obs : list (option hexs)) : bool :=
  match k with
  | RoundRobin =>
      match eps s with
      | [] => forallb (fun o => match o with None => true | Some _ => false end) obs
      | _ => existsb (fun p => forall2b (fun i o => obs_eqb o (option_map host (rr_select s p i)))
                                        (nseq 1 (length obs)) obs)
                     (nseq 0 (length (cycle s)))
      end
  | Random =>
      forallb (fun o => match o, eps s with
                        | None, [] => true
                        | Some h, _ :: _ => has_host (unhex h) (eps s)
                        | _, _ => false end) obs
  | ModHash => forall2b (fun c o => obs_eqb o (option_map host (modhash_select s c))) codes obs
  | ConHash => forall2b (fun c o => obs_eqb o (ring_lookup r c)) codes obs
  end.

Fixpoint check_ops (k : kind) (weighted : bool) (t : ptable) (l : list ep) (r : ring) (ops : list op) : bool :=
  match ops with
  | [] => true
  | ORefresh new :: rest =>
      let l' := refresh_eps new in
      check_ops k weighted t l' (fold_left (ring_add (points_of t) weighted) l' []) rest
  | OAdd e ok :: rest =>
      let '(l', ok') := add_ep l e in
      Bool.eqb ok ok' && check_ops k weighted t l' (if ok' then ring_add (points_of t) weighted r e else r) rest
  | ORemove e ok :: rest =>
      let '(l', ok') := remove_ep l e in
      Bool.eqb ok ok' && check_ops k weighted t l' (if ok' then ring_remove (points_of t) weighted r e else r) rest
  | OSelRun codes obs :: rest =>
      check_run k (rebuild weighted l) r codes obs && check_ops k weighted t l r rest
  end.

Definition hist_case := (kind * bool * ptable * list op)%type.
Definition hist_check (c : hist_case) : bool :=
  let '(k, weighted, t, ops) := c in check_ops k weighted t [] [] ops.

(* BuildStaticWeightList alone: endpoints and the observed index list *)
Definition bswl_case := (list ep * list N)%type.
Definition bswl_check (c : bswl_case) : bool :=
  let '(l, obs) := c in
  list_eqb N.eqb (map N.of_nat (build_static_weight_list l)) obs.

Definition sel_case := (hist_case + bswl_case)%type.
Definition sel_check (c : sel_case) : bool := match c with inl h => hist_check h | inr b => bswl_check b end.
