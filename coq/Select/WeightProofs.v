(* C13: proofs about BuildStaticWeightList (Selectors.build_static_weight_list, the repaired code):
   never panics, every index of the cycle is a position of the list, the cycle and the allocation are
   linear in the number of endpoints, and - the smooth weighted round-robin core - with all weights static and
   positive, position i occurs exactly max 1 (W_i * R / W_max) times. *)
From Coq Require Import List NArith ZArith Bool Arith Lia ZifyBool.
From TarsV Require Import Base.Hex Gen.Consts Select.Selectors.
Import ListNotations.
Open Scope Z_scope.

(* ---------- small list facts ---------- *)
Definition zsum (l : list Z) : Z := fold_right Z.add 0 l.

Lemma fold_left_add_zsum l a : fold_left Z.add l a = a + zsum l.
Proof. revert a. induction l as [|x l IH]; intros a; cbn [fold_left zsum fold_right]; [lia|]. rewrite IH. unfold zsum. lia. Qed.

Lemma fold_left_max_ge l a : a <= fold_left Z.max l a /\ forall x, In x l -> x <= fold_left Z.max l a.
Proof.
  revert a. induction l as [|y l IH]; intros a; cbn [fold_left]; [split; [lia|intros x []]|].
  destruct (IH (Z.max a y)) as [H1 H2]. split; [lia|]. intros x [->|Hx]; [lia|auto].
Qed.
Lemma fold_left_max_in l a : fold_left Z.max l a = a \/ In (fold_left Z.max l a) l.
Proof.
  revert a. induction l as [|y l IH]; intros a; cbn [fold_left]; [now left|].
  destruct (IH (Z.max a y)) as [H|H]; [|right; now right].
  rewrite H. destruct (Z.max_spec a y) as [[_ E]|[_ E]]; rewrite E; [right; now left|now left].
Qed.
Lemma fold_left_min_le l a : fold_left Z.min l a <= a /\ forall x, In x l -> fold_left Z.min l a <= x.
Proof.
  revert a. induction l as [|y l IH]; intros a; cbn [fold_left]; [split; [lia|intros x []]|].
  destruct (IH (Z.min a y)) as [H1 H2]. split; [lia|]. intros x [->|Hx]; [lia|auto].
Qed.
Lemma fold_left_min_in l a : fold_left Z.min l a = a \/ In (fold_left Z.min l a) l.
Proof.
  revert a. induction l as [|y l IH]; intros a; cbn [fold_left]; [now left|].
  destruct (IH (Z.min a y)) as [H|H]; [|right; now right].
  rewrite H. destruct (Z.min_spec a y) as [[_ E]|[_ E]]; rewrite E; [now left|right; now left].
Qed.

Lemma indexed_fst {A} (l : list A) i : map fst (indexed i l) = seq i (length l).
Proof. revert i. induction l as [|x l IH]; intros i; cbn; [reflexivity|]. now rewrite IH. Qed.
Lemma indexed_nth {A} (l : list A) i j x : In (j, x) (indexed i l) <-> (i <= j)%nat /\ nth_error l (j - i) = Some x.
Proof.
  revert i. induction l as [|y l IH]; intros i; cbn [indexed In].
  - split; [intros []|]. intros [_ H]. destruct (j - i)%nat; discriminate.
  - rewrite IH. split.
    + intros [H|[H1 H2]]; [inversion H; subst; split; [lia|]; now rewrite Nat.sub_diag|].
      split; [lia|]. replace (j - i)%nat with (S (j - S i)) by lia. exact H2.
    + intros [H1 H2]. destruct (Nat.eq_dec i j) as [->|Hn]; [left; rewrite Nat.sub_diag in H2; cbn in H2; congruence|].
      right. split; [lia|]. replace (j - i)%nat with (S (j - S i)) in H2 by lia. exact H2.
Qed.

(* ---------- scale_all ---------- *)
Definition scaled_of (range maxw : Z) (il : list (nat * ep)) : list (nat * Z) :=
  map (fun p => (fst p, Z.quot (wgt (snd p) * range) maxw)) il.

Lemma scale_all_ok range maxw il : maxw <> 0 -> scale_all range maxw il = Ok (scaled_of range maxw il).
Proof.
  intros Hm. induction il as [|[i e] r IH]; cbn [scale_all scaled_of map]; [reflexivity|].
  unfold go_div. destruct (maxw =? 0) eqn:E; [lia|]. rewrite IH. reflexivity.
Qed.

(* ---------- the rounds ---------- *)
Lemma better_max l a b : (if better l a b then fst b <= fst a else fst a <= fst b).
Proof. unfold better. destruct (fst b <? fst a) eqn:E1; [lia|]. destruct (fst a <? fst b) eqn:E2; [lia|]. destruct (bytes_ltb _ _); lia. Qed.

Lemma pick_max_spec l cs : forall best,
  let m := pick_max l best cs in In m (best :: cs) /\ forall c, In c (best :: cs) -> fst c <= fst m.
Proof.
  induction cs as [|c r IH]; intros best; cbn [pick_max].
  - split; [now left|]. intros c [<-|[]]. lia.
  - specialize (IH (if better l c best then c else best)). cbn zeta in IH. destruct IH as [H1 H2].
    pose proof (better_max l c best) as Hb.
    split.
    + destruct H1 as [H1|H1]; [|right; now right]. rewrite <- H1. destruct (better l c best); [right; now left|now left].
    + intros x [<-|[<-|Hx]].
      * etransitivity; [|apply H2; now left]. destruct (better l c best); lia.
      * etransitivity; [|apply H2; now left]. destruct (better l c best); lia.
      * apply H2. now right.
Qed.

Lemma swrr_step_snd total w j cur : map snd (swrr_step total w j cur) = map snd cur.
Proof. unfold swrr_step. rewrite map_map. apply map_ext. intros c. destruct (Nat.eqb (snd c) j); reflexivity. Qed.

Lemma swrr_rounds_in n l total w : forall cur j, In j (swrr_rounds n l total w cur) -> In j (map snd cur).
Proof.
  induction n as [|n IH]; intros cur j; cbn [swrr_rounds]; [intros []|].
  destruct cur as [|c0 r]; [intros []|]. intros [<-|H].
  - apply in_map. apply (pick_max_spec l r c0).
  - apply IH in H. now rewrite swrr_step_snd in H.
Qed.
Lemma swrr_rounds_length n l total w : forall cur, (length (swrr_rounds n l total w cur) <= n)%nat.
Proof. induction n as [|n IH]; intros cur; cbn [swrr_rounds length]; [lia|]. destruct cur; cbn [length]; [lia|]. specialize (IH (swrr_step total w (snd (pick_max l p cur)) (p :: cur))). lia. Qed.
Lemma swrr_rounds_length_ne n l total w : forall cur, cur <> [] -> length (swrr_rounds n l total w cur) = n.
Proof.
  induction n as [|n IH]; intros cur Hne; cbn [swrr_rounds length]; [reflexivity|].
  destruct cur as [|c0 r]; [congruence|]. cbn [length]. rewrite IH; [reflexivity|].
  intros E. apply (f_equal (map snd)) in E. rewrite swrr_step_snd in E. discriminate.
Qed.

(* ---------- smooth weighted round-robin: exact counts ---------- *)
Definition sumf (cur : list (Z * nat)) : Z := zsum (map fst cur).
Definition cntz (js : list nat) (i : nat) : Z := Z.of_nat (count_occ Nat.eq_dec js i).

Lemma NoDup_map_snd_inj {A B} (l : list (A * B)) c m : NoDup (map snd l) -> In c l -> In m l -> snd c = snd m -> c = m.
Proof.
  induction l as [|x l IH]; intros Hnd Hc Hm E; [destruct Hc|]. cbn in Hnd. inversion Hnd as [|? ? Hni Hnd']; subst.
  destruct Hc as [<-|Hc], Hm as [<-|Hm]; auto.
  - exfalso. apply Hni. rewrite E. now apply in_map.
  - exfalso. apply Hni. rewrite <- E. now apply in_map.
Qed.

Lemma zsum_le0 l : (forall x, In x l -> x <= 0) -> zsum l <= 0.
Proof. induction l as [|x l IH]; intros H; cbn; [lia|]. assert (x <= 0) by (apply H; now left). assert (zsum l <= 0) by (apply IH; intros; apply H; now right). unfold zsum in *. lia. Qed.

Lemma zsum_pointwise {A} (f g : A -> Z) ks : (forall i, In i ks -> f i <= g i) -> zsum (map f ks) = zsum (map g ks) ->
  forall i, In i ks -> f i = g i.
Proof.
  induction ks as [|k ks IH]; intros Hle Hs i Hi; [destruct Hi|]. cbn [map zsum fold_right] in Hs. fold (zsum (map f ks)) in Hs. fold (zsum (map g ks)) in Hs.
  assert (Hle' : zsum (map f ks) <= zsum (map g ks)).
  { clear - Hle. induction ks as [|x ks IH]; cbn; [lia|]. assert (f x <= g x) by (apply Hle; right; now left).
    assert (zsum (map f ks) <= zsum (map g ks)) by (apply IH; intros j [<-|Hj]; apply Hle; [now left|right; now right]). unfold zsum in *. lia. }
  assert (f k <= g k) by (apply Hle; now left).
  destruct Hi as [<-|Hi]; [lia|]. apply IH; auto; [intros; apply Hle; now right|lia].
Qed.

Lemma zsum_indicator ks j : NoDup ks -> zsum (map (fun i => if Nat.eq_dec j i then 1 else 0) ks) = if in_dec Nat.eq_dec j ks then 1 else 0.
Proof.
  induction 1 as [|k ks Hni Hnd IH]; [reflexivity|]. cbn [map zsum fold_right]. fold (zsum (map (fun i => if Nat.eq_dec j i then 1 else 0) ks)). rewrite IH.
  destruct (in_dec Nat.eq_dec j (k :: ks)) as [Hin|Hnin]; destruct (Nat.eq_dec j k) as [->|Hne]; destruct (in_dec Nat.eq_dec _ ks) as [H1|H1]; try lia;
    exfalso; cbn [In] in *; intuition congruence.
Qed.

Lemma cntz_sum ks js : NoDup ks -> (forall j, In j js -> In j ks) -> zsum (map (cntz js) ks) = Z.of_nat (length js).
Proof.
  intros Hnd. induction js as [|j js IH]; intros Hin.
  - cbn [length]. clear. induction ks as [|k ks IHk]; [reflexivity|]. cbn [map zsum fold_right]. fold (zsum (map (cntz []) ks)). rewrite IHk. reflexivity.
  - assert (E : zsum (map (cntz (j :: js)) ks) = zsum (map (fun i => if Nat.eq_dec j i then 1 else 0) ks) + zsum (map (cntz js) ks)).
    { clear. induction ks as [|k ks IHk]; [reflexivity|]. cbn [map zsum fold_right].
      fold (zsum (map (cntz (j :: js)) ks)). fold (zsum (map (cntz js) ks)). fold (zsum (map (fun i => if Nat.eq_dec j i then 1 else 0) ks)).
      rewrite IHk. unfold cntz. cbn [count_occ]. destruct (Nat.eq_dec j k); lia. }
    rewrite E, IH, zsum_indicator by (auto; intros; apply Hin; now right).
    destruct (in_dec Nat.eq_dec j ks) as [_|Hn]; [cbn [length]; lia|]. exfalso. apply Hn, Hin. now left.
Qed.

Lemma swrr_step_cons total w j c r : swrr_step total w j (c :: r) =
  (if Nat.eqb (snd c) j then (fst c - total + w (snd c), snd c) else (fst c + w (snd c), snd c)) :: swrr_step total w j r.
Proof. reflexivity. Qed.
Lemma sumf_cons c r : sumf (c :: r) = fst c + sumf r.
Proof. reflexivity. Qed.
Lemma zsum_cons x r : zsum (x :: r) = x + zsum r.
Proof. reflexivity. Qed.

Section SWRR.
  Variable l : list ep.
  Variable ks : list nat.
  Variable w : nat -> Z.
  Hypothesis ks_nodup : NoDup ks.
  Hypothesis ks_ne : ks <> [].
  Hypothesis w_pos : forall i, In i ks -> 0 < w i.
  Let T := zsum (map w ks).

  Lemma T_pos : 0 < T.
  Proof.
    unfold T. clear T ks_nodup. destruct ks as [|k r]; [congruence|]. cbn [map zsum fold_right].
    assert (0 < w k) by (apply w_pos; now left).
    assert (0 <= fold_right Z.add 0 (map w r)).
    { assert (Hr : forall i, In i r -> 0 < w i) by (intros; apply w_pos; now right). clear - Hr.
      induction r as [|x r IH]; cbn; [lia|]. assert (0 < w x) by (apply Hr; now left). assert (0 <= fold_right Z.add 0 (map w r)) by (apply IH; intros; apply Hr; now right). lia. }
    lia.
  Qed.

  Lemma step_sum_notin total j cur : ~ In j (map snd cur) ->
    sumf (swrr_step total w j cur) = sumf cur + zsum (map w (map snd cur)).
  Proof.
    induction cur as [|c r IH]; intros Hn; [reflexivity|]. cbn [map] in Hn.
    rewrite swrr_step_cons, !sumf_cons. cbn [map]. rewrite zsum_cons.
    destruct (Nat.eqb (snd c) j) eqn:E; [apply Nat.eqb_eq in E; exfalso; apply Hn; now left|].
    rewrite IH by (intros H; apply Hn; now right). cbn [fst]. lia.
  Qed.
  Lemma step_sum total j cur : NoDup (map snd cur) -> In j (map snd cur) ->
    sumf (swrr_step total w j cur) = sumf cur + zsum (map w (map snd cur)) - total.
  Proof.
    induction cur as [|c r IH]; intros Hnd Hin; [destruct Hin|]. cbn [map] in Hnd, Hin. inversion Hnd as [|? ? Hni Hnd']; subst.
    rewrite swrr_step_cons, !sumf_cons. cbn [map]. rewrite zsum_cons.
    destruct (Nat.eqb (snd c) j) eqn:E.
    - apply Nat.eqb_eq in E. subst j. rewrite (step_sum_notin total (snd c) r Hni). cbn [fst]. lia.
    - apply Nat.eqb_neq in E. destruct Hin as [Hin|Hin]; [congruence|]. rewrite (IH Hnd' Hin). cbn [fst]. lia.
  Qed.

  Definition Inv (k : Z) (cnt : nat -> Z) (cur : list (Z * nat)) : Prop :=
    map snd cur = ks /\
    (forall c, In c cur -> fst c = (k + 1) * w (snd c) - T * cnt (snd c)) /\
    sumf cur = T /\
    (forall c, In c cur -> fst c - w (snd c) > - T).

  Lemma Inv_ext k k' c c' cur : Inv k c cur -> k = k' -> (forall i, c i = c' i) -> Inv k' c' cur.
  Proof. intros (A & B & C & D) -> Hc. repeat split; auto. intros x Hx. rewrite (B x Hx), Hc. reflexivity. Qed.

  Lemma Inv_step k cnt c0 r : Inv k cnt (c0 :: r) -> let j := snd (pick_max l c0 r) in
    Inv (k + 1) (fun i => cnt i + (if Nat.eq_dec j i then 1 else 0)) (swrr_step T w j (c0 :: r)).
  Proof.
    intros (A & B & C & D) j. destruct (pick_max_spec l r c0) as [Hm Hmax]. fold j in Hm. set (m := pick_max l c0 r) in *.
    assert (Hmpos : 0 < fst m).
    { destruct (Z_lt_le_dec 0 (fst m)) as [|Hle]; [assumption|exfalso]. pose proof T_pos.
      assert (sumf (c0 :: r) <= 0); [|lia]. apply zsum_le0. intros x Hx. apply in_map_iff in Hx. destruct Hx as (c & <- & Hc). specialize (Hmax c Hc). lia. }
    assert (Hnd : NoDup (map snd (c0 :: r))) by (rewrite A; exact ks_nodup).
    repeat split.
    - rewrite swrr_step_snd. exact A.
    - intros c' Hc'. unfold swrr_step in Hc'. apply in_map_iff in Hc'. destruct Hc' as (c & <- & Hc). rewrite (B c Hc) .
      destruct (Nat.eqb (snd c) j) eqn:E; cbn [fst snd].
      + apply Nat.eqb_eq in E. destruct (Nat.eq_dec j (snd c)); [lia|congruence].
      + apply Nat.eqb_neq in E. destruct (Nat.eq_dec j (snd c)); [congruence|lia].
    - rewrite step_sum; [|exact Hnd|unfold j; now apply in_map]. rewrite A. fold T. lia.
    - intros c' Hc'. unfold swrr_step in Hc'. apply in_map_iff in Hc'. destruct Hc' as (c & <- & Hc).
      destruct (Nat.eqb (snd c) j) eqn:E; cbn [fst snd].
      + apply Nat.eqb_eq in E. assert (c = m) by (apply (NoDup_map_snd_inj (c0 :: r)); auto). subst c. lia.
      + specialize (D c Hc). assert (0 < w (snd c)) by (apply w_pos; rewrite <- A; now apply in_map). lia.
  Qed.

  Lemma rounds_inv n : forall cur k cnt, Inv k cnt cur ->
    exists cur', Inv (k + Z.of_nat n) (fun i => cnt i + cntz (swrr_rounds n l T w cur) i) cur'.
  Proof.
    induction n as [|n IH]; intros cur k cnt HI.
    - exists cur. eapply Inv_ext; [exact HI|lia|]. intros i. unfold cntz. cbn. lia.
    - destruct cur as [|c0 r]. { destruct HI as (A & _). cbn in A. symmetry in A. contradiction. }
      cbn [swrr_rounds]. pose proof (Inv_step _ _ _ _ HI) as HS. cbn zeta in HS.
      destruct (IH _ _ _ HS) as (cur' & HI'). exists cur'. eapply Inv_ext; [exact HI'|lia|].
      intros i. unfold cntz. cbn [count_occ]. destruct (Nat.eq_dec (snd (pick_max l c0 r)) i); lia.
  Qed.

  Theorem swrr_exact cur : Inv 0 (fun _ => 0) cur ->
    forall i, In i ks -> cntz (swrr_rounds (Z.to_nat T) l T w cur) i = w i.
  Proof.
    intros HI. pose proof T_pos as HT. set (js := swrr_rounds (Z.to_nat T) l T w cur).
    destruct (rounds_inv (Z.to_nat T) _ _ _ HI) as (cur' & A & B & _ & D). fold js in B.
    assert (Hle : forall i, In i ks -> cntz js i <= w i).
    { intros i Hi. rewrite <- A in Hi. apply in_map_iff in Hi. destruct Hi as (c & <- & Hc).
      specialize (B c Hc). specialize (D c Hc). rewrite B in D. rewrite Z2Nat.id in D by lia. nia. }
    assert (Hlen : length js = Z.to_nat T).
    { apply swrr_rounds_length_ne. destruct HI as (A0 & _). intros ->. cbn in A0. symmetry in A0. contradiction. }
    assert (Hin : forall j, In j js -> In j ks).
    { intros j Hj. apply swrr_rounds_in in Hj. destruct HI as (A0 & _). now rewrite A0 in Hj. }
    apply zsum_pointwise; [exact Hle|]. rewrite cntz_sum by auto. rewrite Hlen, Z2Nat.id by lia. reflexivity.
  Qed.
End SWRR.

(* ---------- BuildStaticWeightList as a whole ---------- *)
Definition cycle_of (l : list ep) (range total0 maxw : Z) : list nat :=
  let scaled := scaled_of range maxw (indexed 0 l) in
  let zeros := map fst (filter (fun p => snd p <=? 0) scaled) in
  let pos := filter (fun p => 0 <? snd p) scaled in
  let total := total0 + fold_left Z.add (map snd pos) 0 in
  zeros ++ swrr_rounds (Z.to_nat total) l total (wof pos) (map (fun p => (snd p, fst p)) pos).

Definition maxw_of (l : list ep) : Z := fold_left Z.max (map wgt l) min_int32.
Definition minw_of (l : list ep) : Z := fold_left Z.min (map wgt l) max_int32.
Definition all_static (l : list ep) : bool := negb (existsb (fun e => negb (wty e =? 1)) l).

Lemma bswl_cases l :
  (all_static l = false /\ build_static_weight_list l = BOk [] 0) \/
  (all_static l = true /\ maxw_of l <= 0 /\ build_static_weight_list l = BOk [] 0) \/
  (all_static l = true /\ 0 < maxw_of l /\
   let range := if 0 <? minw_of l then clamp_range (Z.quot (maxw_of l) (minw_of l)) else 1 in
   let total0 := if 0 <? minw_of l then 0 else 1 in
   let c := cycle_of l range total0 (maxw_of l) in
   build_static_weight_list l = BOk c (Z.of_nat (length l) + Z.of_nat (length c))).
Proof.
  unfold build_static_weight_list, bswl_gen, all_static. fold (maxw_of l). fold (minw_of l).
  destruct (existsb _ l); [left; split; reflexivity|right]. cbn [negb andb].
  destruct (maxw_of l <=? 0) eqn:Em; [left; split; [reflexivity|split; [lia|reflexivity]]|right].
  split; [reflexivity|]. split; [lia|]. cbn zeta.
  assert (Hcap : (Z.of_nat (length l) <? 0) = false) by lia.
  destruct (0 <? minw_of l) eqn:En.
  - unfold go_div. destruct (minw_of l =? 0) eqn:E0; [lia|]. rewrite Hcap. rewrite scale_all_ok by lia. reflexivity.
  - rewrite Hcap. rewrite scale_all_ok by lia. reflexivity.
Qed.

Lemma clamp_range_bounds q : 1 <= clamp_range q <= 100.
Proof. unfold clamp_range, min_static, max_static. change (Z.of_N c_minStaticWeightLimit) with 10. change (Z.of_N c_maxStaticWeightLimit) with 100. cbv zeta. destruct (q <? 10) eqn:E1; [destruct (100 <? 10) eqn:E2|destruct (100 <? q) eqn:E2]; lia. Qed.
Lemma clamp_range_spec q : clamp_range q = Z.min 100 (Z.max 10 q).
Proof. unfold clamp_range, min_static, max_static. change (Z.of_N c_minStaticWeightLimit) with 10. change (Z.of_N c_maxStaticWeightLimit) with 100. cbv zeta. destruct (q <? 10) eqn:E1; [destruct (100 <? 10) eqn:E2|destruct (100 <? q) eqn:E2]; lia. Qed.

Lemma maxw_ge l e : In e l -> wgt e <= maxw_of l.
Proof. intros H. apply (fold_left_max_ge (map wgt l) min_int32). now apply in_map. Qed.

Lemma scaled_fst range maxw l : map fst (scaled_of range maxw (indexed 0 l)) = seq 0 (length l).
Proof. unfold scaled_of. rewrite map_map. cbn [fst]. rewrite <- (indexed_fst l 0). reflexivity. Qed.

Lemma scaled_le range maxw l p : 0 < maxw -> 0 <= range -> (forall e, In e l -> wgt e <= maxw) ->
  In p (scaled_of range maxw (indexed 0 l)) -> snd p <= range.
Proof.
  intros Hm Hr Hle Hp. unfold scaled_of in Hp. apply in_map_iff in Hp. destruct Hp as ([i e] & <- & Hin). cbn [fst snd].
  apply indexed_nth in Hin. destruct Hin as [_ Hn]. apply nth_error_In in Hn. specialize (Hle e Hn).
  destruct (Z_le_gt_dec 0 (wgt e)) as [H0|H0].
  - apply Z.quot_le_upper_bound; [lia|nia].
  - assert (Z.quot (wgt e * range) maxw <= 0); [|lia].
    rewrite <- (Z.opp_involutive (wgt e * range)). rewrite Z.quot_opp_l by lia.
    assert (0 <= Z.quot (- (wgt e * range)) maxw) by (apply Z.quot_pos; nia). lia.
Qed.

Lemma NoDup_map_filter {A B} (f : A -> B) (P : A -> bool) l : NoDup (map f l) -> NoDup (map f (filter P l)).
Proof.
  induction l as [|x l IH]; cbn; intros H; [constructor|]. inversion H as [|? ? Hni Hnd]; subst.
  destruct (P x); cbn; [constructor; [|auto]|auto]. intros Hin. apply Hni. apply in_map_iff in Hin. destruct Hin as (y & E & Hy).
  apply filter_In in Hy. rewrite <- E. apply in_map. tauto.
Qed.

Lemma zsum_le_len (lz : list Z) r : (forall x, In x lz -> x <= r) -> zsum lz <= r * Z.of_nat (length lz).
Proof.
  induction lz as [|x lz IH]; intros H; cbn [zsum fold_right length]; [lia|]. fold (zsum lz).
  assert (x <= r) by (apply H; now left). assert (zsum lz <= r * Z.of_nat (length lz)) by (apply IH; intros; apply H; now right). lia.
Qed.

Lemma filter_split_length {A} (P Q : A -> bool) l : (forall x, P x = negb (Q x)) -> (length (filter P l) + length (filter Q l) = length l)%nat.
Proof. intros H. induction l as [|x l IH]; cbn; [reflexivity|]. rewrite H. destruct (Q x); cbn; lia. Qed.

(* never a panic; every index is a position of the list; cycle and allocation are linear in the number of endpoints *)
Theorem bswl_total l : exists c a, build_static_weight_list l = BOk c a /\
  (forall j, In j c -> (j < length l)%nat) /\
  Z.of_nat (length c) <= 100 * Z.of_nat (length l) + 1 /\ a <= 101 * Z.of_nat (length l) + 1.
Proof.
  destruct (bswl_cases l) as [[_ E]|[(_ & _ & E)|(_ & Hm & E)]]; try (exists [], 0; rewrite E; split; [reflexivity|split; [intros j []|split; [cbn [length]; lia|lia]]]).
  cbn zeta in E. eexists _, _. split; [exact E|].
  set (range := if 0 <? minw_of l then clamp_range (Z.quot (maxw_of l) (minw_of l)) else 1) in *.
  set (total0 := if 0 <? minw_of l then 0 else 1) in *.
  assert (Hr : 1 <= range <= 100) by (unfold range; destruct (0 <? minw_of l); [apply clamp_range_bounds|lia]).
  assert (Ht0 : 0 <= total0 <= 1) by (unfold total0; destruct (0 <? minw_of l); lia).
  unfold cycle_of. set (scaled := scaled_of range (maxw_of l) (indexed 0 l)).
  set (pos := filter (fun p => 0 <? snd p) scaled). set (zeros := filter (fun p => snd p <=? 0) scaled).
  assert (Hfst : forall p, In p scaled -> (fst p < length l)%nat).
  { intros p Hp. apply (in_map fst) in Hp. unfold scaled in Hp. rewrite scaled_fst in Hp. apply in_seq in Hp. lia. }
  assert (Hlen : Z.of_nat (length (map fst zeros ++ swrr_rounds (Z.to_nat (total0 + fold_left Z.add (map snd pos) 0)) l (total0 + fold_left Z.add (map snd pos) 0) (wof pos) (map (fun p => (snd p, fst p)) pos))) <= 100 * Z.of_nat (length l) + 1).
  { rewrite app_length, map_length. pose proof (swrr_rounds_length (Z.to_nat (total0 + fold_left Z.add (map snd pos) 0)) l (total0 + fold_left Z.add (map snd pos) 0) (wof pos) (map (fun p => (snd p, fst p)) pos)) as Hl.
    rewrite fold_left_add_zsum in *.
    assert (Hz : zsum (map snd pos) <= range * Z.of_nat (length (map snd pos))).
    { apply zsum_le_len. intros x Hx. apply in_map_iff in Hx. destruct Hx as (p & <- & Hp). apply filter_In in Hp.
      apply (scaled_le range (maxw_of l) l); [lia|lia|apply maxw_ge|tauto]. }
    rewrite map_length in Hz.
    assert (Hsplit : (length zeros + length pos = length scaled)%nat) by (apply filter_split_length; intros; lia).
    assert (length scaled = length l) by (unfold scaled, scaled_of; rewrite map_length, <- (map_length fst), indexed_fst, seq_length; reflexivity).
    nia. }
  split; [|split; [exact Hlen|lia]].
  intros j Hj. apply in_app_or in Hj. destruct Hj as [Hj|Hj].
  - apply in_map_iff in Hj. destruct Hj as (p & <- & Hp). apply filter_In in Hp. apply Hfst. tauto.
  - apply swrr_rounds_in in Hj. rewrite map_map in Hj. cbn [snd] in Hj. apply in_map_iff in Hj. destruct Hj as (p & <- & Hp). apply filter_In in Hp. apply Hfst. tauto.
Qed.

(* ---------- the prescribed counts ---------- *)
Lemma NoDup_map_inj {A B} (f : A -> B) (l : list A) a b : NoDup (map f l) -> In a l -> In b l -> f a = f b -> a = b.
Proof.
  induction l as [|x l IH]; intros Hnd Ha Hb E; [destruct Ha|]. cbn in Hnd. inversion Hnd as [|? ? Hni Hnd']; subst.
  destruct Ha as [<-|Ha], Hb as [<-|Hb]; auto.
  - exfalso. apply Hni. rewrite E. now apply in_map.
  - exfalso. apply Hni. rewrite <- E. now apply in_map.
Qed.

Lemma wof_in pos i q : NoDup (map fst pos) -> In (i, q) pos -> wof pos i = q.
Proof.
  intros Hnd Hin. unfold wof. destruct (find (fun p => Nat.eqb (fst p) i) pos) as [p|] eqn:E.
  - apply find_some in E. destruct E as [Hp Hf]. apply Nat.eqb_eq in Hf.
    assert (p = (i, q)) by (apply (NoDup_map_inj fst pos); auto). subst p. reflexivity.
  - exfalso. pose proof (find_none _ _ E _ Hin) as H. cbn in H. rewrite Nat.eqb_refl in H. discriminate.
Qed.

Lemma wof_map pos : NoDup (map fst pos) -> map (wof pos) (map fst pos) = map snd pos.
Proof.
  intros Hnd. rewrite map_map. apply map_ext_in. intros [i q] Hin. cbn [fst snd]. now apply wof_in.
Qed.

Lemma count_occ_NoDup_in (l : list nat) i : NoDup l -> In i l -> count_occ Nat.eq_dec l i = 1%nat.
Proof. intros Hnd Hin. apply NoDup_count_occ' ; auto. Qed.

Theorem bswl_counts l maxw minw :
  (forall e, In e l -> wty e = 1 /\ 0 < wgt e <= max_int32) ->
  In maxw (map wgt l) -> (forall e, In e l -> wgt e <= maxw) ->
  In minw (map wgt l) -> (forall e, In e l -> minw <= wgt e) ->
  exists c a, build_static_weight_list l = BOk c a /\
    forall i e, nth_error l i = Some e ->
      cntz c i = Z.max 1 (wgt e * Z.min 100 (Z.max 10 (maxw / minw)) / maxw).
Proof.
  intros Hall Hmaxin Hmax Hminin Hmin.
  assert (Hws : forall x, In x (map wgt l) -> 0 < x <= max_int32).
  { intros x Hx. apply in_map_iff in Hx. destruct Hx as (e & <- & He). apply Hall, He. }
  assert (Hmaxw : maxw_of l = maxw).
  { unfold maxw_of. destruct (fold_left_max_ge (map wgt l) min_int32) as [Hge Hge'].
    destruct (fold_left_max_in (map wgt l) min_int32) as [E|Hin].
    - specialize (Hge' maxw Hmaxin). specialize (Hws maxw Hmaxin). rewrite E in Hge'. unfold min_int32 in Hge'. lia.
    - apply in_map_iff in Hin. destruct Hin as (e & E & He). specialize (Hmax e He). specialize (Hge' maxw Hmaxin). lia. }
  assert (Hminw : minw_of l = minw).
  { unfold minw_of. destruct (fold_left_min_le (map wgt l) max_int32) as [Hle Hle'].
    destruct (fold_left_min_in (map wgt l) max_int32) as [E|Hin].
    - specialize (Hle' minw Hminin). specialize (Hws minw Hminin). rewrite E in Hle'.
      assert (minw = max_int32) by lia. congruence.
    - apply in_map_iff in Hin. destruct Hin as (e & E & He). specialize (Hmin e He). specialize (Hle' minw Hminin). lia. }
  assert (Hmaxpos : 0 < maxw) by (apply Hws, Hmaxin).
  assert (Hminpos : 0 < minw) by (apply Hws, Hminin).
  assert (Hstat : all_static l = true).
  { unfold all_static. destruct (existsb _ l) eqn:E; [|reflexivity]. apply existsb_exists in E. destruct E as (e & He & Hw).
    destruct (Hall e He) as [H1 _]. rewrite H1 in Hw. discriminate. }
  destruct (bswl_cases l) as [[E _]|[(_ & Hm & _)|(_ & _ & E)]]; [congruence|lia|].
  cbn zeta in E. rewrite Hmaxw, Hminw in E. replace (0 <? minw) with true in E by lia.
  eexists _, _. split; [exact E|]. clear E.
  rewrite clamp_range_spec, Z.quot_div_nonneg by lia.
  set (range := Z.min 100 (Z.max 10 (maxw / minw))). assert (Hr : 1 <= range <= 100) by lia.
  unfold cycle_of. set (scaled := scaled_of range maxw (indexed 0 l)).
  set (pos := filter (fun p => 0 <? snd p) scaled). set (zeros := filter (fun p => snd p <=? 0) scaled).
  assert (Hsnd : NoDup (map fst scaled)) by (unfold scaled; rewrite scaled_fst; apply seq_NoDup).
  assert (Hpnd : NoDup (map fst pos)) by (apply NoDup_map_filter, Hsnd).
  assert (Hznd : NoDup (map fst zeros)) by (apply NoDup_map_filter, Hsnd).
  assert (Hpne : map fst pos <> []).
  { apply in_map_iff in Hmaxin. destruct Hmaxin as (e & Ee & He). apply In_nth_error in He. destruct He as [i Hi].
    assert (Hin : In (i, Z.quot (wgt e * range) maxw) pos).
    { apply filter_In. split.
      - unfold scaled, scaled_of. apply in_map_iff. exists (i, e). split; [reflexivity|]. apply indexed_nth. rewrite Nat.sub_0_r. split; [lia|exact Hi].
      - cbn [snd]. rewrite Ee. rewrite Z.mul_comm, Z.quot_mul by lia. lia. }
    intros Hnil. apply (in_map fst) in Hin. rewrite Hnil in Hin. destruct Hin. }
  assert (Hwpos : forall i, In i (map fst pos) -> 0 < wof pos i).
  { intros i Hi. apply in_map_iff in Hi. destruct Hi as ([i' q] & <- & Hp). cbn [fst]. rewrite (wof_in pos i' q Hpnd Hp).
    apply filter_In in Hp. cbn [snd] in Hp. lia. }
  rewrite fold_left_add_zsum. replace (0 + (0 + zsum (map snd pos))) with (zsum (map (wof pos) (map fst pos))) by (rewrite wof_map by exact Hpnd; lia).
  assert (HI : Inv (map fst pos) (wof pos) 0 (fun _ => 0) (map (fun p => (snd p, fst p)) pos)).
  { unfold Inv. rewrite map_map. cbn [snd]. split; [reflexivity|]. split; [|split].
    - intros c Hc. apply in_map_iff in Hc. destruct Hc as ([i q] & <- & Hp). cbn [fst snd]. rewrite (wof_in pos i q Hpnd Hp). lia.
    - unfold sumf. rewrite map_map. cbn [fst]. rewrite wof_map by exact Hpnd. reflexivity.
    - intros c Hc. apply in_map_iff in Hc. destruct Hc as ([i q] & <- & Hp). cbn [fst snd]. rewrite (wof_in pos i q Hpnd Hp).
      pose proof (T_pos (map fst pos) (wof pos) Hpne Hwpos). lia. }
  pose proof (swrr_exact l (map fst pos) (wof pos) Hpnd Hpne Hwpos _ HI) as Hex.
  set (rounds := swrr_rounds _ l _ (wof pos) _) in *.
  assert (Hrin : forall j, In j rounds -> In j (map fst pos)).
  { intros j Hj. unfold rounds in Hj. apply swrr_rounds_in in Hj. rewrite map_map in Hj. exact Hj. }
  intros i e Hi. set (q := Z.quot (wgt e * range) maxw).
  assert (Hq : q = wgt e * range / maxw) by (unfold q; apply Z.quot_div_nonneg; [|lia]; destruct (Hall e (nth_error_In _ _ Hi)); nia).
  assert (Hq0 : 0 <= q) by (rewrite Hq; apply Z.div_pos; [|lia]; destruct (Hall e (nth_error_In _ _ Hi)); nia).
  assert (Hsc : In (i, q) scaled).
  { unfold scaled, scaled_of. apply in_map_iff. exists (i, e). split; [reflexivity|]. apply indexed_nth. rewrite Nat.sub_0_r. split; [lia|exact Hi]. }
  unfold cntz. rewrite count_occ_app, Nat2Z.inj_add. fold (cntz rounds i). rewrite <- Hq.
  destruct (Z_lt_le_dec 0 q) as [Hpos|Hzero].
  - assert (Hp : In (i, q) pos) by (apply filter_In; split; [exact Hsc|cbn [snd]; lia]).
    rewrite Hex by (apply in_map_iff; exists (i, q); split; [reflexivity|exact Hp]). rewrite (wof_in pos i q Hpnd Hp).
    assert (Hnz : ~ In i (map fst zeros)).
    { intros Hz. apply in_map_iff in Hz. destruct Hz as ([i' q'] & Ei & Hz). cbn [fst] in Ei. subst i'. apply filter_In in Hz. destruct Hz as [Hz1 Hz2]. cbn [snd] in Hz2.
      assert ((i, q') = (i, q)) by (apply (NoDup_map_inj fst scaled); auto). congruence || (inversion H; lia). }
    apply (count_occ_not_In Nat.eq_dec) in Hnz. rewrite Hnz. lia.
  - assert (Hz : In (i, q) zeros) by (apply filter_In; split; [exact Hsc|cbn [snd]; lia]).
    assert (Hnr : ~ In i rounds).
    { intros Hr'. apply Hrin in Hr'. apply in_map_iff in Hr'. destruct Hr' as ([i' q'] & Ei & Hp). cbn [fst] in Ei. subst i'. apply filter_In in Hp. destruct Hp as [Hp1 Hp2]. cbn [snd] in Hp2.
      assert (H : (i, q') = (i, q)) by (apply (NoDup_map_inj fst scaled); auto). inversion H. lia. }
    unfold cntz. apply (count_occ_not_In Nat.eq_dec) in Hnr. rewrite Hnr.
    rewrite count_occ_NoDup_in; [lia|exact Hznd|]. apply in_map_iff. exists (i, q). split; [reflexivity|exact Hz].
Qed.

(* a concrete instance: weights 1, 5 and 1000 (ratio 1000 > 100: R = 100): the light endpoints once (0 and 0 scaled), the heavy one 100 times *)
Definition ex_eps : list ep :=
  [ {| host := [97%N]; skey := [97%N]; wgt := 1; wty := 1 |}; {| host := [98%N]; skey := [98%N]; wgt := 5; wty := 1 |};
    {| host := [99%N]; skey := [99%N]; wgt := 1000; wty := 1 |} ].
Example bswl_counts_example :
  match build_static_weight_list ex_eps with BOk c _ => map (cntz c) [0; 1; 2]%nat = [1; 1; 100] /\ length c = 102%nat | BPanic _ => False end.
Proof. vm_compute. split; reflexivity. Qed.

(* the code as pinned (before fix 675061a), for the record: the same model with the guard and the capacity as they were *)
Definition ep_w (h : N) (w : Z) : ep := {| host := [h]; skey := [h]; wgt := w; wty := 1 |}.
Example pinned_code_panics :
  bswl_gen false [ep_w 97 0; ep_w 98 0] = BPanic DivByZero /\
  bswl_gen false [ep_w 97 (-200)] = BPanic MakeSliceCap /\
  (match bswl_gen false (map (fun h => ep_w h 2147483647) [97; 98; 99; 100; 101; 102; 103; 104]%N) with
   | BOk _ a => 17179869184 < a | BPanic _ => False end).
Proof. vm_compute. repeat split; reflexivity. Qed.
