(* C14: the names of the virtual nodes.  ConsistentHash.addLocked hashes, for round i of member h, the string
   fmt.Sprintf(format, h, i); format and argument texts are read from the CURRENT source (Gen/SelRebuild.v:
   gen_vnode_format = "%s_%d", gen_vnode_args = [ep.HashKey(); i]).  Here: an interpreter of such formats (%s, %d, literal
   bytes), the name it gives, and the theorem the ring construction relies on - different (host, round) pairs have different
   names, whatever bytes the host consists of (the decimal round number has no '_', so the last '_' separates) - from
   which NoCollision follows for every universe as soon as the hash sends different names to different points.  Without the
   separator the names are not injective (naming_without_separator_refuted). *)
From Coq Require Import List NArith ZArith Bool Arith Lia DecimalN.
From TarsV Require Import Base.Hex Gen.SelRebuild Select.Selectors Select.SelProofs Select.RingProofs.
Import ListNotations.
Open Scope N_scope.

Fixpoint digits (u : Decimal.uint) : list N :=
  match u with
  | Decimal.Nil => []
  | Decimal.D0 r => 48 :: digits r | Decimal.D1 r => 49 :: digits r | Decimal.D2 r => 50 :: digits r | Decimal.D3 r => 51 :: digits r
  | Decimal.D4 r => 52 :: digits r | Decimal.D5 r => 53 :: digits r | Decimal.D6 r => 54 :: digits r | Decimal.D7 r => 55 :: digits r
  | Decimal.D8 r => 56 :: digits r | Decimal.D9 r => 57 :: digits r
  end.
Definition dec (i : N) : list N := digits (N.to_uint i).      (* %d of a non-negative int *)

(* fmt.Sprintf for formats made of %s (first argument: the host), %d (second argument: the round) and literal bytes *)
Fixpoint sprintf (f : list N) (h : list N) (i : N) : list N :=
  match f with
  | 37 :: 115 :: r => h ++ sprintf r h i
  | 37 :: 100 :: r => dec i ++ sprintf r h i
  | c :: r => c :: sprintf r h i
  | [] => []
  end.

Definition vname (h : list N) (i : N) : list N := sprintf gen_vnode_format h i.

(* what the source says: the format "%s_%d" applied to (ep.HashKey(), i) *)
Example vnode_source : gen_vnode_format = [37; 115; 95; 37; 100] /\
  gen_vnode_args = [[101; 112; 46; 72; 97; 115; 104; 75; 101; 121; 40; 41]; [105]].
Proof. split; reflexivity. Qed.

Lemma vname_eq h i : vname h i = h ++ 95 :: dec i.
Proof. unfold vname. cbn. now rewrite app_nil_r. Qed.

Lemma digits_inj u : forall v, digits u = digits v -> u = v.
Proof. induction u; destruct v; cbn; intros H; try discriminate; try reflexivity; inversion H; f_equal; auto. Qed.
Lemma dec_inj i j : dec i = dec j -> i = j.
Proof. unfold dec. intros H. apply digits_inj in H. rewrite <- (Unsigned.of_to i), <- (Unsigned.of_to j). now rewrite H. Qed.
Lemma digits_no_sep u : ~ In 95 (digits u).
Proof. induction u; cbn; intros H; try tauto; destruct H as [H|H]; try discriminate; tauto. Qed.

Lemma app_sep_unique {A} (x : A) (a1 : list A) : forall a2 b1 b2, ~ In x a1 -> ~ In x a2 -> a1 ++ x :: b1 = a2 ++ x :: b2 -> a1 = a2 /\ b1 = b2.
Proof.
  induction a1 as [|y a1 IH]; intros [|z a2] b1 b2 H1 H2 E; cbn in E.
  - inversion E. auto.
  - inversion E; subst. exfalso. apply H2. now left.
  - inversion E; subst. exfalso. apply H1. now left.
  - inversion E; subst. destruct (IH a2 b1 b2) as [-> ->]; auto; [intros H; apply H1; now right|intros H; apply H2; now right].
Qed.

(* the names of different (host, round) pairs are different: for all hosts (any bytes, '_' and digits included) *)
Theorem vname_inj h1 i1 h2 i2 : vname h1 i1 = vname h2 i2 -> h1 = h2 /\ i1 = i2.
Proof.
  rewrite !vname_eq. intros E. apply (f_equal (@rev N)) in E. rewrite !rev_app_distr in E. cbn [rev] in E. rewrite <- !app_assoc in E. cbn [app] in E.
  apply app_sep_unique in E; try (intros H; apply in_rev in H; revert H; apply digits_no_sep).
  destruct E as [E1 E2]. apply (f_equal (@rev N)) in E1. apply (f_equal (@rev N)) in E2. rewrite !rev_involutive in E1, E2.
  split; [exact E2|now apply dec_inj].
Qed.

(* the ring points of a member: the hash of each of its names (md5-derived, abstract) *)
Section points.
  Variable hash4 : list N -> list N.
  Definition points_of_naming (h : list N) (n : nat) : list N := flat_map (fun i => hash4 (vname h (N.of_nat i))) (seq 0 n).

  (* if the hash never sends two different names to a common point, no two hosts collide - for every universe *)
  Theorem naming_nocollision : (forall s1 s2 k, In k (hash4 s1) -> In k (hash4 s2) -> s1 = s2) ->
    forall U, NoCollision points_of_naming U.
  Proof.
    intros Hh U h1 h2 n1 n2 k _ _ H1 H2. unfold points_of_naming in *. apply in_flat_map in H1. apply in_flat_map in H2.
    destruct H1 as (i1 & _ & H1). destruct H2 as (i2 & _ & H2). apply (vname_inj h1 (N.of_nat i1) h2 (N.of_nat i2)). eapply Hh; eauto.
  Qed.
End points.

(* hence everything C14 proves under NoCollision holds for the names the source builds, for every universe of hosts *)
Corollary naming_history_independent (hash4 : list N -> list N) :
  (forall s1 s2 k, In k (hash4 s1) -> In k (hash4 s2) -> s1 = s2) ->
  forall weighted h1 h2 code, (forall e, In e (set_of_history h1) <-> In e (set_of_history h2)) ->
  route (points_of_naming hash4) ConHash weighted h1 code = route (points_of_naming hash4) ConHash weighted h2 code.
Proof.
  intros Hh weighted h1 h2 code Hs. apply (route_history_independent (points_of_naming hash4) weighted (fun _ => True) (naming_nocollision hash4 Hh _)); auto.
  - apply Forall_forall. intros o _. destruct o; cbn; auto.
  - apply Forall_forall. intros o _. destruct o; cbn; auto.
Qed.

(* the names without the separator (host followed directly by the round number): 10.0.0.1 round 10 = 10.0.0.11 round 0 *)
Example naming_without_separator_refuted :
  let h1 := [49; 48; 46; 48; 46; 48; 46; 49] in let h11 := [49; 48; 46; 48; 46; 48; 46; 49; 49] in
  sprintf [37; 115; 37; 100] h1 10 = sprintf [37; 115; 37; 100] h11 0 /\ h1 <> h11 /\ vname h1 10 <> vname h11 0.
Proof. vm_compute. repeat split; discriminate. Qed.

(* an instance of the hypothesis on the hash, with points: two names sent to two different points, nothing else *)
Definition ex_hash4 (s : list N) : list N :=
  if bytes_eqb s (vname [97] 0) then [1] else if bytes_eqb s (vname [98] 0) then [2] else [].
Example hash_hypothesis_satisfiable :
  (forall s1 s2 k, In k (ex_hash4 s1) -> In k (ex_hash4 s2) -> s1 = s2) /\ points_of_naming ex_hash4 [97] 3 = [1] /\ points_of_naming ex_hash4 [98] 1 = [2].
Proof.
  split; [|split; reflexivity]. intros s1 s2 k. unfold ex_hash4.
  destruct (bytes_eqb s1 (vname [97] 0)) eqn:A1; destruct (bytes_eqb s2 (vname [97] 0)) eqn:A2;
  try destruct (bytes_eqb s1 (vname [98] 0)) eqn:B1; try destruct (bytes_eqb s2 (vname [98] 0)) eqn:B2;
  cbn [In]; intros H1 H2; try tauto; try (apply bytes_eqb_eq in A1); try (apply bytes_eqb_eq in A2); try (apply bytes_eqb_eq in B1); try (apply bytes_eqb_eq in B2);
  try congruence; destruct H1 as [<-|[]]; destruct H2 as [H2|[]]; discriminate.
Qed.
