(* C14 (and the consistent-hash clauses of C13): the ring of Selectors.v.
   - lookup = owner of the least point >= code, else of the least point; a function of the ring as a finite map;
   - removing a host re-routes only the codes that went to it, adding one moves codes only onto it
     (for the steps of the model, with or without colliding points);
   - under NoCollision U (points of distinct hosts of the universe U are disjoint) the ring reached by any
     history over U is the ring of its set: history independence, error iff no member has a virtual node;
   - without it the installation order matters (collision_dependence). *)
From Coq Require Import List NArith ZArith Bool Arith Lia ZifyBool.
From TarsV Require Import Base.Hex Gen.Consts Select.Selectors Select.WeightProofs Select.SelProofs.
Import ListNotations.
Open Scope N_scope.

Definition keys (r : list (N * ep)) : list N := map fst r.

(* ---------- lookup ---------- *)
Definition least_step (b : option (N * ep)) (p : N * ep) : option (N * ep) :=
  match b with None => Some p | Some q => if N.ltb (fst p) (fst q) then Some p else Some q end.

Lemma least_fold_spec (l : list (N * ep)) : forall b,
  match fold_left least_step l b with
  | Some p => (b = Some p \/ In p l) /\ (forall q, In q l -> fst p <= fst q) /\ (forall q, b = Some q -> fst p <= fst q)
  | None => b = None /\ l = []
  end.
Proof.
  induction l as [|x l IH]; intros b; cbn [fold_left].
  - destruct b as [p|]; [|auto]. split; [now left|]. split; [intros q []|]. intros q E. inversion E. lia.
  - specialize (IH (least_step b x)). destruct (fold_left least_step l (least_step b x)) as [p|].
    + destruct IH as (A & B & C). unfold least_step in A, C. split; [|split].
      * destruct A as [A|A]; [|right; now right]. destruct b as [q|]; [destruct (N.ltb (fst x) (fst q))|]; inversion A; subst; auto; right; now left.
      * intros q [<-|Hq]; [|auto]. destruct b as [q|]; [destruct (N.ltb (fst x) (fst q)) eqn:E|].
        -- apply (C x). reflexivity.
        -- specialize (C q eq_refl). lia.
        -- apply (C x). reflexivity.
      * intros q ->. destruct (N.ltb (fst x) (fst q)) eqn:E.
        -- specialize (C x eq_refl). lia.
        -- apply (C q). reflexivity.
    + destruct IH as [A _]. destruct b as [q|]; cbn in A; [destruct (N.ltb (fst x) (fst q))|]; discriminate.
Qed.

Lemma least_spec (l : list (N * ep)) :
  match least l with
  | Some p => In p l /\ forall q, In q l -> fst p <= fst q
  | None => l = []
  end.
Proof.
  unfold least. pose proof (least_fold_spec l None) as H. change (fun (b : option (N * ep)) p => match b with None => Some p | Some q => if N.ltb (fst p) (fst q) then Some p else Some q end) with least_step.
  destruct (fold_left least_step l None) as [p|]; [|tauto]. destruct H as ([H|H] & B & _); [discriminate|]. split; assumption.
Qed.

Definition lookup_spec (r : list (N * ep)) (code : N) (e : ep) : Prop :=
  exists k, In (k, e) r /\
    ((code <= k /\ forall k' e', In (k', e') r -> code <= k' -> k <= k') \/
     ((forall k' e', In (k', e') r -> k' < code) /\ forall k' e', In (k', e') r -> k <= k')).

Lemma lookup_sound r code e : ring_lookup r code = Some e -> lookup_spec r code e.
Proof.
  unfold ring_lookup. pose proof (least_spec (filter (fun p => N.leb code (fst p)) r)) as H1. pose proof (least_spec r) as H2.
  destruct (least (filter _ r)) as [[k x]|].
  - intros E. inversion E; subst x. destruct H1 as [Hin Hmin]. apply filter_In in Hin. cbn [fst] in *. destruct Hin as [Hin Hle].
    exists k. split; [exact Hin|left]. split; [lia|]. intros k' e' Hk' Hc. apply (Hmin (k', e')). apply filter_In. split; [exact Hk'|cbn [fst]; lia].
  - destruct (least r) as [[k x]|]; [|discriminate]. intros E. inversion E; subst x. destruct H2 as [Hin Hmin]. exists k. split; [exact Hin|right]. split.
    + intros k' e' Hk'. destruct (N.ltb k' code) eqn:El; [lia|]. exfalso.
      assert (Hf : In (k', e') (filter (fun p => N.leb code (fst p)) r)) by (apply filter_In; split; [exact Hk'|cbn [fst]; lia]). rewrite H1 in Hf. destruct Hf.
    + intros k' e' Hk'. apply (Hmin (k', e') Hk').
Qed.

Lemma lookup_none r code : ring_lookup r code = None <-> r = [].
Proof.
  split; [|intros ->; reflexivity]. unfold ring_lookup. pose proof (least_spec r) as H2.
  destruct (least (filter _ r)); [discriminate|]. destruct (least r); [discriminate|]. auto.
Qed.

Lemma key_owner_unique (r : list (N * ep)) k e1 e2 : NoDup (keys r) -> In (k, e1) r -> In (k, e2) r -> e1 = e2.
Proof. intros Hnd H1 H2. assert (E : (k, e1) = (k, e2)) by (apply (NoDup_map_inj fst r); auto). now inversion E. Qed.

Lemma lookup_functional r code e1 e2 : NoDup (keys r) -> lookup_spec r code e1 -> lookup_spec r code e2 -> e1 = e2.
Proof.
  intros Hnd (k1 & H1 & C1) (k2 & H2 & C2).
  assert (k1 = k2).
  { destruct C1 as [[A1 B1]|[A1 B1]], C2 as [[A2 B2]|[A2 B2]].
    - specialize (B1 _ _ H2 A2). specialize (B2 _ _ H1 A1). lia.
    - specialize (A2 _ _ H1). lia.
    - specialize (A1 _ _ H2). lia.
    - specialize (B1 _ _ H2). specialize (B2 _ _ H1). lia. }
  subst k2. eapply key_owner_unique; eauto.
Qed.

Lemma lookup_complete r code e : NoDup (keys r) -> lookup_spec r code e -> ring_lookup r code = Some e.
Proof.
  intros Hnd Hs. destruct (ring_lookup r code) as [x|] eqn:E.
  - f_equal. eapply lookup_functional; eauto. now apply lookup_sound.
  - apply lookup_none in E. destruct Hs as (k & Hin & _). subst r. destruct Hin.
Qed.

Lemma lookup_spec_ext r1 r2 code e : (forall k x, In (k, x) r1 <-> In (k, x) r2) -> lookup_spec r1 code e -> lookup_spec r2 code e.
Proof.
  intros Hext (k & Hin & C). exists k. split; [now apply Hext|]. destruct C as [[A B]|[A B]]; [left|right]; split; auto.
  - intros k' e' Hk'. apply (B k' e'). now apply Hext.
  - intros k' e' Hk'. apply (A k' e'). now apply Hext.
  - intros k' e' Hk'. apply (B k' e'). now apply Hext.
Qed.

(* the lookup depends on the ring only as a finite map *)
Lemma lookup_ext r1 r2 code : NoDup (keys r1) -> NoDup (keys r2) -> (forall k x, In (k, x) r1 <-> In (k, x) r2) ->
  ring_lookup r1 code = ring_lookup r2 code.
Proof.
  intros N1 N2 Hext. destruct (ring_lookup r1 code) as [x|] eqn:E.
  - symmetry. apply lookup_complete; [exact N2|]. eapply lookup_spec_ext; [exact Hext|]. now apply lookup_sound.
  - apply lookup_none in E. subst r1. symmetry. apply lookup_none. destruct r2 as [|[k x] t]; [reflexivity|]. exfalso. apply (Hext k x). now left.
Qed.

(* dropping entries: a code whose owner stays keeps its owner *)
Lemma lookup_filter (P : N * ep -> bool) r code x : NoDup (keys r) -> ring_lookup r code = Some x ->
  (forall k, In (k, x) r -> P (k, x) = true) -> ring_lookup (filter P r) code = Some x.
Proof.
  intros Hnd E HP. apply lookup_sound in E. destruct E as (k & Hin & C).
  apply lookup_complete; [unfold keys; apply NoDup_map_filter; exact Hnd|].
  exists k. split; [apply filter_In; split; [exact Hin|now apply HP]|].
  destruct C as [[A B]|[A B]]; [left|right]; split; auto.
  - intros k' e' Hk'. apply filter_In in Hk'. apply (B k' e'). tauto.
  - intros k' e' Hk'. apply filter_In in Hk'. apply (A k' e'). tauto.
  - intros k' e' Hk'. apply filter_In in Hk'. apply (B k' e'). tauto.
Qed.

(* a ring r' whose keys include those of r and whose entries not owned by e are entries of r *)
Lemma lookup_shrink r r' code x : NoDup (keys r) ->
  (forall k y, In (k, y) r -> exists y', In (k, y') r') ->
  ring_lookup r' code = Some x -> (forall k, In (k, x) r' -> In (k, x) r) -> ring_lookup r code = Some x.
Proof.
  intros Hnd Hkeys E Hx. apply lookup_sound in E. destruct E as (k & Hin & C). apply lookup_complete; [exact Hnd|].
  exists k. split; [now apply Hx|]. destruct C as [[A B]|[A B]]; [left|right]; split; auto.
  - intros k' e' Hk'. destruct (Hkeys _ _ Hk') as (y' & Hy'). apply (B k' y' Hy').
  - intros k' e' Hk'. destruct (Hkeys _ _ Hk') as (y' & Hy'). apply (A k' y' Hy').
  - intros k' e' Hk'. destruct (Hkeys _ _ Hk') as (y' & Hy'). apply (B k' y' Hy').
Qed.

(* ---------- building the ring ---------- *)
Section ring.
  Variable points : list N -> nat -> list N.
  Variable weighted : bool.
  Notation pts e := (ep_points points weighted e).

  Lemma ring_set_keys r k e : NoDup (keys r) -> NoDup (keys (ring_set r k e)).
  Proof.
    induction r as [|[k0 e0] t IH]; intros Hnd; cbn [ring_set]; [cbn; constructor; [intros []|constructor]|].
    cbn in Hnd. inversion Hnd as [|? ? Hni Hnd']; subst. destruct (N.eqb k k0) eqn:E.
    - apply N.eqb_eq in E. subst k0. cbn. constructor; assumption.
    - cbn. constructor; [|now apply IH]. intros Hin. apply in_map_iff in Hin. destruct Hin as ([k' e'] & Ek & Hp). cbn [fst] in Ek. subst k'.
      apply (ring_set_in) in Hp. destruct Hp as [Hp|Hp]; [inversion Hp; subst; rewrite N.eqb_refl in E; discriminate|].
      apply Hni. change k0 with (fst (k0, e')). now apply in_map.
  Qed.

  Lemma ring_set_spec r k e : NoDup (keys r) -> forall k' e',
    In (k', e') (ring_set r k e) <-> (k' = k /\ e' = e) \/ (k' <> k /\ In (k', e') r).
  Proof.
    induction r as [|[k0 e0] t IH]; intros Hnd k' e'; cbn [ring_set].
    - cbn [In]. split; [intros [E|[]]; inversion E; now left|intros [[-> ->]|[_ []]]; now left].
    - cbn in Hnd. inversion Hnd as [|? ? Hni Hnd']; subst. destruct (N.eqb k k0) eqn:E.
      + apply N.eqb_eq in E. subst k0. cbn [In]. split.
        * intros [H|H]; [inversion H; now left|right]. split; [|now right]. intros ->. apply Hni. change k with (fst (k, e')). now apply in_map.
        * intros [[-> ->]|[Hne [H|H]]]; [now left|inversion H; congruence|now right].
      + apply N.eqb_neq in E. cbn [In]. rewrite (IH Hnd'). split.
        * intros [H|[H|[H1 H2]]]; [inversion H; subst; right; split; [congruence|now left]|now left|right; split; [exact H1|now right]].
        * intros [H|[H1 [H2|H2]]]; [right; now left|now left|right; right; split; assumption].
  Qed.

  Lemma fold_set_spec e ps : forall r, NoDup (keys r) ->
    let r' := fold_left (fun acc k => ring_set acc k e) ps r in
    NoDup (keys r') /\ forall k' e', In (k', e') r' <-> (In k' ps /\ e' = e) \/ (~ In k' ps /\ In (k', e') r).
  Proof.
    induction ps as [|p ps IH]; intros r Hnd; cbn [fold_left].
    - split; [exact Hnd|]. intros k' e'. cbn [In]. tauto.
    - destruct (IH (ring_set r p e) (ring_set_keys r p e Hnd)) as [A B]. split; [exact A|]. intros k' e'. rewrite B, (ring_set_spec r p e Hnd). cbn [In].
      destruct (N.eq_dec p k') as [->|Hne]; destruct (in_dec N.eq_dec k' ps); intuition congruence.
  Qed.

  Lemma ring_add_spec r e : NoDup (keys r) ->
    NoDup (keys (ring_add points weighted r e)) /\
    forall k' e', In (k', e') (ring_add points weighted r e) <-> (In k' (pts e) /\ e' = e) \/ (~ In k' (pts e) /\ In (k', e') r).
  Proof. intros Hnd. apply (fold_set_spec e (pts e) r Hnd). Qed.

  Lemma ring_remove_keys r h : NoDup (keys r) -> NoDup (keys (ring_remove r h)).
  Proof. intros H. unfold ring_remove, keys. now apply NoDup_map_filter. Qed.

  (* every reachable ring has pairwise distinct keys (with or without collisions) *)
  Lemma step_keys s o : NoDup (keys (hring s)) -> NoDup (keys (hring (fst (step points ConHash weighted s o)))).
  Proof.
    intros Hnd. destruct o as [n r1 r2|e r1 r2|e r1 r2|code rnd]; cbn [step fst].
    - cbn [with_eps hring]. generalize (refresh_eps n). intros l. assert (H : NoDup (keys (@nil (N * ep)))) by constructor. revert H. generalize (@nil (N * ep)).
      induction l as [|e l IH]; intros r Hr; cbn [fold_left]; [exact Hr|]. apply IH. now apply ring_add_spec.
    - destruct (add_ep (eps s) e) as [l' ok]. destruct ok; cbn [fst with_eps hring]; [now apply ring_add_spec|exact Hnd].
    - destruct (remove_ep (eps s) e) as [l' ok]. destruct ok; cbn [fst with_eps hring]; [now apply ring_remove_keys|exact Hnd].
    - exact Hnd.
  Qed.
  Lemma run_keys h : forall s, NoDup (keys (hring s)) -> NoDup (keys (hring (fst (run points ConHash weighted s h)))).
  Proof.
    induction h as [|o h IH]; intros s Hnd; cbn [run]; [exact Hnd|]. pose proof (step_keys s o Hnd) as H1.
    destruct (step points ConHash weighted s o) as [s1 r]. cbn [fst] in H1. specialize (IH s1 H1).
    destruct (run points ConHash weighted s1 h) as [s2 rs]. exact IH.
  Qed.
  Theorem state_keys h : NoDup (keys (hring (state_after points ConHash weighted h))).
  Proof. apply run_keys. constructor. Qed.

  (* ---------- minimal disruption of the Add and Remove steps ---------- *)
  Theorem remove_minimal s e code x : NoDup (keys (hring s)) ->
    ring_lookup (hring s) code = Some x -> host x <> host e ->
    ring_lookup (hring (fst (step points ConHash weighted s (Remove e 0 0)))) code = Some x.
  Proof.
    intros Hnd E Hne. cbn [step]. unfold remove_ep. destruct (has_host (host e) (eps s)); cbn [fst with_eps hring]; [|exact E].
    unfold ring_remove. apply lookup_filter; [exact Hnd|exact E|]. intros k _. cbn [snd].
    destruct (bytes_eqb (host x) (host e)) eqn:Eb; [apply bytes_eqb_eq in Eb; contradiction|reflexivity].
  Qed.

  Theorem add_minimal s e code x : NoDup (keys (hring s)) ->
    ring_lookup (hring (fst (step points ConHash weighted s (Add e 0 0)))) code = Some x -> x <> e ->
    ring_lookup (hring s) code = Some x.
  Proof.
    intros Hnd E Hne. cbn [step] in E. unfold add_ep in E. destruct (has_host (host e) (eps s)); cbn [fst with_eps hring] in E; [exact E|].
    destruct (ring_add_spec (hring s) e Hnd) as [_ B]. eapply lookup_shrink; [exact Hnd| |exact E|].
    - intros k y Hk. destruct (in_dec N.eq_dec k (pts e)) as [Hi|Hi]; [exists e|exists y]; apply B; [left|right]; auto.
    - intros k Hk. apply B in Hk. destruct Hk as [[_ Hk]|[_ Hk]]; [congruence|exact Hk].
  Qed.

  (* ---------- the ring of a set, under NoCollision ---------- *)
  Variable U : list N -> Prop.
  Definition NoCollision : Prop := forall h1 h2 n1 n2 k, U h1 -> U h2 -> In k (points h1 n1) -> In k (points h2 n2) -> h1 = h2.
  Hypothesis nocoll : NoCollision.

  Definition RI (l : list ep) (r : list (N * ep)) : Prop :=
    NoDup (keys r) /\ NoDup (map host l) /\ (forall e, In e l -> U (host e)) /\
    forall k e, In (k, e) r <-> In e l /\ In k (pts e).

  Lemma RI_nil : RI [] [].
  Proof. split; [constructor|]. split; [constructor|]. split; [intros e []|]. intros k e. cbn. tauto. Qed.

  Lemma RI_add l r e : RI l r -> U (host e) -> ~ In (host e) (map host l) -> RI (l ++ [e]) (ring_add points weighted r e).
  Proof.
    intros (A & B & C & D) Hu Hni. destruct (ring_add_spec r e A) as [A' B']. split; [exact A'|]. split; [|split].
    - rewrite map_app. cbn [map]. now apply NoDup_app_one.
    - intros x Hx. apply in_app_or in Hx. destruct Hx as [Hx|[<-|[]]]; auto.
    - intros k x. rewrite B'. rewrite D. split.
      + intros [[H1 ->]|[H1 [H2 H3]]]; (split; [apply in_or_app|]; auto). right; now left.
      + intros [Hx Hk]. apply in_app_or in Hx. destruct Hx as [Hx|[<-|[]]]; [right|left; auto]. split; [|auto].
        intros Hke. apply Hni. unfold ep_points in Hk, Hke. rewrite (nocoll _ _ _ _ _ Hu (C x Hx) Hke Hk). now apply in_map.
  Qed.

  Lemma RI_remove l r h : RI l r -> RI (remove_host h l) (ring_remove r h).
  Proof.
    intros (A & B & C & D). split; [now apply ring_remove_keys|]. split; [now apply remove_host_nodup|]. split.
    - intros e He. apply C. eapply in_remove_host; eauto.
    - intros k e. unfold ring_remove. rewrite filter_In, D. cbn [snd]. split.
      + intros [[H1 H2] H3]. split; [|exact H2]. apply in_remove_host_other; [exact H1|]. intros Heq. rewrite <- bytes_eqb_eq in Heq. rewrite Heq in H3. discriminate.
      + intros [H1 H2]. split; [split; [eapply in_remove_host; eauto|exact H2]|].
        pose proof (remove_host_not_in h l e B H1) as Hne. destruct (bytes_eqb (host e) h) eqn:Eb; [apply bytes_eqb_eq in Eb; contradiction|reflexivity].
  Qed.

  Lemma RI_add_all l1 : forall l0 r, RI l0 r -> NoDup (map host (l0 ++ l1)) -> (forall e, In e l1 -> U (host e)) ->
    RI (l0 ++ l1) (fold_left (ring_add points weighted) l1 r).
  Proof.
    induction l1 as [|e l1 IH]; intros l0 r HI Hnd Hu; cbn [fold_left]; [now rewrite app_nil_r|].
    replace (l0 ++ e :: l1) with ((l0 ++ [e]) ++ l1) in * by (rewrite <- app_assoc; reflexivity).
    apply IH; [|exact Hnd|intros x Hx; apply Hu; now right].
    apply RI_add; [exact HI|apply Hu; now left|].
    rewrite !map_app in Hnd. cbn [map] in Hnd. rewrite <- app_assoc in Hnd. cbn [app] in Hnd. apply NoDup_remove_2 in Hnd.
    intros Hin. apply Hnd. apply in_or_app. now left.
  Qed.

  Lemma RI_ring_of_set l : NoDup (map host l) -> (forall e, In e l -> U (host e)) -> RI l (ring_of_set points weighted l).
  Proof. intros Hnd Hu. apply (RI_add_all l [] [] RI_nil Hnd Hu). Qed.

  (* histories over the universe *)
  Definition op_over (o : op) : Prop :=
    match o with Refresh l _ _ => forall e, In e l -> U (host e) | Add e _ _ => U (host e) | _ => True end.

  Lemma step_RI s o : op_over o -> RI (eps s) (hring s) ->
    let s' := fst (step points ConHash weighted s o) in RI (eps s') (hring s').
  Proof.
    intros Hov HI. destruct o as [n r1 r2|e r1 r2|e r1 r2|code rnd]; cbn [step fst].
    - cbn [with_eps eps hring]. apply RI_ring_of_set; [apply refresh_eps_nodup|]. intros e He. apply Hov. now apply refresh_eps_in.
    - unfold add_ep. destruct (has_host (host e) (eps s)) eqn:Eh; cbn [fst with_eps eps hring]; [exact HI|].
      apply RI_add; [exact HI|exact Hov|]. intros Hin. apply has_host_in in Hin. congruence.
    - unfold remove_ep. destruct (has_host (host e) (eps s)) eqn:Eh; cbn [fst with_eps eps hring]; [|exact HI]. now apply RI_remove.
    - exact HI.
  Qed.

  Lemma run_RI h : forall s, Forall op_over h -> RI (eps s) (hring s) ->
    let s' := fst (run points ConHash weighted s h) in RI (eps s') (hring s').
  Proof.
    induction h as [|o h IH]; intros s Hov HI; cbn [run]; [exact HI|]. inversion Hov as [|? ? Ho Hov']; subst.
    pose proof (step_RI s o Ho HI) as H1. cbn zeta in H1. destruct (step points ConHash weighted s o) as [s1 r]. cbn [fst] in H1.
    specialize (IH s1 Hov' H1). cbn zeta in IH. destruct (run points ConHash weighted s1 h) as [s2 rs]. exact IH.
  Qed.

  Theorem state_RI h : Forall op_over h -> RI (set_of_history h) (hring (state_after points ConHash weighted h)).
  Proof.
    intros Hov. rewrite <- (state_after_eps points ConHash weighted h). apply (run_RI h sel0 Hov). exact RI_nil.
  Qed.

  Lemma RI_lookup_ext l1 r1 l2 r2 code : RI l1 r1 -> RI l2 r2 -> (forall e, In e l1 <-> In e l2) -> ring_lookup r1 code = ring_lookup r2 code.
  Proof.
    intros (A1 & _ & _ & D1) (A2 & _ & _ & D2) Hl. apply lookup_ext; [exact A1|exact A2|]. intros k x. rewrite D1, D2, Hl. tauto.
  Qed.

  (* the ring reached by a history is the ring of its set; two histories reaching the same set route alike *)
  Theorem history_ring_of_set h code : Forall op_over h ->
    ring_lookup (hring (state_after points ConHash weighted h)) code = ring_lookup (ring_of_set points weighted (set_of_history h)) code.
  Proof.
    intros Hov. pose proof (state_RI h Hov) as HI. apply (RI_lookup_ext (set_of_history h) _ (set_of_history h) _ code HI); [|tauto].
    destruct HI as (_ & B & C & _). now apply RI_ring_of_set.
  Qed.

  Theorem history_independent h1 h2 code : Forall op_over h1 -> Forall op_over h2 ->
    (forall e, In e (set_of_history h1) <-> In e (set_of_history h2)) ->
    ring_lookup (hring (state_after points ConHash weighted h1)) code = ring_lookup (hring (state_after points ConHash weighted h2)) code.
  Proof. intros H1 H2 Hs. eapply RI_lookup_ext; [apply state_RI, H1|apply state_RI, H2|exact Hs]. Qed.

  (* error exactly when no member has a virtual node *)
  Theorem conhash_error_iff h code : Forall op_over h ->
    (ring_lookup (hring (state_after points ConHash weighted h)) code = None <-> forall e, In e (set_of_history h) -> pts e = []).
  Proof.
    intros Hov. destruct (state_RI h Hov) as (_ & _ & _ & D). rewrite lookup_none. split.
    - intros Hr e He. destruct (pts e) as [|k t] eqn:Ep; [reflexivity|]. exfalso. assert (Hin : In (k, e) (hring (state_after points ConHash weighted h))) by (apply D; split; [exact He|rewrite Ep; now left]).
      rewrite Hr in Hin. destruct Hin.
    - intros Hall. destruct (hring (state_after points ConHash weighted h)) as [|[k e] t]; [reflexivity|]. exfalso.
      destruct (proj1 (D k e) (or_introl eq_refl)) as [He Hk]. rewrite (Hall e He) in Hk. destruct Hk.
  Qed.
End ring.

(* number of rounds of virtual nodes: positive exactly for a positive weight (weighted), always positive otherwise *)
Lemma ch_rounds_weighted w : ch_rounds true w = 0%nat <-> (w <= 0)%Z.
Proof.
  unfold ch_rounds. destruct (0 <? w)%Z eqn:E; [|split; [lia|reflexivity]]. destruct (Z.quot w 4 =? 0)%Z eqn:E2; [split; [discriminate|lia]|].
  split; [|lia]. intros H. assert (0 < Z.quot w 4)%Z; [|lia]. assert (0 <= Z.quot w 4)%Z by (apply Z.quot_pos; lia). lia.
Qed.
Lemma ch_rounds_unweighted w : ch_rounds false w <> 0%nat.
Proof. unfold ch_rounds. change (Z.of_N c_ConHashVirtualNodes) with 100%Z. vm_compute. discriminate. Qed.

(* ---------- without NoCollision: the order of installation decides ---------- *)
Definition coll_points (h : list N) (n : nat) : list N := match n with O => [] | S _ => [5] end.
Definition ep_a : ep := {| host := [97]; skey := [97]; wgt := 100; wty := 0 |}.
Definition ep_b : ep := {| host := [98]; skey := [98]; wgt := 100; wty := 0 |}.

Theorem collision_dependence :
  (* the same set {a, b}, installed in the two orders, routes code 0 differently *)
  ring_lookup (hring (state_after coll_points ConHash false [Refresh [ep_a; ep_b] 0 0])) 0 = Some ep_b /\
  ring_lookup (hring (state_after coll_points ConHash false [Refresh [ep_b; ep_a] 0 0])) 0 = Some ep_a /\
  (* and the set {a} reached through {a, b} has lost a's only point: Select fails although a is a member *)
  set_of_history [Refresh [ep_a; ep_b] 0 0; Remove ep_b 0 0] = [ep_a] /\
  ring_lookup (hring (state_after coll_points ConHash false [Refresh [ep_a; ep_b] 0 0; Remove ep_b 0 0])) 0 = None /\
  ring_lookup (hring (state_after coll_points ConHash false [Refresh [ep_a] 0 0])) 0 = Some ep_a.
Proof. vm_compute. repeat split; reflexivity. Qed.

(* a non-trivial instance of the hypotheses: two hosts with disjoint points *)
Definition ex_points (h : list N) (n : nat) : list N :=
  match n with O => [] | S _ => match h with [97] => [10; 200] | [98] => [20; 100] | _ => [] end end.
Definition ex_U (h : list N) : Prop := h = [97] \/ h = [98].
Example ex_nocollision : NoCollision ex_points ex_U.
Proof.
  intros h1 h2 n1 n2 k [-> | ->] [-> | ->] H1 H2; try reflexivity; exfalso; destruct n1, n2; cbn in H1, H2; lia.
Qed.
Example ex_routing :
  map (ring_lookup (hring (state_after ex_points ConHash false [Add ep_b 0 0; Add ep_a 0 0])))  [0; 10; 11; 20; 21; 100; 101; 200; 201]
  = map Some [ep_a; ep_a; ep_b; ep_b; ep_b; ep_b; ep_a; ep_a; ep_a].
Proof. vm_compute. reflexivity. Qed.

(* ---------- statements in the form used by Props/C13.v and Props/C14.v ---------- *)
Lemma ep_eq_dec (x y : ep) : {x = y} + {x <> y}.
Proof. decide equality; try apply Z.eq_dec; apply (list_eq_dec N.eq_dec). Qed.

Section props.
  Variable points : list N -> nat -> list N.

  Definition route (k : kind) (weighted : bool) (h : list op) (code : N) : res :=
    snd (select k (state_after points k weighted h) code 0).

  Lemma select_hash_pure k s code rnd : k = ModHash \/ k = ConHash -> select k s code rnd = (s, snd (select k s code 0)).
  Proof. intros [-> | ->]; unfold select; [destruct (eps s); reflexivity|reflexivity]. Qed.

  Lemma route_conhash weighted h code :
    route ConHash weighted h code =
    match ring_lookup (hring (state_after points ConHash weighted h)) (N.modulo code two32) with Some e => RSel e | None => RErr end.
  Proof. reflexivity. Qed.

  Theorem lookup_spec_iff weighted h code e : let r := hring (state_after points ConHash weighted h) in
    ring_lookup r code = Some e <-> lookup_spec r code e.
  Proof. cbn zeta. split; [apply lookup_sound|apply lookup_complete, state_keys]. Qed.

  Theorem route_history_independent weighted (U : list N -> Prop) : NoCollision points U -> forall h1 h2 code,
    Forall (op_over U) h1 -> Forall (op_over U) h2 -> (forall e, In e (set_of_history h1) <-> In e (set_of_history h2)) ->
    route ConHash weighted h1 code = route ConHash weighted h2 code.
  Proof. intros Hnc h1 h2 code H1 H2 Hs. rewrite !route_conhash. rewrite (history_independent points weighted U Hnc h1 h2 _ H1 H2 Hs). reflexivity. Qed.

  Theorem route_ring_of_set weighted (U : list N -> Prop) : NoCollision points U -> forall h code, Forall (op_over U) h ->
    route ConHash weighted h code =
    match ring_lookup (ring_of_set points weighted (set_of_history h)) (N.modulo code two32) with Some e => RSel e | None => RErr end.
  Proof. intros Hnc h code Hov. rewrite route_conhash, (history_ring_of_set points weighted U Hnc h _ Hov). reflexivity. Qed.

  Lemma state_after_snoc k weighted h o : state_after points k weighted (h ++ [o]) = fst (step points k weighted (state_after points k weighted h) o).
  Proof.
    unfold state_after. rewrite run_app. destruct (run points k weighted sel0 h) as [s1 r1]. cbn [run fst].
    destruct (step points k weighted s1 o) as [s2 r2]. reflexivity.
  Qed.

  Theorem route_remove_minimal weighted h e r1 r2 code :
    route ConHash weighted (h ++ [Remove e r1 r2]) code <> route ConHash weighted h code ->
    exists x, route ConHash weighted h code = RSel x /\ host x = host e.
  Proof.
    rewrite !route_conhash, state_after_snoc. set (s := state_after points ConHash weighted h). intros Hne.
    destruct (ring_lookup (hring s) (N.modulo code two32)) as [x|] eqn:E.
    - exists x. split; [reflexivity|]. destruct (list_eq_dec N.eq_dec (host x) (host e)) as [Heq|Hd]; [exact Heq|exfalso]. apply Hne.
      pose proof (remove_minimal points weighted s e _ x (state_keys points weighted h) E Hd) as H. cbn [step] in H |- *. rewrite H. reflexivity.
    - exfalso. apply Hne. apply lookup_none in E. cbn [step]. unfold remove_ep. destruct (has_host (host e) (eps s)); cbn [fst with_eps hring]; rewrite E; reflexivity.
  Qed.

  Theorem route_add_minimal weighted h e r1 r2 code :
    route ConHash weighted (h ++ [Add e r1 r2]) code <> route ConHash weighted h code ->
    route ConHash weighted (h ++ [Add e r1 r2]) code = RSel e.
  Proof.
    rewrite !route_conhash, state_after_snoc. set (s := state_after points ConHash weighted h). intros Hne.
    destruct (ring_lookup (hring (fst (step points ConHash weighted s (Add e r1 r2)))) (N.modulo code two32)) as [x|] eqn:E.
    - f_equal. destruct (ep_eq_dec x e) as [Heq|Hd]; [exact Heq|exfalso]. apply Hne.
      pose proof (add_minimal points weighted s e _ x (state_keys points weighted h) E Hd) as H. rewrite H. reflexivity.
    - exfalso. apply Hne. apply lookup_none in E. cbn [step] in E. unfold add_ep in E. destruct (has_host (host e) (eps s)) eqn:Eh; cbn [fst with_eps hring] in E.
      + rewrite E. reflexivity.
      + (* the ring after a successful Add is empty only if the ring before was *)
        destruct (ring_add_spec points weighted (hring s) e (state_keys points weighted h)) as [_ B].
        destruct (hring s) as [|[k y] t] eqn:Er; [reflexivity|exfalso].
        assert (Hin : exists y', In (k, y') (ring_add points weighted ((k, y) :: t) e)).
        { destruct (in_dec N.eq_dec k (ep_points points weighted e)) as [Hi|Hi]; [exists e|exists y]; apply B; [left|right]; auto. split; [exact Hi|now left]. }
        destruct Hin as (y' & Hy'). rewrite E in Hy'. destruct Hy'.
  Qed.

  Theorem route_error_iff_conhash weighted (U : list N -> Prop) : NoCollision points U ->
    (forall h n, U h -> (points h n = [] <-> n = 0%nat)) -> forall h code, Forall (op_over U) h ->
    (route ConHash weighted h code = RErr <->
     if weighted then forall e, In e (set_of_history h) -> (wgt e <= 0)%Z else set_of_history h = []).
  Proof.
    intros Hnc Hpts h code Hov. rewrite route_conhash.
    pose proof (conhash_error_iff points weighted U Hnc h (N.modulo code two32) Hov) as H.
    pose proof (state_RI points weighted U Hnc h Hov) as (_ & _ & HU & _).
    assert (Hiff : ring_lookup (hring (state_after points ConHash weighted h)) (N.modulo code two32) = None <->
                   forall e, In e (set_of_history h) -> ch_rounds weighted (wgt e) = 0%nat).
    { rewrite H. split; intros Hall e He; specialize (Hall e He); unfold ep_points in *; apply (Hpts _ _ (HU e He)); exact Hall. }
    destruct (ring_lookup _ _) eqn:El.
    - split; [discriminate|]. intros Hc. exfalso. assert (Some e = None); [|discriminate]. apply Hiff. destruct weighted.
      + intros x Hx. apply ch_rounds_weighted. now apply Hc.
      + rewrite Hc. intros x [].
    - split; [|reflexivity]. intros _. pose proof (proj1 Hiff eq_refl) as Hall. destruct weighted.
      + intros x Hx. apply ch_rounds_weighted. now apply Hall.
      + destruct (set_of_history h) as [|x t]; [reflexivity|]. exfalso. apply (ch_rounds_unweighted (wgt x)). apply Hall. now left.
  Qed.

  (* round-robin over the state a history leads to *)
  Theorem rotation_after weighted h crs : let s := state_after points RoundRobin weighted h in let l := set_of_history h in
    l <> [] -> cyc RoundRobin weighted l = [] -> length crs = length l -> (cursor s + N.of_nat (length l) < two64)%N ->
    Permutation.Permutation (snd (run points RoundRobin weighted s (selects crs))) (map RSel l).
  Proof.
    cbn zeta. intros Hne Hc Hlen Hlt. rewrite <- (state_after_eps points RoundRobin weighted h) in *.
    apply rr_rotation; [apply state_after_wf|exact Hne|rewrite state_after_cache, <- (state_after_eps points RoundRobin weighted h); exact Hc|exact Hlen|rewrite Hlen; exact Hlt].
  Qed.

  Theorem weighted_cycle_after h maxw minw : let s := state_after points RoundRobin true h in let l := set_of_history h in
    (forall e, In e l -> wty e = 1%Z /\ (0 < wgt e <= max_int32)%Z) ->
    In maxw (map wgt l) -> (forall e, In e l -> (wgt e <= maxw)%Z) -> In minw (map wgt l) -> (forall e, In e l -> (minw <= wgt e)%Z) ->
    let c := cyc RoundRobin true l in
    c <> [] /\
    (forall i e, nth_error l i = Some e -> cntz c i = Z.max 1 (wgt e * Z.min 100 (Z.max 10 (maxw / minw)) / maxw)) /\
    (forall crs, length crs = length c -> (cursor s + N.of_nat (length c) < two64)%N ->
       Permutation.Permutation (snd (run points RoundRobin true s (selects crs))) (map (fun j => RSel (nth j l dummy)) c)).
  Proof.
    cbn zeta. intros Hall Hmaxin Hmax Hminin Hmin.
    destruct (bswl_counts _ maxw minw Hall Hmaxin Hmax Hminin Hmin) as (c & a & E & Hcnt). unfold cyc. rewrite E.
    assert (Hne : set_of_history h <> []) by (intros Hn; rewrite Hn in Hmaxin; destruct Hmaxin).
    assert (Hcne : c <> []).
    { intros ->. destruct (set_of_history h) as [|e0 t] eqn:El; [congruence|]. specialize (Hcnt 0%nat e0 eq_refl). unfold cntz in Hcnt. cbn in Hcnt. lia. }
    split; [exact Hcne|]. split; [exact Hcnt|]. intros crs Hlen Hlt.
    assert (Hca : cache (state_after points RoundRobin true h) = c) by (rewrite state_after_cache; unfold cyc; rewrite E; reflexivity).
    rewrite <- (state_after_eps points RoundRobin true h), <- Hca.
    apply rr_weighted_cycle; [apply state_after_wf|rewrite state_after_eps; exact Hne|rewrite Hca; exact Hcne|rewrite Hca; exact Hlen|rewrite Hlen; exact Hlt].
  Qed.
End props.

(* ---------- concrete instances of the hypotheses of the theorems above (none of them is vacuous) ---------- *)
Example ex_points_nonempty : forall h n, ex_U h -> (ex_points h n = [] <-> n = 0%nat).
Proof. intros h n [-> | ->]; destruct n; cbn; split; intros H; try reflexivity; try discriminate. Qed.

Example ex_over : Forall (op_over ex_U) [Add ep_b 0 0; Refresh [ep_a; ep_b] 3 4; Remove ep_a 0 0; Add ep_a 1 1].
Proof.
  constructor; [cbn; unfold ex_U; tauto|]. constructor; [cbn; intros e [<-|[<-|[]]]; cbn; unfold ex_U; tauto|].
  constructor; [exact I|]. constructor; [cbn; unfold ex_U; tauto|constructor].
Qed.

Example ex_error_iff_instance code :
  route ex_points ConHash true [Add ep_b 0 0; Refresh [ep_a; ep_b] 3 4; Remove ep_a 0 0; Add ep_a 1 1] code = RErr <->
  forall e, In e (set_of_history [Add ep_b 0 0; Refresh [ep_a; ep_b] 3 4; Remove ep_a 0 0; Add ep_a 1 1]) -> (wgt e <= 0)%Z.
Proof. exact (route_error_iff_conhash ex_points true ex_U ex_nocollision ex_points_nonempty _ code ex_over). Qed.

Definition ep_c : ep := {| host := [99]; skey := [99]; wgt := 7; wty := 0 |}.
Example ex_rotation_instance : forall c1 c2 c3 : N * N,
  Permutation.Permutation
    (snd (run ex_points RoundRobin false (state_after ex_points RoundRobin false [Refresh [ep_a; ep_b; ep_c] 8 0]) (selects [c1; c2; c3])))
    (map RSel [ep_a; ep_b; ep_c]).
Proof.
  intros c1 c2 c3. apply (rotation_after ex_points false [Refresh [ep_a; ep_b; ep_c] 8 0] [c1; c2; c3]); try reflexivity. discriminate.
Qed.

Example ex_counts_instance : exists c a, build_static_weight_list ex_eps = BOk c a /\
  forall i e, nth_error ex_eps i = Some e -> cntz c i = Z.max 1 (wgt e * 100 / 1000).
Proof.
  apply (bswl_counts ex_eps 1000 1).
  - intros e [<-|[<-|[<-|[]]]]; cbn; unfold max_int32; lia.
  - cbn. tauto.
  - intros e [<-|[<-|[<-|[]]]]; cbn; lia.
  - cbn. tauto.
  - intros e [<-|[<-|[<-|[]]]]; cbn; lia.
Qed.

(* ---------- further clauses for Props/C13.v, C14.v: uniform / weight-proportional draws of random, windows of mod-hash ---------- *)
Definition image_of (c : list nat) (l : list ep) : list res :=
  match c with [] => map RSel l | _ => map (fun j => RSel (nth j l dummy)) c end.

Lemma slots_window_perm c l (p : N) : l <> [] ->
  let L := match c with [] => length l | _ => length c end in
  Permutation.Permutation (map (fun i => RSel (slot_of c l (p + N.of_nat i))) (seq 1 L)) (image_of c l).
Proof.
  intros Hne. cbn zeta. unfold slot_of, image_of. destruct c as [|c0 c'].
  - assert (E : map RSel l = map (fun j => RSel (nth j l dummy)) (seq 0 (length l))) by (rewrite <- (map_map (fun j => nth j l dummy) RSel), map_nth_seq; reflexivity).
    rewrite E. rewrite <- (map_map (fun i => N.to_nat (N.modulo (p + N.of_nat i) (N.of_nat (length l)))) (fun j => RSel (nth j l dummy))).
    apply Permutation.Permutation_map. apply window_perm. destruct l; [congruence|cbn; lia].
  - cbv iota. set (cc := c0 :: c'). assert (Hc : cc <> []) by (unfold cc; discriminate).
    assert (E : map (fun j => RSel (nth j l dummy)) cc = map (fun t => RSel (nth (nth t cc 0%nat) l dummy)) (seq 0 (length cc))) by (rewrite <- (map_map (fun t => nth t cc 0%nat) (fun j => RSel (nth j l dummy))), map_nth_seq; reflexivity).
    rewrite E. rewrite <- (map_map (fun i => N.to_nat (N.modulo (p + N.of_nat i) (N.of_nat (length cc)))) (fun t => RSel (nth (nth t cc 0%nat) l dummy))).
    apply Permutation.Permutation_map. apply window_perm. destruct cc; [congruence|cbn; lia].
Qed.

Section props2.
  Variable points : list N -> nat -> list N.

  (* random: the draw r (any value; rand.Intn reduces it) selects slot r mod L of the list resp. of the weight cycle ... *)
  Theorem random_slot weighted h code rnd : set_of_history h <> [] ->
    let l := set_of_history h in let c := cyc Random weighted l in
    snd (select Random (state_after points Random weighted h) code rnd) =
    RSel (slot_of c l (N.modulo rnd (N.of_nat (match c with [] => length l | _ => length c end)))).
  Proof.
    cbn zeta. intros Hne. rewrite <- (state_after_cache points Random weighted h). rewrite <- (state_after_eps points Random weighted h) in *.
    set (s := state_after points Random weighted h) in *. unfold select. destruct (eps s) as [|e0 t] eqn:Ee; [congruence|]. cbn [snd].
    rewrite <- Ee. rewrite (pick_slot s _ (state_after_wf points Random weighted h)) by congruence. unfold intn, cyc_len. destruct (cache s); reflexivity.
  Qed.

  (* ... so the L equally likely draws hit every endpoint exactly once (no cycle) resp. endpoint i exactly as often as the
     cycle contains it (C13_swrr_counts): selection probability proportional to the prescribed count *)
  Theorem random_draws weighted h code : set_of_history h <> [] ->
    let l := set_of_history h in let c := cyc Random weighted l in
    map (fun r => snd (select Random (state_after points Random weighted h) code (N.of_nat r)))
        (seq 0 (match c with [] => length l | _ => length c end)) = image_of c l.
  Proof.
    cbn zeta. intros Hne. set (l := set_of_history h) in *. set (c := cyc Random weighted l).
    set (L := match c with [] => length l | _ => length c end).
    assert (HL : (0 < L)%nat) by (unfold L; destruct c; [destruct l; [congruence|cbn; lia]|cbn; lia]).
    transitivity (map (fun r => RSel (slot_of c l (N.of_nat r))) (seq 0 L)).
    - apply map_ext_in. intros r Hr. apply in_seq in Hr. rewrite (random_slot weighted h code (N.of_nat r) Hne). fold l c L.
      rewrite N.mod_small by lia. reflexivity.
    - unfold image_of, slot_of, L. destruct c as [|c0 c'] eqn:Ec.
      + assert (E : map RSel l = map (fun j => RSel (nth j l dummy)) (seq 0 (length l))) by (rewrite <- (map_map (fun j => nth j l dummy) RSel), map_nth_seq; reflexivity).
        rewrite E. apply map_ext_in. intros r Hr. apply in_seq in Hr. rewrite N.mod_small by lia. now rewrite Nat2N.id.
      + set (cc := c0 :: c') in *.
        assert (E : map (fun j => RSel (nth j l dummy)) cc = map (fun t => RSel (nth (nth t cc 0%nat) l dummy)) (seq 0 (length cc))) by (rewrite <- (map_map (fun t => nth t cc 0%nat) (fun j => RSel (nth j l dummy))), map_nth_seq; reflexivity).
        rewrite E. apply map_ext_in. intros r Hr. apply in_seq in Hr. rewrite N.mod_small by lia. now rewrite Nat2N.id.
  Qed.

  (* mod-hash: any L consecutive hash codes (not wrapping 2^32) are spread over the list resp. the cycle as a rearrangement of it *)
  Theorem modhash_window weighted h (p : N) : set_of_history h <> [] ->
    let l := set_of_history h in let c := cyc ModHash weighted l in let L := match c with [] => length l | _ => length c end in
    p + N.of_nat L < two32 ->
    Permutation.Permutation (map (fun i => snd (select ModHash (state_after points ModHash weighted h) (p + N.of_nat i) 0)) (seq 1 L)) (image_of c l).
  Proof.
    cbn zeta. intros Hne Hlt. set (l := set_of_history h) in *. set (c := cyc ModHash weighted l) in *.
    set (L := match c with [] => length l | _ => length c end) in *.
    rewrite (map_ext_in _ (fun i => RSel (slot_of c l (p + N.of_nat i)))).
    - apply (slots_window_perm c l p Hne).
    - intros i Hi. apply in_seq in Hi. rewrite (modhash_slot points weighted h _ 0 Hne). fold l c. rewrite N.mod_small by lia. reflexivity.
  Qed.
End props2.
