(* The rebuild step of the three selectors with a weight table, as the CURRENT Go source has it (Gen/SelRebuild.v,
   regenerated on every run by `harness gen-selrebuild` from roundrobin / random / modhash reBuildLocked), computes what the
   hand-written model's Selectors.rebuild computes: the table is dropped and - weights enabled - recomputed from the current
   member list alone (never kept from an earlier set); round-robin re-draws its two cursors within the new lengths.
   bswl = the cycle BuildStaticWeightList returns for the member list (its own source is translated in Xlate/BSWLEquiv.v,
   SWRREquiv.v); draw k n = the k-th rand.Intn(n) of the call. *)
From Coq Require Import List NArith ZArith Bool Arith Lia.
From TarsV Require Import Base.Hex Gen.Consts Gen.SelRebuild Select.Selectors Select.WeightProofs Select.SelProofs.
Import ListNotations.

Definition cycle_of_list (l : list ep) : list nat := match build_static_weight_list l with BOk c _ => c | BPanic _ => [] end.
Definition rb_of (s : Selectors.sel) : rb := {| rb_cache := cache s; rb_pos := pos s; rb_wpos := wpos s |}.
Definition draws (r1 r2 : N) (k : nat) (n : N) : N := N.modulo (match k with O => r1 | _ => r2 end) n.

Theorem gen_rr_reBuild_model : forall weighted l r1 r2 s0, exists s', rebuild RoundRobin weighted l r1 r2 = Ok s' /\ eps s' = l /\
  gen_rr_reBuild weighted (length l) (cycle_of_list l) (draws r1 r2) s0 = rb_of s'.
Proof.
  intros weighted l r1 r2 s0. destruct (bswl_total l) as (c & a & E & _). unfold rebuild, cycle_of_list. rewrite E.
  destruct weighted; eexists; (split; [reflexivity|split; [reflexivity|]]); unfold gen_rr_reBuild, rb_of, draws, intn; cbn [cache pos wpos rb_cache rb_pos rb_wpos];
    destruct l as [|e t]; destruct c as [|c0 c']; cbn [length N.of_nat N.ltb N.compare]; reflexivity.
Qed.

Theorem gen_mh_reBuild_model : forall weighted l r1 r2 d s0, exists s', rebuild ModHash weighted l r1 r2 = Ok s' /\ eps s' = l /\
  rb_cache (gen_mh_reBuild weighted (length l) (cycle_of_list l) d s0) = cache s' /\
  rb_pos (gen_mh_reBuild weighted (length l) (cycle_of_list l) d s0) = rb_pos s0 /\ rb_wpos (gen_mh_reBuild weighted (length l) (cycle_of_list l) d s0) = rb_wpos s0.
Proof.
  intros weighted l r1 r2 d s0. destruct (bswl_total l) as (c & a & E & _). unfold rebuild, cycle_of_list. rewrite E.
  destruct weighted; eexists; (split; [reflexivity|split; [reflexivity|]]); unfold gen_mh_reBuild; cbn; repeat split; reflexivity.
Qed.

Theorem gen_rnd_reBuild_model : forall weighted l r1 r2 d s0, exists s', rebuild Random weighted l r1 r2 = Ok s' /\ eps s' = l /\
  rb_cache (gen_rnd_reBuild weighted (length l) (cycle_of_list l) d s0) = cache s' /\
  rb_pos (gen_rnd_reBuild weighted (length l) (cycle_of_list l) d s0) = rb_pos s0 /\ rb_wpos (gen_rnd_reBuild weighted (length l) (cycle_of_list l) d s0) = rb_wpos s0.
Proof.
  intros weighted l r1 r2 d s0. destruct (bswl_total l) as (c & a & E & _). unfold rebuild, cycle_of_list. rewrite E.
  destruct weighted; eexists; (split; [reflexivity|split; [reflexivity|]]); unfold gen_rnd_reBuild; cbn; repeat split; reflexivity.
Qed.

(* whatever table was there before: the new one depends on the new list only *)
Corollary gen_reBuild_forgets : forall weighted n c d s1 s2,
  rb_cache (gen_mh_reBuild weighted n c d s1) = rb_cache (gen_mh_reBuild weighted n c d s2) /\
  rb_cache (gen_rnd_reBuild weighted n c d s1) = rb_cache (gen_rnd_reBuild weighted n c d s2) /\
  gen_rr_reBuild weighted n c d s1 = gen_rr_reBuild weighted n c d s2.
Proof. intros weighted n c d s1 s2. destruct weighted; cbn; repeat split; try reflexivity; destruct (N.ltb 0 (N.of_nat n)); destruct (N.ltb 0 (N.of_nat (length c))); reflexivity. Qed.
