(* C13/C14: proofs about the selector state machines of Selectors.v over all histories:
   the member list is the abstract set of the history, no operation panics, selections are members,
   error iff the set is empty (round-robin, random, mod-hash), the mod-hash slot, strict rotation. *)
From Coq Require Import List NArith ZArith Bool Arith Lia ZifyBool Permutation.
From TarsV Require Import Base.Hex Gen.Consts Select.Selectors Select.WeightProofs.
Import ListNotations.

(* ---------- member list ---------- *)
Lemma has_host_in h l : has_host h l = true <-> In h (map host l).
Proof.
  unfold has_host. rewrite existsb_exists. split.
  - intros (e & He & E). apply bytes_eqb_eq in E. subst h. now apply in_map.
  - intros Hin. apply in_map_iff in Hin. destruct Hin as (e & <- & He). exists e. split; [exact He|]. now apply bytes_eqb_eq.
Qed.

Lemma in_remove_host h l e : In e (remove_host h l) -> In e l.
Proof. induction l as [|x l IH]; cbn; [tauto|]. destruct (bytes_eqb (host x) h); [now right|]. intros [<-|H]; [now left|right; auto]. Qed.
Lemma in_remove_host_other h l e : In e l -> host e <> h -> In e (remove_host h l).
Proof.
  induction l as [|x l IH]; cbn; [tauto|]. intros Hin Hne. destruct (bytes_eqb (host x) h) eqn:E.
  - apply bytes_eqb_eq in E. destruct Hin as [<-|Hin]; [congruence|exact Hin].
  - destruct Hin as [<-|Hin]; [now left|right; auto].
Qed.
Lemma remove_host_hosts h l x : In x (map host (remove_host h l)) -> In x (map host l).
Proof. intros H. apply in_map_iff in H. destruct H as (e & <- & He). apply in_map. eapply in_remove_host; eauto. Qed.
Lemma remove_host_nodup h l : NoDup (map host l) -> NoDup (map host (remove_host h l)).
Proof.
  induction l as [|x l IH]; cbn; intros H; [constructor|]. inversion H as [|? ? Hni Hnd]; subst.
  destruct (bytes_eqb (host x) h); [exact Hnd|]. cbn. constructor; [|auto]. intros Hin. apply Hni. eapply remove_host_hosts; eauto.
Qed.
Lemma remove_host_not_in h l e : NoDup (map host l) -> In e (remove_host h l) -> host e <> h.
Proof.
  induction l as [|x l IH]; cbn; intros Hnd; [tauto|]. inversion Hnd as [|? ? Hni Hnd']; subst.
  destruct (bytes_eqb (host x) h) eqn:E.
  - apply bytes_eqb_eq in E. subst h. intros Hin Heq. apply Hni. rewrite <- Heq. now apply in_map.
  - intros [<-|Hin]; [|auto]. intros Heq. rewrite <- bytes_eqb_eq in Heq. congruence.
Qed.

Lemma NoDup_app_one {A} (l : list A) a : NoDup l -> ~ In a l -> NoDup (l ++ [a]).
Proof.
  induction l as [|x l IH]; cbn; intros Hnd Hni; [constructor; [intros []|constructor]|].
  inversion Hnd as [|? ? Hx Hnd']; subst. constructor.
  - intros Hin. apply in_app_or in Hin. destruct Hin as [Hin|[<-|[]]]; [contradiction|]. apply Hni. now left.
  - apply IH; [exact Hnd'|]. intros H. apply Hni. now right.
Qed.

Lemma add_ep_nodup l e : NoDup (map host l) -> NoDup (map host (fst (add_ep l e))).
Proof.
  intros H. unfold add_ep. destruct (has_host (host e) l) eqn:E; cbn [fst]; [exact H|].
  rewrite map_app. cbn [map]. apply NoDup_app_one; [exact H|]. intros Hin. apply has_host_in in Hin. congruence.
Qed.

Lemma refresh_eps_gen l : forall acc, NoDup (map host acc) ->
  let r := fold_left (fun acc e => fst (add_ep acc e)) l acc in
  NoDup (map host r) /\ (forall e, In e r -> In e acc \/ In e l) /\ (forall e, In e acc -> In e r).
Proof.
  induction l as [|x l IH]; intros acc Hnd; cbn [fold_left]; [split; [exact Hnd|split; auto]|].
  destruct (IH (fst (add_ep acc x)) (add_ep_nodup acc x Hnd)) as (A & B & C). split; [exact A|split].
  - intros e He. destruct (B e He) as [H|H]; [|right; now right].
    unfold add_ep in H. destruct (has_host (host x) acc); cbn [fst] in H; [now left|].
    apply in_app_or in H. destruct H as [H|[<-|[]]]; [now left|right; now left].
  - intros e He. apply C. unfold add_ep. destruct (has_host (host x) acc); cbn [fst]; [exact He|apply in_or_app; now left].
Qed.
Lemma refresh_eps_nodup l : NoDup (map host (refresh_eps l)).
Proof. apply (refresh_eps_gen l []). constructor. Qed.
Lemma refresh_eps_in l e : In e (refresh_eps l) -> In e l.
Proof. intros H. destruct (refresh_eps_gen l [] (NoDup_nil _)) as (_ & B & _). destruct (B e H) as [[]|H']; exact H'. Qed.

(* the member list of every reachable state has pairwise distinct hosts *)
Lemma set_step_nodup l o : NoDup (map host l) -> NoDup (map host (set_step l o)).
Proof.
  intros H. destruct o as [n r1 r2|e r1 r2|e r1 r2|c r]; cbn [set_step].
  - apply refresh_eps_nodup.
  - now apply add_ep_nodup.
  - unfold remove_ep. destruct (has_host (host e) l); cbn [fst]; [now apply remove_host_nodup|exact H].
  - exact H.
Qed.
Lemma set_of_history_nodup_gen h : forall l, NoDup (map host l) -> NoDup (map host (fold_left set_step h l)).
Proof. induction h as [|o h IH]; intros l H; cbn [fold_left]; [exact H|]. apply IH. now apply set_step_nodup. Qed.
Lemma set_of_history_nodup h : NoDup (map host (set_of_history h)).
Proof. apply set_of_history_nodup_gen. constructor. Qed.

(* ---------- states ---------- *)
Section states.
  Variable points : list N -> nat -> list N.
  Notation sel := Selectors.sel.

  (* the weight cycle installed for a member list *)
  Definition cyc (k : kind) (weighted : bool) (l : list ep) : list nat :=
    match k with
    | ConHash => []
    | _ => if weighted then match build_static_weight_list l with BOk c _ => c | BPanic _ => [] end else []
    end.

  Definition wf (s : sel) : Prop :=
    (forall j, In j (cache s) -> (j < length (eps s))%nat) /\ (forall p, In p (hring s) -> In (snd p) (eps s)).

  Lemma wf_sel0 : wf sel0.
  Proof. split; cbn; tauto. Qed.

  Lemma rebuild_ok k weighted l r1 r2 : exists s', rebuild k weighted l r1 r2 = Ok s' /\ eps s' = l /\ cache s' = (if weighted then match build_static_weight_list l with BOk c _ => c | BPanic _ => [] end else []) /\ hring s' = [].
  Proof.
    unfold rebuild. destruct weighted.
    - destruct (bswl_total l) as (c & a & E & _). rewrite E. eexists. split; [reflexivity|]. cbn [eps cache hring pos]. repeat split.
    - eexists. split; [reflexivity|]. cbn [eps cache hring pos]. repeat split.
  Qed.

  Lemma rebuild_wf k weighted l r1 r2 s' : rebuild k weighted l r1 r2 = Ok s' -> wf s'.
  Proof.
    intros E. destruct (rebuild_ok k weighted l r1 r2) as (s'' & E' & He & Hc & Hr). rewrite E in E'. inversion E'; subst s''.
    split; [|rewrite Hr; intros p []]. rewrite Hc, He. destruct weighted; [|intros j []].
    destruct (bswl_total l) as (c & a & Eb & Hj & _). rewrite Eb. exact Hj.
  Qed.

  Lemma ring_set_in r k e p : In p (ring_set r k e) -> p = (k, e) \/ In p r.
  Proof.
    induction r as [|[k' e'] t IH]; cbn [ring_set]; [intros [<-|[]]; now left|].
    destruct (N.eqb k k'); cbn [In]; [intros [<-|H]; [now left|right; now right]|].
    intros [<-|H]; [right; now left|]. destruct (IH H); [now left|right; now right].
  Qed.
  Lemma ring_add_in weighted r e p : In p (ring_add points weighted r e) -> snd p = e \/ In p r.
  Proof.
    unfold ring_add. generalize (ep_points points weighted e). intros ps. revert r.
    induction ps as [|k ps IH]; intros r; cbn [fold_left]; [now right|]. intros H. destruct (IH _ H) as [H1|H1]; [now left|].
    apply ring_set_in in H1. destruct H1 as [->|H1]; [now left|now right].
  Qed.
  Lemma ring_add_all_in weighted l : forall r p, In p (fold_left (ring_add points weighted) l r) -> In (snd p) l \/ In p r.
  Proof.
    induction l as [|e l IH]; intros r p; cbn [fold_left]; [now right|]. intros H. destruct (IH _ _ H) as [H1|H1]; [left; now right|].
    apply ring_add_in in H1. destruct H1 as [H1|H1]; [left; now left|now right].
  Qed.

  Lemma pick_in s i e : pick s i = RSel e -> In e (eps s).
  Proof.
    unfold pick. destruct (cache s) as [|c0 c].
    - destruct (nth_error (eps s) _) eqn:E; [|discriminate]. intros H. inversion H; subst. eapply nth_error_In; eauto.
    - destruct (nth_error (c0 :: c) _); [|discriminate]. destruct (nth_error (eps s) n) eqn:E; [|discriminate]. intros H. inversion H; subst. eapply nth_error_In; eauto.
  Qed.
  Lemma pick_ok s i : wf s -> eps s <> [] -> exists e, pick s i = RSel e.
  Proof.
    intros [Hc _] Hne. unfold pick. destruct (cache s) as [|c0 c] eqn:Ec.
    - destruct (nth_error (eps s) _) eqn:E; [eauto|]. apply nth_error_None in E. exfalso.
      assert (N.of_nat (length (eps s)) <> 0%N) by (destruct (eps s); [congruence|cbn [length]; lia]).
      pose proof (N.mod_lt i (N.of_nat (length (eps s))) H). lia.
    - destruct (nth_error (c0 :: c) _) eqn:E.
      + apply nth_error_In in E. apply Hc in E. apply nth_error_Some in E. destruct (nth_error (eps s) n); [eauto|congruence].
      + apply nth_error_None in E. exfalso. pose proof (N.mod_lt i (N.of_nat (length (c0 :: c))) ltac:(cbn [length]; lia)). lia.
  Qed.

  Definition res_ok (r : res) : Prop := match r with RPanic _ => False | _ => True end.

  Lemma least_some (l : ring) : forall b, match fold_left (fun (b : option (N * ep)) p =>
                 match b with None => Some p | Some q => if N.ltb (fst p) (fst q) then Some p else Some q end) l b with
      | Some p => (b = Some p \/ In p l) | None => b = None /\ l = [] end.
  Proof.
    induction l as [|x l IH]; intros b; cbn [fold_left]; [destruct b; auto|].
    match goal with |- match fold_left _ l ?b' with _ => _ end => specialize (IH b'); destruct (fold_left _ l b') as [p|] end.
    - destruct IH as [H|H]; [|right; now right]. destruct b as [q|]; [destruct (N.ltb (fst x) (fst q))|]; inversion H; subst; auto; right; now left.
    - destruct IH as [H _]. destruct b as [q|]; [destruct (N.ltb (fst x) (fst q))|]; discriminate.
  Qed.
  Lemma ring_lookup_in r code e : ring_lookup r code = Some e -> exists k, In (k, e) r.
  Proof.
    unfold ring_lookup, least. pose proof (least_some (filter (fun p => N.leb code (fst p)) r) None) as H1. pose proof (least_some r None) as H2.
    destruct (fold_left _ (filter _ r) None) as [p|].
    - intros E. inversion E; subst. destruct H1 as [H1|H1]; [discriminate|]. apply filter_In in H1. exists (fst p). destruct p; tauto.
    - destruct (fold_left _ r None) as [p|]; [|discriminate]. intros E. inversion E; subst. destruct H2 as [H2|H2]; [discriminate|]. exists (fst p). destruct p; exact H2.
  Qed.

  Lemma select_spec k s code rnd : wf s ->
    let '(s', r) := select k s code rnd in
    wf s' /\ eps s' = eps s /\ cache s' = cache s /\ hring s' = hring s /\ res_ok r /\ (forall e, r = RSel e -> In e (eps s)).
  Proof.
    intros Hwf. unfold select. destruct k.
    - (* round-robin *) destruct (eps s) as [|e0 l] eqn:Ee; [repeat split; try apply Hwf; cbn; auto; discriminate|].
      destruct (cache s) as [|c0 c] eqn:Ec.
      + set (s' := {| eps := e0 :: l; cache := []; pos := _; wpos := _; hring := _ |}).
        assert (Hwf' : wf s') by (destruct Hwf as [A B]; split; cbn [eps cache hring s']; [intros j []|rewrite <- Ee; exact B]).
        repeat split; try apply Hwf'; cbn [eps cache hring s']; auto.
        * destruct (pick_ok s' (N.modulo (pos s + 1) two64) Hwf' ltac:(cbn; discriminate)) as (e & E). rewrite E. exact I.
        * intros e E. apply pick_in in E. exact E.
      + set (s' := {| eps := e0 :: l; cache := c0 :: c; pos := _; wpos := _; hring := _ |}).
        assert (Hwf' : wf s') by (destruct Hwf as [A B]; split; cbn [eps cache hring s']; [rewrite <- Ee, <- Ec; exact A|rewrite <- Ee; exact B]).
        repeat split; try apply Hwf'; cbn [eps cache hring s']; auto.
        * destruct (pick_ok s' (N.modulo (wpos s + 1) two64) Hwf' ltac:(cbn; discriminate)) as (e & E). rewrite E. exact I.
        * intros e E. apply pick_in in E. exact E.
    - (* random *) destruct (eps s) as [|e0 l] eqn:Ee; [repeat split; try apply Hwf; cbn; auto; discriminate|].
      repeat split; try apply Hwf; auto.
      + destruct (pick_ok s (intn rnd (cyc_len s)) Hwf ltac:(rewrite Ee; discriminate)) as (e & E). rewrite E. exact I.
      + intros e E. apply pick_in in E. rewrite <- Ee. exact E.
    - (* mod-hash *) destruct (eps s) as [|e0 l] eqn:Ee; [repeat split; try apply Hwf; cbn; auto; discriminate|].
      repeat split; try apply Hwf; auto.
      + destruct (pick_ok s (N.modulo code two32) Hwf ltac:(rewrite Ee; discriminate)) as (e & E). rewrite E. exact I.
      + intros e E. apply pick_in in E. rewrite <- Ee. exact E.
    - (* consistent hash *) repeat split; try apply Hwf; auto.
      + destruct (ring_lookup _ _); exact I.
      + intros e E. destruct (ring_lookup (hring s) (N.modulo code two32)) as [e'|] eqn:El; [|discriminate]. inversion E; subst e'.
        apply ring_lookup_in in El. destruct El as [kk Hk]. destruct Hwf as [_ B]. apply (B (kk, e) Hk).
  Qed.

  Lemma step_spec k weighted s o : wf s ->
    let '(s', r) := step points k weighted s o in
    wf s' /\ eps s' = set_step (eps s) o /\ res_ok r /\ (forall e, r = RSel e -> In e (eps s)).
  Proof.
    intros Hwf. destruct o as [n r1 r2|e r1 r2|e r1 r2|code rnd]; cbn [step set_step].
    - (* Refresh *) destruct k.
      1-3: match goal with |- context [rebuild ?k ?w ?l ?a ?b] => destruct (rebuild_ok k w l a b) as (s' & E & He & _); rewrite E; pose proof (rebuild_wf _ _ _ _ _ _ E) end; repeat split; try apply H; auto; discriminate.
      repeat split; cbn [eps cache hring with_eps]; auto; try discriminate; [intros j []|].
      intros p Hp. apply ring_add_all_in in Hp. destruct Hp as [Hp|[]]. exact Hp.
    - (* Add *) unfold add_ep. destruct (has_host (host e) (eps s)) eqn:Eh; cbn [fst].
      + repeat split; try apply Hwf; auto; discriminate.
      + destruct k.
        1-3: match goal with |- context [rebuild ?k ?w ?l ?a ?b] => destruct (rebuild_ok k w l a b) as (s' & E & He & _); rewrite E; pose proof (rebuild_wf _ _ _ _ _ _ E) end; repeat split; try apply H; auto; discriminate.
        repeat split; cbn [eps cache hring with_eps]; auto; try discriminate; [intros j []|].
        intros p Hp. apply ring_add_in in Hp. apply in_or_app. destruct Hp as [->|Hp]; [right; now left|left; now apply Hwf].
    - (* Remove *) unfold remove_ep. destruct (has_host (host e) (eps s)) eqn:Eh; cbn [fst].
      + destruct k.
        1-3: match goal with |- context [rebuild ?k ?w ?l ?a ?b] => destruct (rebuild_ok k w l a b) as (s' & E & He & _); rewrite E; pose proof (rebuild_wf _ _ _ _ _ _ E) end; repeat split; try apply H; auto; discriminate.
        repeat split; cbn [eps cache hring with_eps]; auto; try discriminate; [intros j []|].
        intros p Hp. unfold ring_remove in Hp. apply filter_In in Hp. destruct Hp as [Hp Hh]. apply in_remove_host_other; [now apply Hwf|].
        intros Heq. rewrite <- bytes_eqb_eq in Heq. rewrite Heq in Hh. discriminate.
      + repeat split; try apply Hwf; auto; discriminate.
    - (* Select *) pose proof (select_spec k s code rnd Hwf) as H. destruct (select k s code rnd) as [s' r]. tauto.
  Qed.

  (* the state a history leads to *)
  Definition state_after (k : kind) (weighted : bool) (h : list op) : sel := fst (run points k weighted sel0 h).

  Lemma run_spec k weighted h : forall s, wf s ->
    let '(s', rs) := run points k weighted s h in
    wf s' /\ eps s' = fold_left set_step h (eps s) /\ Forall res_ok rs.
  Proof.
    induction h as [|o h IH]; intros s Hwf; cbn [run fold_left]; [repeat split; try apply Hwf; auto|].
    pose proof (step_spec k weighted s o Hwf) as Hs. destruct (step points k weighted s o) as [s1 r].
    destruct Hs as (Hwf1 & He1 & Hr & _). specialize (IH s1 Hwf1). destruct (run points k weighted s1 h) as [s2 rs].
    destruct IH as (A & B & C). repeat split; [apply A|apply A|rewrite B, He1; reflexivity|constructor; assumption].
  Qed.

  Lemma run_app k weighted h1 h2 s : run points k weighted s (h1 ++ h2) =
    let '(s1, r1) := run points k weighted s h1 in let '(s2, r2) := run points k weighted s1 h2 in (s2, r1 ++ r2).
  Proof.
    revert s. induction h1 as [|o h1 IH]; intros s; cbn [run app].
    - destruct (run points k weighted s h2); reflexivity.
    - destruct (step points k weighted s o) as [s' r]. rewrite IH. destruct (run points k weighted s' h1) as [s1 r1].
      destruct (run points k weighted s1 h2) as [s2 r2]. reflexivity.
  Qed.

  Theorem state_after_wf k weighted h : wf (state_after k weighted h).
  Proof. unfold state_after. pose proof (run_spec k weighted h sel0 wf_sel0) as H. destruct (run points k weighted sel0 h). apply H. Qed.
  Theorem state_after_eps k weighted h : eps (state_after k weighted h) = set_of_history h.
  Proof. unfold state_after. pose proof (run_spec k weighted h sel0 wf_sel0) as H. destruct (run points k weighted sel0 h). apply H. Qed.

  (* no operation of any history panics *)
  Theorem no_panic k weighted h : Forall res_ok (snd (run points k weighted sel0 h)).
  Proof. pose proof (run_spec k weighted h sel0 wf_sel0) as H. destruct (run points k weighted sel0 h). apply H. Qed.

  (* every selection after any history returns a member of the set of that history *)
  Theorem member k weighted h code rnd e :
    snd (select k (state_after k weighted h) code rnd) = RSel e -> In e (set_of_history h).
  Proof.
    intros H. pose proof (select_spec k _ code rnd (state_after_wf k weighted h)) as Hs.
    destruct (select k (state_after k weighted h) code rnd) as [s' r]. cbn [snd] in H. rewrite <- state_after_eps with (k := k) (weighted := weighted). apply Hs. exact H.
  Qed.

  (* round-robin, random, mod-hash: an error exactly when the set is empty *)
  Theorem error_iff_empty k weighted h code rnd : k <> ConHash ->
    (snd (select k (state_after k weighted h) code rnd) = RErr <-> set_of_history h = []).
  Proof.
    intros Hk. rewrite <- state_after_eps with (k := k) (weighted := weighted). pose proof (state_after_wf k weighted h) as Hwf.
    set (s := state_after k weighted h) in *. unfold select. destruct k; try congruence; destruct (eps s) as [|e0 l] eqn:Ee; cbn [snd]; try (split; [reflexivity|auto]; fail).
    - split; [|discriminate]. destruct (cache s) as [|c0 c] eqn:Ec; cbn [snd].
      + match goal with |- pick ?s' ?i = _ -> _ => destruct (pick_ok s' i) as (e & E) end; [destruct Hwf as [A B]; split; cbn [eps cache hring]; [intros j []|rewrite <- Ee; exact B]|cbn; discriminate|rewrite E; discriminate].
      + match goal with |- pick ?s' ?i = _ -> _ => destruct (pick_ok s' i) as (e & E) end; [destruct Hwf as [A B]; split; cbn [eps cache hring]; [rewrite <- Ee, <- Ec; exact A|rewrite <- Ee; exact B]|cbn; discriminate|rewrite E; discriminate].
    - split; [|discriminate]. destruct (pick_ok s (intn rnd (cyc_len s)) Hwf ltac:(rewrite Ee; discriminate)) as (e & E). rewrite E. discriminate.
    - split; [|discriminate]. destruct (pick_ok s (N.modulo code two32) Hwf ltac:(rewrite Ee; discriminate)) as (e & E). rewrite E. discriminate.
  Qed.
End states.

(* ---------- the installed weight cycle, the slot function ---------- *)
Definition slot_of (c : list nat) (l : list ep) (i : N) : ep :=
  match c with
  | [] => nth (N.to_nat (N.modulo i (N.of_nat (length l)))) l dummy
  | _ => nth (nth (N.to_nat (N.modulo i (N.of_nat (length c)))) c 0%nat) l dummy
  end.

Section cycle.
  Variable points : list N -> nat -> list N.

  Lemma pick_slot s i : wf s -> eps s <> [] -> pick s i = RSel (slot_of (cache s) (eps s) i).
  Proof.
    intros Hwf Hne. destruct (pick_ok s i Hwf Hne) as (e & E). rewrite E. f_equal. unfold pick, slot_of in *.
    destruct (cache s) as [|c0 c].
    - destruct (nth_error (eps s) _) eqn:En; [|discriminate]. inversion E; subst. symmetry. now apply nth_error_nth.
    - destruct (nth_error (c0 :: c) _) eqn:En; [|discriminate]. rewrite (nth_error_nth _ _ 0%nat En).
      destruct (nth_error (eps s) n) eqn:En2; [|discriminate]. inversion E; subst. symmetry. now apply nth_error_nth.
  Qed.

  Definition cache_inv (k : kind) (weighted : bool) (s : Selectors.sel) : Prop := cache s = cyc k weighted (eps s).

  Lemma cyc_nil k weighted : cyc k weighted [] = [].
  Proof. destruct k, weighted; reflexivity. Qed.

  Lemma step_cache k weighted s o : wf s -> cache_inv k weighted s -> cache_inv k weighted (fst (step points k weighted s o)).
  Proof.
    intros Hwf Hc. unfold cache_inv in *. destruct o as [n r1 r2|e r1 r2|e r1 r2|code rnd]; cbn [step].
    - destruct k.
      1-3: match goal with |- context [rebuild ?k ?w ?l ?a ?b] => destruct (rebuild_ok k w l a b) as (s' & E & He & Hca & _); rewrite E end; cbn [fst]; rewrite Hca, He; reflexivity.
      reflexivity.
    - unfold add_ep. destruct (has_host (host e) (eps s)); [exact Hc|]. destruct k.
      1-3: match goal with |- context [rebuild ?k ?w ?l ?a ?b] => destruct (rebuild_ok k w l a b) as (s' & E & He & Hca & _); rewrite E end; cbn [fst]; rewrite Hca, He; reflexivity.
      reflexivity.
    - unfold remove_ep. destruct (has_host (host e) (eps s)); [|exact Hc]. destruct k.
      1-3: match goal with |- context [rebuild ?k ?w ?l ?a ?b] => destruct (rebuild_ok k w l a b) as (s' & E & He & Hca & _); rewrite E end; cbn [fst]; rewrite Hca, He; reflexivity.
      reflexivity.
    - pose proof (select_spec k s code rnd Hwf) as H. destruct (select k s code rnd) as [s' r]. cbn [fst]. destruct H as (_ & He & Hca & _). rewrite Hca, He. exact Hc.
  Qed.

  Lemma run_cache k weighted h : forall s, wf s -> cache_inv k weighted s -> cache_inv k weighted (fst (run points k weighted s h)).
  Proof.
    induction h as [|o h IH]; intros s Hwf Hc; cbn [run]; [exact Hc|].
    pose proof (step_spec points k weighted s o Hwf) as Hs. pose proof (step_cache k weighted s o Hwf Hc) as Hc1.
    destruct (step points k weighted s o) as [s1 r]. cbn [fst] in Hc1. destruct Hs as (Hwf1 & _).
    specialize (IH s1 Hwf1 Hc1). destruct (run points k weighted s1 h) as [s2 rs]. exact IH.
  Qed.

  Theorem state_after_cache k weighted h : cache (state_after points k weighted h) = cyc k weighted (set_of_history h).
  Proof.
    rewrite <- (state_after_eps points k weighted h). apply (run_cache k weighted h sel0 (wf_sel0)).
    unfold cache_inv. cbn [cache eps sel0]. now rewrite cyc_nil.
  Qed.

  (* mod-hash: code h goes to slot h mod N of the installed list, of the weight cycle when there is one *)
  Theorem modhash_slot weighted h code rnd : set_of_history h <> [] ->
    snd (select ModHash (state_after points ModHash weighted h) code rnd) =
    RSel (slot_of (cyc ModHash weighted (set_of_history h)) (set_of_history h) (N.modulo code two32)).
  Proof.
    intros Hne. rewrite <- state_after_cache. rewrite <- (state_after_eps points ModHash weighted h) in *.
    set (s := state_after points ModHash weighted h) in *. unfold select. destruct (eps s) eqn:Ee; [congruence|]. cbn [snd].
    rewrite <- Ee. apply pick_slot; [apply state_after_wf|congruence].
  Qed.

  (* ---------- round-robin: a window of consecutive selections ---------- *)
  Definition cursor (s : Selectors.sel) : N := match cache s with [] => pos s | _ => wpos s end.
  Definition selects (crs : list (N * N)) : list op := map (fun cr => Select (fst cr) (snd cr)) crs.

  Lemma rr_run weighted crs : forall s, wf s -> eps s <> [] -> (cursor s + N.of_nat (length crs) < two64)%N ->
    snd (run points RoundRobin weighted s (selects crs)) =
    map (fun i => RSel (slot_of (cache s) (eps s) (cursor s + N.of_nat i))) (seq 1 (length crs)).
  Proof.
    induction crs as [|cr crs IH]; intros s Hwf Hne Hlt; [reflexivity|]. cbn [selects map run step length] in *. fold (selects crs).
    pose proof (select_spec RoundRobin s (fst cr) (snd cr) Hwf) as Hs. unfold select in *. destruct (eps s) as [|e0 l] eqn:Ee; [congruence|].
    destruct (cache s) as [|c0 c] eqn:Ec.
    - set (s' := {| eps := e0 :: l; cache := []; pos := _; wpos := _; hring := _ |}) in *. destruct Hs as (Hwf' & _).
      assert (Hcur : cursor s' = (cursor s + 1)%N) by (unfold cursor; rewrite Ec; cbn [cache pos s']; apply N.mod_small; unfold cursor in Hlt; rewrite Ec in Hlt; lia).
      specialize (IH s' Hwf' ltac:(cbn; discriminate) ltac:(lia)). destruct (run points RoundRobin weighted s' (selects crs)) as [s2 rs]. cbn [snd] in *.
      rewrite IH. cbn [seq map]. f_equal.
      + rewrite (pick_slot s' _ Hwf' ltac:(cbn; discriminate)). cbn [cache eps s']. f_equal. f_equal. unfold cursor. rewrite Ec. apply N.mod_small. unfold cursor in Hlt; rewrite Ec in Hlt; lia.
      + rewrite <- (seq_shift (length crs) 1), map_map. apply map_ext. intros i. cbn [cache eps s']. rewrite Hcur. do 2 f_equal. lia.
    - set (s' := {| eps := e0 :: l; cache := c0 :: c; pos := _; wpos := _; hring := _ |}) in *. destruct Hs as (Hwf' & _).
      assert (Hcur : cursor s' = (cursor s + 1)%N) by (unfold cursor; rewrite Ec; cbn [cache wpos s']; apply N.mod_small; unfold cursor in Hlt; rewrite Ec in Hlt; lia).
      specialize (IH s' Hwf' ltac:(cbn; discriminate) ltac:(lia)). destruct (run points RoundRobin weighted s' (selects crs)) as [s2 rs]. cbn [snd] in *.
      rewrite IH. cbn [seq map]. f_equal.
      + rewrite (pick_slot s' _ Hwf' ltac:(cbn; discriminate)). cbn [cache eps s']. f_equal. f_equal. unfold cursor. rewrite Ec. apply N.mod_small. unfold cursor in Hlt; rewrite Ec in Hlt; lia.
      + rewrite <- (seq_shift (length crs) 1), map_map. apply map_ext. intros i. cbn [cache eps s']. rewrite Hcur. do 2 f_equal. lia.
  Qed.
End cycle.

(* a window of L consecutive cursor values visits every residue mod L exactly once *)
Lemma mod_window_inj (a b L : Z) : (0 < L)%Z -> (0 <= a <= b)%Z -> (b < a + L)%Z -> (a mod L = b mod L)%Z -> a = b.
Proof.
  intros HL Hab Hb E. pose proof (Z.div_mod a L ltac:(lia)) as Ha. pose proof (Z.div_mod b L ltac:(lia)) as Hb'.
  rewrite E in Ha. set (qa := (a / L)%Z) in *. set (qb := (b / L)%Z) in *. set (r := (b mod L)%Z) in *. assert (qb - qa = 0)%Z by nia. nia.
Qed.

Lemma NoDup_map_inj_on {A B} (f : A -> B) l : (forall x y, In x l -> In y l -> f x = f y -> x = y) -> NoDup l -> NoDup (map f l).
Proof.
  induction l as [|x l IH]; intros Hinj Hnd; cbn; [constructor|]. inversion Hnd as [|? ? Hni Hnd']; subst. constructor.
  - intros Hin. apply in_map_iff in Hin. destruct Hin as (y & E & Hy). assert (y = x) by (apply Hinj; [now right|now left|exact E]). subst y. contradiction.
  - apply IH; [|exact Hnd']. intros a b Ha Hb. apply Hinj; now right.
Qed.

Lemma window_perm (L : nat) (p : N) : (0 < L)%nat ->
  Permutation (map (fun i => N.to_nat (N.modulo (p + N.of_nat i) (N.of_nat L))) (seq 1 L)) (seq 0 L).
Proof.
  intros HL. apply NoDup_Permutation_bis.
  - apply NoDup_map_inj_on; [|apply seq_NoDup]. intros x y Hx Hy E. apply in_seq in Hx. apply in_seq in Hy.
    assert (E' : N.modulo (p + N.of_nat x) (N.of_nat L) = N.modulo (p + N.of_nat y) (N.of_nat L)) by lia.
    apply (f_equal Z.of_N) in E'. rewrite !N2Z.inj_mod in E'.
    destruct (Nat.le_ge_cases x y).
    + assert (Z.of_N (p + N.of_nat x) = Z.of_N (p + N.of_nat y)) by (apply (mod_window_inj _ _ (Z.of_N (N.of_nat L))); [lia|lia|lia|exact E']). lia.
    + assert (Z.of_N (p + N.of_nat y) = Z.of_N (p + N.of_nat x)) by (apply (mod_window_inj _ _ (Z.of_N (N.of_nat L))); [lia|lia|lia|symmetry; exact E']). lia.
  - rewrite map_length, !seq_length. lia.
  - intros j Hj. apply in_map_iff in Hj. destruct Hj as (i & <- & _). apply in_seq.
    pose proof (N.mod_lt (p + N.of_nat i) (N.of_nat L) ltac:(lia)) as Hm. set (m := N.modulo (p + N.of_nat i) (N.of_nat L)) in *. clearbody m. lia.
Qed.

Lemma map_nth_seq {A} (l : list A) d : map (fun j => nth j l d) (seq 0 (length l)) = l.
Proof.
  induction l as [|x l IH]; [reflexivity|]. cbn [length seq map nth]. f_equal. rewrite <- seq_shift, map_map. exact IH.
Qed.

Section rotation.
  Variable points : list N -> nat -> list N.

  (* strict rotation: n consecutive selections over an unchanged n-endpoint set (no weight cycle installed) are a
     rearrangement of the set: each endpoint exactly once *)
  Theorem rr_rotation weighted s crs : wf s -> eps s <> [] -> cache s = [] -> length crs = length (eps s) ->
    (cursor s + N.of_nat (length crs) < two64)%N ->
    Permutation (snd (run points RoundRobin weighted s (selects crs))) (map RSel (eps s)).
  Proof.
    intros Hwf Hne Hc Hlen Hlt. rewrite (rr_run points weighted crs s Hwf Hne Hlt). rewrite Hc, Hlen. unfold slot_of.
    set (l := eps s) in *.
    assert (E : map RSel l = map (fun j => RSel (nth j l dummy)) (seq 0 (length l))) by (rewrite <- (map_map (fun j => nth j l dummy) RSel), map_nth_seq; reflexivity).
    rewrite E.
    rewrite <- (map_map (fun i => N.to_nat (N.modulo (cursor s + N.of_nat i) (N.of_nat (length l)))) (fun j => RSel (nth j l dummy))).
    apply Permutation_map. apply window_perm. destruct l; [congruence|cbn; lia].
  Qed.

  (* with a weight cycle installed: a window as long as the cycle is a rearrangement of the cycle *)
  Theorem rr_weighted_cycle weighted s crs : wf s -> eps s <> [] -> cache s <> [] -> length crs = length (cache s) ->
    (cursor s + N.of_nat (length crs) < two64)%N ->
    Permutation (snd (run points RoundRobin weighted s (selects crs))) (map (fun j => RSel (nth j (eps s) dummy)) (cache s)).
  Proof.
    intros Hwf Hne Hc Hlen Hlt. rewrite (rr_run points weighted crs s Hwf Hne Hlt). rewrite Hlen. unfold slot_of.
    set (l := eps s) in *. set (c := cache s) in *. destruct c as [|c0 c'] eqn:Ec; [congruence|]. rewrite <- Ec in *. clear Ec c0 c'.
    assert (E : map (fun j => RSel (nth j l dummy)) c = map (fun t => RSel (nth (nth t c 0%nat) l dummy)) (seq 0 (length c))) by (rewrite <- (map_map (fun t => nth t c 0%nat) (fun j => RSel (nth j l dummy))), map_nth_seq; reflexivity).
    rewrite E.
    rewrite <- (map_map (fun i => N.to_nat (N.modulo (cursor s + N.of_nat i) (N.of_nat (length c)))) (fun t => RSel (nth (nth t c 0%nat) l dummy))).
    apply Permutation_map. apply window_perm. destruct c; [congruence|cbn; lia].
  Qed.
End rotation.
