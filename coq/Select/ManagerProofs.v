(* C14 at manager level: the manager's routing state is a function of the last non-empty registry answer alone, so two
   clients whose registry histories end in the same answer route every (hash type, code) alike; for consistent hashing
   (NoCollision) it is enough that the two answers contain the same endpoints, in any order. *)
From Coq Require Import List NArith ZArith Bool Lia.
From TarsV Require Import Base.Hex Gen.Consts Select.Selectors Select.WeightProofs Select.SelProofs Select.RingProofs Select.Manager.
Import ListNotations.

Lemma ep_eqb_eq a b : ep_eqb a b = true <-> a = b.
Proof.
  unfold ep_eqb. rewrite !andb_true_iff, !bytes_eqb_eq, !Z.eqb_eq. destruct a, b; cbn. split.
  - intros [[[-> ->] ->] ->]. reflexivity.
  - intros H. inversion H. auto.
Qed.
Lemma eps_eqb_eq a b : eps_eqb a b = true <-> a = b.
Proof. apply list_eqb_eq. apply ep_eqb_eq. Qed.

Section manager.
  Variable order : list ep -> list ep.

  Definition mgr_of (a : list ep) : mgr :=
    match a with [] => mgr0 | _ => {| m_raw := a; m_eps := order a; m_weighted := weight_mode a |} end.

  Lemma mgr_refresh_of a answer : mgr_refresh order (mgr_of a) answer = mgr_of (last_answer [answer] a).
  Proof.
    unfold mgr_refresh. destruct (eps_eqb answer (m_raw (mgr_of a))) eqn:E.
    - apply eps_eqb_eq in E. destruct answer as [|x t]; cbn [last_answer]; [reflexivity|].
      destruct a as [|y u]; cbn [mgr_of m_raw] in E; [discriminate|]. rewrite E. reflexivity.
    - destruct answer as [|x t]; reflexivity.
  Qed.

  (* history independence over refresh histories: whatever the registry said earlier *)
  Theorem mgr_state_last answers : mgr_state order answers = mgr_of (last_answer answers []).
  Proof.
    unfold mgr_state. change mgr0 with (mgr_of []). generalize (@nil ep) as a. induction answers as [|x r IH]; intros a; cbn [fold_left last_answer]; [reflexivity|].
    rewrite mgr_refresh_of. cbn [last_answer]. destruct x; apply IH.
  Qed.

  Variable points : list N -> nat -> list N.

  Theorem mgr_route_history_independent as1 as2 k code :
    last_answer as1 [] = last_answer as2 [] ->
    mgr_route points (mgr_state order as1) k code = mgr_route points (mgr_state order as2) k code.
  Proof. intros E. rewrite !mgr_state_last, E. reflexivity. Qed.

  (* the weight mode is recomputed from scratch: it is the mode of the last non-empty answer *)
  Theorem mgr_weight_mode answers : m_weighted (mgr_state order answers) = weight_mode (last_answer answers []).
  Proof. rewrite mgr_state_last. destruct (last_answer answers []); reflexivity. Qed.

  (* refresh while endpoints are out: nobody out = the plain refresh; otherwise exactly the listed endpoints that are not
     out are installed, and every selector kind routes only to those *)
  Lemma mgr_refresh_h_nil m answer : mgr_refresh_h order [] m answer = mgr_refresh order m answer.
  Proof.
    unfold mgr_refresh_h, mgr_refresh. destruct (eps_eqb answer (m_raw m)); [reflexivity|]. destruct answer as [|x t]; [reflexivity|].
    f_equal. f_equal. assert (H : forall l : list ep, filter (fun e => negb (is_down [] e)) l = l) by (unfold is_down; induction l as [|y l IH]; simpl in *; [reflexivity|f_equal; exact IH]).
    apply H.
  Qed.

  Theorem mgr_refresh_h_installed down m answer : (forall l e, In e (order l) <-> In e l) ->
    answer <> [] -> answer <> m_raw m -> forall e,
    In e (m_eps (mgr_refresh_h order down m answer)) <-> In e answer /\ is_down down e = false.
  Proof.
    intros Hord Hne Hch e. unfold mgr_refresh_h. destruct (eps_eqb answer (m_raw m)) eqn:E; [apply eps_eqb_eq in E; contradiction|].
    destruct answer as [|x t]; [contradiction|]. cbn [m_eps]. rewrite Hord, filter_In. destruct (is_down down e); cbn; intuition congruence.
  Qed.

  Theorem mgr_route_excludes_down down m answer k code e : (forall l e, In e (order l) <-> In e l) ->
    answer <> [] -> answer <> m_raw m ->
    mgr_route points (mgr_refresh_h order down m answer) k code = RSel e -> In e answer /\ is_down down e = false.
  Proof.
    intros Hord Hne Hch Hr. apply (mgr_refresh_h_installed down m answer Hord Hne Hch).
    set (m' := mgr_refresh_h order down m answer) in *. unfold mgr_route in Hr.
    pose proof (member points k (m_weighted m') [Refresh (m_eps m') 0 0] code 0 e) as Hm.
    pose proof (state_after_snoc points k (m_weighted m') [] (Refresh (m_eps m') 0 0)) as Hs. cbn [app] in Hs.
    change (state_after points k (m_weighted m') []) with sel0 in Hs. rewrite Hs in Hm.
    specialize (Hm Hr). unfold set_of_history in Hm. cbn [fold_left set_step] in Hm. now apply refresh_eps_in.
  Qed.

  (* consistent hashing: the same endpoints in the two final answers, in any order and whatever [order] does with them,
     as long as it keeps the elements *)
  Theorem mgr_conhash_same_set (U : list N -> Prop) : NoCollision points U -> (forall l e, In e (order l) <-> In e l) ->
    forall as1 as2 code, let a1 := last_answer as1 [] in let a2 := last_answer as2 [] in
    (forall e, In e a1 -> U (host e)) -> (forall e, In e a2 -> U (host e)) ->
    (forall e, In e (refresh_eps (order a1)) <-> In e (refresh_eps (order a2))) -> weight_mode a1 = weight_mode a2 ->
    mgr_route points (mgr_state order as1) ConHash code = mgr_route points (mgr_state order as2) ConHash code.
  Proof.
    cbn zeta. intros Hnc Hord as1 as2 code H1 H2 Hset Hw. rewrite !mgr_state_last.
    set (a1 := last_answer as1 []) in *. set (a2 := last_answer as2 []) in *.
    assert (Hm : forall a, m_weighted (mgr_of a) = weight_mode a) by (intros [|x t]; reflexivity).
    assert (He : forall a, m_eps (mgr_of a) = order a).
    { intros [|x t]; [|reflexivity]. cbn [mgr_of m_eps mgr0]. destruct (order []) as [|e0 t0] eqn:Eo; [reflexivity|].
      exfalso. apply (proj1 (Hord [] e0)). rewrite Eo. now left. }
    unfold mgr_route. rewrite !Hm, !He, <- Hw.
    pose proof (route_history_independent points (weight_mode a1) U Hnc [Refresh (order a1) 0 0] [Refresh (order a2) 0 0] code) as R.
    unfold route, state_after in R. cbn [run step fst snd] in R |- *. apply R.
    - constructor; [|constructor]. intros e Hin. apply H1, Hord, Hin.
    - constructor; [|constructor]. intros e Hin. apply H2, Hord, Hin.
    - unfold set_of_history. cbn [fold_left set_step]. exact Hset.
  Qed.
End manager.

(* the defect seeded as C14-m3, for the record: a manager that keeps the previous weight mode when the answer is mixed
   routes differently from a fresh one - the model above does not, by mgr_state_last *)
Example weight_mode_examples :
  weight_mode [ep_w 97 100; ep_w 98 100] = true /\
  weight_mode [ep_w 97 100; {| host := [99%N]; skey := [99%N]; wgt := 0; wty := 0 |}] = false /\
  weight_mode [{| host := [99%N]; skey := [99%N]; wgt := 0; wty := 0 |}] = false /\ weight_mode [] = false.
Proof. vm_compute. repeat split; reflexivity. Qed.
