(* C13/C14 model: the four selectors (round-robin, random, mod-hash, consistent hash) as sequential state
   machines over Refresh / Add / Remove / Select, and selector.BuildStaticWeightList as repaired.
   Endpoints are identified by host (HashKey); skey is Endpoint.String() (tie-break of the weight cycle). *)
From Coq Require Import List NArith ZArith Bool Arith Lia.
From TarsV Require Import Base.Hex.
Import ListNotations.
Open Scope Z_scope.

Record ep := { host : list N; skey : list N; wgt : Z; wty : Z }.

Fixpoint bytes_ltb (a b : list N) : bool :=       (* Go string < *)
  match a, b with
  | _, [] => false
  | [], _ :: _ => true
  | x :: a', y :: b' => if N.ltb x y then true else if N.ltb y x then false else bytes_ltb a' b'
  end.

Definition has_host (h : list N) (l : list ep) : bool := existsb (fun e => bytes_eqb (host e) h) l.

(* addLocked / Add: append unless the host is already there; Remove: drop the first entry with that host *)
Definition add_ep (l : list ep) (e : ep) : list ep * bool :=
  if has_host (host e) l then (l, false) else (l ++ [e], true).
Fixpoint remove_host (h : list N) (l : list ep) : list ep :=
  match l with
  | [] => []
  | e :: r => if bytes_eqb (host e) h then r else e :: remove_host h r
  end.
Definition remove_ep (l : list ep) (e : ep) : list ep * bool :=
  if has_host (host e) l then (remove_host (host e) l, true) else (l, false).
Definition refresh_eps (l : list ep) : list ep := fold_left (fun acc e => fst (add_ep acc e)) l [].

(* ---------- BuildStaticWeightList ---------- *)
Definition min_static : Z := 10.
Definition max_static : Z := 100.

Definition zmax_list (l : list Z) (d : Z) : Z := fold_left Z.max l d.
Definition zmin_list (l : list Z) (d : Z) : Z := fold_left Z.min l d.

(* candidates of one smooth-weighted-round-robin round: (current value, index) *)
Definition better (eps : list ep) (a b : Z * nat) : bool :=
  (* is a after b in the ascending sort, i.e. the larger one: greater value, ties by greater String() *)
  if fst b <? fst a then true else if fst a <? fst b then false
  else bytes_ltb (skey (nth (snd b) eps {| host := []; skey := []; wgt := 0; wty := 0 |}))
                 (skey (nth (snd a) eps {| host := []; skey := []; wgt := 0; wty := 0 |})).

Fixpoint pick_max (eps : list ep) (best : Z * nat) (l : list (Z * nat)) : Z * nat :=
  match l with [] => best | c :: r => pick_max eps (if better eps c best then c else best) r end.

Definition swrr_round (eps : list ep) (total : Z) (wof : nat -> Z) (cur : list (Z * nat)) : option nat * list (Z * nat) :=
  match cur with
  | [] => (None, [])
  | c0 :: r =>
      let m := pick_max eps c0 r in
      (Some (snd m),
       map (fun c => if Nat.eqb (snd c) (snd m) then (fst c - total + wof (snd c), snd c) else (fst c + wof (snd c), snd c)) cur)
  end.

Fixpoint swrr_rounds (n : nat) (eps : list ep) (total : Z) (wof : nat -> Z) (cur : list (Z * nat)) : list nat :=
  match n with
  | O => []
  | S k => match swrr_round eps total wof cur with
           | (Some i, cur') => i :: swrr_rounds k eps total wof cur'
           | (None, _) => []
           end
  end.

Fixpoint indexed {A} (i : nat) (l : list A) : list (nat * A) :=
  match l with [] => [] | x :: r => (i, x) :: indexed (S i) r end.

(* Go int division truncates toward zero *)
Definition build_static_weight_list (eps : list ep) : list nat :=
  if existsb (fun e => negb (wty e =? 1)) eps then []          (* some endpoint is not static-weighted: nil *)
  else
    let ws := map wgt eps in
    let maxw := zmax_list ws (-2147483648) in
    let minw := zmin_list ws 2147483647 in
    if maxw <=? 0 then []                                      (* repaired: no positive weight *)
    else
      let '(range, total0) :=
        if 0 <? minw then (Z.min max_static (Z.max min_static (Z.quot maxw minw)), 0) else (1, 1) in
      let scaled := map (fun p => (fst p, Z.quot (wgt (snd p) * range) maxw)) (indexed 0 eps) in
      let zeros := map fst (filter (fun p => snd p <=? 0) scaled) in
      let pos := filter (fun p => 0 <? snd p) scaled in
      let total := total0 + fold_left Z.add (map snd pos) 0 in
      let wof := fun i => match find (fun p => Nat.eqb (fst p) i) pos with Some p => snd p | None => 0 end in
      zeros ++ swrr_rounds (Z.to_nat total) eps total wof (map (fun p => (snd p, fst p)) pos).

(* ---------- selectors ---------- *)
Inductive kind := RoundRobin | Random | ModHash | ConHash.
Record sel := { eps : list ep; cache : list nat }.
Definition rebuild (weighted : bool) (l : list ep) : sel :=
  {| eps := l; cache := if weighted then build_static_weight_list l else [] |}.

Definition dummy : ep := {| host := []; skey := []; wgt := 0; wty := 0 |}.

(* the list a cursor walks over: the weighted cycle when there is one, else the endpoints in order *)
Definition cycle (s : sel) : list ep :=
  match cache s with
  | [] => eps s
  | c => map (fun i => nth i (eps s) dummy) c
  end.

(* mod-hash: slot h mod N of the installed list / weighted cycle *)
Definition modhash_select (s : sel) (code : N) : option ep :=
  match eps s with
  | [] => None
  | _ => Some (nth (N.to_nat (N.modulo code (N.of_nat (length (cycle s))))) (cycle s) dummy)
  end.

(* round-robin: the i-th selection after a rebuild that started at position p (cursor is incremented first; uint64 wrap) *)
Definition rr_select (s : sel) (p : N) (i : N) : option ep :=
  match eps s with
  | [] => None
  | _ => Some (nth (N.to_nat (N.modulo (N.modulo (p + i) 18446744073709551616) (N.of_nat (length (cycle s))))) (cycle s) dummy)
  end.

(* ---------- consistent hash: the ring as the code builds it, hash points supplied by the implementation ---------- *)
(* points h k : the virtual-node keys of host h for k rounds (abstract: md5-derived in the code) *)
Section ring.
  Variable points : list N -> nat -> list N.

  Definition ch_rounds (weighted : bool) (w : Z) : nat :=
    let x := if weighted then w else 100 in
    if 0 <? x then (let q := Z.quot x 4 in if q =? 0 then 1%nat else Z.to_nat q) else 0%nat.

  (* hashRing: point -> owner, later insert overwrites, delete removes the key *)
  Definition ring := list (N * list N).
  Fixpoint ring_set (r : ring) (k : N) (h : list N) : ring :=
    match r with
    | [] => [(k, h)]
    | (k', h') :: t => if N.eqb k k' then (k, h) :: t else (k', h') :: ring_set t k h
    end.
  Definition ring_del (r : ring) (k : N) : ring := filter (fun p => negb (N.eqb (fst p) k)) r.
  Definition ring_add (weighted : bool) (r : ring) (e : ep) : ring :=
    fold_left (fun acc k => ring_set acc k (host e)) (points (host e) (ch_rounds weighted (wgt e))) r.
  Definition ring_remove (weighted : bool) (r : ring) (e : ep) : ring :=
    fold_left ring_del (points (host e) (ch_rounds weighted (wgt e))) r.

  (* lookup: owner of the least point >= code, else of the least point *)
  Definition ring_lookup (r : ring) (code : N) : option (list N) :=
    let ge := filter (fun p => N.leb code (fst p)) r in
    let least (l : ring) := fold_left (fun (b : option (N * list N)) p =>
                               match b with None => Some p | Some q => if N.ltb (fst p) (fst q) then Some p else Some q end) l None in
    match least ge with
    | Some p => Some (snd p)
    | None => match least r with Some p => Some (snd p) | None => None end
    end.
End ring.
