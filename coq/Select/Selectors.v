(* C13/C14 model: the four selectors of tars/selector (round-robin, random, mod-hash, consistent hash) as
   sequential state machines over Refresh / Add / Remove / Select, and selector.BuildStaticWeightList.
   Definitions only.  Endpoints are identified by host (Endpoint.HashKey); skey is Endpoint.String(), the
   tie-break of the weight cycle.  Go panics (division by zero, make with a negative capacity, index out of
   range) are explicit outcomes; random draws (rand.Intn at rebuild and in random.Select) are oracle arguments
   of the operations; the md5-derived virtual nodes of the consistent hash are a Section variable. *)
From Coq Require Import List NArith ZArith Bool Arith Lia.
From TarsV Require Import Base.Hex Gen.Consts.
Import ListNotations.
Open Scope Z_scope.

Record ep := { host : list N; skey : list N; wgt : Z; wty : Z }.
Definition dummy : ep := {| host := []; skey := []; wgt := 0; wty := 0 |}.

Fixpoint bytes_ltb (a b : list N) : bool :=       (* Go string < *)
  match a, b with
  | _, [] => false
  | [], _ :: _ => true
  | x :: a', y :: b' => if N.ltb x y then true else if N.ltb y x then false else bytes_ltb a' b'
  end.

(* ---------- member list + host set (the same four functions in each selector) ---------- *)
Definition has_host (h : list N) (l : list ep) : bool := existsb (fun e => bytes_eqb (host e) h) l.

(* addLocked: append unless the host is already there; Remove: drop the first entry with that host *)
Definition add_ep (l : list ep) (e : ep) : list ep * bool :=
  if has_host (host e) l then (l, false) else (l ++ [e], true).
Fixpoint remove_host (h : list N) (l : list ep) : list ep :=
  match l with
  | [] => []
  | e :: r => if bytes_eqb (host e) h then r else e :: remove_host h r
  end.
Definition remove_ep (l : list ep) (e : ep) : list ep * bool :=
  if has_host (host e) l then (remove_host (host e) l, true) else (l, false).
Definition refresh_eps (l : list ep) : list ep := fold_left (fun acc e => fst (add_ep acc e)) l [].

(* ---------- BuildStaticWeightList ---------- *)
Inductive psite := DivByZero | MakeSliceCap | IndexRange.
Inductive outcome (A : Type) := Ok (a : A) | Panic (s : psite).
Arguments Ok {A} a.
Arguments Panic {A} s.

Definition min_static : Z := Z.of_N c_minStaticWeightLimit.
Definition max_static : Z := Z.of_N c_maxStaticWeightLimit.
Definition max_int32 : Z := 2147483647.
Definition min_int32 : Z := -2147483648.

(* Go integer division: truncates toward zero, panics on a zero divisor *)
Definition go_div (a b : Z) : outcome Z := if b =? 0 then Panic DivByZero else Ok (Z.quot a b).

(* candidates of one smooth-weighted-round-robin round: (current value, endpoint index) *)
Definition better (l : list ep) (a b : Z * nat) : bool :=
  (* a sorts after b in the ascending sort (value, then String()), i.e. a is taken before b *)
  if fst b <? fst a then true else if fst a <? fst b then false
  else bytes_ltb (skey (nth (snd b) l dummy)) (skey (nth (snd a) l dummy)).

Fixpoint pick_max (l : list ep) (best : Z * nat) (cs : list (Z * nat)) : Z * nat :=
  match cs with [] => best | c :: r => pick_max l (if better l c best then c else best) r end.

(* idToWeight: a Go map read, 0 when the key is absent *)
Definition wof (pos : list (nat * Z)) (i : nat) : Z :=
  match find (fun p => Nat.eqb (fst p) i) pos with Some p => snd p | None => 0 end.

Definition swrr_step (total : Z) (w : nat -> Z) (j : nat) (cur : list (Z * nat)) : list (Z * nat) :=
  map (fun c => if Nat.eqb (snd c) j then (fst c - total + w (snd c), snd c) else (fst c + w (snd c), snd c)) cur.

Fixpoint swrr_rounds (n : nat) (l : list ep) (total : Z) (w : nat -> Z) (cur : list (Z * nat)) : list nat :=
  match n with
  | O => []
  | S k => match cur with
           | [] => []                                   (* nothing to append in this and all later rounds *)
           | c0 :: r => let j := snd (pick_max l c0 r) in j :: swrr_rounds k l total w (swrr_step total w j cur)
           end
  end.

Fixpoint indexed {A} (i : nat) (l : list A) : list (nat * A) :=
  match l with [] => [] | x :: r => (i, x) :: indexed (S i) r end.

Fixpoint scale_all (range maxw : Z) (l : list (nat * ep)) : outcome (list (nat * Z)) :=
  match l with
  | [] => Ok []
  | (i, e) :: r =>
      match go_div (wgt e * range) maxw with
      | Panic s => Panic s
      | Ok q => match scale_all range maxw r with Panic s => Panic s | Ok t => Ok ((i, q) :: t) end
      end
  end.

Definition clamp_range (q : Z) : Z :=
  let q := if q <? min_static then min_static else q in
  if max_static <? q then max_static else q.

(* result: the cycle of endpoint indexes, and the number of int slots asked from the allocator
   (capacity passed to make + entries appended) *)
Inductive bres := BOk (cache : list nat) (alloc : Z) | BPanic (s : psite).

(* repaired = true : the code in the tree (fix 675061a): returns nil when no weight is positive, capacity = len(endpoints)
   repaired = false: the code as pinned: no guard, capacity = sum of the raw weights + 100 *)
Definition bswl_gen (repaired : bool) (l : list ep) : bres :=
  if existsb (fun e => negb (wty e =? 1)) l then BOk [] 0          (* some endpoint is not static-weighted: nil *)
  else
    let ws := map wgt l in
    let maxw := fold_left Z.max ws min_int32 in
    let minw := fold_left Z.min ws max_int32 in
    if repaired && (maxw <=? 0) then BOk [] 0
    else
      match (if 0 <? minw then match go_div maxw minw with Ok q => Ok (clamp_range q, 0) | Panic s => Panic s end
             else Ok (1, 1)) with
      | Panic s => BPanic s
      | Ok (range, total0) =>
          let cap := if repaired then Z.of_nat (length l) else fold_left Z.add ws 0 + 100 in
          if cap <? 0 then BPanic MakeSliceCap
          else
            match scale_all range maxw (indexed 0 l) with
            | Panic s => BPanic s
            | Ok scaled =>
                let zeros := map fst (filter (fun p => snd p <=? 0) scaled) in
                let pos := filter (fun p => 0 <? snd p) scaled in
                let total := total0 + fold_left Z.add (map snd pos) 0 in
                let cache := zeros ++ swrr_rounds (Z.to_nat total) l total (wof pos) (map (fun p => (snd p, fst p)) pos) in
                BOk cache (cap + Z.of_nat (length cache))
            end
      end.

Definition build_static_weight_list := bswl_gen true.

(* ---------- selectors ---------- *)
Inductive kind := RoundRobin | Random | ModHash | ConHash.

Section selectors.
  (* points h k : the virtual-node keys of host h for k rounds (md5-derived in the code; abstract here) *)
  Variable points : list N -> nat -> list N.

  Definition ring := list (N * ep).                      (* hashRing: point -> owner *)
  Record sel := { eps : list ep; cache : list nat; pos : N; wpos : N; hring : ring }.
  Definition sel0 : sel := {| eps := []; cache := []; pos := 0; wpos := 0; hring := [] |}.

  Definition ch_rounds (weighted : bool) (w : Z) : nat :=
    let x := if weighted then w else Z.of_N c_ConHashVirtualNodes in
    if 0 <? x then (let q := Z.quot x 4 in if q =? 0 then 1%nat else Z.to_nat q) else 0%nat.

  (* later insert overwrites, as the Go map does *)
  Fixpoint ring_set (r : ring) (k : N) (e : ep) : ring :=
    match r with
    | [] => [(k, e)]
    | (k', e') :: t => if N.eqb k k' then (k, e) :: t else (k', e') :: ring_set t k e
    end.
  Definition ep_points (weighted : bool) (e : ep) : list N := points (host e) (ch_rounds weighted (wgt e)).
  Definition ring_add (weighted : bool) (r : ring) (e : ep) : ring :=
    fold_left (fun acc k => ring_set acc k e) (ep_points weighted e) r.
  (* Remove: every virtual node owned by that host goes *)
  Definition ring_remove (r : ring) (h : list N) : ring := filter (fun p => negb (bytes_eqb (host (snd p)) h)) r.

  (* lookup: owner of the least point >= code, else of the least point (sort.Search over the sorted keys, wrapping) *)
  Definition least (l : ring) : option (N * ep) :=
    fold_left (fun (b : option (N * ep)) p =>
                 match b with None => Some p | Some q => if N.ltb (fst p) (fst q) then Some p else Some q end) l None.
  Definition ring_lookup (r : ring) (code : N) : option ep :=
    match least (filter (fun p => N.leb code (fst p)) r) with
    | Some p => Some (snd p)
    | None => match least r with Some p => Some (snd p) | None => None end
    end.

  Definition two64 : N := 18446744073709551616.
  Definition two32 : N := 4294967296.
  Definition intn (r : N) (n : nat) : N := N.modulo r (N.of_nat n).     (* rand.Intn(n), n > 0 *)

  (* reBuildLocked (round-robin, random, mod-hash); r1 r2: the two draws of the round-robin rebuild *)
  Definition rebuild (k : kind) (weighted : bool) (l : list ep) (r1 r2 : N) : outcome sel :=
    match (if weighted then build_static_weight_list l else BOk [] 0) with
    | BPanic s => Panic s
    | BOk c _ =>
        Ok {| eps := l; cache := c;
              pos := match k, l with RoundRobin, _ :: _ => intn r1 (length l) | _, _ => 0 end;
              wpos := match k, c with RoundRobin, _ :: _ => intn r2 (length c) | _, _ => 0 end;
              hring := [] |}
    end.

  Inductive op :=
  | Refresh (l : list ep) (r1 r2 : N)
  | Add (e : ep) (r1 r2 : N)
  | Remove (e : ep) (r1 r2 : N)
  | Select (code : N) (rnd : N).

  Inductive res := RDone | RAdded (ok : bool) | RRemoved (ok : bool) | RSel (e : ep) | RErr | RPanic (s : psite).

  (* endpoints[cache[i mod len cache]] resp. endpoints[i mod len] with Go's bounds checks *)
  Definition pick (s : sel) (i : N) : res :=
    match cache s with
    | [] => match nth_error (eps s) (N.to_nat (N.modulo i (N.of_nat (length (eps s))))) with
            | Some e => RSel e | None => RPanic IndexRange end
    | c => match nth_error c (N.to_nat (N.modulo i (N.of_nat (length c)))) with
           | None => RPanic IndexRange
           | Some j => match nth_error (eps s) j with Some e => RSel e | None => RPanic IndexRange end
           end
    end.

  (* length of what a cursor walks over: the weighted cycle when there is one, else the member list *)
  Definition cyc_len (s : sel) : nat := match cache s with [] => length (eps s) | c => length c end.

  Definition select (k : kind) (s : sel) (code rnd : N) : sel * res :=
    match k with
    | ConHash => (s, match ring_lookup (hring s) (N.modulo code two32) with Some e => RSel e | None => RErr end)
    | _ =>
        match eps s with
        | [] => (s, RErr)
        | _ =>
            match k with
            | RoundRobin =>
                match cache s with
                | [] => let p := N.modulo (pos s + 1) two64 in
                        let s' := {| eps := eps s; cache := cache s; pos := p; wpos := wpos s; hring := hring s |} in
                        (s', pick s' p)
                | _ => let p := N.modulo (wpos s + 1) two64 in
                       let s' := {| eps := eps s; cache := cache s; pos := pos s; wpos := p; hring := hring s |} in
                       (s', pick s' p)
                end
            | Random => (s, pick s (intn rnd (cyc_len s)))
            | _ => (s, pick s (N.modulo code two32))
            end
        end
    end.

  Definition with_eps (s : sel) (l : list ep) (r : ring) : sel :=
    {| eps := l; cache := []; pos := 0; wpos := 0; hring := r |}.

  Definition step (k : kind) (weighted : bool) (s : sel) (o : op) : sel * res :=
    match o with
    | Select code rnd => select k s code rnd
    | Refresh l r1 r2 =>
        let l' := refresh_eps l in
        match k with
        | ConHash => (with_eps s l' (fold_left (ring_add weighted) l' []), RDone)
        | _ => match rebuild k weighted l' r1 r2 with Ok s' => (s', RDone) | Panic p => (s, RPanic p) end
        end
    | Add e r1 r2 =>
        let '(l', ok) := add_ep (eps s) e in
        if ok then
          match k with
          | ConHash => (with_eps s l' (ring_add weighted (hring s) e), RAdded true)
          | _ => match rebuild k weighted l' r1 r2 with Ok s' => (s', RAdded true) | Panic p => (s, RPanic p) end
          end
        else (s, RAdded false)
    | Remove e r1 r2 =>
        let '(l', ok) := remove_ep (eps s) e in
        if ok then
          match k with
          | ConHash => (with_eps s l' (ring_remove (hring s) (host e)), RRemoved true)
          | _ => match rebuild k weighted l' r1 r2 with Ok s' => (s', RRemoved true) | Panic p => (s, RPanic p) end
          end
        else (s, RRemoved false)
    end.

  (* a history: the state it leads to and the results it produced, oldest first *)
  Fixpoint run (k : kind) (weighted : bool) (s : sel) (h : list op) : sel * list res :=
    match h with
    | [] => (s, [])
    | o :: t => let '(s', r) := step k weighted s o in let '(s'', rs) := run k weighted s' t in (s'', r :: rs)
    end.

  (* the abstract set the property speaks about: keyed by host, first occurrence wins in Refresh,
     Add ignored if present, Remove by host *)
  Definition set_step (l : list ep) (o : op) : list ep :=
    match o with
    | Refresh n _ _ => refresh_eps n
    | Add e _ _ => fst (add_ep l e)
    | Remove e _ _ => fst (remove_ep l e)
    | Select _ _ => l
    end.
  Definition set_of_history (h : list op) : list ep := fold_left set_step h [].

  (* the ring of a set, built in list order *)
  Definition ring_of_set (weighted : bool) (l : list ep) : ring := fold_left (ring_add weighted) l [].
End selectors.
