(* C15 proofs: invariants of the failover machine over ALL label sequences, and the property theorems. *)
From Coq Require Import List NArith ZArith Bool Lia ZifyBool ZifyNat ZifyN.
From TarsV Require Import Gen.Consts Select.Failover.
Import ListNotations.
Open Scope Z_scope.

(* ---------- the regenerated thresholds, as the property states them ---------- *)
Lemma k_fainN : kFainN = 5. Proof. reflexivity. Qed.
Lemma k_failInterval : kFailInterval = 5. Proof. reflexivity. Qed.
Lemma k_overN : kOverN = 2. Proof. reflexivity. Qed.
Lemma k_try : kTry = 30. Proof. reflexivity. Qed.
Lemma k_checkTime : kCheckTime = 60. Proof. reflexivity. Qed.
Lemma k_ratio : kRatioNum = 1 /\ kRatioDen = 2. Proof. split; reflexivity. Qed.

(* ---------- lists ---------- *)
Lemma memN_In : forall x l, memN x l = true <-> In x l.
Proof.
  unfold memN; intros x l; rewrite existsb_exists; split.
  - intros [y [Hy He]]. apply N.eqb_eq in He. subst. exact Hy.
  - intros H. exists x. split; [exact H | apply N.eqb_refl].
Qed.
Lemma memN_false : forall x l, memN x l = false <-> ~ In x l.
Proof. intros x l. rewrite <- memN_In. destruct (memN x l); split; congruence. Qed.

Lemma In_remove_all : forall x y l, In y (remove_all x l) <-> In y l /\ y <> x.
Proof.
  unfold remove_all; intros x y l. rewrite filter_In. split; intros [H1 H2]; split; auto.
  - intros ->. rewrite N.eqb_refl in H2. discriminate.
  - apply negb_true_iff. apply N.eqb_neq. congruence.
Qed.
Lemma In_add_set : forall x y l, In y (add_set x l) <-> In y l \/ y = x.
Proof.
  unfold add_set; intros x y l. destruct (memN x l) eqn:Hm.
  - apply memN_In in Hm. split; [auto | intros [H | ->]; auto].
  - rewrite in_app_iff. simpl. split; intros [H | H]; auto. destruct H; auto. contradiction.
Qed.

Lemma lookup_filter_in : forall e l m, memN e l = true ->
  lookup e (filter (fun p : N * N => memN (fst p) l) m) = lookup e m.
Proof.
  intros e l m He. induction m as [| [k v] m IH]; simpl; [reflexivity |].
  destruct (memN k l) eqn:Hk; simpl.
  - destruct (N.eqb e k); [reflexivity | exact IH].
  - destruct (N.eqb e k) eqn:Hek; [| exact IH]. apply N.eqb_eq in Hek. subst. congruence.
Qed.
Lemma lookup_filter_out : forall e l m, memN e l = false ->
  lookup e (filter (fun p : N * N => memN (fst p) l) m) = None.
Proof.
  intros e l m He. induction m as [| [k v] m IH]; simpl; [reflexivity |].
  destruct (memN k l) eqn:Hk; simpl; [| exact IH].
  destruct (N.eqb e k) eqn:Hek; [| exact IH]. apply N.eqb_eq in Hek. subst. congruence.
Qed.
Lemma lookup_Some_filter : forall e l m v,
  lookup e (filter (fun p : N * N => memN (fst p) l) m) = Some v -> lookup e m = Some v /\ memN e l = true.
Proof.
  intros e l m v H. destruct (memN e l) eqn:He.
  - rewrite lookup_filter_in in H by exact He. auto.
  - rewrite lookup_filter_out in H by exact He. discriminate.
Qed.
Lemma lookup_exists_out : forall l m, existsb (fun p : N * N => negb (memN (fst p) l)) m = false ->
  forall e v, lookup e m = Some v -> memN e l = true.
Proof.
  intros l m. induction m as [| [k v] m IH]; simpl; intros H e w Hl; [discriminate |].
  apply orb_false_iff in H. destruct H as [H1 H2]. apply negb_false_iff in H1.
  destruct (N.eqb e k) eqn:Hek.
  - apply N.eqb_eq in Hek. subst. exact H1.
  - eapply IH; eauto.
Qed.

Lemma nth_error_upd_same : forall A (l : list A) n v x, nth_error l n = Some x -> nth_error (upd n v l) n = Some v.
Proof. induction l; destruct n; simpl; intros; try discriminate; eauto. Qed.
Lemma nth_error_upd_other : forall A (l : list A) n m v, n <> m -> nth_error (upd n v l) m = nth_error l m.
Proof. induction l; destruct n, m; simpl; intros; try congruence; eauto. Qed.
Lemma length_upd : forall A (l : list A) n v, length (upd n v l) = length l.
Proof. induction l; destruct n; simpl; intros; auto. Qed.

Lemma nth_error_snoc : forall A (l : list A) x n b, nth_error (l ++ [x]) n = Some b ->
  nth_error l n = Some b \/ (n = length l /\ b = x).
Proof.
  intros A l x n b H. destruct (Nat.lt_ge_cases n (length l)) as [Hlt | Hge].
  - rewrite nth_error_app1 in H by exact Hlt. auto.
  - rewrite nth_error_app2 in H by exact Hge. right.
    destruct (n - length l)%nat eqn:Hd; simpl in H.
    + inversion H. split; [lia | reflexivity].
    + destruct n0; discriminate.
Qed.

Lemma get_put_same : forall s ai a x, get ai s = Some x -> get ai (put ai a s) = Some a.
Proof. unfold get, put; simpl; intros. eapply nth_error_upd_same; eauto. Qed.
Lemma get_put_other : forall s ai aj a, ai <> aj -> get aj (put ai a s) = get aj s.
Proof. unfold get, put; simpl; intros. apply nth_error_upd_other. lia. Qed.
Lemma get_put : forall s ai aj a x b, get ai s = Some x -> get aj (put ai a s) = Some b ->
  (aj = ai /\ b = a) \/ (aj <> ai /\ get aj s = Some b).
Proof.
  intros s ai aj a x b Hx Hb. destruct (N.eq_dec aj ai) as [-> | Hne].
  - rewrite (get_put_same _ _ _ _ Hx) in Hb. inversion Hb. auto.
  - rewrite get_put_other in Hb by congruence. auto.
Qed.

Lemma fold_inv : forall (P : state -> Prop) r, (forall s e, P s -> P (check_one r s e)) ->
  forall l s, P s -> P (fold_left (check_one r) l s).
Proof. intros P r H l. induction l; simpl; intros; auto. Qed.

(* ---------- checkActive, case by case ---------- *)
Inductive ca_spec (reach : bool) (nw : Z) (a : adapter) : adapter * bool * bool -> Prop :=
| ca_streak : ast a = true -> kFailInterval <= nw - tS a -> kFainN <= lfc a ->
    ca_spec reach nw a (mkA (aep a) false (fc a) (lfc a) (sc a) (tS a) nw (tC a) (gfail a), true, false)
| ca_ratio : ast a = true -> kCheckTime <= nw - tC a -> kOverN <= fc a ->
    ca_spec reach nw a (mkA (aep a) false (fc a) (lfc a) (sc a) (tS a) nw (tC a) (gfail a), true, false)
| ca_touch : ast a = true -> ~ (kFailInterval <= nw - tS a /\ kFainN <= lfc a) ->
    ca_spec reach nw a (mkA (aep a) true (fc a) (lfc a) (sc a) (tS a) nw (tC a) (gfail a), false, false)
| ca_keep : ~ (ast a = true /\ kFailInterval <= nw - tS a /\ kFainN <= lfc a) -> (ast a = false -> nw - tB a < kTry) ->
    ca_spec reach nw a (a, false, false)
| ca_probe : ast a = false -> kTry <= nw - tB a ->
    ca_spec reach nw a (mkA (aep a) false (fc a) (lfc a) (sc a) (tS a) nw (tC a) (gfail a), false, reach).

Lemma check_active_spec : forall reach nw a, ca_spec reach nw a (check_active reach nw a).
Proof.
  intros reach nw a. unfold check_active.
  destruct (ast a) eqn:Hst.
  - destruct ((kFailInterval <=? nw - tS a) && (kFainN <=? lfc a)) eqn:H1.
    + apply andb_true_iff in H1. destruct H1. apply ca_streak; auto; lia.
    + assert (Hn : ~ (kFailInterval <= nw - tS a /\ kFainN <= lfc a)).
      { intros [? ?]. apply andb_false_iff in H1. destruct H1; lia. }
      destruct (kCheckTime <=? nw - tC a) eqn:H2.
      * destruct ((kOverN <=? fc a) && ratio_hit a) eqn:H3.
        -- apply andb_true_iff in H3. destruct H3. apply ca_ratio; auto; lia.
        -- apply ca_touch; auto.
      * apply ca_keep; [tauto | congruence].
  - destruct (kTry <=? nw - tB a) eqn:H1.
    + apply ca_probe; auto; lia.
    + apply ca_keep; [intros [? _]; congruence | intros; lia].
Qed.

(* the streak rule decides: with >= fainN consecutive failures and no success for >= failInterval, not active afterwards *)
Lemma check_active_streak : forall reach nw a, kFailInterval <= nw - tS a -> kFainN <= lfc a ->
  ast (fst (fst (check_active reach nw a))) = false /\
  (ast a = true -> snd (fst (check_active reach nw a)) = true).
Proof.
  intros reach nw a H1 H2. destruct (check_active_spec reach nw a) as [Ha ? ? | Ha ? ? | Ha Hn | Hn Hb | Ha Hb]; simpl.
  - auto.
  - auto.
  - exfalso; tauto.
  - destruct (ast a) eqn:Hs; [exfalso; tauto | split; [reflexivity | congruence]].
  - split; [reflexivity | congruence].
Qed.

(* ---------- group A: every adapter record is well formed ---------- *)
Definition aok (nw : Z) (a : adapter) : Prop :=
  0 <= lfc a <= fc a /\ fc a = gfail a /\ (ast a = false -> 2 <= gfail a) /\ tB a <= nw.
Definition InvA (s : state) : Prop := 0 <= now s /\ forall ai a, get ai s = Some a -> aok (now s) a.

Lemma aok_check_active : forall reach nw a, aok nw a -> aok nw (fst (fst (check_active reach nw a))).
Proof.
  intros reach nw a [H1 [H2 [H3 H4]]]. pose proof k_fainN. pose proof k_overN.
  destruct (check_active_spec reach nw a); unfold aok; simpl; repeat split; auto; try lia; intros; try congruence; try lia.
Qed.

Lemma InvA_put : forall s ai a x, InvA s -> get ai s = Some x -> aok (now s) a -> InvA (put ai a s).
Proof.
  intros s ai a x [H0 H] Hx Ha. split; [exact H0 |]. intros aj b Hb.
  destruct (get_put _ _ _ _ _ _ Hx Hb) as [[-> ->] | [_ Hb']]; [exact Ha | exact (H _ _ Hb')].
Qed.

Lemma InvA_same_objs : forall s s', now s' = now s -> objs s' = objs s -> InvA s -> InvA s'.
Proof. unfold InvA, get. intros s s' Hn Ho H. rewrite Hn, Ho. exact H. Qed.

Lemma InvA_check_one : forall r s e, InvA s -> InvA (check_one r s e).
Proof.
  intros r s e HA. unfold check_one.
  destruct (lookup e (att s)) as [ai |]; [| exact HA].
  destruct (get ai s) as [a |] eqn:Hg; [| exact HA].
  pose proof (aok_check_active (memN e r) (now s) a (proj2 HA _ _ Hg)) as Hok.
  destruct (check_active (memN e r) (now s) a) as [[a' first] need]. simpl in Hok.
  assert (H1 : InvA (put ai a' s)) by (eapply InvA_put; eauto).
  destruct first, need; simpl; try destruct (memN e _); (eapply InvA_same_objs; [| | exact H1]; reflexivity).
Qed.

Lemma InvA_step : forall s l s', InvA s -> step s l = Some s' -> InvA s'.
Proof.
  intros s l s' HA Hs. destruct l; simpl in Hs.
  - inversion Hs; subst; clear Hs. destruct HA as [H0 H]. split; simpl; [lia |].
    intros ai a Hg. destruct (H ai a Hg) as [? [? [? ?]]]. unfold aok. repeat split; auto; lia.
  - destruct (get ai s) as [a |] eqn:Hg; [| discriminate].
    destruct (probe && negb (memN ai (pcalls s))); [discriminate |].
    assert (Hok : aok (now s) (if ok then succ_add (now s) a else fail_add a)).
    { destruct (proj2 HA _ _ Hg) as [? [? [? ?]]]. destruct ok; unfold aok, succ_add, fail_add; simpl; repeat split; auto; try lia;
      intros Hst; specialize (H1 Hst); lia. }
    pose proof (InvA_put _ _ _ _ HA Hg Hok) as H1.
    inversion Hs; subst; clear Hs.
    destruct probe, ok; simpl; (eapply InvA_same_objs; [| | exact H1]; reflexivity).
  - inversion Hs; subst. apply fold_inv; [intros; apply InvA_check_one; assumption | exact HA].
  - destruct (reg s); [discriminate |]. destruct (probeq s); [discriminate |].
    destruct (get ai s); [| discriminate]. destruct (N.eqb n0 ai); [| discriminate].
    inversion Hs; subst. eapply InvA_same_objs; [| | exact HA]; reflexivity.
  - destruct (reg s); [discriminate |]. destruct (probeq s); [| discriminate].
    destruct (match sel s with [] => _ | _ :: _ => _ end); [| discriminate].
    destruct (lookup e (att s)).
    + destruct (N.eqb n0 ai); inversion Hs; subst. exact HA.
    + destruct (N.eqb ai (N.of_nat (length (objs s)))); inversion Hs; subst; clear Hs.
      destruct HA as [H0 H]. split; [exact H0 |]. unfold get; simpl. intros aj b Hb.
      destruct (nth_error_snoc _ _ _ _ _ Hb) as [Hb' | [_ ->]].
      * exact (H aj b Hb').
      * unfold aok, new_adapter; simpl. repeat split; try lia; congruence.
  - destruct (reg s); inversion Hs; subst. exact HA.
  - destruct (get ai s) as [a |] eqn:Hg; [| discriminate]. destruct (memN ai (reinst s)); [| discriminate].
    inversion Hs; subst; clear Hs.
    assert (Hok : aok (now s) (reset (now s) a)).
    { unfold aok, reset; simpl. repeat split; try lia; congruence. }
    pose proof (InvA_put _ _ _ _ HA Hg Hok) as H1.
    eapply InvA_same_objs; [| | exact H1]; reflexivity.
  - destruct (negb (sorted_strict l)); [discriminate |]. destruct l; [inversion Hs; subst; exact HA |].
    destruct (list_eqN (n :: l) (reg s)); inversion Hs; subst; [exact HA |].
    eapply InvA_same_objs; [| | exact HA]; reflexivity.
  - destruct (get ai s); inversion Hs; subst; exact HA.
  - destruct (get ai s) as [a |] eqn:Hg; [| discriminate].
    destruct (probe && negb (memN ai (pcalls s))); [discriminate |].
    assert (Hok : aok (now s) (succ_add (now s) a)).
    { destruct (proj2 HA _ _ Hg) as [? [? [? ?]]]. unfold aok, succ_add; simpl; repeat split; auto; try lia. }
    pose proof (InvA_put _ _ _ _ HA Hg Hok) as H1.
    inversion Hs; subst; clear Hs.
    destruct probe; simpl; (eapply InvA_same_objs; [| | exact H1]; reflexivity).
Qed.

(* ---------- one iteration of checkStatus, characterised ---------- *)
Definition check_one_effect (r : list N) (s : state) (e : N) (s' : state) : Prop :=
  exists ai a a' first need,
    lookup e (att s) = Some ai /\ get ai s = Some a /\ ca_spec (memN e r) (now s) a (a', first, need) /\
    now s' = now s /\ reg s' = reg s /\ objs s' = upd (N.to_nat ai) a' (objs s) /\ att s' = att s /\
    active s' = (if first then remove_first e (active s) else active s) /\
    sel s' = (if first then remove_all e (sel s) else sel s) /\
    pcalls s' = pcalls s /\ reinst s' = reinst s /\ probelog s' = probelog s /\ shrunk s' = shrunk s /\
    (need = false -> probeq s' = probeq s /\ pset s' = pset s /\ reqlog s' = reqlog s) /\
    (need = true -> reqlog s' = (e, ai, now s) :: reqlog s /\
       ((memN e (pset s) = true /\ probeq s' = probeq s /\ pset s' = pset s) \/
        (memN e (pset s) = false /\ probeq s' = probeq s ++ [ai] /\ pset s' = e :: pset s))).

Lemma check_one_cases : forall r s e, check_one r s e = s \/ check_one_effect r s e (check_one r s e).
Proof.
  intros r s e. unfold check_one.
  destruct (lookup e (att s)) as [ai |] eqn:Hl; [| left; reflexivity].
  destruct (get ai s) as [a |] eqn:Hg; [| left; reflexivity].
  pose proof (check_active_spec (memN e r) (now s) a) as Hsp.
  destruct (check_active (memN e r) (now s) a) as [[a' first] need].
  right. exists ai, a, a', first, need.
  split; [exact Hl |]. split; [exact Hg |]. split; [exact Hsp |].
  destruct first, need; simpl; try destruct (memN e (pset s)) eqn:Hm; simpl;
    repeat (split; [reflexivity |]);
    (split; [intros Hn; first [discriminate | repeat split; reflexivity]
            | intros Hn; first [discriminate | split; [reflexivity |];
              first [left; repeat split; reflexivity | right; repeat split; reflexivity]]]).
Qed.

Lemma get_of_objs : forall s s' ai a', objs s' = upd (N.to_nat ai) a' (objs s) ->
  forall aj, get aj s' = get aj (put ai a' s).
Proof. intros s s' ai a' H aj. unfold get, put. simpl. rewrite H. reflexivity. Qed.

Lemma ca_spec_aep : forall reach nw a a' f n, ca_spec reach nw a (a', f, n) -> aep a' = aep a.
Proof. intros reach nw a a' f n H. inversion H; subst; reflexivity. Qed.

(* ---------- group B: the tables point at existing adapters of the right endpoint ---------- *)
Definition InvB (s : state) : Prop :=
  (forall e ai, lookup e (att s) = Some ai -> exists a, get ai s = Some a /\ aep a = e) /\
  (forall ai, In ai (probeq s) -> exists a, get ai s = Some a).

(* s' keeps every adapter of s, with the same endpoint *)
Definition ext (s s' : state) : Prop := forall aj b, get aj s = Some b -> exists b', get aj s' = Some b' /\ aep b' = aep b.

Lemma ext_put : forall s ai a a', get ai s = Some a -> aep a' = aep a -> ext s (put ai a' s).
Proof.
  intros s ai a a' Hg He aj b Hb. destruct (N.eq_dec aj ai) as [-> | Hne].
  - exists a'. split; [eapply get_put_same; eauto | congruence].
  - exists b. split; [rewrite get_put_other by congruence; exact Hb | reflexivity].
Qed.
Lemma ext_same : forall s s', objs s' = objs s -> ext s s'.
Proof. intros s s' H aj b Hb. exists b. unfold get in *. rewrite H. auto. Qed.
Lemma ext_objs : forall s s1 s', ext s s1 -> objs s' = objs s1 -> ext s s'.
Proof. intros s s1 s' H Ho aj b Hb. destruct (H aj b Hb) as [b' [H1 H2]]. exists b'. unfold get in *. rewrite Ho. auto. Qed.

Lemma InvB_ext : forall s s', InvB s -> ext s s' -> att s' = att s -> (forall ai, In ai (probeq s') -> In ai (probeq s)) -> InvB s'.
Proof.
  intros s s' [B1 B2] Hx Ha Hq. split.
  - intros e ai Hl. rewrite Ha in Hl. destruct (B1 e ai Hl) as [a [Hg He]].
    destruct (Hx ai a Hg) as [b [Hb Hbe]]. exists b. split; [exact Hb | congruence].
  - intros ai Hi. destruct (B2 ai (Hq ai Hi)) as [a Hg]. destruct (Hx ai a Hg) as [b [Hb _]]. eauto.
Qed.

Lemma InvB_check_one : forall r s e, InvB s -> InvB (check_one r s e).
Proof.
  intros r s e HB. destruct (check_one_cases r s e) as [-> | Heff]; [exact HB |].
  destruct Heff as [ai [a [a' [first [need [Hl [Hg [Hsp [_ [_ [Ho [Ha [_ [_ [_ [_ [_ [_ [Hn0 Hn1]]]]]]]]]]]]]]]]]]].
  assert (Hx : ext s (check_one r s e)).
  { eapply ext_objs; [eapply ext_put; [exact Hg | eapply ca_spec_aep; exact Hsp] | exact Ho]. }
  destruct HB as [B1 B2]. split.
  - intros e0 aj Hl0. rewrite Ha in Hl0. destruct (B1 e0 aj Hl0) as [b [Hb Hbe]].
    destruct (Hx aj b Hb) as [b' [Hb' Hbe']]. exists b'. split; [exact Hb' | congruence].
  - intros aj Hi.
    assert (Hold : In aj (probeq s) \/ aj = ai).
    { destruct need.
      - destruct (Hn1 eq_refl) as [_ [[_ [Hq _]] | [_ [Hq _]]]]; rewrite Hq in Hi; auto.
        apply in_app_or in Hi. destruct Hi as [Hi | [Hi | []]]; auto.
      - destruct (Hn0 eq_refl) as [Hq _]. rewrite Hq in Hi. auto. }
    destruct Hold as [Hi' | ->].
    + destruct (B2 aj Hi') as [b Hb]. destruct (Hx aj b Hb) as [b' [Hb' _]]. eauto.
    + destruct (Hx ai a Hg) as [b' [Hb' _]]. eauto.
Qed.

Lemma get_snoc_old : forall s aj b x s', get aj s = Some b -> objs s' = objs s ++ [x] -> get aj s' = Some b.
Proof.
  unfold get. intros s aj b x s' H Ho. rewrite Ho. rewrite nth_error_app1; [exact H |].
  apply nth_error_Some. congruence.
Qed.

(* refreshEndpoints, characterised (keeps the filters folded) *)
Definition refresh_effect (s : state) (l inact : list N) (s' : state) : Prop :=
  l <> [] /\ exists att' rot,
    att' = filter (fun p : N * N => memN (fst p) (l ++ inact)) (att s) /\ rot = filter (rot_ok s att') l /\
    now s' = now s /\ reg s' = l /\ objs s' = objs s /\ att s' = att' /\ active s' = rot /\ sel s' = rot /\
    probeq s' = probeq s /\ pset s' = pset s /\ pcalls s' = pcalls s /\ reinst s' = reinst s /\
    reqlog s' = reqlog s /\ probelog s' = probelog s /\
    shrunk s' = (shrunk s || existsb (fun p : N * N => negb (memN (fst p) (l ++ inact))) (att s)).

Lemma step_refresh : forall s l inact s', step s (Refresh l inact) = Some s' -> s' = s \/ refresh_effect s l inact s'.
Proof.
  intros s l inact s' Hs. unfold step in Hs.
  destruct (negb (sorted_strict l)); [discriminate |].
  destruct l as [| x l]; [left; congruence |].
  destruct (list_eqN (x :: l) (reg s)); [left; congruence |].
  right. split; [discriminate |].
  eexists. eexists. split; [reflexivity |]. split; [reflexivity |].
  injection Hs as <-. repeat split.
Qed.

Lemma InvB_step : forall s l s', InvB s -> step s l = Some s' -> InvB s'.
Proof.
  intros s l s' HB Hs. destruct l; [simpl in Hs .. | idtac | simpl in Hs | simpl in Hs].
  - inversion Hs; subst. eapply InvB_ext; [exact HB | apply ext_same; reflexivity | reflexivity | simpl; auto].
  - destruct (get ai s) as [a |] eqn:Hg; [| discriminate].
    destruct (probe && negb (memN ai (pcalls s))); [discriminate |].
    inversion Hs; subst; clear Hs.
    eapply InvB_ext; [exact HB | | |].
    + eapply ext_objs; [eapply (ext_put s ai a (if ok then succ_add (now s) a else fail_add a) Hg); destruct ok; reflexivity |].
      destruct probe, ok; reflexivity.
    + destruct probe, ok; reflexivity.
    + destruct probe, ok; simpl; auto.
  - inversion Hs; subst. apply fold_inv; [intros; apply InvB_check_one; assumption | exact HB].
  - destruct (reg s); [discriminate |]. destruct (probeq s) as [| q rest] eqn:Hq; [discriminate |].
    destruct (get ai s); [| discriminate]. destruct (N.eqb q ai); [| discriminate].
    inversion Hs; subst; clear Hs. eapply InvB_ext; [exact HB | apply ext_same; reflexivity | reflexivity |].
    simpl. intros aj Hi. rewrite Hq. right. exact Hi.
  - destruct (reg s); [discriminate |]. destruct (probeq s) eqn:Hq; [| discriminate].
    destruct (match sel s with [] => _ | _ :: _ => _ end); [| discriminate].
    destruct (lookup e (att s)) eqn:Hl.
    + destruct (N.eqb n0 ai); inversion Hs; subst. exact HB.
    + destruct (N.eqb ai (N.of_nat (length (objs s)))) eqn:Hai; inversion Hs; subst; clear Hs.
      apply N.eqb_eq in Hai. destruct HB as [B1 B2]. split; simpl.
      * intros e0 aj Hl0. destruct (N.eqb e0 e) eqn:He0.
        -- inversion Hl0; subst. apply N.eqb_eq in He0. subst. exists (new_adapter e). split; [| reflexivity].
           unfold get; simpl. rewrite nth_error_app2 by lia. replace (_ - _)%nat with 0%nat by lia. reflexivity.
        -- destruct (B1 e0 aj Hl0) as [b [Hb Hbe]]. exists b. split; [| exact Hbe].
           eapply get_snoc_old; [exact Hb | reflexivity].
      * intros aj [].
  - destruct (reg s); inversion Hs; subst. exact HB.
  - destruct (get ai s) as [a |] eqn:Hg; [| discriminate]. destruct (memN ai (reinst s)); [| discriminate].
    inversion Hs; subst; clear Hs.
    eapply InvB_ext; [exact HB | | reflexivity | simpl; auto].
    eapply ext_objs; [eapply (ext_put s ai a (reset (now s) a) Hg); reflexivity | reflexivity].
  - destruct (step_refresh _ _ _ _ Hs) as [-> | (_ & att' & rot & Hatt & _ & _ & _ & Ho & Ha & _ & _ & Hq & _)]; [exact HB |].
    destruct HB as [B1 B2]. split.
    + intros e ai Hl. rewrite Ha, Hatt in Hl. apply lookup_Some_filter in Hl. destruct Hl as [Hl _].
      destruct (B1 e ai Hl) as [a [Hg He]]. exists a. split; [unfold get in *; rewrite Ho; exact Hg | exact He].
    + intros ai Hin. rewrite Hq in Hin. destruct (B2 ai Hin) as [a Hg]. exists a. unfold get in *. rewrite Ho. exact Hg.
  - destruct (get ai s); inversion Hs; subst; exact HB.
  - destruct (get ai s) as [a |] eqn:Hg; [| discriminate].
    destruct (probe && negb (memN ai (pcalls s))); [discriminate |].
    inversion Hs; subst; clear Hs.
    eapply InvB_ext; [exact HB | | |].
    + eapply ext_objs; [eapply (ext_put s ai a (succ_add (now s) a) Hg); reflexivity |].
      destruct probe; reflexivity.
    + destruct probe; reflexivity.
    + destruct probe; simpl; auto.
Qed.

(* ---------- group C: whoever has no adapter yet, or an adapter in good standing, is in the selectors ---------- *)
Definition InvC (s : state) : Prop :=
  (forall e, In e (reg s) -> lookup e (att s) = None -> In e (sel s)) /\
  (forall e ai a, In e (reg s) -> lookup e (att s) = Some ai -> get ai s = Some a -> ast a = true -> In e (sel s)).

Lemma att_inj : forall s e1 e2 ai, InvB s -> lookup e1 (att s) = Some ai -> lookup e2 (att s) = Some ai -> e1 = e2.
Proof.
  intros s e1 e2 ai [B1 _] H1 H2. destruct (B1 _ _ H1) as [a [Ha Hea]]. destruct (B1 _ _ H2) as [b [Hb Heb]].
  rewrite Ha in Hb. inversion Hb. subst. reflexivity.
Qed.

Lemma In_sel_after : forall (first : bool) e e0 l, In e l -> (first = true -> e <> e0) ->
  In e (if first then remove_all e0 l else l).
Proof. intros first e e0 l H Hn. destruct first; [apply In_remove_all; auto | exact H]. Qed.

Lemma InvC_check_one : forall r s e0, InvB s -> InvC s -> InvC (check_one r s e0).
Proof.
  intros r s e0 HB HC. destruct (check_one_cases r s e0) as [-> | Heff]; [exact HC |].
  destruct Heff as [ai [a [a' [first [need [Hl [Hg [Hsp [_ [Hr [Ho [Ha [_ [Hsel _]]]]]]]]]]]]]].
  destruct HC as [C1 C2]. split.
  - intros e Hin Hno. rewrite Hr in Hin. rewrite Ha in Hno. rewrite Hsel.
    apply In_sel_after; [exact (C1 e Hin Hno) |]. intros _ ->. congruence.
  - intros e aj b Hre Hle Hb Hst. rewrite Hr in Hre. rewrite Ha in Hle. rewrite (get_of_objs _ _ _ _ Ho) in Hb. rewrite Hsel.
    destruct (get_put _ _ _ _ _ _ Hg Hb) as [[-> ->] | [Hne Hb']].
    + assert (e = e0) by (eapply att_inj; eauto). subst e.
      inversion Hsp; subst; simpl in Hst; try discriminate.
      * eapply C2; eauto.
      * eapply C2; eauto.
    + apply In_sel_after; [eapply C2; eauto |]. intros _ ->. congruence.
Qed.

Lemma put_keeps_C : forall s ai a a' s', InvB s -> InvC s -> get ai s = Some a -> aep a' = aep a -> (ast a' = true -> ast a = true) ->
  objs s' = objs (put ai a' s) -> att s' = att s -> reg s' = reg s -> sel s' = sel s -> InvC s'.
Proof.
  intros s ai a a' s' HB [C1 C2] Hg He Hst Ho Ha Hr Hs. split.
  - intros e Hin Hno. rewrite Hr in Hin. rewrite Ha in Hno. rewrite Hs. auto.
  - intros e aj b Hre Hle Hb Hb1. rewrite Hr in Hre. rewrite Ha in Hle. rewrite Hs.
    assert (Hb' : get aj (put ai a' s) = Some b) by (unfold get in *; rewrite <- Ho; exact Hb).
    destruct (get_put _ _ _ _ _ _ Hg Hb') as [[-> ->] | [Hne Hb2]]; eapply C2; eauto.
Qed.

Lemma InvC_same : forall s s', reg s' = reg s -> att s' = att s -> objs s' = objs s -> sel s' = sel s -> InvC s -> InvC s'.
Proof. unfold InvC, get. intros s s' H1 H2 H3 H4 H. rewrite H1, H2, H3, H4. exact H. Qed.

Lemma InvC_step : forall s l s', InvB s -> InvC s -> step s l = Some s' -> InvC s'.
Proof.
  intros s l s' HB HC Hs. destruct l; [simpl in Hs .. | idtac | simpl in Hs | simpl in Hs].
  - inversion Hs; subst. exact HC.
  - destruct (get ai s) as [a |] eqn:Hg; [| discriminate].
    destruct (probe && negb (memN ai (pcalls s))); [discriminate |].
    inversion Hs; subst; clear Hs.
    eapply (put_keeps_C s ai a (if ok then succ_add (now s) a else fail_add a)); eauto;
      try (destruct ok; reflexivity); try (destruct probe, ok; reflexivity).
    destruct ok; simpl; auto.
  - inversion Hs; subst. clear Hs. revert HB HC. generalize (reg s) as l. intros l. revert s.
    induction l as [| e l IH]; simpl; intros s HB HC; [exact HC |].
    apply IH; [apply InvB_check_one; exact HB | apply InvC_check_one; assumption].
  - destruct (reg s) eqn:Hr; [discriminate |]. destruct (probeq s) as [| q rest]; [discriminate |].
    destruct (get ai s); [| discriminate]. destruct (N.eqb q ai); [| discriminate].
    inversion Hs; subst. eapply InvC_same; [| | | | exact HC]; auto.
  - destruct (reg s) eqn:Hr; [discriminate |]. destruct (probeq s); [| discriminate].
    destruct (match sel s with [] => _ | _ :: _ => _ end) eqn:Hm; [| discriminate].
    destruct (lookup e (att s)) eqn:Hl.
    + destruct (N.eqb n0 ai); inversion Hs; subst. exact HC.
    + destruct (N.eqb ai (N.of_nat (length (objs s)))) eqn:Hai; inversion Hs; subst; clear Hs.
      destruct HC as [C1 C2].
      assert (Hin : In e (sel s)).
      { destruct (sel s) eqn:Hsel.
        - exfalso. apply memN_In in Hm. rewrite <- Hr in Hm. exact (C1 e Hm Hl).
        - apply memN_In. exact Hm. }
      split.
      * intros e1 Hin1 Hno. cbn [reg] in Hin1. cbn [att lookup] in Hno. cbn [sel].
        destruct (N.eqb e1 e) eqn:He1; [discriminate |]. rewrite <- Hr in Hin1. auto.
      * intros e1 aj b Hre Hle Hb Hst. cbn [reg] in Hre. rewrite <- Hr in Hre. cbn [att lookup] in Hle. cbn [sel]. destruct (N.eqb e1 e) eqn:He1.
        -- apply N.eqb_eq in He1. subst. exact Hin.
        -- destruct HB as [B1 _]. destruct (B1 _ _ Hle) as [b0 [Hb0 _]].
           erewrite (get_snoc_old s aj b0 (new_adapter e)) in Hb; [| exact Hb0 | reflexivity]. inversion Hb; subst. eapply C2; eauto.
  - destruct (reg s); inversion Hs; subst. exact HC.
  - destruct (get ai s) as [a |] eqn:Hg; [| discriminate]. destruct (memN ai (reinst s)); [| discriminate].
    inversion Hs; subst; clear Hs. destruct HC as [C1 C2]. split; simpl.
    + intros e Hin Hno. apply In_add_set. left. auto.
    + intros e aj b Hre Hle Hb Hst. apply In_add_set.
      change (get aj (put ai (reset (now s) a) s) = Some b) in Hb.
      destruct (get_put _ _ _ _ _ _ Hg Hb) as [[-> ->] | [Hne Hb']].
      * right. destruct HB as [B1 _]. destruct (B1 _ _ Hle) as [a0 [Ha0 Hea]]. rewrite Hg in Ha0. inversion Ha0. subst. reflexivity.
      * left. eapply C2; eauto.
  - destruct (step_refresh _ _ _ _ Hs) as [-> | [_ [att' [rot [Hatt [Hrot [_ [Hr [Ho [Ha [_ [Hsel _]]]]]]]]]]]]; [exact HC |].
    destruct HC as [C1 C2]. split.
    + intros e Hin Hno. rewrite Hr in Hin. rewrite Ha in Hno. rewrite Hsel, Hrot. apply filter_In.
      split; [exact Hin |]. unfold rot_ok. rewrite Hno. reflexivity.
    + intros e aj b Hre Hle Hb Hst. rewrite Hr in Hre. rewrite Ha in Hle. rewrite Hsel, Hrot. apply filter_In.
      assert (Hb' : get aj s = Some b) by (unfold get in *; rewrite <- Ho; exact Hb).
      split; [exact Hre |]. unfold rot_ok. rewrite Hle, Hb'. exact Hst.
  - destruct (get ai s); inversion Hs; subst; exact HC.
  - destruct (get ai s) as [a |] eqn:Hg; [| discriminate].
    destruct (probe && negb (memN ai (pcalls s))); [discriminate |].
    inversion Hs; subst; clear Hs.
    eapply (put_keeps_C s ai a (succ_add (now s) a)); eauto; try reflexivity; try (destruct probe; reflexivity).
Qed.
