(* C15 model: failover state machine of one registry-backed servant.
   Mirrors tars/adapter.go (AdapterProxy.successAdd/failAdd/sendAdd/reset/checkActive),
   tars/endpointmanager.go (checkStatus, SelectAdapterProxy, addAliveEp, refreshEndpoints/updateActiveEp)
   and the accounting of tars/servant.go:doInvoke.  Time is an input (label Advance); whatever the
   environment decides (call outcomes, reachability at ReConnect, which member a selector picks,
   when the reinstating goroutine runs, what the registry returns) is label data, universally quantified.

   Endpoints are numbers (the harness numbers hosts in their string order); adapter objects are numbered
   in creation order (an AdapterProxy deleted by a refresh can still sit in the probe queue, so objects
   and endpoints are kept apart as in the code).  Thresholds come from Gen/Consts.v (regenerated). *)
From Coq Require Import List NArith ZArith Bool.
From TarsV Require Import Gen.Consts.
Import ListNotations.
Open Scope Z_scope.

Definition kFainN : Z := Z.of_N c_fainN.
Definition kFailInterval : Z := Z.of_N c_failInterval.
Definition kCheckTime : Z := Z.of_N c_checkTime.
Definition kOverN : Z := Z.of_N c_overN.
Definition kRatioNum : Z := Z.of_N c_failRatioNum.
Definition kRatioDen : Z := Z.of_N c_failRatioDen.
Definition kTry : Z := Z.of_N c_tryTimeInterval.

(* health record of one AdapterProxy; gfail is a ghost: failed calls since creation / last reset *)
Record adapter := mkA { aep : N; ast : bool; fc : Z; lfc : Z; sc : Z; tS : Z; tB : Z; tC : Z; gfail : Z }.
Definition new_adapter (e : N) : adapter := mkA e true 0 0 0 0 0 0 0.

Record state := mkS {
  now : Z;
  reg : list N;            (* activeEpf: what the registry returned last (sorted by host) *)
  objs : list adapter;     (* every AdapterProxy ever created, by creation index *)
  att : list (N * N);      (* epList: endpoint -> adapter index *)
  active : list N;         (* activeEp *)
  sel : list N;            (* membership of the three selectors (kept identical by the code) *)
  probeq : list N;         (* checkAdapter channel, adapter indices, oldest first *)
  pset : list N;           (* checkAdapterList: endpoints with a queued probe *)
  pcalls : list N;         (* ghost: probe calls selected, outcome not yet seen *)
  reinst : list N;         (* ghost: answered probes whose reset+addAliveEp goroutine has not run yet *)
  reqlog : list (N * N * Z); (* ghost: probe requests (endpoint, adapter, time), newest first *)
  probelog : list N;       (* ghost: adapters handed out as probe by SelectAdapterProxy *)
  shrunk : bool            (* ghost: some refresh dropped (from both registry lists) an endpoint that had an adapter *)
}.

Definition T0 : Z := 1700000000.
Definition init : state := mkS T0 [] [] [] [] [] [] [] [] [] [] [] false.

Definition w_now v s := mkS v (reg s) (objs s) (att s) (active s) (sel s) (probeq s) (pset s) (pcalls s) (reinst s) (reqlog s) (probelog s) (shrunk s).
Definition w_objs v s := mkS (now s) (reg s) v (att s) (active s) (sel s) (probeq s) (pset s) (pcalls s) (reinst s) (reqlog s) (probelog s) (shrunk s).
Definition w_rot a l s := mkS (now s) (reg s) (objs s) (att s) a l (probeq s) (pset s) (pcalls s) (reinst s) (reqlog s) (probelog s) (shrunk s).
Definition w_req q p r s := mkS (now s) (reg s) (objs s) (att s) (active s) (sel s) q p (pcalls s) (reinst s) r (probelog s) (shrunk s).

Definition memN (x : N) (l : list N) : bool := existsb (N.eqb x) l.
Fixpoint lookup (e : N) (m : list (N * N)) : option N :=
  match m with [] => None | (k, v) :: r => if N.eqb e k then Some v else lookup e r end.
Fixpoint remove_first (x : N) (l : list N) : list N :=
  match l with [] => [] | y :: r => if N.eqb x y then r else y :: remove_first x r end.
Definition remove_all (x : N) (l : list N) : list N := filter (fun y => negb (N.eqb x y)) l.
Definition add_set (x : N) (l : list N) : list N := if memN x l then l else l ++ [x].
Fixpoint upd {A} (n : nat) (v : A) (l : list A) : list A :=
  match l, n with
  | [], _ => []
  | _ :: r, O => v :: r
  | y :: r, S k => y :: upd k v r
  end.
Definition get (ai : N) (s : state) : option adapter := nth_error (objs s) (N.to_nat ai).
Definition put (ai : N) (a : adapter) (s : state) : state := w_objs (upd (N.to_nat ai) a (objs s)) s.
Definition countN (x : N) (l : list N) : nat := length (filter (N.eqb x) l).

(* float32(failCount)/float32(sendCount) >= failRatio.  failRatio (a float32, hence a dyadic rational
   num/den) is regenerated; for counts below 2^24 and failRatio = 1/2 the Go expression is exactly
   2*failCount >= sendCount (sendCount = 0 gives +Inf, true; 0/0 = NaN is excluded by failCount >= overN >= 1). *)
Definition ratio_hit (a : adapter) : bool := kRatioNum * sc a <=? fc a * kRatioDen.

(* AdapterProxy.checkActive: (adapter', firstTime, needCheck); reach = would ReConnect succeed *)
Definition check_active (reach : bool) (nw : Z) (a : adapter) : adapter * bool * bool :=
  if ast a then
    if (kFailInterval <=? nw - tS a) && (kFainN <=? lfc a) then
      (mkA (aep a) false (fc a) (lfc a) (sc a) (tS a) nw (tC a) (gfail a), true, false)
    else if kCheckTime <=? nw - tC a then
      if (kOverN <=? fc a) && ratio_hit a then
        (mkA (aep a) false (fc a) (lfc a) (sc a) (tS a) nw (tC a) (gfail a), true, false)
      else (mkA (aep a) true (fc a) (lfc a) (sc a) (tS a) nw (tC a) (gfail a), false, false)
    else (a, false, false)
  else if kTry <=? nw - tB a then
    (mkA (aep a) false (fc a) (lfc a) (sc a) (tS a) nw (tC a) (gfail a), false, reach)
  else (a, false, false).

(* one iteration of the loop of endpointManager.checkStatus *)
Definition check_one (reach : list N) (s : state) (e : N) : state :=
  match lookup e (att s) with
  | None => s
  | Some ai =>
    match get ai s with
    | None => s
    | Some a =>
      match check_active (memN e reach) (now s) a with
      | (a', first, need) =>
        let s1 := put ai a' s in
        let s2 := if first then w_rot (remove_first e (active s1)) (remove_all e (sel s1)) s1 else s1 in
        if need then
          if memN e (pset s2)
          then w_req (probeq s2) (pset s2) ((e, ai, now s2) :: reqlog s2) s2
          else w_req (probeq s2 ++ [ai]) (e :: pset s2) ((e, ai, now s2) :: reqlog s2) s2
        else s2
      end
    end
  end.

Definition succ_add (nw : Z) (a : adapter) : adapter :=     (* sendAdd; successAdd *)
  mkA (aep a) (ast a) (fc a) 0 (sc a + 1) nw (tB a) (tC a) (gfail a).
Definition fail_add (a : adapter) : adapter :=              (* sendAdd; failAdd *)
  mkA (aep a) (ast a) (fc a + 1) (lfc a + 1) (sc a + 1) (tS a) (tB a) (tC a) (gfail a + 1).
Definition reset (nw : Z) (a : adapter) : adapter :=        (* reset: lastSuccessTime is not touched *)
  mkA (aep a) true 0 0 0 (tS a) nw nw 0.

Fixpoint sorted_strict (l : list N) : bool :=
  match l with
  | x :: ((y :: _) as r) => N.ltb x y && sorted_strict r
  | _ => true
  end.
Fixpoint list_eqN (a b : list N) : bool :=
  match a, b with
  | [], [] => true | x :: a', y :: b' => N.eqb x y && list_eqN a' b' | _, _ => false end.

Inductive label :=
| Advance (d : N)                      (* d seconds pass *)
| Out (ai : N) (ok probe : bool)       (* a call on adapter ai was answered / failed (send error or timeout) *)
| Check (reach : list N)               (* checkStatus; reach = endpoints whose ReConnect succeeds *)
| SelProbe (ai : N)                    (* SelectAdapterProxy returned (ai, true) *)
| SelPick (e ai : N)                   (* SelectAdapterProxy returned (adapter ai of endpoint e, false) *)
| SelNone                              (* SelectAdapterProxy returned nil *)
| Reinstate (ai : N)                   (* the goroutine started after an answered probe: reset + addAliveEp *)
| Refresh (l inact : list N)           (* refreshEndpoints: the registry returns l as active (host order, no duplicates), inact as inactive *)
| Late (ai : N)                        (* a reply on adapter ai arrives after its caller's deadline: AdapterProxy.Recv finds no waiter *)
| Sent (ai : N) (probe : bool).        (* a ONE-WAY call on adapter ai was handed to the transport (Send returned nil): counted as a
                                          success, nothing is awaited, and - being no answer - it never reinstates; a one-way call
                                          whose Send fails is Out ai false _ like any other failed call *)

Definition w_pcalls v s := mkS (now s) (reg s) (objs s) (att s) (active s) (sel s) (probeq s) (pset s) v (reinst s) (reqlog s) (probelog s) (shrunk s).
Definition w_reinst v s := mkS (now s) (reg s) (objs s) (att s) (active s) (sel s) (probeq s) (pset s) (pcalls s) v (reqlog s) (probelog s) (shrunk s).

Definition rot_ok (s : state) (m : list (N * N)) (e : N) : bool :=     (* updateActiveEp's filter *)
  match lookup e m with
  | None => true
  | Some ai => match get ai s with Some a => ast a | None => true end
  end.

Definition step (s : state) (l : label) : option state :=
  match l with
  | Advance d => Some (w_now (now s + Z.of_N d) s)
  | Out ai ok probe =>
    match get ai s with
    | None => None
    | Some a =>
      if probe && negb (memN ai (pcalls s)) then None else
      let s1 := put ai (if ok then succ_add (now s) a else fail_add a) s in
      let s2 := if probe then w_pcalls (remove_first ai (pcalls s1)) s1 else s1 in
      Some (if probe && ok then w_reinst (ai :: reinst s2) s2 else s2)
    end
  | Check reach => Some (fold_left (check_one reach) (reg s) s)
  | SelProbe ai =>
    match reg s, probeq s, get ai s with
    | _ :: _, q :: rest, Some a =>
      if N.eqb q ai then
        Some (mkS (now s) (reg s) (objs s) (att s) (active s) (sel s) rest (remove_all (aep a) (pset s))
                  (ai :: pcalls s) (reinst s) (reqlog s) (ai :: probelog s) (shrunk s))
      else None
    | _, _, _ => None
    end
  | SelPick e ai =>
    match reg s, probeq s with
    | _ :: _, [] =>
      if (match sel s with [] => memN e (reg s) | _ :: _ => memN e (sel s) end) then
        match lookup e (att s) with
        | Some aj => if N.eqb aj ai then Some s else None
        | None =>
          if N.eqb ai (N.of_nat (length (objs s))) then
            Some (mkS (now s) (reg s) (objs s ++ [new_adapter e]) ((e, ai) :: att s) (active s) (sel s) (probeq s) (pset s)
                      (pcalls s) (reinst s) (reqlog s) (probelog s) (shrunk s))
          else None
        end
      else None
    | _, _ => None
    end
  | SelNone => match reg s with [] => Some s | _ :: _ => None end
  | Reinstate ai =>
    match get ai s with
    | None => None
    | Some a =>
      if memN ai (reinst s) then
        let s1 := w_reinst (remove_first ai (reinst s)) (put ai (reset (now s) a) s) in
        Some (w_rot (active s1 ++ [aep a]) (add_set (aep a) (sel s1)) s1)
      else None
    end
  | Refresh l inact =>
    if negb (sorted_strict l) then None else
    match l with
    | [] => Some s
    | _ :: _ =>
      if list_eqN l (reg s) then Some s else
      (* adapters of endpoints in neither list are closed and detached; those of inactive endpoints are kept *)
      let att' := filter (fun p => memN (fst p) (l ++ inact)) (att s) in
      let rot := filter (rot_ok s att') l in
      Some (mkS (now s) l (objs s) att' rot rot (probeq s) (pset s) (pcalls s) (reinst s) (reqlog s) (probelog s)
                (shrunk s || existsb (fun p => negb (memN (fst p) (l ++ inact))) (att s)))
    end
  | Late ai => match get ai s with Some _ => Some s | None => None end   (* no effect on the health record *)
  | Sent ai probe =>
    match get ai s with
    | None => None
    | Some a =>
      if probe && negb (memN ai (pcalls s)) then None else
      let s1 := put ai (succ_add (now s) a) s in
      Some (if probe then w_pcalls (remove_first ai (pcalls s1)) s1 else s1)
    end
  end.

Fixpoint run (s : state) (ls : list label) : option state :=
  match ls with
  | [] => Some s
  | l :: r => match step s l with Some s' => run s' r | None => None end
  end.

Definition reachable (s : state) : Prop := exists ls, run init ls = Some s.

(* ---------- the property's own vocabulary, read off a history (no reference to the health record) ---------- *)
(* failed calls on adapter ai since it was created / last reinstated *)
Definition upd_fails (ai : N) (acc : Z) (l : label) : Z :=
  match l with
  | Out aj false _ => if N.eqb aj ai then acc + 1 else acc
  | Reinstate aj => if N.eqb aj ai then 0 else acc
  | _ => acc
  end.
Definition fails_since (ai : N) (ls : list label) : Z := fold_left (upd_fails ai) ls 0.
(* failed calls in a row: no answered call (and no reinstatement) in between *)
Definition upd_streak (ai : N) (acc : Z) (l : label) : Z :=
  match l with
  | Out aj ok _ => if N.eqb aj ai then (if ok then 0 else acc + 1) else acc
  | Sent aj _ => if N.eqb aj ai then 0 else acc
  | Reinstate aj => if N.eqb aj ai then 0 else acc
  | _ => acc
  end.
Definition streak (ai : N) (ls : list label) : Z := fold_left (upd_streak ai) ls 0.
(* the clock, and the time of the last answered call on ai (0 = never) *)
Definition upd_clock (c : Z) (l : label) : Z := match l with Advance d => c + Z.of_N d | _ => c end.
Definition clock (ls : list label) : Z := fold_left upd_clock ls T0.
Definition upd_lastok (ai : N) (ct : Z * Z) (l : label) : Z * Z :=
  match l with
  | Advance d => (fst ct + Z.of_N d, snd ct)
  | Out aj true _ => if N.eqb aj ai then (fst ct, fst ct) else ct
  | Sent aj _ => if N.eqb aj ai then (fst ct, fst ct) else ct
  | _ => ct
  end.
Definition last_ok (ai : N) (ls : list label) : Z := snd (fold_left (upd_lastok ai) ls (T0, 0)).

(* probe requests: properly spaced per adapter object *)
Fixpoint spaced (l : list (N * N * Z)) : Prop :=
  match l with
  | [] => True
  | (e, ai, t) :: r => (forall e' t', In (e', ai, t') r -> kTry <= t - t') /\ spaced r
  end.
Definition req_count (ai : N) (l : list (N * N * Z)) : nat := length (filter (fun p => N.eqb ai (snd (fst p))) l).

(* ---------- correspondence: observations of the implementation after each step ---------- *)
Definition cap : Z := 100000.
Definition age (nw t : Z) : N := Z.to_N (Z.min cap (nw - t)).
Definition mask (l : list N) : N := fold_left (fun m e => N.lor m (N.shiftl 1 e)) l 0%N.
Definition code16 (l : list N) : N := fold_left (fun m e => (m + N.shiftl 1 (4 * e))%N) l 0%N.
Fixpoint stmask (i : N) (l : list adapter) : N :=
  match l with [] => 0%N | a :: r => ((if ast a then N.shiftl 1 i else 0) + stmask (i + 1) r)%N end.

(* compact: [status bits by adapter; probe queue length; probe dedupe set; selector members; registry; activeEp as counts] *)
Definition compact (s : state) : list N :=
  [stmask 0 (objs s); N.of_nat (length (probeq s)); mask (pset s); mask (sel s); mask (reg s); code16 (active s)].
Definition full (s : state) : list (list N) :=
  map (fun a => [aep a; if ast a then 1%N else 0%N; Z.to_N (fc a); Z.to_N (lfc a); Z.to_N (sc a);
                 age (now s) (tS a); age (now s) (tB a); age (now s) (tC a)]) (objs s).

Fixpoint list_eqNN (a b : list (list N)) : bool :=
  match a, b with
  | [], [] => true | x :: a', y :: b' => list_eqN x y && list_eqNN a' b' | _, _ => false end.

(* observed: compact vector with the three selectors separately, optionally the full adapter table *)
Record obs := mkO { o_st : N; o_q : N; o_pset : N; o_rr : N; o_ch : N; o_mh : N; o_reg : N; o_act : N; o_att : N; o_full : option (list (list N)) }.

Definition obs_ok (s : state) (o : obs) : bool :=
  list_eqN (compact s) [o_st o; o_q o; o_pset o; o_rr o; o_reg o; o_act o]
  && N.eqb (o_ch o) (o_rr o) && N.eqb (o_mh o) (o_rr o)
  && N.eqb (o_att o) (mask (map fst (att s)))          (* which endpoints have a cached adapter (epList) *)
  && match o_full o with None => true | Some f => list_eqNN (full s) f end.

(* one trace entry: the labels the implementation step corresponds to (a real call is selection + outcome
   [+ reinstatement] with no observation point in between), then the observation *)
Fixpoint accepts (s : state) (tr : list (list label * obs)) : bool :=
  match tr with
  | [] => true
  | (ls, o) :: r => match run s ls with None => false | Some s' => obs_ok s' o && accepts s' r end
  end.

Definition c15_case := list (list label * obs).
Fixpoint c15_mismatch_from (i : N) (cs : list c15_case) : list N :=
  match cs with
  | [] => []
  | c :: r => if accepts init c then c15_mismatch_from (i + 1) r else i :: c15_mismatch_from (i + 1) r
  end.
Definition c15_mismatch (off : N) (cs : list c15_case) : list N := c15_mismatch_from off cs.
