(* C14 at manager level: endpointManager.refreshEndpoints / updateActiveEp as far as hash routing is concerned.
   A refresh installs, for the registry answer it receives, the endpoint list in the manager's canonical order and the
   weight mode, both recomputed from the answer alone:
     weight mode := the common weight type when all endpoints of the answer share one, else loop;
     weights are enabled iff that mode is the static-weight type (1);
   an empty answer and an answer equal to the previous one are ignored.  The three selectors are rebuilt from scratch
   (New + Refresh) on the installed list.  The canonical order (sort by host, then by crc32 of the key) is the Section
   variable [order]: nothing is assumed about it here.  Definitions only.  Endpoint health (C15) is not part of it. *)
From Coq Require Import List NArith ZArith Bool.
From TarsV Require Import Base.Hex Select.Selectors.
Import ListNotations.

Definition ep_eqb (a b : ep) : bool :=
  bytes_eqb (host a) (host b) && bytes_eqb (skey a) (skey b) && Z.eqb (wgt a) (wgt b) && Z.eqb (wty a) (wty b).
Definition eps_eqb : list ep -> list ep -> bool := list_eqb ep_eqb.

(* enableWeight() after updateActiveEp(answer) *)
Definition weight_mode (answer : list ep) : bool :=
  match answer with
  | [] => false
  | e0 :: _ => forallb (fun e => Z.eqb (wty e) (wty e0)) answer && Z.eqb (wty e0) 1
  end.

Section manager.
  Variable order : list ep -> list ep.

  Record mgr := { m_raw : list ep; m_eps : list ep; m_weighted : bool }.
  Definition mgr0 : mgr := {| m_raw := []; m_eps := []; m_weighted := false |}.

  Definition mgr_refresh (m : mgr) (answer : list ep) : mgr :=
    if eps_eqb answer (m_raw m) then m                      (* reflect.DeepEqual: endpoint not changed *)
    else match answer with
         | [] => m                                          (* empty of active endpoint *)
         | _ => {| m_raw := answer; m_eps := order answer; m_weighted := weight_mode answer |}
         end.

  (* with endpoint health (C15 decides who is out; here [down] = the hosts whose adapter is currently deactivated): what is
     installed - for all three selectors alike, mgr_route reads the one list - is the answer minus the endpoints that are
     out; the weight mode is still that of the whole answer *)
  Definition is_down (down : list (list N)) (e : ep) : bool := existsb (bytes_eqb (host e)) down.
  Definition mgr_refresh_h (down : list (list N)) (m : mgr) (answer : list ep) : mgr :=
    if eps_eqb answer (m_raw m) then m
    else match answer with
         | [] => m
         | _ => {| m_raw := answer; m_eps := order (filter (fun e => negb (is_down down e)) answer); m_weighted := weight_mode answer |}
         end.

  Definition mgr_state (answers : list (list ep)) : mgr := fold_left mgr_refresh answers mgr0.

  (* the answer the manager is working from: the last non-empty one *)
  Fixpoint last_answer (answers : list (list ep)) (acc : list ep) : list ep :=
    match answers with
    | [] => acc
    | [] :: r => last_answer r acc
    | a :: r => last_answer r a
    end.

  (* hash routing through the manager: the selector chosen by the hash type, freshly built on the installed list *)
  Variable points : list N -> nat -> list N.
  Definition mgr_route (m : mgr) (k : kind) (code : N) : res :=
    snd (select k (fst (step points k (m_weighted m) sel0 (Refresh (m_eps m) 0 0))) code 0).
End manager.
