(* C15 proofs, part 5: no lock-out. A blocked endpoint can always come back: once its probe interval has elapsed, a status
   check that finds it reachable queues its probe; the queue drains one probe per selection; an answered probe and the
   reinstatement that follows put it back into the selectors. *)
From Coq Require Import List NArith ZArith Bool Lia ZifyBool ZifyNat ZifyN.
From TarsV Require Import Gen.Consts Select.Failover Select.FailoverProofs Select.FailoverInv Select.FailoverThms Select.FailoverQueue.
Import ListNotations.
Open Scope Z_scope.

(* ---------- the probe queue only grows during a status check ---------- *)
Lemma check_one_queue_mono : forall r s x ai, In ai (probeq s) -> In ai (probeq (check_one r s x)).
Proof.
  intros r s x ai Hin. destruct (check_one_cases r s x) as [-> | Heff]; [exact Hin |].
  destruct Heff as (ai0 & a0 & a' & first & need & _ & _ & _ & _ & _ & _ & _ & _ & _ & _ & _ & _ & _ & Hn0 & Hn1).
  destruct need.
  - destruct (Hn1 eq_refl) as [_ [[_ [Hq _]] | [_ [Hq _]]]]; rewrite Hq; [exact Hin | apply in_or_app; left; exact Hin].
  - destruct (Hn0 eq_refl) as [Hq _]. rewrite Hq. exact Hin.
Qed.

Lemma fold_queue_mono : forall r l s ai, In ai (probeq s) -> In ai (probeq (fold_left (check_one r) l s)).
Proof. intros r l. induction l as [| x l IH]; simpl; intros s ai H; [exact H |]. apply IH. apply check_one_queue_mono. exact H. Qed.

(* "if e is in the dedupe set, its adapter ai is queued": kept by the iterations for other endpoints *)
Definition dedupe_ok (e ai : N) (s : state) : Prop := memN e (pset s) = true -> In ai (probeq s).

Lemma check_one_dedupe_other : forall r s x e ai, x <> e -> dedupe_ok e ai s -> dedupe_ok e ai (check_one r s x).
Proof.
  intros r s x e ai Hne HP. destruct (check_one_cases r s x) as [-> | Heff]; [exact HP |].
  destruct Heff as (ai0 & a0 & a' & first & need & _ & _ & _ & _ & _ & _ & _ & _ & _ & _ & _ & _ & _ & Hn0 & Hn1).
  unfold dedupe_ok in *. destruct need.
  - destruct (Hn1 eq_refl) as [_ [[_ [Hq Hp]] | [_ [Hq Hp]]]]; rewrite Hq, Hp.
    + exact HP.
    + intros Hm. apply in_or_app. left. apply HP. unfold memN in *. simpl in Hm.
      apply orb_true_iff in Hm. destruct Hm as [Hm | Hm]; [apply N.eqb_eq in Hm; congruence | exact Hm].
  - destruct (Hn0 eq_refl) as [Hq [Hp _]]. rewrite Hq, Hp. exact HP.
Qed.

(* the status check, with e reachable and its probe interval elapsed, queues the probe of e's blocked adapter *)
Lemma fold_probe_due : forall r l s e ai a, InvB s -> lookup e (att s) = Some ai -> get ai s = Some a ->
  ast a = false -> kTry <= now s - tB a -> memN e r = true -> dedupe_ok e ai s -> In e l ->
  In ai (probeq (fold_left (check_one r) l s)).
Proof.
  intros r l. induction l as [| x l IH]; intros s e ai a HB Hl Hg Hst Hdue Hr HP Hin; [destruct Hin |].
  simpl. destruct (N.eq_dec x e) as [-> | Hne].
  - apply fold_queue_mono.
    destruct (check_one_eff r s e ai a Hl Hg) as (ai0 & a0 & a' & first & need & Hl0 & Hg0 & Hsp & _ & _ & _ & _ & _ & _ & _ & _ & _ & _ & Hn0 & Hn1).
    rewrite Hl in Hl0. inversion Hl0; subst ai0. rewrite Hg in Hg0. inversion Hg0; subst a0.
    assert (Hneed : need = true).
    { inversion Hsp as [Ha H1 H2 | Ha H1 H2 | Ha H1 | Hn Hb | Ha Hb]; subst; try congruence; try (exact Hr);
        try (specialize (Hb Hst); lia). }
    subst need. destruct (Hn1 eq_refl) as [_ [[Hm [Hq _]] | [_ [Hq _]]]]; rewrite Hq.
    + apply HP. exact Hm.
    + apply in_or_app. right. left. reflexivity.
  - destruct Hin as [-> | Hin]; [congruence |].
    apply (IH (check_one r s x) e ai a); auto.
    + apply InvB_check_one; exact HB.
    + rewrite check_one_att; exact Hl.
    + rewrite (check_one_other r s x e ai HB Hl Hne). exact Hg.
    + rewrite check_one_now. exact Hdue.
    + apply check_one_dedupe_other; assumption.
Qed.

Lemma dedupe_ok_reachable : forall s e ai, reachable s -> shrunk s = false -> lookup e (att s) = Some ai -> dedupe_ok e ai s.
Proof.
  intros s e ai Hr Hsh Hl Hm. destruct (InvQ_reachable s Hr) as [_ Q2].
  destruct (InvDE_reachable s Hr) as [[_ [[B1 B2] _]] [HD _]].
  apply memN_In in Hm. apply Q2 in Hm. unfold qeps in Hm. apply in_map_iff in Hm. destruct Hm as [aj [Hae Hin]].
  destruct (B2 aj Hin) as [b Hb]. unfold aep_of in Hae. rewrite Hb in Hae.
  pose proof (HD Hsh aj b Hb) as Hlj. rewrite Hae, Hl in Hlj. inversion Hlj; subst. exact Hin.
Qed.

Theorem probe_requested_when_due : forall s e ai a r s', reachable s -> shrunk s = false ->
  In e (reg s) -> lookup e (att s) = Some ai -> get ai s = Some a -> ast a = false ->
  30 <= now s - tB a -> In e r -> step s (Check r) = Some s' ->
  In ai (probeq s') /\ exists a', get ai s' = Some a' /\ ast a' = false.
Proof.
  intros s e ai a r s' Hr Hsh Hin Hl Hg Hst Hdue Hre Hs. simpl in Hs. inversion Hs; subst s'; clear Hs.
  destruct (InvABC_reachable s Hr) as [_ [HB _]]. split.
  - apply (fold_probe_due r (reg s) s e ai a HB Hl Hg Hst);
      [rewrite k_try; exact Hdue | apply memN_In; exact Hre | apply dedupe_ok_reachable; assumption | exact Hin].
  - destruct (fold_check_get r (reg s) s ai a Hg) as [b [Hb Hc]]. exists b. split; [exact Hb |].
    destruct Hc as [_ [_ [_ [_ [_ [_ [_ [Hk _]]]]]]]]. auto.
Qed.

(* ---------- draining the queue: one probe per selection ---------- *)
Lemma selprobe_effect : forall s q s', step s (SelProbe q) = Some s' ->
  objs s' = objs s /\ probeq s = q :: probeq s' /\ reg s' = reg s /\ pcalls s' = q :: pcalls s /\ att s' = att s /\ shrunk s' = shrunk s.
Proof.
  intros s q s' Hs. simpl in Hs. destruct (reg s); [discriminate |]. destruct (probeq s) as [| h t]; [discriminate |].
  destruct (get q s); [| discriminate]. destruct (N.eqb h q) eqn:Hq; [| discriminate].
  apply N.eqb_eq in Hq. subst h. inversion Hs; subst; clear Hs. simpl. repeat split; reflexivity.
Qed.

Fixpoint all_selprobe (ls : list label) : Prop :=
  match ls with [] => True | SelProbe _ :: r => all_selprobe r | _ => False end.

Lemma drain_to : forall q s ai, InvB s -> reg s <> [] -> probeq s = q -> In ai q ->
  exists ls s', run s ls = Some s' /\ all_selprobe ls /\ objs s' = objs s /\ memN ai (pcalls s') = true /\
                att s' = att s /\ reg s' = reg s.
Proof.
  induction q as [| h t IH]; intros s ai HB Hne Hq Hin; [destruct Hin |].
  assert (Hen : exists s1, step s (SelProbe h) = Some s1).
  { destruct HB as [_ B2]. destruct (B2 h) as [a Ha]; [rewrite Hq; left; reflexivity |].
    simpl. destruct (reg s); [congruence |]. rewrite Hq, Ha, N.eqb_refl. eauto. }
  destruct Hen as [s1 Hs1]. destruct (selprobe_effect _ _ _ Hs1) as (Ho & Hq1 & Hr1 & Hp1 & Ha1 & _).
  destruct (N.eq_dec h ai) as [-> | Hd].
  - exists [SelProbe ai], s1. cbn [run]. rewrite Hs1. cbn [all_selprobe]. repeat split; auto.
    rewrite Hp1. unfold memN. simpl. rewrite N.eqb_refl. reflexivity.
  - destruct Hin as [Heq | Hin]; [congruence |].
    rewrite Hq in Hq1. inversion Hq1 as [Ht].
    destruct (IH s1 ai) as (ls & s' & Hrun & Hall & Ho' & Hm & Ha' & Hr'); auto.
    + eapply InvB_step; eauto.
    + rewrite Hr1; exact Hne.
    + exists (SelProbe h :: ls), s'. cbn [run]. rewrite Hs1. cbn [all_selprobe]. repeat split; auto; congruence.
Qed.

Lemma run_one : forall s l s', step s l = Some s' -> run s [l] = Some s'.
Proof. intros s l s' H. cbn [run]. rewrite H. reflexivity. Qed.

Lemma run_cons : forall s l s1 ls, step s l = Some s1 -> run s (l :: ls) = run s1 ls.
Proof. intros s l s1 ls H. cbn [run]. rewrite H. reflexivity. Qed.

(* ---------- the way back ---------- *)
Theorem can_come_back : forall s e ai a, reachable s -> shrunk s = false ->
  In e (reg s) -> lookup e (att s) = Some ai -> get ai s = Some a -> ast a = false ->
  exists drain s', all_selprobe drain /\
    run s ([Advance 30; Check [e]] ++ drain ++ [Out ai true true; Reinstate ai]) = Some s' /\
    In e (sel s') /\ exists a', get ai s' = Some a' /\ ast a' = true /\ gfail a' = 0.
Proof.
  intros s e ai a Hr Hsh Hin Hl Hg Hst.
  (* 30 s pass *)
  set (s1 := w_now (now s + Z.of_N 30) s).
  assert (Hs1 : step s (Advance 30) = Some s1) by reflexivity.
  assert (Hr1 : reachable s1) by (eapply reachable_run_from; [exact Hr | apply run_one; exact Hs1]).
  destruct (InvABC_reachable s Hr) as [[_ HA] _]. destruct (HA ai a Hg) as [_ [_ [_ HtB]]].
  (* the status check finds e reachable *)
  destruct (step s1 (Check [e])) as [s2 |] eqn:Hs2; [| discriminate].
  destruct (probe_requested_when_due s1 e ai a [e] s2 Hr1 Hsh Hin Hl Hg Hst) as [Hq2 [a2 [Hg2 Hst2]]];
    [unfold s1; simpl; lia | left; reflexivity | exact Hs2 |].
  assert (Hr2 : reachable s2) by (eapply reachable_run_from; [exact Hr1 | apply run_one; exact Hs2]).
  assert (Hreg2 : reg s2 = reg s) by (simpl in Hs2; inversion Hs2; subst; rewrite fold_check_reg; reflexivity).
  assert (Hatt2 : att s2 = att s) by (simpl in Hs2; inversion Hs2; subst; rewrite fold_check_att; reflexivity).
  (* the selections take the queued probes, ai's among them *)
  destruct (InvABC_reachable s2 Hr2) as [_ [HB2 _]].
  destruct (drain_to (probeq s2) s2 ai HB2) as (drain & s3 & Hrun3 & Hall & Ho3 & Hm3 & Hatt3 & Hreg3); auto.
  { rewrite Hreg2. intros H0. rewrite H0 in Hin. destruct Hin. }
  assert (Hg3 : get ai s3 = Some a2) by (unfold get in *; rewrite Ho3; exact Hg2).
  (* the probe is answered *)
  assert (Hs4 : exists s4, step s3 (Out ai true true) = Some s4).
  { cbn [step]. rewrite Hg3, Hm3. cbn [negb andb]. eauto. }
  destruct Hs4 as [s4 Hs4].
  destruct (probe_success_reinstates s3 ai s4 [] s4 Hs4 eq_refl) as (s5 & a5 & Hs5 & Hg5 & Hst5 & _ & _ & _ & Hgf & Hsel & _); [intros [] |].
  exists drain, s5. split; [exact Hall |]. split.
  - change ([Advance 30; Check [e]] ++ drain ++ [Out ai true true; Reinstate ai])
      with (Advance 30 :: Check [e] :: (drain ++ [Out ai true true; Reinstate ai])).
    erewrite run_cons by exact Hs1. erewrite run_cons by exact Hs2. rewrite run_app, Hrun3. erewrite run_cons by exact Hs4. apply run_one. exact Hs5.
  - assert (Hr5 : reachable s5).
    { eapply reachable_run_from; [exact Hr2 |]. rewrite run_app, Hrun3. erewrite run_cons by exact Hs4. apply run_one. exact Hs5. }
    destruct (InvABC_reachable s5 Hr5) as [_ [[B1 _] _]].
    assert (Hl5 : lookup e (att s5) = Some ai).
    { assert (Hl3 : lookup e (att s3) = Some ai) by (rewrite Hatt3, Hatt2; exact Hl).
      destruct (step_att _ _ _ Hs4) as [E4 | [(e0 & He0 & _) | (r0 & i0 & He0 & _)]]; try discriminate.
      destruct (step_att _ _ _ Hs5) as [E5 | [(e0 & He0 & _) | (r0 & i0 & He0 & _)]]; try discriminate.
      rewrite E5, E4. exact Hl3. }
    destruct (B1 e ai Hl5) as [b [Hb He]]. rewrite Hg5 in Hb. inversion Hb; subst b. rewrite He in Hsel.
    split; [exact Hsel |]. exists a5. auto.
Qed.

(* the hypotheses are satisfiable: endpoint 0 blocked by its streak (Select/FailoverExamples.v), endpoint 1 active *)
From TarsV Require Import Select.FailoverExamples.
Definition h_blocked : list label := h_streak ++ [Check []].
Example ex_come_back_hyps :
  run init h_blocked = Some (st h_blocked) /\ shrunk (st h_blocked) = false /\ In 0%N (reg (st h_blocked)) /\
  lookup 0%N (att (st h_blocked)) = Some 0%N /\ (exists a, get 0%N (st h_blocked) = Some a /\ ast a = false) /\
  sel (st h_blocked) = [1%N].
Proof.
  split; [vm_compute; reflexivity |]. split; [vm_compute; reflexivity |]. split; [vm_compute; auto |].
  split; [vm_compute; reflexivity |]. split; [eexists; split; vm_compute; reflexivity | vm_compute; reflexivity].
Qed.
Example ex_come_back_path :
  exists s', run (st h_blocked) ([Advance 30; Check [0%N]] ++ [SelProbe 0] ++ [Out 0 true true; Reinstate 0]) = Some s' /\
             sel s' = [1%N; 0%N].
Proof. eexists. split; vm_compute; reflexivity. Qed.
