(* C15 proofs, part 4: the probe queue holds at most one probe per endpoint, and the dedupe set is exactly the
   set of endpoints with a queued probe (so an endpoint whose probe has been handed out can be requested again). *)
From Coq Require Import List NArith ZArith Bool Lia ZifyBool ZifyNat ZifyN.
From TarsV Require Import Gen.Consts Select.Failover Select.FailoverProofs Select.FailoverInv Select.FailoverThms.
Import ListNotations.
Open Scope Z_scope.

Definition aep_of (s : state) (ai : N) : N := match get ai s with Some a => aep a | None => 0%N end.
Definition qeps (s : state) : list N := map (aep_of s) (probeq s).

Definition InvQ (s : state) : Prop := NoDup (qeps s) /\ forall e, In e (pset s) <-> In e (qeps s).

Lemma NoDup_app_snoc : forall (l : list N) x, NoDup l -> ~ In x l -> NoDup (l ++ [x]).
Proof.
  induction l as [| y l IH]; simpl; intros x Hn Hx.
  - constructor; [intros [] | constructor].
  - inversion Hn; subst. constructor.
    + rewrite in_app_iff. simpl. intros [H | [H | []]]; [contradiction | subst; apply Hx; left; reflexivity].
    + apply IH; [assumption | intros H; apply Hx; right; exact H].
Qed.

Lemma map_ext_in' : forall (f g : N -> N) l, (forall x, In x l -> f x = g x) -> map f l = map g l.
Proof. intros f g l H. apply map_ext_in. exact H. Qed.

(* endpoints of adapters never change *)
Lemma step_aep_of : forall s l s' ai a, step s l = Some s' -> get ai s = Some a -> aep_of s' ai = aep_of s ai.
Proof.
  intros s l s' ai a Hs Hg. destruct (step_adapter _ _ _ _ _ Hs Hg) as [a' [Hg' Hc]].
  unfold aep_of. rewrite Hg, Hg'. eapply achg_aep; eauto.
Qed.

Lemma check_one_aep_of : forall r s e ai a, get ai s = Some a -> aep_of (check_one r s e) ai = aep_of s ai.
Proof.
  intros r s e ai a Hg. destruct (check_one_get r s e ai a Hg) as [b [Hb Hc]].
  unfold aep_of. rewrite Hg, Hb. exact (proj1 Hc).
Qed.

Lemma InvQ_same : forall s s', InvB s -> probeq s' = probeq s -> pset s' = pset s ->
  (forall ai a, get ai s = Some a -> aep_of s' ai = aep_of s ai) -> InvQ s -> InvQ s'.
Proof.
  intros s s' [_ B2] Hq Hp Ha [Q1 Q2].
  assert (He : qeps s' = qeps s).
  { unfold qeps. rewrite Hq. apply map_ext_in'. intros ai Hin. destruct (B2 ai Hin) as [a Hg]. eauto. }
  unfold InvQ. rewrite He, Hp. auto.
Qed.

Lemma InvQ_check_one : forall r s e, InvB s -> InvQ s -> InvQ (check_one r s e).
Proof.
  intros r s e HB HQ.
  destruct (check_one_cases r s e) as [Heq | Heff]; [rewrite Heq; exact HQ |].
  destruct Heff as (ai & a & a' & first & need & Hl & Hg & Hsp & _ & _ & Ho & _ & _ & _ & _ & _ & _ & _ & Hn0 & Hn1).
  assert (Haep : forall aj b, get aj s = Some b -> aep_of (check_one r s e) aj = aep_of s aj)
    by (intros; eapply check_one_aep_of; eauto).
  destruct need.
  - destruct (Hn1 eq_refl) as [_ [[_ [Hq Hp]] | [Hm [Hq Hp]]]].
    + eapply InvQ_same; eauto.
    + destruct HQ as [Q1 Q2]. destruct HB as [B1 B2].
      destruct (B1 e ai Hl) as [a0 [Hg0 Hae]]. rewrite Hg in Hg0. inversion Hg0; subst a0.
      assert (He : qeps (check_one r s e) = qeps s ++ [e]).
      { unfold qeps. rewrite Hq, map_app. simpl. f_equal.
        - apply map_ext_in'. intros aj Hin. destruct (B2 aj Hin) as [b Hb]. eauto.
        - rewrite (Haep ai a Hg). unfold aep_of. rewrite Hg, Hae. reflexivity. }
      apply memN_false in Hm.
      split.
      * rewrite He. apply NoDup_app_snoc; [exact Q1 |]. intros Hin. apply Hm. apply Q2. exact Hin.
      * intros e0. rewrite He, Hp, in_app_iff. simpl. specialize (Q2 e0). tauto.
  - destruct (Hn0 eq_refl) as [Hq [Hp _]]. eapply InvQ_same; eauto.
Qed.

Lemma InvQ_step : forall s l s', InvB s -> InvQ s -> step s l = Some s' -> InvQ s'.
Proof.
  intros s l s' HB HQ Hs.
  assert (Haep : forall ai a, get ai s = Some a -> aep_of s' ai = aep_of s ai) by (intros; eapply step_aep_of; eauto).
  destruct l; try (destruct (step_queues _ _ _ Hs ltac:(intros; discriminate)) as [_ [[Hq [_ Hp]] | (ai0 & rest & Hl & _)]];
    [eapply InvQ_same; eauto | discriminate]).
  - (* Check *)
    simpl in Hs. inversion Hs; subst; clear Hs Haep.
    assert (Hgen : forall l0 s0, InvB s0 -> InvQ s0 -> InvQ (fold_left (check_one reach) l0 s0)).
    { induction l0 as [| x l0 IH]; simpl; intros s0 B Q; [exact Q |]. apply IH; [apply InvB_check_one; exact B | apply InvQ_check_one; assumption]. }
    apply Hgen; assumption.
  - (* SelProbe *)
    simpl in Hs. destruct (reg s); [discriminate |]. destruct (probeq s) as [| q rest] eqn:Hq; [discriminate |].
    destruct (get ai s) as [a |] eqn:Hg; [| discriminate]. destruct (N.eqb q ai) eqn:Hqa; [| discriminate].
    apply N.eqb_eq in Hqa. subst q. inversion Hs; subst s'; clear Hs.
    destruct HQ as [Q1 Q2]. destruct HB as [_ B2].
    assert (He : qeps s = aep a :: map (aep_of s) rest).
    { unfold qeps. rewrite Hq. simpl. unfold aep_of at 1. rewrite Hg. reflexivity. }
    rewrite He in Q1. inversion Q1 as [| x xs Hnin Hnd]; subst.
    split.
    + unfold qeps. simpl. exact Hnd.
    + intros e0. unfold qeps. simpl. rewrite In_remove_all, (Q2 e0), He. simpl. split.
      * intros [[H | H] Hne]; [congruence | exact H].
      * intros H. split; [right; exact H | intros ->; contradiction].
Qed.

Lemma InvQ_reachable : forall s, reachable s -> InvQ s.
Proof.
  intros s [ls Hr].
  assert (H : InvB s /\ InvQ s).
  { eapply (run_inv (fun s => InvB s /\ InvQ s)); [| | exact Hr].
    - intros s0 l s1 [B Q] Hs. split; [eapply InvB_step; eauto | eapply InvQ_step; eauto].
    - split; [exact InvB_init |]. split; [constructor | intros e; simpl; tauto]. }
  exact (proj2 H).
Qed.

Theorem probe_queue_dedupe : forall s, reachable s ->
  NoDup (qeps s) /\ forall e, In e (pset s) <-> In e (qeps s).
Proof. exact InvQ_reachable. Qed.

(* the scope "shrunk = false" in terms of the history: it is left exactly by a refresh that drops an endpoint which
   has an adapter at that moment *)
Theorem scope_left_only_by_dropping_refresh : forall ls s0 s, run s0 ls = Some s -> shrunk s0 = false -> shrunk s = true ->
  exists pre r i post s1 e ai, ls = pre ++ Refresh r i :: post /\ run s0 pre = Some s1 /\
    lookup e (att s1) = Some ai /\ ~ In e r /\ ~ In e i.
Proof.
  induction ls as [| l ls IH]; simpl; intros s0 s Hr H0 H1.
  - inversion Hr; subst. congruence.
  - destruct (step s0 l) as [s1 |] eqn:Hs; [| discriminate].
    destruct (shrunk s1) eqn:Hsh.
    + destruct (shrunk_only_by_dropping_refresh _ _ _ Hs H0 Hsh) as (r & i & e & ai & -> & Hl & Hn).
      exists [], r, i, ls, s0, e, ai. simpl. auto.
    + destruct (IH s1 s Hr Hsh H1) as (pre & r & i & post & s2 & e & ai & -> & Hp & Hl & Hn).
      exists (l :: pre), r, i, post, s2, e, ai. simpl. rewrite Hs. auto.
Qed.

(* ================= slow endpoints: a reply that arrives after its caller's deadline ================= *)
Theorem late_reply_no_effect : forall s ai s', step s (Late ai) = Some s' -> s' = s.
Proof. intros s ai s' H. simpl in H. destruct (get ai s); inversion H; reflexivity. Qed.

Definition is_late (l : label) : bool := match l with Late _ => true | _ => false end.

Lemma fold_skip_late : forall (A : Type) (f : A -> label -> A), (forall acc aj, f acc (Late aj) = acc) ->
  forall ls acc, fold_left f (filter (fun l => negb (is_late l)) ls) acc = fold_left f ls acc.
Proof.
  intros A f Hf ls. induction ls as [| l ls IH]; simpl; intros acc; [reflexivity |].
  destruct l; simpl; try apply IH. rewrite Hf. apply IH.
Qed.

(* the property's history quantities do not see late replies: a call that timed out stays a failed call, the streak is
   not reset and the time of the last answered call does not move, wherever late replies are interleaved *)
Theorem late_replies_do_not_count : forall ai ls,
  let ls' := filter (fun l => negb (is_late l)) ls in
  fails_since ai ls' = fails_since ai ls /\ streak ai ls' = streak ai ls /\ last_ok ai ls' = last_ok ai ls /\ clock ls' = clock ls.
Proof.
  intros ai ls ls'. unfold ls', fails_since, streak, last_ok, clock.
  rewrite !fold_skip_late by reflexivity. auto.
Qed.

(* ================= registry changes while an endpoint is blocked ================= *)
(* a refresh keeps the adapter (the health record) of every endpoint it lists, as active OR as inactive *)
Theorem refresh_keeps_listed : forall s l i s' e ai, step s (Refresh l i) = Some s' ->
  lookup e (att s) = Some ai -> In e (l ++ i) -> lookup e (att s') = Some ai.
Proof.
  intros s l i s' e ai Hs Hl Hin. destruct (step_refresh _ _ _ _ Hs) as [-> | (_ & att' & rot & Hatt & _ & _ & _ & _ & Ha & _)]; [exact Hl |].
  rewrite Ha, Hatt. rewrite lookup_filter_in; [exact Hl | apply memN_In; exact Hin].
Qed.

Lemma run_shrunk : forall ls s s', run s ls = Some s' -> shrunk s' = false -> shrunk s = false.
Proof.
  induction ls as [| l ls IH]; simpl; intros s s' Hr Hsh.
  - inversion Hr; subst; exact Hsh.
  - destruct (step s l) as [s1 |] eqn:Hs; [| discriminate]. eapply step_shrunk; [exact Hs |]. eapply IH; eauto.
Qed.

Lemma run_att_mono : forall ls s s' e ai, run s ls = Some s' -> shrunk s' = false ->
  lookup e (att s) = Some ai -> lookup e (att s') = Some ai.
Proof.
  induction ls as [| l ls IH]; simpl; intros s s' e ai Hr Hsh Hl.
  - inversion Hr; subst; exact Hl.
  - destruct (step s l) as [s1 |] eqn:Hs; [| discriminate].
    pose proof (run_shrunk _ _ _ Hr Hsh) as Hsh1.
    eapply IH; [exact Hr | exact Hsh |]. eapply step_att_mono; eauto.
Qed.

Lemma reachable_run_from : forall ls s s', reachable s -> run s ls = Some s' -> reachable s'.
Proof. intros ls s s' [l0 H0] Hr. exists (l0 ++ ls). rewrite run_app, H0. exact Hr. Qed.

(* in scope (no refresh dropped an endpoint from BOTH lists while it had an adapter): a blocked endpoint is in no selector *)
Theorem blocked_out_of_rotation : forall s e ai a, reachable s -> shrunk s = false ->
  lookup e (att s) = Some ai -> get ai s = Some a -> ast a = false -> ~ In e (sel s).
Proof. intros s e ai a Hr Hsh Hl Hg Hst. destruct (InvDE_reachable s Hr) as [_ [_ HE]]. eapply HE; eauto. Qed.

(* ... and stays out, with its health record attached, through every in-scope history that contains no answered probe
   of it - whatever the registry does with it meanwhile (active -> inactive -> active, other endpoints coming and going) *)
Theorem blocked_stays_out_without_probe : forall ls s s' e ai a, reachable s -> run s ls = Some s' -> shrunk s' = false ->
  lookup e (att s) = Some ai -> get ai s = Some a -> ast a = false -> memN ai (reinst s) = false ->
  ~ In (Out ai true true) ls ->
  lookup e (att s') = Some ai /\ (exists a', get ai s' = Some a' /\ ast a' = false) /\ ~ In e (sel s').
Proof.
  intros ls s s' e ai a Hre Hr Hsh Hl Hg Hst Hm Hno.
  pose proof (run_att_mono ls s s' e ai Hr Hsh Hl) as Hl'.
  destruct (stays_blocked ls s s' ai a Hr Hg Hst Hm Hno) as [a' [Hg' [Hst' _]]].
  split; [exact Hl' |]. split; [eauto |].
  eapply blocked_out_of_rotation; eauto. eapply reachable_run_from; eauto.
Qed.

(* ================= one-way calls ================= *)
(* the outcome of a call is what counts, whatever its packet type: a call that fails at Send is Out _ false _ (one-way or not);
   a one-way call that was handed to the transport is booked as a success, awaits nothing and reinstates nothing *)
Theorem one_way_sent_effect : forall s ai p s', step s (Sent ai p) = Some s' ->
  exists a, get ai s = Some a /\ get ai s' = Some (succ_add (now s) a) /\
            reinst s' = reinst s /\ sel s' = sel s /\ active s' = active s /\ probeq s' = probeq s.
Proof.
  intros s ai p s' Hs. simpl in Hs. destruct (get ai s) as [a |] eqn:Hg; [| discriminate].
  destruct (p && negb (memN ai (pcalls s))); [discriminate |]. exists a. split; [reflexivity |].
  inversion Hs; subst; clear Hs.
  assert (Hg' : get ai (put ai (succ_add (now s) a) s) = Some (succ_add (now s) a)) by (eapply get_put_same; eauto).
  destruct p; simpl; repeat split; exact Hg'.
Qed.
