(* C15 proofs, part 2: reachability, how a step changes one adapter, groups D-E (attachment, blocked => out of
   the selectors), and the streak clause. *)
From Coq Require Import List NArith ZArith Bool Lia ZifyBool ZifyNat ZifyN.
From TarsV Require Import Gen.Consts Select.Failover Select.FailoverProofs.
Import ListNotations.
Open Scope Z_scope.

(* ---------- runs ---------- *)
Lemma run_app : forall l1 l2 s, run s (l1 ++ l2) = match run s l1 with Some s1 => run s1 l2 | None => None end.
Proof. induction l1 as [| l l1 IH]; simpl; intros; [reflexivity |]. destruct (step s l); [apply IH | reflexivity]. Qed.

Lemma run_inv : forall (P : state -> Prop), (forall s l s', P s -> step s l = Some s' -> P s') ->
  forall ls s s', P s -> run s ls = Some s' -> P s'.
Proof.
  intros P H ls. induction ls as [| l ls IH]; simpl; intros s s' Hp Hr.
  - inversion Hr; subst; exact Hp.
  - destruct (step s l) as [s1 |] eqn:Hs; [| discriminate]. eapply IH; [eapply H; eauto | exact Hr].
Qed.

Lemma InvA_init : InvA init.
Proof. split; [unfold init, T0; simpl; lia |]. unfold get, init; simpl. intros ai a H. destruct (N.to_nat ai); discriminate. Qed.
Lemma InvB_init : InvB init.
Proof. split; simpl; [intros; discriminate | intros ai []]. Qed.
Lemma InvC_init : InvC init.
Proof. split; simpl; [intros e [] | intros; discriminate]. Qed.

Definition InvABC (s : state) : Prop := InvA s /\ InvB s /\ InvC s.
Lemma InvABC_step : forall s l s', InvABC s -> step s l = Some s' -> InvABC s'.
Proof.
  intros s l s' [HA [HB HC]] Hs. split; [eapply InvA_step; eauto |]. split; [eapply InvB_step; eauto | eapply InvC_step; eauto].
Qed.
Lemma InvABC_reachable : forall s, reachable s -> InvABC s.
Proof.
  intros s [ls Hr]. eapply (run_inv InvABC InvABC_step); [| exact Hr].
  split; [exact InvA_init |]. split; [exact InvB_init | exact InvC_init].
Qed.

(* ---------- how checkStatus changes one adapter ---------- *)
Definition chk (nw : Z) (a a' : adapter) : Prop :=
  aep a' = aep a /\ fc a' = fc a /\ lfc a' = lfc a /\ sc a' = sc a /\ tS a' = tS a /\ tC a' = tC a /\ gfail a' = gfail a /\
  (ast a = false -> ast a' = false) /\ (tB a' = tB a \/ tB a' = nw).

Lemma chk_refl : forall nw a, chk nw a a.
Proof. intros; unfold chk; repeat split; auto. Qed.
Lemma chk_trans : forall nw a b c, chk nw a b -> chk nw b c -> chk nw a c.
Proof.
  unfold chk. intros nw a b c [H1 [H2 [H3 [H4 [H5 [H6 [H7 [H8 H9]]]]]]]] [G1 [G2 [G3 [G4 [G5 [G6 [G7 [G8 G9]]]]]]]].
  repeat split; try congruence; auto. destruct H9, G9; [left | right | right | right]; congruence.
Qed.
Lemma ca_spec_chk : forall reach nw a a' f n, ca_spec reach nw a (a', f, n) -> chk nw a a'.
Proof. intros reach nw a a' f n H. inversion H; subst; unfold chk; simpl; repeat split; auto; congruence. Qed.

Lemma check_one_now : forall r s e, now (check_one r s e) = now s.
Proof.
  intros r s e. destruct (check_one_cases r s e) as [-> | Heff]; [reflexivity |].
  destruct Heff as [ai [a [a' [first [need [_ [_ [_ [Hn _]]]]]]]]]. exact Hn.
Qed.
Lemma check_one_att : forall r s e, att (check_one r s e) = att s.
Proof.
  intros r s e. destruct (check_one_cases r s e) as [-> | Heff]; [reflexivity |].
  destruct Heff as [ai [a [a' [first [need [_ [_ [_ [_ [_ [_ [Ha _]]]]]]]]]]]]. exact Ha.
Qed.
Lemma check_one_reg : forall r s e, reg (check_one r s e) = reg s.
Proof.
  intros r s e. destruct (check_one_cases r s e) as [-> | Heff]; [reflexivity |].
  destruct Heff as [ai [a [a' [first [need [_ [_ [_ [_ [Hr _]]]]]]]]]]. exact Hr.
Qed.
Lemma check_one_shrunk : forall r s e, shrunk (check_one r s e) = shrunk s.
Proof.
  intros r s e. destruct (check_one_cases r s e) as [-> | Heff]; [reflexivity |].
  destruct Heff as [ai [a [a' [first [need [_ [_ [_ [_ [_ [_ [_ [_ [_ [_ [_ [_ [Hr _]]]]]]]]]]]]]]]]]]. exact Hr.
Qed.
Lemma check_one_len : forall r s e, length (objs (check_one r s e)) = length (objs s).
Proof.
  intros r s e. destruct (check_one_cases r s e) as [-> | Heff]; [reflexivity |].
  destruct Heff as [ai [a [a' [first [need [_ [_ [_ [_ [_ [Ho _]]]]]]]]]]]. rewrite Ho. apply length_upd.
Qed.

Lemma check_one_get : forall r s e aj b, get aj s = Some b ->
  exists b', get aj (check_one r s e) = Some b' /\ chk (now s) b b'.
Proof.
  intros r s e aj b Hb. destruct (check_one_cases r s e) as [-> | Heff]; [exists b; split; [exact Hb | apply chk_refl] |].
  destruct Heff as [ai [a [a' [first [need [_ [Hg [Hsp [_ [_ [Ho _]]]]]]]]]]].
  rewrite (get_of_objs _ _ _ _ Ho). destruct (N.eq_dec aj ai) as [-> | Hne].
  - rewrite Hg in Hb. inversion Hb; subst. exists a'. split; [eapply get_put_same; eauto | eapply ca_spec_chk; eauto].
  - exists b. split; [rewrite get_put_other by congruence; exact Hb | apply chk_refl].
Qed.

Lemma fold_check_now : forall r l s, now (fold_left (check_one r) l s) = now s.
Proof. intros r l. induction l; simpl; intros; [reflexivity |]. rewrite IHl. apply check_one_now. Qed.
Lemma fold_check_att : forall r l s, att (fold_left (check_one r) l s) = att s.
Proof. intros r l. induction l; simpl; intros; [reflexivity |]. rewrite IHl. apply check_one_att. Qed.
Lemma fold_check_reg : forall r l s, reg (fold_left (check_one r) l s) = reg s.
Proof. intros r l. induction l; simpl; intros; [reflexivity |]. rewrite IHl. apply check_one_reg. Qed.
Lemma fold_check_shrunk : forall r l s, shrunk (fold_left (check_one r) l s) = shrunk s.
Proof. intros r l. induction l; simpl; intros; [reflexivity |]. rewrite IHl. apply check_one_shrunk. Qed.
Lemma fold_check_len : forall r l s, length (objs (fold_left (check_one r) l s)) = length (objs s).
Proof. intros r l. induction l; simpl; intros; [reflexivity |]. rewrite IHl. apply check_one_len. Qed.
Lemma fold_check_get : forall r l s aj b, get aj s = Some b ->
  exists b', get aj (fold_left (check_one r) l s) = Some b' /\ chk (now s) b b'.
Proof.
  intros r l. induction l as [| e l IH]; simpl; intros s aj b Hb; [exists b; split; [exact Hb | apply chk_refl] |].
  destruct (check_one_get r s e aj b Hb) as [b1 [Hb1 Hc1]].
  destruct (IH _ aj b1 Hb1) as [b2 [Hb2 Hc2]]. rewrite check_one_now in Hc2.
  exists b2. split; [exact Hb2 | eapply chk_trans; eauto].
Qed.

(* ---------- how one step changes one adapter ---------- *)
Inductive achg (s : state) (l : label) (ai : N) (a a' : adapter) : Prop :=
| ch_same : a' = a -> (forall ok p, l <> Out ai ok p) -> l <> Reinstate ai -> (forall p, l <> Sent ai p) -> achg s l ai a a'
| ch_ok : forall p, l = Out ai true p -> a' = succ_add (now s) a -> achg s l ai a a'
| ch_fail : forall p, l = Out ai false p -> a' = fail_add a -> achg s l ai a a'
| ch_reset : l = Reinstate ai -> memN ai (reinst s) = true -> a' = reset (now s) a -> achg s l ai a a'
| ch_sent : forall p, l = Sent ai p -> a' = succ_add (now s) a -> achg s l ai a a'
| ch_check : forall r, l = Check r -> chk (now s) a a' -> achg s l ai a a'.

Ltac same_tac := apply ch_same; [reflexivity | intros ? ? HH; inversion HH; congruence | intros HH; inversion HH; congruence | intros ? HH; inversion HH; congruence].

Lemma get_same_objs : forall s s' ai, objs s' = objs s -> get ai s' = get ai s.
Proof. unfold get; intros s s' ai H; rewrite H; reflexivity. Qed.

Lemma step_adapter : forall s l s' ai a, step s l = Some s' -> get ai s = Some a ->
  exists a', get ai s' = Some a' /\ achg s l ai a a'.
Proof.
  intros s l s' ai a Hs Ha. destruct l; simpl in Hs.
  - inversion Hs; subst. exists a. split; [exact Ha | same_tac].
  - destruct (get ai0 s) as [a0 |] eqn:Hg; [| discriminate].
    destruct (probe && negb (memN ai0 (pcalls s))); [discriminate |].
    assert (Hget : get ai s' = get ai (put ai0 (if ok then succ_add (now s) a0 else fail_add a0) s)).
    { inversion Hs; subst; clear Hs. destruct probe, ok; reflexivity. }
    rewrite Hget. destruct (N.eq_dec ai ai0) as [-> | Hne].
    + rewrite Hg in Ha. inversion Ha; subst. eexists. split; [eapply get_put_same; eauto |].
      destruct ok; [eapply ch_ok | eapply ch_fail]; reflexivity.
    + exists a. split; [rewrite get_put_other by congruence; exact Ha | same_tac].
  - inversion Hs; subst; clear Hs. destruct (fold_check_get reach (reg s) s ai a Ha) as [b [Hb Hc]].
    exists b. split; [exact Hb | eapply ch_check; [reflexivity | exact Hc]].
  - destruct (reg s); [discriminate |]. destruct (probeq s); [discriminate |].
    destruct (get ai0 s); [| discriminate]. destruct (N.eqb n0 ai0); [| discriminate].
    inversion Hs; subst. exists a. split; [exact Ha | same_tac].
  - destruct (reg s); [discriminate |]. destruct (probeq s); [| discriminate].
    destruct (match sel s with [] => _ | _ :: _ => _ end); [| discriminate].
    destruct (lookup e (att s)).
    + destruct (N.eqb n0 ai0); inversion Hs; subst. exists a. split; [exact Ha | same_tac].
    + destruct (N.eqb ai0 (N.of_nat (length (objs s)))); inversion Hs; subst; clear Hs.
      exists a. split; [eapply get_snoc_old; [exact Ha | reflexivity] | same_tac].
  - destruct (reg s); inversion Hs; subst. exists a. split; [exact Ha | same_tac].
  - destruct (get ai0 s) as [a0 |] eqn:Hg; [| discriminate]. destruct (memN ai0 (reinst s)) eqn:Hm; [| discriminate].
    inversion Hs; subst; clear Hs.
    change (exists a', get ai (put ai0 (reset (now s) a0) s) = Some a' /\ achg s (Reinstate ai0) ai a a').
    destruct (N.eq_dec ai ai0) as [-> | Hne].
    + rewrite Hg in Ha. inversion Ha; subst. eexists. split; [eapply get_put_same; eauto | apply ch_reset; auto].
    + exists a. split; [rewrite get_put_other by congruence; exact Ha | same_tac].
  - destruct (step_refresh _ _ _ _ Hs) as [-> | [_ [att' [rot [_ [_ [_ [_ [Ho _]]]]]]]]].
    + exists a. split; [exact Ha | same_tac].
    + exists a. split; [rewrite (get_same_objs _ _ _ Ho); exact Ha | same_tac].
  - destruct (get ai0 s); inversion Hs; subst. exists a. split; [exact Ha | same_tac].
  - destruct (get ai0 s) as [a0 |] eqn:Hg; [| discriminate].
    destruct (probe && negb (memN ai0 (pcalls s))); [discriminate |].
    assert (Hget : get ai s' = get ai (put ai0 (succ_add (now s) a0) s)).
    { inversion Hs; subst; clear Hs. destruct probe; reflexivity. }
    rewrite Hget. destruct (N.eq_dec ai ai0) as [-> | Hne].
    + rewrite Hg in Ha. inversion Ha; subst. eexists. split; [eapply get_put_same; eauto |]. eapply ch_sent; reflexivity.
    + exists a. split; [rewrite get_put_other by congruence; exact Ha | same_tac].
Qed.

(* a step creates at most one adapter: a fresh one for an endpoint that had none *)
Lemma step_len : forall s l s', step s l = Some s' ->
  length (objs s') = length (objs s) \/
  exists e, l = SelPick e (N.of_nat (length (objs s))) /\ lookup e (att s) = None /\
            objs s' = objs s ++ [new_adapter e] /\ att s' = (e, N.of_nat (length (objs s))) :: att s /\
            sel s' = sel s /\ reg s' = reg s /\ shrunk s' = shrunk s.
Proof.
  intros s l s' Hs. destruct l; simpl in Hs.
  - inversion Hs; subst. left; reflexivity.
  - destruct (get ai s) as [a0 |] eqn:Hg; [| discriminate].
    destruct (probe && negb (memN ai (pcalls s))); [discriminate |]. left.
    inversion Hs; subst; clear Hs. destruct probe, ok; simpl; apply length_upd.
  - inversion Hs; subst. left. apply fold_check_len.
  - destruct (reg s); [discriminate |]. destruct (probeq s); [discriminate |].
    destruct (get ai s); [| discriminate]. destruct (N.eqb n0 ai); [| discriminate].
    inversion Hs; subst. left; reflexivity.
  - destruct (reg s); [discriminate |]. destruct (probeq s); [| discriminate].
    destruct (match sel s with [] => _ | _ :: _ => _ end); [| discriminate].
    destruct (lookup e (att s)) eqn:Hl.
    + destruct (N.eqb n0 ai); inversion Hs; subst. left; reflexivity.
    + destruct (N.eqb ai (N.of_nat (length (objs s)))) eqn:Hai; inversion Hs; subst; clear Hs.
      apply N.eqb_eq in Hai. subst ai. right. exists e. repeat split; auto.
  - destruct (reg s); inversion Hs; subst; left; reflexivity.
  - destruct (get ai s) as [a0 |] eqn:Hg; [| discriminate]. destruct (memN ai (reinst s)); [| discriminate].
    inversion Hs; subst; clear Hs. left. simpl. apply length_upd.
  - destruct (step_refresh _ _ _ _ Hs) as [-> | [_ [att' [rot [_ [_ [_ [_ [Ho _]]]]]]]]]; left; [reflexivity | rewrite Ho; reflexivity].
  - destruct (get ai s); inversion Hs; subst. left; reflexivity.
  - destruct (get ai s) as [a0 |] eqn:Hg; [| discriminate].
    destruct (probe && negb (memN ai (pcalls s))); [discriminate |]. left.
    inversion Hs; subst; clear Hs. destruct probe; simpl; apply length_upd.
Qed.

Lemma get_None_len : forall s ai, get ai s = None <-> (length (objs s) <= N.to_nat ai)%nat.
Proof. intros; unfold get; apply nth_error_None. Qed.

Lemma step_created : forall s l s' ai a', step s l = Some s' -> get ai s = None -> get ai s' = Some a' ->
  exists e, l = SelPick e ai /\ a' = new_adapter e /\ lookup e (att s) = None /\ ai = N.of_nat (length (objs s)).
Proof.
  intros s l s' ai a' Hs Hn Ha. destruct (step_len _ _ _ Hs) as [Hl | [e [-> [Hno [Ho _]]]]].
  - apply get_None_len in Hn. rewrite <- Hl in Hn. apply get_None_len in Hn. congruence.
  - unfold get in Ha. rewrite Ho in Ha. destruct (nth_error_snoc _ _ _ _ _ Ha) as [Hold | [Hi ->]].
    + unfold get in Hn. congruence.
    + exists e. assert (ai = N.of_nat (length (objs s))) by lia. subst ai. auto.
Qed.

(* ---------- group D: while no refresh has dropped an endpoint that had an adapter, every adapter is attached ---------- *)
Definition InvD (s : state) : Prop :=
  shrunk s = false -> forall ai a, get ai s = Some a -> lookup (aep a) (att s) = Some ai.

Lemma filter_keep_all : forall l (m : list (N * N)), existsb (fun p : N * N => negb (memN (fst p) l)) m = false ->
  filter (fun p : N * N => memN (fst p) l) m = m.
Proof.
  intros l m. induction m as [| p m IH]; simpl; intros H; [reflexivity |].
  apply orb_false_iff in H. destruct H as [H1 H2]. apply negb_false_iff in H1. rewrite H1. f_equal. auto.
Qed.

Lemma achg_aep : forall s l ai a a', achg s l ai a a' -> aep a' = aep a.
Proof. intros s l ai a a' H. destruct H as [-> _ _ _ | p _ -> | p _ -> | _ _ -> | p _ -> | r _ Hc]; try reflexivity. exact (proj1 Hc). Qed.

(* attachment, selectors, registry and the shrunk flag, step by step *)
Lemma step_att : forall s l s', step s l = Some s' ->
  att s' = att s \/
  (exists e, l = SelPick e (N.of_nat (length (objs s))) /\ lookup e (att s) = None /\ att s' = (e, N.of_nat (length (objs s))) :: att s) \/
  (exists r i, l = Refresh r i /\ refresh_effect s r i s').
Proof.
  intros s l s' Hs. destruct l; try (destruct (step_len _ _ _ Hs) as [_ | [e [He [Hno [_ [Ha _]]]]]]; [| right; left; exists e; auto]);
    simpl in Hs.
  - inversion Hs; subst. left; reflexivity.
  - destruct (get ai s) as [a0 |]; [| discriminate].
    destruct (probe && negb (memN ai (pcalls s))); [discriminate |]. left.
    inversion Hs; subst; clear Hs. destruct probe, ok; reflexivity.
  - inversion Hs; subst. left. apply fold_check_att.
  - destruct (reg s); [discriminate |]. destruct (probeq s); [discriminate |].
    destruct (get ai s); [| discriminate]. destruct (N.eqb n0 ai); [| discriminate].
    inversion Hs; subst. left; reflexivity.
  - destruct (reg s); [discriminate |]. destruct (probeq s); [| discriminate].
    destruct (match sel s with [] => _ | _ :: _ => _ end); [| discriminate].
    destruct (lookup e (att s)) eqn:Hl.
    + destruct (N.eqb n0 ai); inversion Hs; subst. left; reflexivity.
    + destruct (N.eqb ai (N.of_nat (length (objs s)))) eqn:Hai; inversion Hs; subst; clear Hs.
      apply N.eqb_eq in Hai. subst ai. right. left. exists e. auto.
  - destruct (reg s); inversion Hs; subst; left; reflexivity.
  - destruct (get ai s) as [a0 |]; [| discriminate]. destruct (memN ai (reinst s)); [| discriminate].
    inversion Hs; subst; clear Hs. left. reflexivity.
  - destruct (step_refresh _ _ _ _ Hs) as [-> | Hr]; [left; reflexivity | right; right; exists l, inact; auto].
  - destruct (get ai s); inversion Hs; subst. left; reflexivity.
  - destruct (get ai s) as [a0 |]; [| discriminate].
    destruct (probe && negb (memN ai (pcalls s))); [discriminate |]. left.
    inversion Hs; subst; clear Hs. destruct probe; reflexivity.
Qed.

Lemma step_shrunk : forall s l s', step s l = Some s' -> shrunk s' = false -> shrunk s = false.
Proof.
  intros s l s' Hs H. destruct l; simpl in Hs.
  - inversion Hs; subst; exact H.
  - destruct (get ai s) as [a0 |]; [| discriminate].
    destruct (probe && negb (memN ai (pcalls s))); [discriminate |].
    inversion Hs; subst; clear Hs. destruct probe, ok; exact H.
  - inversion Hs; subst. rewrite fold_check_shrunk in H. exact H.
  - destruct (reg s); [discriminate |]. destruct (probeq s); [discriminate |].
    destruct (get ai s); [| discriminate]. destruct (N.eqb n0 ai); [| discriminate].
    inversion Hs; subst. exact H.
  - destruct (reg s); [discriminate |]. destruct (probeq s); [| discriminate].
    destruct (match sel s with [] => _ | _ :: _ => _ end); [| discriminate].
    destruct (lookup e (att s)).
    + destruct (N.eqb n0 ai); inversion Hs; subst. exact H.
    + destruct (N.eqb ai (N.of_nat (length (objs s)))); inversion Hs; subst; clear Hs. exact H.
  - destruct (reg s); inversion Hs; subst; exact H.
  - destruct (get ai s) as [a0 |]; [| discriminate]. destruct (memN ai (reinst s)); [| discriminate].
    inversion Hs; subst; clear Hs. exact H.
  - destruct (step_refresh _ _ _ _ Hs) as [-> | (_ & att' & rot & _ & _ & _ & _ & _ & _ & _ & _ & _ & _ & _ & _ & _ & _ & Hsh)]; [exact H |].
    rewrite Hsh in H. apply orb_false_iff in H. tauto.
  - destruct (get ai s); inversion Hs; subst. exact H.
  - destruct (get ai s) as [a0 |]; [| discriminate].
    destruct (probe && negb (memN ai (pcalls s))); [discriminate |].
    inversion Hs; subst; clear Hs. destruct probe; exact H.
Qed.

(* while not shrunk, the attachment table only grows *)
Lemma step_att_mono : forall s l s' e ai, step s l = Some s' -> shrunk s' = false ->
  lookup e (att s) = Some ai -> lookup e (att s') = Some ai.
Proof.
  intros s l s' e ai Hs Hsh Hl. destruct (step_att _ _ _ Hs) as [-> | [[e0 [_ [Hno ->]]] | [r [i [_ Hr]]]]]; [exact Hl | |].
  - simpl. destruct (N.eqb e e0) eqn:He; [| exact Hl]. apply N.eqb_eq in He. subst. congruence.
  - destruct Hr as (_ & att' & rot & Hatt & _ & _ & _ & _ & Ha & _ & _ & _ & _ & _ & _ & _ & _ & Hs2).
    rewrite Hs2 in Hsh. apply orb_false_iff in Hsh. destruct Hsh as [_ Hex].
    rewrite Ha, Hatt, (filter_keep_all _ _ Hex). exact Hl.
Qed.

Lemma InvD_step : forall s l s', InvD s -> step s l = Some s' -> InvD s'.
Proof.
  intros s l s' HD Hs Hsh ai a' Ha'. pose proof (step_shrunk _ _ _ Hs Hsh) as Hsh0.
  destruct (get ai s) as [a |] eqn:Ha.
  - destruct (step_adapter _ _ _ _ _ Hs Ha) as [a2 [Ha2 Hc]]. rewrite Ha' in Ha2. inversion Ha2; subst a2.
    rewrite (achg_aep _ _ _ _ _ Hc). eapply step_att_mono; eauto.
  - destruct (step_created _ _ _ _ _ Hs Ha Ha') as [e [-> [-> [Hno Hai]]]].
    destruct (step_att _ _ _ Hs) as [Hsame | [[e0 [He0 [_ ->]]] | [r [i [Hr _]]]]].
    + exfalso. destruct (step_len _ _ _ Hs) as [Hl | [e1 [_ [_ [_ [Hatt _]]]]]].
      * apply get_None_len in Ha. rewrite <- Hl in Ha. apply get_None_len in Ha. congruence.
      * rewrite Hsame in Hatt. apply (f_equal (@length _)) in Hatt. simpl in Hatt. lia.
    + inversion He0; subst. simpl. rewrite N.eqb_refl. reflexivity.
    + discriminate.
Qed.

(* ---------- group E: while not shrunk, an endpoint whose adapter is blocked is in no selector ---------- *)
Definition InvE (s : state) : Prop :=
  shrunk s = false -> forall e ai a, lookup e (att s) = Some ai -> get ai s = Some a -> ast a = false -> ~ In e (sel s).

Definition InvDE (s : state) : Prop := InvABC s /\ InvD s /\ InvE s.

Lemma InvD_init : InvD init.
Proof. intros _ ai a H. unfold get, init in H; simpl in H. destruct (N.to_nat ai); discriminate. Qed.
Lemma InvE_init : InvE init.
Proof. intros _ e ai a H. discriminate. Qed.

Lemma InvE_check_one : forall r s e0, InvB s -> InvE s -> InvE (check_one r s e0).
Proof.
  intros r s e0 HB HE Hsh e aj b Hle Hb Hst. rewrite check_one_shrunk in Hsh. specialize (HE Hsh).
  destruct (check_one_cases r s e0) as [Heq | Heff]; [rewrite Heq in *; eapply HE; eauto |].
  destruct Heff as [ai [a [a' [first [need [Hl [Hg [Hsp [_ [_ [Ho [Ha [_ [Hsel _]]]]]]]]]]]]]].
  rewrite Ha in Hle. rewrite (get_of_objs _ _ _ _ Ho) in Hb. rewrite Hsel.
  destruct (get_put _ _ _ _ _ _ Hg Hb) as [[-> ->] | [Hne Hb']].
  - assert (e = e0) by (eapply att_inj; eauto). subst e.
    inversion Hsp; subst; simpl in Hst; try discriminate.
    + intros Hin. apply In_remove_all in Hin. tauto.
    + intros Hin. apply In_remove_all in Hin. tauto.
    + eapply HE; eauto.
    + eapply HE; eauto.
  - intros Hin. assert (Hin' : In e (sel s)) by (destruct first; [apply In_remove_all in Hin; tauto | exact Hin]).
    revert Hin'. eapply HE; eauto.
Qed.

Lemma InvDE_step : forall s l s', InvDE s -> step s l = Some s' -> InvDE s'.
Proof.
  intros s l s' [HABC [HD HE]] Hs. split; [eapply InvABC_step; eauto |]. split; [eapply InvD_step; eauto |].
  destruct HABC as [HA [HB HC]].
  intros Hsh e aj b Hle Hb Hst. pose proof (step_shrunk _ _ _ Hs Hsh) as Hsh0. specialize (HE Hsh0). specialize (HD Hsh0).
  destruct l.
  - simpl in Hs. inversion Hs; subst. eapply HE; eauto.
  - simpl in Hs. destruct (get ai s) as [a0 |] eqn:Hg; [| discriminate].
    destruct (probe && negb (memN ai (pcalls s))); [discriminate |].
    assert (Hx : att s' = att s /\ sel s' = sel s /\ objs s' = objs (put ai (if ok then succ_add (now s) a0 else fail_add a0) s)).
    { inversion Hs; subst; clear Hs. destruct probe, ok; repeat split. }
    destruct Hx as [Hat [Hse Ho]]. rewrite Hat in Hle. rewrite Hse.
    assert (Hb' : get aj (put ai (if ok then succ_add (now s) a0 else fail_add a0) s) = Some b) by (unfold get in *; rewrite <- Ho; exact Hb).
    destruct (get_put _ _ _ _ _ _ Hg Hb') as [[-> ->] | [Hne Hb2]].
    + eapply HE; [exact Hle | exact Hg |]. destruct ok; exact Hst.
    + eapply HE; eauto.
  - simpl in Hs. inversion Hs; subst; clear Hs.
    assert (Hgen : forall l0 s0, InvB s0 -> InvE s0 -> InvE (fold_left (check_one reach) l0 s0)).
    { induction l0 as [| x l0 IH]; simpl; intros s0 B E; [exact E |]. apply IH; [apply InvB_check_one; exact B | apply InvE_check_one; assumption]. }
    assert (HE0 : InvE s) by (intros _; exact HE).
    exact (Hgen (reg s) s HB HE0 Hsh e aj b Hle Hb Hst).
  - simpl in Hs. destruct (reg s); [discriminate |]. destruct (probeq s); [discriminate |].
    destruct (get ai s); [| discriminate]. destruct (N.eqb n0 ai); [| discriminate].
    inversion Hs; subst. eapply HE; eauto.
  - destruct (step_len _ _ _ Hs) as [Hlen | [e1 [He1 [Hno [Ho [Hat [Hse _]]]]]]].
    + assert (Hx : s' = s).
      { simpl in Hs. destruct (reg s); [discriminate |]. destruct (probeq s); [| discriminate].
        destruct (match sel s with [] => _ | _ :: _ => _ end); [| discriminate].
        destruct (lookup e0 (att s)).
        - destruct (N.eqb n0 ai); inversion Hs; reflexivity.
        - destruct (N.eqb ai (N.of_nat (length (objs s)))); inversion Hs; subst; clear Hs.
          simpl in Hlen. rewrite app_length in Hlen. simpl in Hlen. lia. }
      subst s'. eapply HE; eauto.
    + rewrite Hat in Hle. rewrite Hse. simpl in Hle. destruct (N.eqb e e1) eqn:Hee.
      * inversion Hle; subst aj. unfold get in Hb. rewrite Ho in Hb. rewrite nth_error_app2 in Hb by lia.
        replace (N.to_nat (N.of_nat (length (objs s))) - length (objs s))%nat with 0%nat in Hb by lia.
        simpl in Hb. inversion Hb; subst b. discriminate.
      * destruct HB as [B1 _]. destruct (B1 _ _ Hle) as [b0 [Hb0 _]].
        erewrite (get_snoc_old s aj b0 (new_adapter e1)) in Hb; [| exact Hb0 | exact Ho]. inversion Hb; subst. eapply HE; eauto.
  - simpl in Hs. destruct (reg s); inversion Hs; subst. eapply HE; eauto.
  - simpl in Hs. destruct (get ai s) as [a0 |] eqn:Hg; [| discriminate]. destruct (memN ai (reinst s)); [| discriminate].
    inversion Hs; subst; clear Hs. simpl in Hle. simpl.
    change (get aj (put ai (reset (now s) a0) s) = Some b) in Hb.
    destruct (get_put _ _ _ _ _ _ Hg Hb) as [[-> ->] | [Hne Hb']]; [discriminate |].
    intros Hin. apply In_add_set in Hin. destruct Hin as [Hin | ->]; [revert Hin; eapply HE; eauto |].
    rewrite (HD _ _ Hg) in Hle. congruence.
  - destruct (step_refresh _ _ _ _ Hs) as [-> | [_ [att' [rot [Hatt [Hrot [_ [Hr [Ho [Ha [_ [Hsel _]]]]]]]]]]]]; [eapply HE; eauto |].
    rewrite Hsel, Hrot. intros Hin. apply filter_In in Hin. destruct Hin as [_ Hok]. unfold rot_ok in Hok.
    rewrite Ha in Hle. rewrite Hle in Hok.
    assert (Hb' : get aj s = Some b) by (unfold get in *; rewrite <- Ho; exact Hb). rewrite Hb' in Hok. congruence.
  - simpl in Hs. destruct (get ai s); inversion Hs; subst. eapply HE; eauto.
  - simpl in Hs. destruct (get ai s) as [a0 |] eqn:Hg; [| discriminate].
    destruct (probe && negb (memN ai (pcalls s))); [discriminate |].
    assert (Hx : att s' = att s /\ sel s' = sel s /\ objs s' = objs (put ai (succ_add (now s) a0) s)).
    { inversion Hs; subst; clear Hs. destruct probe; repeat split. }
    destruct Hx as [Hat [Hse Ho]]. rewrite Hat in Hle. rewrite Hse.
    assert (Hb' : get aj (put ai (succ_add (now s) a0) s) = Some b) by (unfold get in *; rewrite <- Ho; exact Hb).
    destruct (get_put _ _ _ _ _ _ Hg Hb') as [[-> ->] | [Hne Hb2]].
    + eapply HE; [exact Hle | exact Hg | exact Hst].
    + eapply HE; eauto.
Qed.

Lemma InvDE_reachable : forall s, reachable s -> InvDE s.
Proof.
  intros s [ls Hr]. eapply (run_inv InvDE InvDE_step); [| exact Hr].
  split; [| split; [exact InvD_init | exact InvE_init]].
  split; [exact InvA_init |]. split; [exact InvB_init | exact InvC_init].
Qed.
