(* C15: concrete non-trivial instances of the theorems' hypotheses (vm_compute), and the refutation witness for the
   streak clause once a registry refresh has dropped and re-added an endpoint that still has a probe in flight. *)
From Coq Require Import List NArith ZArith Bool Lia.
From TarsV Require Import Gen.Consts Select.Failover Select.FailoverProofs Select.FailoverInv Select.FailoverThms.
Import ListNotations.
Open Scope Z_scope.

Definition f5 (ai : N) : list label :=
  [Out ai false false; Out ai false false; Out ai false false; Out ai false false; Out ai false false].

(* two endpoints, both called once; endpoint 0 then fails five times in a row over five seconds *)
Definition h_streak : list label :=
  [Refresh [0; 1]%N []; SelPick 0 0; Out 0 true false; SelPick 1 1; Out 1 true false] ++ f5 0%N ++ [Advance 5].
Definition st (ls : list label) : state := match run init ls with Some s => s | None => init end.

Example ex_streak_hyps :
  run init h_streak = Some (st h_streak) /\ shrunk (st h_streak) = false /\ In 0%N (reg (st h_streak)) /\
  lookup 0%N (att (st h_streak)) = Some 0%N /\
  exists a, get 0%N (st h_streak) = Some a /\ lfc a = 5 /\ now (st h_streak) - tS a = 5 /\ ast a = true /\
            In 0%N (sel (st h_streak)).
Proof.
  split; [vm_compute; reflexivity |]. split; [vm_compute; reflexivity |]. split; [vm_compute; auto |].
  split; [vm_compute; reflexivity |]. eexists. split; [vm_compute; reflexivity |]. vm_compute. auto 10.
Qed.

(* ... so the next status check blocks it (instance of blocked_after_streak, conclusion computed) *)
Example ex_streak_blocked :
  exists s', step (st h_streak) (Check []) = Some s' /\ sel s' = [1%N] /\
             step s' (SelPick 0 0) = None /\ exists s'', step s' (SelPick 1 1) = Some s''.
Proof. eexists. split; [vm_compute; reflexivity |]. split; [reflexivity |]. split; [reflexivity | eexists; vm_compute; reflexivity]. Qed.

(* blocked, two probe requests 30 s apart, the probe call, its answer, the reinstatement *)
Definition h_probe : list label := h_streak ++ [Check []; Advance 30; Check [0]%N; Advance 30; Check [0]%N].
Example ex_probe_requests :
  exists t1 t2, reqlog (st h_probe) = [] ++ (0%N, 0%N, t2) :: [] ++ (0%N, 0%N, t1) :: [] /\ t2 - t1 = 30 /\
                probeq (st h_probe) = [0%N] /\ req_count 0 (reqlog (st h_probe)) = 2%nat.
Proof. eexists. eexists. split; [vm_compute; reflexivity |]. vm_compute. auto. Qed.

Definition h_reinst : list label := h_probe ++ [SelProbe 0; Out 0 true true; SelPick 1 1; Out 1 true false].
Example ex_reinstated :
  run init h_reinst = Some (st h_reinst) /\ sel (st h_reinst) = [1%N] /\
  exists s3, step (st h_reinst) (Reinstate 0) = Some s3 /\ sel s3 = [1%N; 0%N].
Proof. split; [vm_compute; reflexivity |]. split; [vm_compute; reflexivity |]. eexists. split; vm_compute; reflexivity. Qed.

(* a failed probe: still blocked however long one waits, until a probe is answered *)
Definition h_failed : list label := h_probe ++ [SelProbe 0; Out 0 false true; Advance 1000; Check []; SelPick 1 1; Out 1 true false].
Example ex_failed_probe_stays_blocked :
  exists a, get 0%N (st h_failed) = Some a /\ ast a = false /\ sel (st h_failed) = [1%N].
Proof. eexists. split; [vm_compute; reflexivity |]. vm_compute. auto. Qed.

(* every endpoint blocked: the selectors are empty, calls are still attempted (on a registry endpoint) *)
Definition h_allblocked : list label :=
  [Refresh [0; 1]%N []; SelPick 0 0; SelPick 1 1] ++ f5 0%N ++ f5 1%N ++ [Advance 5; Check []].
Example ex_all_blocked :
  run init h_allblocked = Some (st h_allblocked) /\ sel (st h_allblocked) = [] /\ reg (st h_allblocked) = [0; 1]%N /\
  step (st h_allblocked) SelNone = None /\
  (exists s', step (st h_allblocked) (SelPick 0 0) = Some s') /\ (exists s', step (st h_allblocked) (SelPick 1 1) = Some s').
Proof.
  split; [vm_compute; reflexivity |]. split; [vm_compute; reflexivity |]. split; [vm_compute; reflexivity |].
  split; [vm_compute; reflexivity |]. split; eexists; vm_compute; reflexivity.
Qed.

(* ---------- outside the property's quantifier: registry refreshes ----------
   Endpoint 0 is blocked and queued for a probe; the registry drops it (its adapter is closed and detached, but stays in the
   probe queue) and lists it again; the stale adapter is handed out as the probe, is answered, and - after endpoint 0's NEW
   adapter has been blocked for a streak of its own - the old adapter's reinstatement puts endpoint 0 back into the selectors.
   From then on endpoint 0 is in rotation although its adapter is blocked, and status checks do not remove it. *)
Definition h_stale : list label :=
  [Refresh [0; 1]%N []; SelPick 0 0; Out 0 true false; SelPick 1 1; Out 1 true false] ++ f5 0%N ++
  [Advance 5; Check []; Advance 30; Check [0; 1]%N; Refresh [1%N] []; Refresh [0; 1]%N []; SelProbe 0; Out 0 true true;
   SelPick 0 2] ++ f5 2%N ++ [Advance 5; Check []; Reinstate 0].

Theorem streak_clause_refuted_after_refresh :
  exists s e ai a r s', reachable s /\ In e (reg s) /\ lookup e (att s) = Some ai /\ get ai s = Some a /\
    kFainN <= lfc a /\ kFailInterval <= now s - tS a /\ step s (Check r) = Some s' /\
    In e (sel s') /\ (exists s'', step s' (SelPick e ai) = Some s'').
Proof.
  exists (st h_stale), 0%N, 2%N. eexists. exists []. eexists.
  split; [exists h_stale; vm_compute; reflexivity |]. split; [vm_compute; auto |].
  split; [vm_compute; reflexivity |]. split; [vm_compute; reflexivity |].
  split; [vm_compute; discriminate |]. split; [vm_compute; discriminate |].
  split; [vm_compute; reflexivity |]. split; [vm_compute; auto |]. eexists. vm_compute. reflexivity.
Qed.
