(* C15 proofs, part 3: the property's clauses over all label sequences. *)
From Coq Require Import List NArith ZArith Bool Lia ZifyBool ZifyNat ZifyN.
From TarsV Require Import Gen.Consts Select.Failover Select.FailoverProofs Select.FailoverInv.
Import ListNotations.
Open Scope Z_scope.

(* ================= clause 1: no failed call => in rotation; out of rotation => >= 2 failures ================= *)
Theorem no_fail_in_rotation : forall s e, reachable s -> In e (reg s) ->
  (lookup e (att s) = None \/ exists ai a, lookup e (att s) = Some ai /\ get ai s = Some a /\ gfail a < kOverN) ->
  In e (sel s).
Proof.
  intros s e Hr Hin H. destruct (InvABC_reachable s Hr) as [[_ HA] [_ [C1 C2]]].
  destruct H as [Hno | [ai [a [Hl [Hg Hz]]]]]; [exact (C1 e Hin Hno) |].
  destruct (HA ai a Hg) as [_ [_ [Hb _]]]. pose proof k_overN.
  destruct (ast a) eqn:Hst; [eapply C2; eauto | specialize (Hb eq_refl); lia].
Qed.

Theorem out_of_rotation_two_failures : forall s e, reachable s -> In e (reg s) -> ~ In e (sel s) ->
  exists ai a, lookup e (att s) = Some ai /\ get ai s = Some a /\ ast a = false /\ 2 <= gfail a.
Proof.
  intros s e Hr Hin Hout. destruct (InvABC_reachable s Hr) as [[_ HA] [[B1 _] [C1 C2]]].
  destruct (lookup e (att s)) as [ai |] eqn:Hl; [| exfalso; exact (Hout (C1 e Hin Hl))].
  destruct (B1 e ai Hl) as [a [Hg _]]. exists ai, a. destruct (HA ai a Hg) as [_ [_ [Hb _]]].
  destruct (ast a) eqn:Hst; [exfalso; apply Hout; eapply C2; eauto |]. auto.
Qed.

(* the only step that blocks an adapter is a status check, and then it has >= 2 failures since creation/reinstatement *)
Theorem blocked_only_by_check : forall s l s' ai a a', reachable s -> step s l = Some s' ->
  get ai s = Some a -> ast a = true -> get ai s' = Some a' -> ast a' = false ->
  (exists r, l = Check r) /\ gfail a' = gfail a /\ 2 <= gfail a.
Proof.
  intros s l s' ai a a' Hr Hs Ha Hst Ha' Hst'.
  destruct (InvABC_reachable s Hr) as [HA [HB HC]].
  assert (HA' : InvA s') by (eapply InvA_step; eauto).
  destruct (proj2 HA' ai a' Ha') as [_ [_ [H2 _]]]. specialize (H2 Hst').
  destruct (step_adapter _ _ _ _ _ Hs Ha) as [a2 [Ha2 Hc]]. rewrite Ha' in Ha2. inversion Ha2; subst a2.
  destruct Hc as [-> _ _ _ | p _ -> | p _ -> | _ _ -> | p _ -> | r Hl Hc]; simpl in Hst'; try congruence.
  destruct Hc as [_ [_ [_ [_ [_ [_ [Hg _]]]]]]]. split; [eauto |]. split; [exact Hg | lia].
Qed.

(* ================= clause 2: blocked at the next status check after a streak ================= *)
Lemma ca_spec_streak : forall reach nw a a' f n, ca_spec reach nw a (a', f, n) ->
  kFailInterval <= nw - tS a -> kFainN <= lfc a -> ast a' = false.
Proof.
  intros reach nw a a' f n H H1 H2. inversion H; subst; simpl; try reflexivity.
  - exfalso; tauto.
  - destruct (ast a') eqn:Hs; [exfalso; tauto | reflexivity].
Qed.

Lemma check_one_eff : forall r s e ai a, lookup e (att s) = Some ai -> get ai s = Some a ->
  check_one_effect r s e (check_one r s e).
Proof.
  intros r s e ai a Hl Hg. unfold check_one. rewrite Hl, Hg.
  pose proof (check_active_spec (memN e r) (now s) a) as Hsp.
  destruct (check_active (memN e r) (now s) a) as [[a' first] need].
  exists ai, a, a', first, need.
  split; [exact Hl |]. split; [exact Hg |]. split; [exact Hsp |].
  destruct first, need; simpl; try destruct (memN e (pset s)) eqn:Hm; simpl;
    repeat (split; [reflexivity |]);
    (split; [intros Hn; first [discriminate | repeat split; reflexivity]
            | intros Hn; first [discriminate | split; [reflexivity |];
              first [left; repeat split; reflexivity | right; repeat split; reflexivity]]]).
Qed.

(* check_one on another endpoint leaves this adapter alone *)
Lemma check_one_other : forall r s x e ai, InvB s -> lookup e (att s) = Some ai -> x <> e ->
  get ai (check_one r s x) = get ai s.
Proof.
  intros r s x e ai HB Hl Hne. destruct (check_one_cases r s x) as [-> | Heff]; [reflexivity |].
  destruct Heff as [ai0 [a0 [a' [first [need [Hl0 [Hg0 [_ [_ [_ [Ho _]]]]]]]]]]].
  rewrite (get_of_objs _ _ _ _ Ho). apply get_put_other. intros ->. apply Hne. eapply att_inj; eauto.
Qed.

Lemma fold_streak : forall r l s e ai a, InvB s -> lookup e (att s) = Some ai -> get ai s = Some a ->
  kFainN <= lfc a -> kFailInterval <= now s - tS a -> In e l ->
  exists a', get ai (fold_left (check_one r) l s) = Some a' /\ ast a' = false.
Proof.
  intros r l. induction l as [| x l IH]; intros s e ai a HB Hl Hg H1 H2 Hin; [destruct Hin |].
  simpl. destruct (N.eq_dec x e) as [-> | Hne].
  - destruct (check_one_eff r s e ai a Hl Hg) as [ai0 [a0 [a' [first [need [Hl0 [Hg0 [Hsp [_ [_ [Ho _]]]]]]]]]]].
    rewrite Hl in Hl0. inversion Hl0; subst ai0. rewrite Hg in Hg0. inversion Hg0; subst a0.
    pose proof (ca_spec_streak _ _ _ _ _ _ Hsp H2 H1) as Hf.
    assert (Hg1 : get ai (check_one r s e) = Some a').
    { rewrite (get_of_objs _ _ _ _ Ho). eapply get_put_same; eauto. }
    destruct (fold_check_get r l _ ai a' Hg1) as [b [Hb Hc]]. exists b. split; [exact Hb |].
    destruct Hc as [_ [_ [_ [_ [_ [_ [_ [Hk _]]]]]]]]. auto.
  - destruct Hin as [-> | Hin]; [congruence |].
    apply (IH (check_one r s x) e ai a); auto.
    + apply InvB_check_one; exact HB.
    + rewrite check_one_att; exact Hl.
    + rewrite (check_one_other r s x e ai HB Hl Hne). exact Hg.
    + rewrite check_one_now. exact H2.
Qed.

Theorem blocked_after_streak : forall s e ai a r s', reachable s -> shrunk s = false ->
  In e (reg s) -> lookup e (att s) = Some ai -> get ai s = Some a ->
  kFainN <= lfc a -> kFailInterval <= now s - tS a ->
  step s (Check r) = Some s' ->
  exists a', get ai s' = Some a' /\ ast a' = false /\ ~ In e (sel s') /\
             (sel s' <> [] -> forall aj, step s' (SelPick e aj) = None).
Proof.
  intros s e ai a r s' Hr Hsh Hin Hl Hg H1 H2 Hs.
  pose proof (InvDE_reachable s Hr) as HI. pose proof (InvDE_step _ _ _ HI Hs) as [_ [_ HE']].
  destruct HI as [[_ [HB _]] _]. simpl in Hs. inversion Hs; subst s'; clear Hs.
  destruct (fold_streak r (reg s) s e ai a HB Hl Hg H1 H2 Hin) as [a' [Ha' Hf]].
  assert (Hout : ~ In e (sel (fold_left (check_one r) (reg s) s))).
  { eapply HE'; [rewrite fold_check_shrunk; exact Hsh | rewrite fold_check_att; exact Hl | exact Ha' | exact Hf]. }
  exists a'. split; [exact Ha' |]. split; [exact Hf |]. split; [exact Hout |].
  clear Ha' HE'. remember (fold_left (check_one r) (reg s) s) as s1. clear Heqs1.
  intros Hne aj. unfold step. destruct (reg s1); [reflexivity |]. destruct (probeq s1); [| reflexivity].
  destruct (sel s1) as [| y ys] eqn:Hsel; [congruence |].
  apply memN_false in Hout. rewrite Hout. reflexivity.
Qed.

(* ================= clause 3: probe requests are >= tryTimeInterval apart; one probe call per request ================= *)
Definition InvF (s : state) : Prop :=
  spaced (reqlog s) /\ forall e ai t, In (e, ai, t) (reqlog s) -> exists a, get ai s = Some a /\ t <= tB a.

Lemma achg_tB : forall s l ai a a', achg s l ai a a' -> tB a <= now s -> tB a <= tB a'.
Proof.
  intros s l ai a a' H Hn. destruct H as [-> _ _ _ | p _ -> | p _ -> | _ _ -> | p _ -> | r _ Hc]; simpl; try lia.
  destruct Hc as [_ [_ [_ [_ [_ [_ [_ [_ [Hk | Hk]]]]]]]]]; lia.
Qed.

Lemma step_queues : forall s l s', step s l = Some s' -> (forall r, l <> Check r) ->
  reqlog s' = reqlog s /\
  ((probeq s' = probeq s /\ probelog s' = probelog s /\ pset s' = pset s) \/
   (exists ai rest, l = SelProbe ai /\ probeq s = ai :: rest /\ probeq s' = rest /\ probelog s' = ai :: probelog s)).
Proof.
  intros s l s' Hs Hnc.
  assert (Hleft : forall x y : state, reqlog x = reqlog y -> probeq x = probeq y -> probelog x = probelog y -> pset x = pset y ->
    reqlog x = reqlog y /\ ((probeq x = probeq y /\ probelog x = probelog y /\ pset x = pset y) \/
     (exists ai rest, l = SelProbe ai /\ probeq y = ai :: rest /\ probeq x = rest /\ probelog x = ai :: probelog y))) by (intros; split; [assumption | left; repeat split; assumption]).
  destruct l; simpl in Hs.
  - inversion Hs; subst. apply Hleft; reflexivity.
  - destruct (get ai s) as [a0 |]; [| discriminate].
    destruct (probe && negb (memN ai (pcalls s))); [discriminate |].
    inversion Hs; subst; clear Hs. destruct probe, ok; apply Hleft; reflexivity.
  - exfalso. eapply Hnc; reflexivity.
  - destruct (reg s); [discriminate |]. destruct (probeq s) as [| q rest]; [discriminate |].
    destruct (get ai s); [| discriminate]. destruct (N.eqb q ai) eqn:Hq; [| discriminate].
    apply N.eqb_eq in Hq. subst q. inversion Hs; subst; clear Hs. simpl. split; [reflexivity |]. right. exists ai, rest. auto.
  - destruct (reg s); [discriminate |]. destruct (probeq s) eqn:Hpq; [| discriminate]. rewrite <- Hpq.
    destruct (match sel s with [] => _ | _ :: _ => _ end); [| discriminate].
    destruct (lookup e (att s)).
    + destruct (N.eqb n0 ai); inversion Hs; subst. apply Hleft; reflexivity.
    + destruct (N.eqb ai (N.of_nat (length (objs s)))); inversion Hs; subst; clear Hs. apply Hleft; simpl; try rewrite Hpq; reflexivity.
  - destruct (reg s); inversion Hs; subst; apply Hleft; reflexivity.
  - destruct (get ai s) as [a0 |]; [| discriminate]. destruct (memN ai (reinst s)); [| discriminate].
    inversion Hs; subst; clear Hs. apply Hleft; reflexivity.
  - destruct (step_refresh _ _ _ _ Hs) as [-> | (_ & att' & rot & _ & _ & _ & _ & _ & _ & _ & _ & Hq & Hp & _ & _ & Hrq & Hpl & _)]; [apply Hleft; reflexivity |].
    apply Hleft; auto.
  - destruct (get ai s); inversion Hs; subst. apply Hleft; reflexivity.
  - destruct (get ai s) as [a0 |]; [| discriminate].
    destruct (probe && negb (memN ai (pcalls s))); [discriminate |].
    inversion Hs; subst; clear Hs. destruct probe; apply Hleft; reflexivity.
Qed.

Lemma InvF_check_one : forall r s e, InvA s -> InvF s -> InvF (check_one r s e).
Proof.
  intros r s e HA [F1 F2].
  assert (Hmono : forall aj b, get aj s = Some b -> exists b', get aj (check_one r s e) = Some b' /\ tB b <= tB b').
  { intros aj b Hb. destruct (check_one_get r s e aj b Hb) as [b' [Hb' Hc]]. exists b'. split; [exact Hb' |].
    destruct (proj2 HA aj b Hb) as [_ [_ [_ Ht]]].
    destruct Hc as [_ [_ [_ [_ [_ [_ [_ [_ [Hk | Hk]]]]]]]]]; lia. }
  destruct (check_one_cases r s e) as [Heq | Heff]; [rewrite Heq; split; assumption |].
  destruct Heff as [ai [a [a' [first [need [Hl [Hg [Hsp [_ [_ [Ho [_ [_ [_ [_ [_ [_ [_ [Hn0 Hn1]]]]]]]]]]]]]]]]]]].
  unfold InvF. destruct need.
  - destruct (Hn1 eq_refl) as [Hrq _]. rewrite Hrq.
    assert (Hp : ast a = false /\ kTry <= now s - tB a /\ tB a' = now s).
    { inversion Hsp; subst; simpl; try discriminate. auto. }
    destruct Hp as [_ [Hp Htb]].
    split.
    + simpl. split; [| exact F1]. intros e' t' Hin. destruct (F2 e' ai t' Hin) as [b [Hb Ht]].
      rewrite Hg in Hb. inversion Hb; subst b. lia.
    + intros e1 aj t Hin. destruct Hin as [Heq | Hin].
      * inversion Heq; subst. exists a'. split; [rewrite (get_of_objs _ _ _ _ Ho); eapply get_put_same; eauto | lia].
      * destruct (F2 e1 aj t Hin) as [b [Hb Ht]]. destruct (Hmono aj b Hb) as [b' [Hb' Hle]]. exists b'. split; [exact Hb' | lia].
  - destruct (Hn0 eq_refl) as [_ [_ Hrq]]. rewrite Hrq. split; [exact F1 |].
    intros e1 aj t Hin. destruct (F2 e1 aj t Hin) as [b [Hb Ht]]. destruct (Hmono aj b Hb) as [b' [Hb' Hle]]. exists b'. split; [exact Hb' | lia].
Qed.

Lemma InvF_step_nc : forall s l s', InvA s -> InvF s -> step s l = Some s' -> (forall r, l <> Check r) -> InvF s'.
Proof.
  intros s l s' HA [F1 F2] Hs Hnc. destruct (step_queues _ _ _ Hs Hnc) as [Hrq _].
  unfold InvF. rewrite Hrq. split; [exact F1 |].
  intros e1 aj t Hin. destruct (F2 e1 aj t Hin) as [b [Hb Ht]].
  destruct (step_adapter _ _ _ _ _ Hs Hb) as [b' [Hb' Hc]]. exists b'. split; [exact Hb' |].
  destruct (proj2 HA aj b Hb) as [_ [_ [_ Htn]]]. pose proof (achg_tB _ _ _ _ _ Hc Htn). lia.
Qed.

Lemma InvF_step : forall s l s', InvA s -> InvF s -> step s l = Some s' -> InvF s'.
Proof.
  intros s l s' HA HF Hs.
  destruct l; try (eapply InvF_step_nc; eauto; intros; discriminate).
  simpl in Hs. inversion Hs; subst; clear Hs.
  assert (Hgen : forall l0 s0, InvA s0 -> InvF s0 -> InvF (fold_left (check_one reach) l0 s0)).
  { induction l0 as [| x l0 IH]; simpl; intros s0 A F; [exact F |]. apply IH; [apply InvA_check_one; exact A | apply InvF_check_one; assumption]. }
  apply Hgen; assumption.
Qed.

Lemma InvF_reachable : forall s, reachable s -> InvF s.
Proof.
  intros s [ls Hr].
  assert (H : InvA s /\ InvF s).
  { eapply (run_inv (fun s => InvA s /\ InvF s)); [| | exact Hr].
    - intros s0 l s1 [A F] Hs. split; [eapply InvA_step; eauto | eapply InvF_step; eauto].
    - split; [exact InvA_init |]. split; simpl; [exact I | intros e ai t []]. }
  exact (proj2 H).
Qed.

Lemma spaced_app : forall l1 l2, spaced (l1 ++ l2) -> spaced l2.
Proof. induction l1 as [| [[e ai] t] l1 IH]; simpl; intros l2 H; [exact H | apply IH; tauto]. Qed.

Theorem probe_rate : forall s pre e2 e1 ai t2 t1 mid post, reachable s ->
  reqlog s = pre ++ (e2, ai, t2) :: mid ++ (e1, ai, t1) :: post -> 30 <= t2 - t1.
Proof.
  intros s pre e2 e1 ai t2 t1 mid post Hr Heq. destruct (InvF_reachable s Hr) as [F1 _].
  rewrite Heq in F1. apply spaced_app in F1. simpl in F1. destruct F1 as [H _].
  rewrite <- k_try. apply (H e1 t1). apply in_or_app. right. left. reflexivity.
Qed.

(* while no refresh has dropped an endpoint with an adapter, requests are per endpoint *)
Definition InvG (s : state) : Prop :=
  shrunk s = false -> forall e ai t, In (e, ai, t) (reqlog s) -> lookup e (att s) = Some ai.

Lemma InvG_check_one : forall r s e, InvG s -> InvG (check_one r s e).
Proof.
  intros r s e HG Hsh e1 aj t Hin. rewrite check_one_shrunk in Hsh. rewrite check_one_att. specialize (HG Hsh).
  destruct (check_one_cases r s e) as [Heq | Heff]; [rewrite Heq in Hin; eauto |].
  destruct Heff as [ai [a [a' [first [need [Hl [Hg [Hsp [_ [_ [Ho [_ [_ [_ [_ [_ [_ [_ [Hn0 Hn1]]]]]]]]]]]]]]]]]]].
  destruct need.
  - destruct (Hn1 eq_refl) as [Hrq _]. rewrite Hrq in Hin. destruct Hin as [Heq | Hin]; [inversion Heq; subst; exact Hl | eauto].
  - destruct (Hn0 eq_refl) as [_ [_ Hrq]]. rewrite Hrq in Hin. eauto.
Qed.

Lemma InvG_step : forall s l s', InvG s -> step s l = Some s' -> InvG s'.
Proof.
  intros s l s' HG Hs.
  destruct l; try (intros Hsh e1 aj t Hin; pose proof (step_shrunk _ _ _ Hs Hsh) as Hsh0;
    destruct (step_queues _ _ _ Hs ltac:(intros; discriminate)) as [Hrq _]; rewrite Hrq in Hin;
    eapply step_att_mono; eauto).
  simpl in Hs. inversion Hs; subst; clear Hs.
  assert (Hgen : forall l0 s0, InvG s0 -> InvG (fold_left (check_one reach) l0 s0)).
  { induction l0 as [| x l0 IH]; simpl; intros s0 G; [exact G |]. apply IH. apply InvG_check_one; assumption. }
  apply Hgen; assumption.
Qed.

Lemma InvG_reachable : forall s, reachable s -> InvG s.
Proof.
  intros s [ls Hr]. eapply (run_inv InvG InvG_step); [| exact Hr]. intros _ e ai t [].
Qed.

Theorem probe_rate_endpoint : forall s pre e ai2 ai1 t2 t1 mid post, reachable s -> shrunk s = false ->
  reqlog s = pre ++ (e, ai2, t2) :: mid ++ (e, ai1, t1) :: post -> 30 <= t2 - t1.
Proof.
  intros s pre e ai2 ai1 t2 t1 mid post Hr Hsh Heq. pose proof (InvG_reachable s Hr Hsh) as HG.
  assert (H2 : lookup e (att s) = Some ai2). { apply (HG e ai2 t2). rewrite Heq. apply in_or_app. right. left. reflexivity. }
  assert (H1 : lookup e (att s) = Some ai1).
  { apply (HG e ai1 t1). rewrite Heq. apply in_or_app. right. right. apply in_or_app. right. left. reflexivity. }
  rewrite H2 in H1. inversion H1; subst ai1. eapply probe_rate; eauto.
Qed.

(* every probe call consumes one queued request; every queued entry was requested *)
Definition InvH (s : state) : Prop :=
  forall ai, (countN ai (probelog s) + countN ai (probeq s) <= req_count ai (reqlog s))%nat.

Lemma countN_app : forall x l1 l2, countN x (l1 ++ l2) = (countN x l1 + countN x l2)%nat.
Proof. intros. unfold countN. rewrite filter_app, app_length. reflexivity. Qed.

Lemma req_count_cons : forall aj e ai t l, req_count aj ((e, ai, t) :: l) = ((if N.eqb aj ai then 1 else 0) + req_count aj l)%nat.
Proof. intros. unfold req_count. simpl. destruct (N.eqb aj ai); reflexivity. Qed.
Lemma countN_cons : forall aj ai l, countN aj (ai :: l) = ((if N.eqb aj ai then 1 else 0) + countN aj l)%nat.
Proof. intros. unfold countN. simpl. destruct (N.eqb aj ai); reflexivity. Qed.
Lemma countN_snoc : forall aj ai l, countN aj (l ++ [ai]) = (countN aj l + (if N.eqb aj ai then 1 else 0))%nat.
Proof. intros. rewrite countN_app, countN_cons. unfold countN. simpl. lia. Qed.

Lemma InvH_check_one : forall r s e, InvH s -> InvH (check_one r s e).
Proof.
  intros r s e HH aj. specialize (HH aj).
  destruct (check_one_cases r s e) as [Heq | Heff]; [rewrite Heq; exact HH |].
  destruct Heff as [ai [a [a' [first [need [Hl [Hg [Hsp [_ [_ [Ho [_ [_ [_ [_ [_ [Hpl [_ [Hn0 Hn1]]]]]]]]]]]]]]]]]]].
  rewrite Hpl. destruct need.
  - destruct (Hn1 eq_refl) as [Hrq [[_ [Hq _]] | [_ [Hq _]]]]; rewrite Hrq, Hq, req_count_cons;
      try rewrite countN_snoc; destruct (N.eqb aj ai); lia.
  - destruct (Hn0 eq_refl) as [Hq [_ Hrq]]. rewrite Hq, Hrq. exact HH.
Qed.

Lemma InvH_step : forall s l s', InvH s -> step s l = Some s' -> InvH s'.
Proof.
  intros s l s' HH Hs.
  destruct l; try (intros aj; specialize (HH aj);
    destruct (step_queues _ _ _ Hs ltac:(intros; discriminate)) as [Hrq [[Hq [Hpl _]] | [ai0 [rest [_ [Hq0 [Hq Hpl]]]]]]];
    rewrite Hrq, Hq, Hpl; [exact HH | rewrite Hq0 in HH; rewrite countN_cons in *; lia]).
  simpl in Hs. inversion Hs; subst; clear Hs.
  assert (Hgen : forall l0 s0, InvH s0 -> InvH (fold_left (check_one reach) l0 s0)).
  { induction l0 as [| x l0 IH]; simpl; intros s0 G; [exact G |]. apply IH. apply InvH_check_one; assumption. }
  apply Hgen; assumption.
Qed.

Theorem probe_single : forall s ai, reachable s ->
  (countN ai (probelog s) + countN ai (probeq s) <= req_count ai (reqlog s))%nat.
Proof.
  intros s ai [ls Hr]. revert ai. change (InvH s). eapply (run_inv InvH InvH_step); [| exact Hr].
  intros ai. unfold countN, req_count. simpl. lia.
Qed.

(* ================= clause 4: a successful probe reinstates; without one the adapter stays blocked ================= *)
Lemma fold_check_reinst : forall r l s, reinst (fold_left (check_one r) l s) = reinst s.
Proof.
  intros r l. induction l as [| x l IH]; simpl; intros s; [reflexivity |]. rewrite IH.
  destruct (check_one_cases r s x) as [-> | Heff]; [reflexivity |].
  destruct Heff as (ai & a & a' & first & need & _ & _ & _ & _ & _ & _ & _ & _ & _ & _ & Hr & _). exact Hr.
Qed.

Lemma step_reinst_cases : forall s l s', step s l = Some s' ->
  reinst s' = reinst s \/
  (exists ai, l = Out ai true true /\ reinst s' = ai :: reinst s) \/
  (exists ai, l = Reinstate ai /\ memN ai (reinst s) = true /\ reinst s' = remove_first ai (reinst s)).
Proof.
  intros s l s' Hs. destruct l; simpl in Hs.
  - inversion Hs; subst. left; reflexivity.
  - destruct (get ai s) as [a0 |]; [| discriminate].
    destruct (probe && negb (memN ai (pcalls s))); [discriminate |].
    inversion Hs; subst; clear Hs. destruct probe, ok; simpl; try (left; reflexivity).
    right. left. exists ai. auto.
  - inversion Hs; subst. left. apply fold_check_reinst.
  - destruct (reg s); [discriminate |]. destruct (probeq s); [discriminate |].
    destruct (get ai s); [| discriminate]. destruct (N.eqb n0 ai); [| discriminate].
    inversion Hs; subst. left; reflexivity.
  - destruct (reg s); [discriminate |]. destruct (probeq s); [| discriminate].
    destruct (match sel s with [] => _ | _ :: _ => _ end); [| discriminate].
    destruct (lookup e (att s)).
    + destruct (N.eqb n0 ai); inversion Hs; subst. left; reflexivity.
    + destruct (N.eqb ai (N.of_nat (length (objs s)))); inversion Hs; subst; clear Hs. left; reflexivity.
  - destruct (reg s); inversion Hs; subst; left; reflexivity.
  - destruct (get ai s) as [a0 |]; [| discriminate]. destruct (memN ai (reinst s)) eqn:Hm; [| discriminate].
    inversion Hs; subst; clear Hs. right. right. exists ai. auto.
  - destruct (step_refresh _ _ _ _ Hs) as [-> | (_ & att' & rot & _ & _ & _ & _ & _ & _ & _ & _ & _ & _ & _ & Hr & _)]; left; [reflexivity | exact Hr].
  - destruct (get ai s); inversion Hs; subst. left; reflexivity.
  - destruct (get ai s) as [a0 |]; [| discriminate].
    destruct (probe && negb (memN ai (pcalls s))); [discriminate |].
    inversion Hs; subst; clear Hs. destruct probe; left; reflexivity.
Qed.

Lemma memN_remove_first_sub : forall x y l, memN x (remove_first y l) = true -> memN x l = true.
Proof.
  intros x y l. induction l as [| z l IH]; simpl; [auto |]. destruct (N.eqb y z); unfold memN in *; simpl.
  - intros H. rewrite H. apply orb_true_r.
  - intros H. apply orb_true_iff in H. apply orb_true_iff. destruct H; auto.
Qed.
Lemma memN_remove_first_other : forall x y l, x <> y -> memN x l = true -> memN x (remove_first y l) = true.
Proof.
  intros x y l Hne. induction l as [| z l IH]; simpl; [auto |]. unfold memN in *; simpl. intros H.
  apply orb_true_iff in H. destruct (N.eqb y z) eqn:Hyz.
  - destruct H as [H | H]; [| exact H]. apply N.eqb_eq in H. apply N.eqb_eq in Hyz. congruence.
  - simpl. apply orb_true_iff. destruct H; auto.
Qed.

Theorem stays_blocked : forall ls s s' ai a, run s ls = Some s' ->
  get ai s = Some a -> ast a = false -> memN ai (reinst s) = false -> ~ In (Out ai true true) ls ->
  exists a', get ai s' = Some a' /\ ast a' = false /\ memN ai (reinst s') = false.
Proof.
  induction ls as [| l ls IH]; simpl; intros s s' ai a Hr Hg Hst Hm Hno.
  - inversion Hr; subst. eauto.
  - destruct (step s l) as [s1 |] eqn:Hs; [| discriminate].
    destruct (step_adapter _ _ _ _ _ Hs Hg) as [a1 [Hg1 Hc]].
    assert (Hst1 : ast a1 = false).
    { destruct Hc as [-> _ _ _ | p _ -> | p _ -> | _ Hmem _ | p _ -> | r _ Hc]; simpl; auto; [congruence |].
      destruct Hc as [_ [_ [_ [_ [_ [_ [_ [Hk _]]]]]]]]. auto. }
    assert (Hm1 : memN ai (reinst s1) = false).
    { destruct (step_reinst_cases _ _ _ Hs) as [-> | [[aj [Hl ->]] | [aj [_ [_ ->]]]]]; [exact Hm | |].
      - unfold memN in *. simpl. rewrite Hm. destruct (N.eqb ai aj) eqn:He; [| reflexivity].
        apply N.eqb_eq in He. subst aj. exfalso. apply Hno. left. exact Hl.
      - destruct (memN ai (remove_first aj (reinst s))) eqn:Hx; [| reflexivity].
        apply memN_remove_first_sub in Hx. congruence. }
    eapply IH; eauto.
Qed.

Theorem probe_success_reinstates : forall s ai s1 ls s2, step s (Out ai true true) = Some s1 ->
  run s1 ls = Some s2 -> ~ In (Reinstate ai) ls ->
  exists s3 a, step s2 (Reinstate ai) = Some s3 /\ get ai s3 = Some a /\ ast a = true /\
               fc a = 0 /\ lfc a = 0 /\ sc a = 0 /\ gfail a = 0 /\ In (aep a) (sel s3) /\ In (aep a) (active s3).
Proof.
  intros s ai s1 ls s2 Hs Hr Hno.
  assert (H1 : memN ai (reinst s1) = true /\ exists a1, get ai s1 = Some a1).
  { simpl in Hs. destruct (get ai s) as [a0 |] eqn:Hg; [| discriminate].
    destruct (memN ai (pcalls s)); simpl in Hs; [| discriminate]. inversion Hs; subst; clear Hs. simpl. split.
    - unfold memN. simpl. rewrite N.eqb_refl. reflexivity.
    - eexists. unfold get in *. cbn [objs w_reinst w_pcalls put w_objs]. eapply nth_error_upd_same; exact Hg. }
  clear Hs. revert s1 Hr H1. induction ls as [| l ls IH]; simpl; intros s1 Hr [Hm [a1 Hg1]].
  - inversion Hr; subst s2. unfold step. rewrite Hg1, Hm. eexists. exists (reset (now s1) a1).
    split; [reflexivity |]. simpl.
    split; [change (get ai (put ai (reset (now s1) a1) s1) = Some (reset (now s1) a1)); eapply get_put_same; eauto |].
    repeat (split; [reflexivity |]). split; [apply In_add_set; right; reflexivity | apply in_or_app; right; left; reflexivity].
  - destruct (step s1 l) as [s1' |] eqn:Hs; [| discriminate]. apply (IH (fun H => Hno (or_intror H)) s1' Hr). split.
    + destruct (step_reinst_cases _ _ _ Hs) as [-> | [[aj [_ ->]] | [aj [Hl [_ ->]]]]]; [exact Hm | |].
      * unfold memN in *. simpl. rewrite Hm. apply orb_true_r.
      * apply memN_remove_first_other; [| exact Hm]. intros ->. apply Hno. left. exact Hl.
    + destruct (step_adapter _ _ _ _ _ Hs Hg1) as [a2 [Hg2 _]]. eauto.
Qed.

(* ================= clause 5: with a non-empty registry list a call always gets an adapter ================= *)
Theorem never_none : forall s, reachable s -> reg s <> [] ->
  step s SelNone = None /\
  (forall q rest, probeq s = q :: rest -> exists s', step s (SelProbe q) = Some s') /\
  (probeq s = [] -> exists e ai s', step s (SelPick e ai) = Some s' /\
     (sel s = [] -> In e (reg s)) /\ (sel s <> [] -> In e (sel s))).
Proof.
  intros s Hr Hne. destruct (InvABC_reachable s Hr) as [_ [[_ B2] _]].
  destruct (reg s) as [| x xs] eqn:Hreg; [congruence |]. split; [simpl; rewrite Hreg; reflexivity |]. split.
  - intros q rest Hq. destruct (B2 q) as [a Ha]; [rewrite Hq; left; reflexivity |].
    simpl. rewrite Hreg, Hq, Ha, N.eqb_refl. eauto.
  - intros Hq.
    assert (Hpick : exists e, (match sel s with [] => memN e (reg s) | _ :: _ => memN e (sel s) end) = true /\
                              (sel s = [] -> In e (reg s)) /\ (sel s <> [] -> In e (sel s))).
    { destruct (sel s) as [| y ys].
      - exists x. rewrite Hreg. split; [unfold memN; simpl; rewrite N.eqb_refl; reflexivity |]. split; [intros; left; reflexivity | congruence].
      - exists y. split; [unfold memN; simpl; rewrite N.eqb_refl; reflexivity |]. split; [discriminate | intros; left; reflexivity]. }
    destruct Hpick as [e [Hm [H1 H2]]]. rewrite Hreg in Hm.
    destruct (lookup e (att s)) as [aj |] eqn:Hl.
    + exists e, aj. eexists. split; [| split; [rewrite Hreg in H1; exact H1 | exact H2]].
      simpl. rewrite Hreg, Hq, Hm, Hl, N.eqb_refl. reflexivity.
    + exists e, (N.of_nat (length (objs s))). eexists. split; [| split; [rewrite Hreg in H1; exact H1 | exact H2]].
      simpl. rewrite Hreg, Hq, Hm, Hl, N.eqb_refl. reflexivity.
Qed.

(* ================= the health record in the property's vocabulary ================= *)
Definition hist_inv (ai : N) (s : state) (g k c t : Z) : Prop :=
  now s = c /\ match get ai s with Some a => gfail a = g /\ lfc a = k /\ tS a = t | None => g = 0 /\ k = 0 /\ t = 0 end.

Lemma step_now : forall s l s', step s l = Some s' -> now s' = upd_clock (now s) l.
Proof.
  intros s l s' Hs. destruct l; simpl in Hs; simpl.
  - inversion Hs; subst. reflexivity.
  - destruct (get ai s) as [a0 |]; [| discriminate].
    destruct (probe && negb (memN ai (pcalls s))); [discriminate |].
    inversion Hs; subst; clear Hs. destruct probe, ok; reflexivity.
  - inversion Hs; subst. apply fold_check_now.
  - destruct (reg s); [discriminate |]. destruct (probeq s); [discriminate |].
    destruct (get ai s); [| discriminate]. destruct (N.eqb n0 ai); [| discriminate].
    inversion Hs; subst. reflexivity.
  - destruct (reg s); [discriminate |]. destruct (probeq s); [| discriminate].
    destruct (match sel s with [] => _ | _ :: _ => _ end); [| discriminate].
    destruct (lookup e (att s)).
    + destruct (N.eqb n0 ai); inversion Hs; subst. reflexivity.
    + destruct (N.eqb ai (N.of_nat (length (objs s)))); inversion Hs; subst; clear Hs. reflexivity.
  - destruct (reg s); inversion Hs; subst; reflexivity.
  - destruct (get ai s) as [a0 |]; [| discriminate]. destruct (memN ai (reinst s)); [| discriminate].
    inversion Hs; subst; clear Hs. reflexivity.
  - destruct (step_refresh _ _ _ _ Hs) as [-> | (_ & att' & rot & _ & _ & Hn & _)]; [reflexivity | exact Hn].
  - destruct (get ai s); inversion Hs; subst. reflexivity.
  - destruct (get ai s) as [a0 |]; [| discriminate].
    destruct (probe && negb (memN ai (pcalls s))); [discriminate |].
    inversion Hs; subst; clear Hs. destruct probe; reflexivity.
Qed.

Lemma fst_upd_lastok : forall ai c t l, fst (upd_lastok ai (c, t) l) = upd_clock c l.
Proof. intros ai c t l. destruct l; simpl; try reflexivity; [destruct ok; [destruct (N.eqb ai0 ai) |] | destruct (N.eqb ai0 ai)]; reflexivity. Qed.

Lemma hist_step : forall ai s l s' g k c t, hist_inv ai s g k c t -> step s l = Some s' ->
  hist_inv ai s' (upd_fails ai g l) (upd_streak ai k l) (upd_clock c l) (snd (upd_lastok ai (c, t) l)).
Proof.
  intros ai s l s' g k c t [Hn H] Hs. split; [rewrite (step_now _ _ _ Hs), Hn; reflexivity |].
  destruct (get ai s) as [a |] eqn:Hg.
  - destruct H as [H1 [H2 H3]]. destruct (step_adapter _ _ _ _ _ Hs Hg) as [a' [Hg' Hc]]. rewrite Hg'.
    destruct Hc as [-> Hno1 Hno2 Hno3 | p -> -> | p -> -> | -> _ -> | p -> -> | r -> Hc].
    + destruct l; simpl; auto.
      * destruct (N.eqb ai0 ai) eqn:He; [apply N.eqb_eq in He; subst ai0; exfalso; eapply Hno1; reflexivity |].
        destruct ok; auto.
      * destruct (N.eqb ai0 ai) eqn:He; [apply N.eqb_eq in He; subst ai0; exfalso; apply Hno2; reflexivity | auto].
      * destruct (N.eqb ai0 ai) eqn:He; [apply N.eqb_eq in He; subst ai0; exfalso; eapply Hno3; reflexivity | auto].
    + simpl. rewrite N.eqb_refl. simpl. auto.
    + simpl. rewrite N.eqb_refl. simpl. repeat split; congruence.
    + simpl. rewrite N.eqb_refl. simpl. auto.
    + simpl. rewrite N.eqb_refl. simpl. auto.
    + simpl. destruct Hc as [_ [_ [G3 [_ [G5 [_ [G7 _]]]]]]]. repeat split; congruence.
  - destruct H as [-> [-> ->]].
    assert (Hnop : upd_fails ai 0 l = 0 /\ upd_streak ai 0 l = 0 /\ snd (upd_lastok ai (c, 0) l) = 0).
    { destruct l; simpl; auto.
      - destruct (N.eqb ai0 ai) eqn:He; [| destruct ok; auto].
        apply N.eqb_eq in He. subst ai0. simpl in Hs. rewrite Hg in Hs. discriminate.
      - destruct (N.eqb ai0 ai) eqn:He; [| auto].
        apply N.eqb_eq in He. subst ai0. simpl in Hs. rewrite Hg in Hs. discriminate.
      - destruct (N.eqb ai0 ai) eqn:He; [| auto].
        apply N.eqb_eq in He. subst ai0. simpl in Hs. rewrite Hg in Hs. discriminate. }
    destruct Hnop as [-> [-> ->]].
    destruct (get ai s') as [a' |] eqn:Hg'; [| auto].
    destruct (step_created _ _ _ _ _ Hs Hg Hg') as [e [_ [-> _]]]. simpl. auto.
Qed.

Lemma hist_run : forall ai ls s s' g k c t, hist_inv ai s g k c t -> run s ls = Some s' ->
  hist_inv ai s' (fold_left (upd_fails ai) ls g) (fold_left (upd_streak ai) ls k) (fold_left upd_clock ls c)
           (snd (fold_left (upd_lastok ai) ls (c, t))).
Proof.
  intros ai ls. induction ls as [| l ls IH]; simpl; intros s s' g k c t H Hr.
  - inversion Hr; subst. exact H.
  - destruct (step s l) as [s1 |] eqn:Hs; [| discriminate].
    pose proof (hist_step _ _ _ _ _ _ _ _ H Hs) as H1.
    specialize (IH _ _ _ _ _ _ H1 Hr).
    replace (upd_lastok ai (c, t) l) with (upd_clock c l, snd (upd_lastok ai (c, t) l)); [exact IH |].
    rewrite <- (fst_upd_lastok ai c t l). symmetry. apply surjective_pairing.
Qed.

Theorem history_record : forall ls s ai a, run init ls = Some s -> get ai s = Some a ->
  gfail a = fails_since ai ls /\ lfc a = streak ai ls /\ tS a = last_ok ai ls /\ now s = clock ls.
Proof.
  intros ls s ai a Hr Hg.
  assert (H0 : hist_inv ai init 0 0 T0 0).
  { split; [reflexivity |]. unfold get, init; simpl. destruct (N.to_nat ai); simpl; auto. }
  destruct (hist_run ai ls init s 0 0 T0 0 H0 Hr) as [Hn H]. rewrite Hg in H. destruct H as [H1 [H2 H3]].
  unfold fails_since, streak, last_ok, clock. auto.
Qed.

(* ================= the clauses in the history vocabulary ================= *)
Lemma reachable_run : forall ls s, run init ls = Some s -> reachable s.
Proof. intros ls s H. exists ls. exact H. Qed.

Theorem no_fail_in_rotation_hist : forall ls s e, run init ls = Some s -> In e (reg s) ->
  (lookup e (att s) = None \/ exists ai, lookup e (att s) = Some ai /\ fails_since ai ls < 2) -> In e (sel s).
Proof.
  intros ls s e Hr Hin H. apply no_fail_in_rotation; [eapply reachable_run; eauto | exact Hin |].
  destruct H as [H | [ai [Hl Hf]]]; [left; exact H | right].
  destruct (InvABC_reachable s (reachable_run _ _ Hr)) as [_ [[B1 _] _]]. destruct (B1 e ai Hl) as [a [Hg _]].
  exists ai, a. split; [exact Hl |]. split; [exact Hg |].
  destruct (history_record ls s ai a Hr Hg) as [-> _]. exact Hf.
Qed.

Theorem out_of_rotation_two_failures_hist : forall ls s e, run init ls = Some s -> In e (reg s) -> ~ In e (sel s) ->
  exists ai a, lookup e (att s) = Some ai /\ get ai s = Some a /\ ast a = false /\ 2 <= fails_since ai ls.
Proof.
  intros ls s e Hr Hin Hout.
  destruct (out_of_rotation_two_failures s e (reachable_run _ _ Hr) Hin Hout) as [ai [a [Hl [Hg [Hst H2]]]]].
  exists ai, a. destruct (history_record ls s ai a Hr Hg) as [<- _]. auto.
Qed.

Theorem blocked_after_streak_hist : forall ls s e ai r s', run init ls = Some s -> shrunk s = false ->
  In e (reg s) -> lookup e (att s) = Some ai ->
  5 <= streak ai ls -> 5 <= clock ls - last_ok ai ls ->
  step s (Check r) = Some s' ->
  exists a', get ai s' = Some a' /\ ast a' = false /\ ~ In e (sel s') /\
             (sel s' <> [] -> forall aj, step s' (SelPick e aj) = None).
Proof.
  intros ls s e ai r s' Hr Hsh Hin Hl H1 H2 Hs.
  destruct (InvABC_reachable s (reachable_run _ _ Hr)) as [_ [[B1 _] _]]. destruct (B1 e ai Hl) as [a [Hg _]].
  destruct (history_record ls s ai a Hr Hg) as [_ [Hk [Ht Hn]]].
  eapply (blocked_after_streak s e ai a r s'); eauto; [eapply reachable_run; eauto | |].
  - rewrite Hk, k_fainN. exact H1.
  - rewrite Ht, Hn, k_failInterval. exact H2.
Qed.

(* the ghost "shrunk" changes only when a refresh drops an endpoint that has an adapter *)
Theorem shrunk_only_by_dropping_refresh : forall s l s', step s l = Some s' -> shrunk s = false -> shrunk s' = true ->
  exists r i e ai, l = Refresh r i /\ lookup e (att s) = Some ai /\ ~ In e r /\ ~ In e i.
Proof.
  intros s l s' Hs H0 H1.
  destruct l; simpl in Hs.
  - inversion Hs; subst. simpl in H1. congruence.
  - destruct (get ai s) as [a0 |]; [| discriminate].
    destruct (probe && negb (memN ai (pcalls s))); [discriminate |].
    inversion Hs; subst; clear Hs. destruct probe, ok; simpl in H1; congruence.
  - inversion Hs; subst. rewrite fold_check_shrunk in H1. congruence.
  - destruct (reg s); [discriminate |]. destruct (probeq s); [discriminate |].
    destruct (get ai s); [| discriminate]. destruct (N.eqb n0 ai); [| discriminate].
    inversion Hs; subst. simpl in H1. congruence.
  - destruct (reg s); [discriminate |]. destruct (probeq s); [| discriminate].
    destruct (match sel s with [] => _ | _ :: _ => _ end); [| discriminate].
    destruct (lookup e (att s)).
    + destruct (N.eqb n0 ai); inversion Hs; subst. congruence.
    + destruct (N.eqb ai (N.of_nat (length (objs s)))); inversion Hs; subst; clear Hs. simpl in H1. congruence.
  - destruct (reg s); inversion Hs; subst; congruence.
  - destruct (get ai s) as [a0 |]; [| discriminate]. destruct (memN ai (reinst s)); [| discriminate].
    inversion Hs; subst; clear Hs. simpl in H1. congruence.
  - destruct (step_refresh _ _ _ _ Hs) as [-> | (_ & att' & rot & _ & _ & _ & _ & _ & _ & _ & _ & _ & _ & _ & _ & _ & _ & Hsh)]; [congruence |].
    rewrite Hsh, H0 in H1. simpl in H1. apply existsb_exists in H1. destruct H1 as [[e ai] [Hin Hneg]]. simpl in Hneg.
    apply negb_true_iff in Hneg. apply memN_false in Hneg.
    clear Hs Hsh. exists l, inact, e.
    assert (Hex : exists ai', lookup e (att s) = Some ai').
    { induction (att s) as [| [k v] m IH]; [destruct Hin |]. simpl. destruct (N.eqb e k) eqn:Hek; [eauto |].
      destruct Hin as [Heq | Hin]; [inversion Heq; subst; rewrite N.eqb_refl in Hek; discriminate | auto]. }
    destruct Hex as [ai' Hl]. exists ai'. rewrite in_app_iff in Hneg. tauto.
  - destruct (get ai s); inversion Hs; subst. congruence.
  - destruct (get ai s) as [a0 |]; [| discriminate].
    destruct (probe && negb (memN ai (pcalls s))); [discriminate |].
    inversion Hs; subst; clear Hs. destruct probe; simpl in H1; congruence.
Qed.
